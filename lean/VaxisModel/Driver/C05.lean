import VaxisModel.Driver.Common
import VaxisModel.Model.Emu
import VaxisModel.Model.EmuIO
import VaxisModel.Model.EmuDcs
import VaxisModel.Model.EmuReply
import VaxisModel.Gen.TermBodies

/-! Driver for C05 (stateful). Input lines `op<TAB>impl` where impl = `panic` | `hang` |
`ev=N <snapshot>` (see Model/EmuIO.lean). Output `model-canon<TAB>impl-canon<TAB>verdict`:
the canons are `=` when model and implementation agree on every snapshot token, otherwise the
differing tokens; the verdict is the state clause of C05 (`EmuIO.invViolation`) evaluated on the
implementation's snapshot, `FAIL panic` / `FAIL hang` when the implementation panicked / hung,
`FAIL resize changed the pen` when the pen after a `resize` differs from the pen before it (F112c). -/
namespace VaxisModel.Driver.C05
open VaxisModel.Driver VaxisModel.Model.Emu VaxisModel.Model.EmuIO

structure St where
  model : Option Emu := none

def diffTokens (m i : String) : String × String :=
  if m = i then ("=", "=") else
  let mt := fields m
  let it := fields i
  if mt.length ≠ it.length then (m, i) else
  let d := (mt.zip it).filter (fun p => p.1 ≠ p.2)
  (" ".intercalate (d.map (·.1)), " ".intercalate (d.map (·.2)))

def splitEv (impl : String) : Option (Nat × String) :=
  match impl.splitOn " " with
  | ev :: rest => do
    let n ← (← kv? "ev" ev).toNat?
    some (n, " ".intercalate rest)
  | [] => none

/-- `dcs <final hex> <#intermediates> <#parameters> <data hex>`: the real DCS branch. The data is
    UTF-8; the scanner works on code points, and every byte ≥ 0x80 belongs to a code point ≥ 0x80,
    which falls in the scanner's "other" class exactly like the byte does — so scanning bytes is
    scanning runes. -/
def parseDcs? (op : String) : Option DcsInfo :=
  match fields op with
  | ["dcs", f, ni, np, d] => do
    let fb ← hexBytes? f
    let data ← hexBytes? d
    match fb with
    | [b] => some { final := b, nInter := ← ni.toNat?, nParams := ← np.toNat?, data := data }
    | _ => none
  | _ => none

/-- impl of a dcs op: `ev=N <snapshot> tl=B gfx=K` → (rest, tl, gfx) -/
def splitDcsImpl (impl : String) : Option (String × String × Nat) :=
  match (impl.splitOn " ").reverse with
  | g :: t :: rest => do
    let gv ← (← kv? "gfx" g).toNat?
    let tv ← kv? "tl" t
    some (" ".intercalate rest.reverse, tv, gv)
  | _ => none

def stepDcs (st : St) (d : DcsInfo) (impl : String) : St × String :=
  match st.model with
  | none => (st, "no-state\tno-state\tbad-op")
  | some e =>
    let tlM := if sixelTooLarge d.data then "1" else "0"
    if impl = "panic" ∨ impl = "hang" then
      -- the decoder crashed: with the guard in place that is only legitimate for the model if the
      -- payload passed the guard (hypothesis `DecoderTame` violated) — reported either way
      let mstr := match dcs e { d with dec := .crash } with
        | .error _ => impl
        | .ok _ => "ok"
      ({}, s!"{mstr}\t{impl}\tFAIL {impl}")
    else
      match splitDcsImpl impl with
      | none => (st, "-\tunparsed\tFAIL unparsed implementation result")
      | some (rest, tlI, gfx) =>
        match splitEv rest with
        | none => (st, "-\tunparsed\tFAIL unparsed implementation result")
        | some (n, snap) =>
          match parseSnap? snap with
          | none => (st, "-\tunparsed\tFAIL unparsed implementation snapshot")
          | some s =>
            let dec : DecOutcome := if gfx = 0 then .error else .image
            let mstr := match dcs e { d with dec := dec } with
              | .error .oob => "panic"
              | .error .hang => "hang"
              | .ok e' =>
                -- an image can only appear when the payload passed all guards
                let gfxM := if d.final = 113 ∧ d.nInter = 0 ∧ d.nParams = 0 ∧ !sixelTooLarge d.data then gfx else 0
                s!"ev=0 {renderSnap e' false} tl={tlM} gfx={gfxM}"
            let istr := s!"ev={n} {renderSnap s.e false} tl={tlI} gfx={gfx}"
            let (a, b) := diffTokens mstr istr
            let verdict := match invViolation s with
              | none => "ok"
              | some why => "FAIL inv: " ++ why
            ({ model := some { s.e with hasVx := false } }, s!"{a}\t{b}\t{verdict}")

/-- Round 5: the bytes the TRANSLATED body of a reply arm writes to the child (`Model.EmuReply.replyOf` on the regenerated
    `Gen.TermBodies`), with the parameters clamped as csi() does in front of its switch; any other sequence writes nothing. -/
def modelReply (e : Emu) : EOp → Option (List Nat)
  | .csi [99] pm => VaxisModel.Model.EmuReply.replyOf VaxisModel.Gen.TermBodies.body_csi_arm_63 (clampParams pm) [] e
  | .csi [62, 99] pm => VaxisModel.Model.EmuReply.replyOf VaxisModel.Gen.TermBodies.body_csi_arm_3e63 (clampParams pm) [] e
  | .csi [110] pm => VaxisModel.Model.EmuReply.replyOf VaxisModel.Gen.TermBodies.body_csi_arm_6e (clampParams pm) [] e
  | .csi [63, 36, 112] pm => VaxisModel.Model.EmuReply.replyOf VaxisModel.Gen.TermBodies.body_decrqm [] [ps (clampParams pm)] e
  | _ => some []

/-- `rp <op>`: impl = `rp=<hex of what the emulator wrote to its pty>`; the model side is `modelReply`; the state moves on by
    the model's step (a reply arm leaves it alone: Props/C05Replies `reply_arms_state_untouched`). -/
def stepRp (st : St) (op impl : String) : St × String :=
  match parseOp? op, st.model with
  | some (.op o), some e =>
    let m := match modelReply e o with
      | some b => "rp=" ++ hexOfBytes b
      | none => "rp=not-carried"
    let st' : St := match emuStep e o with
      | .ok (e', _) => { model := some e' }
      | .error _ => {}
    (st', s!"{m}\t{impl}\t-")
  | _, _ => (st, "bad-op\tbad-op\tbad-op")

def step (st : St) (line : String) : St × String :=
  let (op, impl) := splitTab line
  if op.startsWith "#case" then ({}, "-\t-\t-") else
  if op.startsWith "rp " then stepRp st (String.ofList (op.toList.drop 3)) impl else
  match parseDcs? op with
  | some d => stepDcs st d impl
  | none =>
  match parseOp? op with
  | none => (st, "bad-op\tbad-op\tbad-op")
  | some .adopt =>
    match splitEv impl with
    | some (_, snap) =>
      match parseSnap? snap with
      | some s => ({ model := some { s.e with hasVx := false } }, "=\t=\t-")
      | none => (st, "-\tunparsed\tFAIL unparsed implementation snapshot")
    | none => (st, "-\tunparsed\tFAIL unparsed implementation snapshot")
  | some cmd =>
    let res : Option (M (Emu × Nat)) :=
      match cmd, st.model with
      | .adopt, _ => none
      | .new w h, _ => some (do .ok (← Emu.new Fixes.current w h, 0))
      | .op o, some e => some (emuStep e o)
      | .op _, none => none
    match res with
    | none => (st, "no-state\tno-state\tbad-op")
    | some r =>
      let full := match cmd with | .new _ _ => true | _ => false
      let mstr := match r with
        | .error .oob => "panic"
        | .error .hang => "hang"
        | .ok (e, n) => s!"ev={n} {renderSnap e full}"
      if impl = "panic" ∨ impl = "hang" then
        let (a, b) := diffTokens mstr impl
        ({}, s!"{a}\t{b}\tFAIL {impl}")
      else
        match splitEv impl with
        | none => (st, s!"{mstr}\tunparsed\tFAIL unparsed implementation result")
        | some (n, snap) =>
          match parseSnap? snap with
          | none => (st, s!"{mstr}\tunparsed\tFAIL unparsed implementation snapshot")
          | some s =>
            let istr := s!"ev={n} {renderSnap s.e full}"
            let dimsOk := s.dimR = s.e.height ∧ s.dimC = s.e.width ∧ s.dimPR = s.e.primary.length ∧ s.dimAR = s.e.alt.length
            let istr := if dimsOk ∧ istr = impl then istr else "reparse:" ++ istr
            let (a, b) := diffTokens mstr istr
            -- F112c: a resize must leave the pen alone (judged on the implementation's own snapshots:
            -- the state before the op is the implementation's previous snapshot)
            let penChanged : Bool := match cmd, st.model with
              | .op (.resize _ _), some e => decide (s.e.cur.st ≠ e.cur.st)
              | _, _ => false
            let verdict := match invViolation s with
              | none => if penChanged then "FAIL resize changed the pen" else "ok"
              | some why => "FAIL inv: " ++ why
            -- continue from the implementation's state (identical to the model's when they agree)
            ({ model := some { s.e with hasVx := false } }, s!"{a}\t{b}\t{verdict}")

def main : IO Unit := foldLoop ({} : St) step

end VaxisModel.Driver.C05
