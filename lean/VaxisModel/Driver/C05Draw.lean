import VaxisModel.Driver.Common
import VaxisModel.Driver.C05
import VaxisModel.Model.Emu
import VaxisModel.Model.EmuIO
import VaxisModel.Model.EmuDraw

/-! Driver for the stream C05Draw (stateful): `(*term.Model).Draw` into a host window.

Lines other than `draw …` are the lines of the C05 stream and are handled by `Driver.C05.step`
(model vs implementation snapshot after every emulator operation, state clause as the verdict).

`draw SW SH X Y W H FOCUSED KIND [X2 Y2 W2 H2]` with impl `panic` or
`ok|<snapshot>|cells=C,R,ghex,w,STYLE;…|cur=col,row,visible` (see harness/cmd/C05Draw/main.go):
* the window chain is rebuilt from the numbers (`Win.new` = `Window.New` with its clamping, KIND r =
  a directly instantiated window), the model's `draw` is run for the innermost window's size, its
  calls are pushed through `setCellChain` (= `Window.SetCell` through the parents and
  `screen.setCell`), discarded calls dropped, the rest sorted by (row, col); the cursor goes
  through `showCursorChain`; no cursor shown = `0,0,0`.
* model-canon / impl-canon: `=`/`=` when the four `|` parts agree (the implementation's parts are
  parsed and re-rendered; `reparse:` marks a part that did not survive that), else the differing parts.
* verdict = the property on the IMPLEMENTATION's output: no panic; every host cell that differs
  from the marker lies on the screen and inside the rectangle of every window of the chain (in
  particular the one handed to Draw); a visible cursor lies inside the rectangle of the window
  handed to Draw; the snapshot after Draw satisfies the state clause (`invViolation`). -/
namespace VaxisModel.Driver.C05Draw
open VaxisModel.Driver VaxisModel.Model.Emu VaxisModel.Model.EmuIO VaxisModel.Model.EmuDraw

structure Geo where
  sw : Int
  sh : Int
  x : Int
  y : Int
  w : Int
  h : Int
  focused : Bool
  raw : Bool
  nested : Option (Int × Int × Int × Int)

def parseDraw? (op : String) : Option Geo :=
  match fields op with
  | "draw" :: sw :: sh :: x :: y :: w :: h :: f :: k :: rest => do
    let nested ← match rest with
      | [] => some none
      | [a, b, c, d] => do some (some (← a.toInt?, ← b.toInt?, ← c.toInt?, ← d.toInt?))
      | _ => none
    let raw ← if k = "r" then some true else if k = "n" then some false else none
    some { sw := ← sw.toInt?, sh := ← sh.toInt?, x := ← x.toInt?, y := ← y.toInt?, w := ← w.toInt?, h := ← h.toInt?,
           focused := ← parseBool? f, raw := raw, nested := nested }
  | _ => none

/-- the window handed to Draw first, the root last -/
def Geo.chain (g : Geo) : List Win :=
  let root := Win.root g.sw g.sh
  let w1 : Win := if g.raw then { col := g.x, row := g.y, w := g.w, h := g.h } else Win.new root g.x g.y g.w g.h
  match g.nested with
  | none => [w1, root]
  | some (x2, y2, w2, h2) => [Win.new w1 x2 y2 w2 h2, w1, root]

/-- a changed host cell: column, row, grapheme, width, style -/
abbrev HCell := Int × Int × List Nat × Nat × EStyle

def renderHCell (c : HCell) : String :=
  s!"{c.1},{c.2.1},{hexOfBytes c.2.2.1},{c.2.2.2.1},{renderStyle c.2.2.2.2}"

def sortCells (l : List HCell) : List HCell :=
  l.mergeSort (fun a b => a.2.1 < b.2.1 ∨ (a.2.1 = b.2.1 ∧ a.1 ≤ b.1))

def renderCells (l : List HCell) : String :=
  if l.isEmpty then "cells=-" else "cells=" ++ ";".intercalate ((sortCells l).map renderHCell)

def parseHCell? (s : String) : Option HCell :=
  match s.splitOn "," with
  | [c, r, g, w, st] => do some (← c.toInt?, ← r.toInt?, ← hexBytes? g, ← w.toNat?, ← parseStyle? st)
  | _ => none

def parseCells? (tok : String) : Option (List HCell) := do
  let v ← kv? "cells" tok
  if v = "-" then some [] else (v.splitOn ";").mapM parseHCell?

def parseCur? (tok : String) : Option (Int × Int × Bool) := do
  let v ← kv? "cur" tok
  match v.splitOn "," with
  | [c, r, b] => some (← c.toInt?, ← r.toInt?, ← parseBool? b)
  | _ => none

def renderCur (c : Int × Int × Bool) : String := s!"cur={c.1},{c.2.1},{b01 c.2.2}"

/-- What the model says the host shows after Draw. -/
def modelParts (g : Geo) (e : Emu) : List String :=
  match g.chain with
  | [] => ["bad-chain"]
  | win :: parents =>
    let chain := win :: parents
    match drawG true true Fixes.current e win.w win.h g.focused with
    | .error .oob => ["panic"]
    | .error .hang => ["hang"]
    | .ok (e', calls, cur) =>
      let cells : List HCell := calls.filterMap fun c =>
        (setCellChain g.sw g.sh chain c.col c.row).map fun p => (p.1, p.2, c.cell.g, c.cell.w, c.cell.st)
      let cur' : Int × Int × Bool := match cur with
        | none => (0, 0, false)
        | some (c, r) => let p := showCursorChain chain c r; (p.1, p.2, true)
      ["ok", renderSnap e', renderCells cells, renderCur cur']

/-- is the host cell inside the rectangle of the first window of `chain` (origin = sum of offsets)? -/
def inWindow (chain : List Win) (x y : Int) : Bool :=
  match chain with
  | [] => true
  | win :: _ =>
    let o := origin chain
    decide (o.1 ≤ x ∧ x < o.1 + win.w ∧ o.2 ≤ y ∧ y < o.2 + win.h)

def inAllWindows : List Win → Int → Int → Bool
  | [], _, _ => true
  | win :: ps, x, y => inWindow (win :: ps) x y && inAllWindows ps x y

def rectStr (chain : List Win) : String :=
  match chain with
  | [] => "-"
  | win :: _ => let o := origin chain; s!"[{o.1},{o.1 + win.w})x[{o.2},{o.2 + win.h})"

/-- The property oracle on the implementation's output. -/
def oracle (g : Geo) (snap : Snap) (cells : List HCell) (cur : Int × Int × Bool) : String :=
  let chain := g.chain
  match invViolation snap with
  | some why => "FAIL inv after Draw: " ++ why
  | none =>
    match cells.find? (fun c => !(decide (0 ≤ c.1 ∧ c.1 < g.sw ∧ 0 ≤ c.2.1 ∧ c.2.1 < g.sh) && inAllWindows chain c.1 c.2.1)) with
    | some c => s!"FAIL cell {c.1},{c.2.1} written outside the window {rectStr chain}"
    | none =>
      if cur.2.2 && !(inWindow chain cur.1 cur.2.1) then
        s!"FAIL cursor {cur.1},{cur.2.1} shown outside the window {rectStr chain}"
      else "ok"

def diffParts (m i : List String) : String × String :=
  if m = i then ("=", "=") else
  if m.length ≠ i.length then ("|".intercalate m, "|".intercalate i) else
  let d := (m.zip i).filter (fun p => p.1 ≠ p.2)
  ("|".intercalate (d.map (·.1)), "|".intercalate (d.map (·.2)))

def drawStep (st : C05.St) (op impl : String) : C05.St × String :=
  match parseDraw? op, st.model with
  | none, _ => (st, "bad-op\tbad-op\tbad-op")
  | some _, none => (st, "no-state\tno-state\tbad-op")
  | some g, some e =>
    let mparts := modelParts g e
    if impl = "panic" ∨ impl = "hang" then
      let (a, b) := diffParts mparts [impl]
      ({}, s!"{a}\t{b}\tFAIL {impl}")
    else
      match impl.splitOn "|" with
      | [okTok, snapS, cellsS, curS] =>
        match parseSnap? snapS, parseCells? cellsS, parseCur? curS with
        | some s, some cells, some cur =>
          let snapR := renderSnap s.e
          let dimsOk := s.dimR = s.e.height ∧ s.dimC = s.e.width ∧ s.dimPR = s.e.primary.length ∧ s.dimAR = s.e.alt.length
          let re (rendered raw : String) (extra : Bool := true) : String :=
            if extra ∧ rendered = raw then rendered else "reparse:" ++ rendered
          let iparts := [okTok, re snapR snapS dimsOk, re (renderCells cells) cellsS, re (renderCur cur) curS]
          let (a, b) := diffParts mparts iparts
          ({}, s!"{a}\t{b}\t{oracle g s cells cur}")
        | _, _, _ => ({}, s!"{"|".intercalate mparts}\tunparsed\tFAIL unparsed implementation result")
      | _ => ({}, s!"{"|".intercalate mparts}\tunparsed\tFAIL unparsed implementation result")

def step (st : C05.St) (line : String) : C05.St × String :=
  let (op, impl) := splitTab line
  if op.startsWith "draw " then drawStep st op impl else C05.step st line

def main : IO Unit := foldLoop ({} : C05.St) step

end VaxisModel.Driver.C05Draw
