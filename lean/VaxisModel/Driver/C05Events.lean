import VaxisModel.Driver.Common
import VaxisModel.Model.EmuEvents
import VaxisModel.Gen.TermModes

/-! Driver for the stream `C05Events` (property C05, "events never stall").

Input line:  `loop <hex bytes the child writes> <W> <H>\t<impl>` where `<impl>` is what the REAL
PTY goroutine (`StartWithSize` on a real PTY, child `cat file`) did: `closed ev=<n>` (EventClosed
arrived; n = events other than Redraw/Closed handed to the handler) or `stall` (no EventClosed
within the timeout).

Output line: `<model-canon>\t<impl-canon>\t<verdict>`.

* The bytes are cut into parser items over a deliberately small alphabet (BEL, `ESC ] payload BEL`,
  `ESC ] payload ESC \`, CR, LF, printable ASCII) so that "does this item raise an event?" is exact:
  BEL outside an OSC raises EventBell; an OSC raises iff its payload is `0;…`, `2;…`, `9;…` or
  `777;notify;…;…` (osc.go); the BEL that terminates an OSC is not a bell.  Anything else: `bad-op`.
  (The PTY's ONLCR turns LF into CR LF; that only adds a non-raising item.)
* model-canon: the model `Model.EmuEvents` with `cap := Gen.TermModes.eventCap`,
  `drainFirst := Gen.TermModes.loopDrainsFirst` is run under two extreme schedulers, "parser arm
  first" and "own events first".  Both results are reachable states (`Props.C05Events.runWith_reachable`);
  with the drain every schedule that returns has delivered exactly k = #raising items
  (`events_all_delivered_current`), so both give `closed ev=k`.  If they differ (loop without the
  drain) the model is nondeterministic: model-canon is `a|b` and an implementation result equal to
  `a` or `b`, or `closed ev=j` with j between them, is canonicalised to the same string.
* verdict = the property oracle on the implementation's result, independent of the model:
  `stall` → `FAIL stall`; `closed ev=d` with d > k → `FAIL extra events`; d + cap < k → `FAIL lost events`
  (the loop returns at EOF without draining its channel, so up to `cap` events may legitimately be
  undelivered at close — `closed_delivers_all_but_cap`); otherwise `ok`. -/
namespace VaxisModel.Driver.C05Events
open VaxisModel.Driver VaxisModel.Model.EmuEvents

/-- Split at the first occurrence of byte `sep`. -/
def cutByte (sep : Nat) : List Nat → Option (List Nat × List Nat)
  | [] => none
  | b :: rest =>
      if b = sep then some ([], rest)
      else match cutByte sep rest with
        | some (a, c) => some (b :: a, c)
        | none => none

def bytesOf (s : String) : List Nat := s.toUTF8.toList.map (·.toNat)

/-- osc.go: does `vt.osc(payload)` call postEvent? -/
def oscRaises (payload : List Nat) : Bool :=
  match cutByte 0x3b payload with
  | none => false
  | some (sel, val) =>
      if sel = bytesOf "0" ∨ sel = bytesOf "2" ∨ sel = bytesOf "9" then true
      else if sel = bytesOf "777" then
        match cutByte 0x3b val with
        | some (sel2, val2) =>
            if sel2 = bytesOf "notify" then (cutByte 0x3b val2).isSome else false
        | none => false
      else false

/-- Collect an OSC payload up to BEL or `ESC \`; returns payload, rest, and whether the terminator
    was `ESC \` (which the parser then dispatches as one more, non-raising, item). -/
def oscPayload : List Nat → Option (List Nat × List Nat × Bool)
  | [] => none
  | 0x07 :: rest => some ([], rest, false)
  | 0x1b :: 0x5c :: rest => some ([], rest, true)
  | b :: rest =>
      if 0x20 ≤ b ∧ b ≤ 0x7e then
        match oscPayload rest with
        | some (p, r, st) => some (b :: p, r, st)
        | none => none
      else none

/-- Bytes → parser items (`true` = raises an event). Fuel = number of bytes. -/
def items : Nat → List Nat → Option (List Bool)
  | _, [] => some []
  | 0, _ => none
  | fuel + 1, 0x07 :: rest => (items fuel rest).map (true :: ·)
  | fuel + 1, 0x1b :: 0x5d :: rest =>
      match oscPayload rest with
      | some (p, r, st) =>
          (items fuel r).map (fun tl => if st then oscRaises p :: false :: tl else oscRaises p :: tl)
      | none => none
  | fuel + 1, b :: rest =>
      if b = 0x0d ∨ b = 0x0a ∨ (0x20 ≤ b ∧ b ≤ 0x7e) then (items fuel rest).map (false :: ·)
      else none

def outcome (s : Sys) : String :=
  match s.pc with
  | .done => s!"closed ev={s.delivered}"
  | .blocked => "stall"
  | _ => "model-out-of-fuel"

def closedCount? (s : String) : Option Nat :=
  if s.startsWith "closed ev=" then (s.drop 10).toString.toNat? else none

def bad : String := "bad-op\tbad-op\tbad-op"

def judgeWith (cap : Nat) (df : Bool) (bytes : List Nat) (impl : String) : String :=
  match items bytes.length bytes with
  | none => bad
  | some inp =>
    let k := raising inp
    let a := runWith cap df parserFirst inp
    let b := runWith cap df eventsFirst inp
    let sa := outcome a
    let sb := outcome b
    let model := if sa = sb then sa else s!"{sa}|{sb}"
    let implCanon :=
      if impl = "err" then model        -- no PTY available in this environment: the run did not happen
      else if sa = sb then impl
      else if impl = sa ∨ impl = sb then model
      else match closedCount? impl with
        | some d =>
            let lo := if a.pc = .blocked then k - cap else min a.delivered b.delivered
            if lo ≤ d ∧ d ≤ max a.delivered b.delivered then model else impl
        | none => impl
    let verdict :=
      if impl = "stall" then "FAIL stall"
      else match closedCount? impl with
        | some d =>
            if d > k then s!"FAIL extra events: {d} delivered, {k} raised"
            else if d + cap < k then s!"FAIL lost events: {d} delivered, {k} raised, capacity {cap}"
            else "ok"
        | none => "-"
    s!"{model}\t{implCanon}\t{verdict}"

/-- The model is instantiated with the capacity and loop shape extracted from the source. -/
def judge : List Nat → String → String :=
  judgeWith Gen.TermModes.eventCap Gen.TermModes.loopDrainsFirst

def step (line : String) : String :=
  let (op, impl) := splitTab line
  if op.startsWith "#" then "-\t-\t-" else
  match fields op with
  | ["loop", hex, w, h] =>
      match hexBytes? hex, w.toNat?, h.toNat? with
      | some bytes, some _, some _ => judge bytes impl
      | _, _, _ => bad
  | _ => bad

def main : IO Unit := lineLoop step

end VaxisModel.Driver.C05Events
