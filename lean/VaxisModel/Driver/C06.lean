import VaxisModel.Driver.Common
import VaxisModel.Model.EmuIO
import VaxisModel.Model.EmuAbs
import VaxisModel.Spec.Term

/-! Driver for C06 (stateful). Same input lines as C05. This driver is the ORACLE only and depends
neither on the transcribed function bodies of the emulator model nor on its dispatch tables (it
imports the state types, the snapshot parser and the abstraction), so it still builds — and still
finds the failing input — when a change of the source stops the model from compiling; `model-canon`
/ `impl-canon` are `=` (the model ≡ implementation correspondence on these very sequences is checked
by the C05 driver, whose harness replays a slice of them). The verdict is the C06 oracle: the reference
terminal `Spec.Term` is run on the same operations and its state must accept the IMPLEMENTATION's
snapshot after every operation of the vocabulary. The driver keeps the set of reference states
that are still compatible with what the implementation showed (accept-sets); after an
`unconstrained` step or an operation outside the vocabulary it continues from the implementation's
state. -/
namespace VaxisModel.Driver.C06
open VaxisModel.Driver VaxisModel.Model.Emu VaxisModel.Model.EmuIO VaxisModel.Model.EmuAbs VaxisModel.Spec

structure St where
  frontier : List Term.T := []

def showCell : Term.TCell → String
  | .blank bg => s!"blank({bg.toString})"
  | .glyph g w st l => s!"glyph({hexOfBytes g},w{w},{st.toString}{if l = [] then "" else ",link"})"
  | .cont => "cont"
  | .poison => "poison"

/-- First difference between what the reference says and what the implementation shows. -/
def explain (spec actual : Term.T) : String :=
  if spec.rows ≠ actual.rows ∨ spec.cols ≠ actual.cols then s!"size {spec.rows}x{spec.cols} vs {actual.rows}x{actual.cols}"
  else if spec.onAlt ≠ actual.onAlt then s!"alternate screen active: required {spec.onAlt}, shown {actual.onAlt}"
  else if spec.row ≠ actual.row ∨ spec.col ≠ actual.col ∨ spec.pw ≠ actual.pw then
    s!"cursor: required ({spec.row},{spec.col},pw={spec.pw}), shown ({actual.row},{actual.col},pw={actual.pw})"
  else if spec.pen ≠ actual.pen then s!"pen: required {spec.pen.toString}, shown {actual.pen.toString}"
  else if spec.link ≠ actual.link then s!"pen hyperlink: required {hexOfBytes spec.link}, shown {hexOfBytes actual.link}"
  else if spec.top ≠ actual.top ∨ spec.bottom ≠ actual.bottom then
    s!"margins: required {spec.top}..{spec.bottom}, shown {actual.top}..{actual.bottom}"
  else
    let cells := (spec.grid.zip actual.grid).zipIdx.flatMap fun (rows, r) =>
      (rows.1.zip rows.2).zipIdx.filterMap fun (cs, c) =>
        if cs.1.accepts cs.2 then none else some s!"cell ({r},{c}): required {showCell cs.1.norm}, shown {showCell cs.2.norm}"
    match cells with
    | d :: _ => d
    | [] => "grid shape"

def specVerdict (st : St) (cmd : Cmd) (actual : Emu) : List Term.T × String :=
  let act := abs actual
  match cmd with
  | .adopt => ([absShadow actual], "-")
  | .new w h =>
    let t0 := Term.T.init h.toNat w.toNat
    if t0.accepts act then ([t0], "ok") else ([absShadow actual], "FAIL spec: initial state: " ++ explain t0 act)
  | .op o =>
    match tokOfJ o with
    | none => ([absShadow actual], "-")          -- outside the vocabulary: continue from the implementation
    | some tok =>
      if st.frontier.isEmpty then ([absShadow actual], "-") else
      let results := st.frontier.map (fun t => Term.step t tok)
      if results.any (fun r => match r with | .unconstrained => true | _ => false) then ([absShadow actual], "-")
      else
        let cands := results.flatMap (fun r => match r with | .accept l => l | .unconstrained => [])
        let ok := cands.filter (fun t => t.accepts act)
        match ok, cands with
        | _ :: _, _ => (ok.eraseDups, "ok")
        | [], c :: _ =>
          -- explain against the acceptable state whose cursor agrees, if any
          let best := (cands.find? fun t => t.row = act.row ∧ t.col = act.col ∧ t.pw = act.pw).getD c
          ([absShadow actual], "FAIL spec: " ++ explain best act)
        | [], [] => ([absShadow actual], "-")

def splitEv (impl : String) : Option (Nat × String) :=
  match impl.splitOn " " with
  | ev :: rest => do
    let n ← (← kv? "ev" ev).toNat?
    some (n, " ".intercalate rest)
  | [] => none

def step (st : St) (line : String) : St × String :=
  let (op, impl) := splitTab line
  if op.startsWith "#case" then ({}, "-\t-\t-") else
  match parseOp? op with
  | none => ({}, "bad-op\tbad-op\tbad-op")
  | some cmd =>
    if impl = "panic" ∨ impl = "hang" then ({}, s!"=\t=\tFAIL {impl}")
    else
      match splitEv impl with
      | none => ({}, "=\tunparsed\tFAIL unparsed implementation result")
      | some (_, snap) =>
        match parseSnap? snap with
        | none => ({}, "=\tunparsed\tFAIL unparsed implementation snapshot")
        | some s =>
          let (fr, sv) := specVerdict st cmd s.e
          ({ frontier := fr }, s!"=\t=\t{sv}")

def main : IO Unit := foldLoop ({} : St) step

end VaxisModel.Driver.C06
