import VaxisModel.Driver.Common
import VaxisModel.Model.Color
import VaxisModel.Spec.Palette

/-! Driver for C07.  Lines:
  `asindex <color>\t<impl color>`  →  `<model canon>\t<impl canon>\t<verdict>`
where canon = `id:<color>` for non-RGB input and `score:<exact score of the chosen entry>` for
RGB input (ties between equally near entries may legitimately be resolved differently by the
float code, so indices are not compared), and verdict = `ok` or `FAIL <why>` is the property
oracle evaluated on the *implementation's* answer against the formula palette. -/
namespace VaxisModel.Driver.C07
open VaxisModel.Driver VaxisModel.Model.Color

def minScore (c : Nat) : Nat :=
  match argmin (score c) Spec.Palette.xtermPalette with
  | some (_, s) => s
  | none => 0

def canon (c res : Nat) : String :=
  if !isRGB c then s!"id:{res}"
  else if isIndexed res ∧ !isRGB res ∧ res / indexedBit = 1 then
    let i := res % 256
    if i < 16 then s!"low:{i}"
    else match Spec.Palette.xtermPalette[i - 16]? with
      | some v => s!"score:{score c v}"
      | none => s!"bad:{res}"
  else s!"bad:{res}"

def verdict (c impl : Nat) : String :=
  if !isRGB c then (if impl = c then "ok" else s!"FAIL non-rgb colour changed to {impl}")
  else if isIndexed impl ∧ !isRGB impl ∧ impl / indexedBit = 1 then
    let i := impl % 256
    if i < 16 then s!"FAIL index {i} below 16"
    else match Spec.Palette.xtermPalette[i - 16]? with
      | some v =>
          let s := score c v
          let m := minScore c
          if s = m then "ok" else s!"FAIL index {i} has distance {s} but the minimum is {m}"
      | none => s!"FAIL index {i} out of range"
  else s!"FAIL result {impl} is not an indexed colour"

/-- `asrange <r> <g>`: all 256 direct colours RGB(r,g,0..255); impl = 256 palette indices, two hex
    digits each. One output line for the whole range: the canon forms are `n=256` when every colour's
    chosen-entry score agrees (else the first disagreement), the verdict is the first oracle failure. -/
def rangeStep (r g : Nat) (impl : String) : String :=
  match hexBytes? impl with
  | none => "bad-op\tbad-op\tbad-op"
  | some idx =>
    if idx.length ≠ 256 then "bad-op\tbad-op\tbad-op" else
    let rec go (b : Nat) (is : List Nat) (mc ic v : Option String) : Option String × Option String × Option String :=
      match is with
      | [] => (mc, ic, v)
      | i :: rest =>
        let c := rgbColor r g b
        let res := indexColor i
        let m := canon c (asIndex c)
        let k := canon c res
        let vd := verdict c res
        let (mc', ic') := if mc.isNone ∧ m ≠ k then (some s!"b={b}:{m}", some s!"b={b}:{k}") else (mc, ic)
        let v' := if v.isNone ∧ vd ≠ "ok" then some (s!"FAIL RGB({r},{g},{b}): " ++ (vd.drop 5).toString) else v
        go (b + 1) rest mc' ic' v'
    let (mc, ic, v) := go 0 idx none none none
    s!"{mc.getD "n=256"}\t{ic.getD "n=256"}\t{v.getD "ok"}"

def step (line : String) : String :=
  let (op, impl) := splitTab line
  match fields op, impl.toNat? with
  | ["asrange", r, g], _ =>
      match r.toNat?, g.toNat? with
      | some r, some g => rangeStep r g impl
      | _, _ => "bad-op\tbad-op\tbad-op"
  | ["asindex", c], some r =>
      match c.toNat? with
      | some c => s!"{canon c (asIndex c)}\t{canon c r}\t{verdict c r}"
      | none => "bad-op\tbad-op\tbad-op"
  | _, _ => "bad-op\tbad-op\tbad-op"

def main : IO Unit := lineLoop step

end VaxisModel.Driver.C07
