import VaxisModel.Driver.Common
import VaxisModel.Driver.C03
import VaxisModel.Model.Width
import VaxisModel.Model.WidthGen
import VaxisModel.Model.Startup
import VaxisModel.Gen.Sequences
import VaxisModel.Driver.C07img

/-! Driver for C07 capability detection and width method. Lines:
  caps <19 advertised bits, MSB first = xtversion … LSB = sixel> <initcol> <kitty>  \t <17 detected bits> <7 Can* bits>
  width <unicodeCore> <explicitWidth> <noZWJ> <ghex> <wcwidth> <nozwj> <unicodeStd> \t <RenderedWidth>
  start dk=<b> ct=<b> q=<n> @ <seq> | <seq> | …   \t <17 detected bits in `capabilities` order> <10 Can* bits> tid=<cps>
    (the parsed sequences of a whole reply stream handed to a real `vaxis.New`, in arrival order; model-canon = the
    start-up LTS of `Model/Startup.lean` run under the eager schedule; verdict = `Spec.Startup.specCaps` of the stream)
  img … (image objects at run time: see Driver/C07img.lean; the bytes NewImage / Resize / Draw + Render / Destroy really
    wrote are lexed and judged by `Spec.ImageEsc.judge`)
The expected detection is the specification "exactly those the replies established": each flag is on
iff the terminal sent the reply that advertises it. -/
namespace VaxisModel.Driver.C07caps
open VaxisModel.Driver

def names : List String := ["sixels", "synchronizedUpdate", "unicodeCore", "colorThemeUpdates", "kittyKeyboard", "kittyGraphics", "rgb",
  "styledUnderlines", "osc4", "osc10", "osc11", "osc176", "reportSizePixels", "reportSizeChars", "inBandResize", "explicitWidth", "noZWJ"]

/-- Advertised bit `i` (fakeconsole.CapNames order) from the MSB-first 19-character string. -/
def adv (s : String) (i : Nat) : Bool := (s.toList.reverse.getD i '0') == '1'

/-- What the replies establish. -/
def expected (a : String) (kitty : Bool) : List Bool :=
  [adv a 0 || adv a 17, adv a 1, adv a 2, adv a 3, adv a 4, adv a 5, adv a 6, adv a 7 || adv a 16,
   adv a 8, adv a 9, adv a 10, adv a 11, adv a 12, adv a 13, adv a 14, adv a 15, kitty && adv a 18]

def bitsStr (l : List Bool) : String := String.ofList (l.map fun b => if b then '1' else '0')

/-- Can* accessors: CanSixel CanRGB CanKittyGraphics CanReportColor CanReportForegroundColor CanReportBackgroundColor CanSetAppID. -/
def canOf (d : List Bool) : List Bool :=
  [d.getD 0 false, d.getD 6 false, d.getD 5 false, d.getD 8 false, d.getD 9 false, d.getD 10 false, d.getD 11 false]

def firstDiff (e g : List Bool) : Option String :=
  (names.zip (e.zip g)).findSome? fun (n, (x, y)) => if x == y then none else some s!"{n}: detected {y}, replies establish {x}"

/-! ### start-up replay -/
open VaxisModel.Model.Input VaxisModel.Model.InputLoop VaxisModel.Model.Startup in
/-- The schedule the fake console produces: the input goroutine runs ahead (everything is injected
at once); `New` moves when the goroutine is blocked or has nothing left: in the probe it receives the
answer if there is one and otherwise times out, in the loop it receives. -/
def sched (p : Params) (o : VaxisModel.Spec.Startup.Opts) (final : Bool) : Nat → St → List Seq → St
  | 0, st, _ => st
  | fuel + 1, st, todo =>
    let goro : Option St :=
      match st.sys.pend with
      | [] => match todo with
        | [] => none
        | s :: _ => match next p o st (.input s) with
          | some (.ok st') => some st'
          | _ => none
      | _ :: _ => match next p o st .step with
        | some (.ok st') => some st'
        | _ => match next p o st .clipTimeout with
          | some (.ok st') => some st'
          | _ => none
    -- the answer to the probe is taken as soon as it is there
    match (if st.phase = .probe then next p o st .probeRecv else none) with
    | some (.ok st') => sched p o final fuel st' todo
    | _ =>
      match goro with
      | some st' => sched p o final fuel st' (if st.sys.pend.isEmpty then todo.drop 1 else todo)
      | none =>
        let newSide : List VaxisModel.Model.Startup.Label :=
          match st.phase with
          | .probe => [.probeTimeout]
          | .loop => if final then [.loopRecv, .loopTimeout] else [.loopRecv]
          | .done => [.quirks]
          | .ready => []
        match newSide.findSome? (fun l => match next p o st l with | some (.ok st') => some st' | _ => none) with
        | some st' => sched p o final fuel st' todo
        | none => st

def canBits (c : VaxisModel.Model.Input.Caps) : String :=
  let k := VaxisModel.Model.Startup.canOf c
  bitsStr [k.rgb, k.kittyGraphics, k.sixel, k.reportColor, k.reportFg, k.reportBg, k.displayGraphics, k.setAppID, k.unicodeCore, k.explicitWidth]

def firstDiffCaps (e g : List Bool) : Option String :=
  (VaxisModel.Model.Input.Caps.fieldNames.zip (e.zip g)).findSome? fun (n, (x, y)) =>
    if x == y then none else some s!"{n}: detected {y}, the replies establish {x}"

/-- Replies up to and including the first DA1 reply. -/
def uptoDA1 : List VaxisModel.Model.Input.Seq → List VaxisModel.Model.Input.Seq
  | [] => []
  | s :: r => if VaxisModel.Spec.Startup.isDA1 s then [s] else s :: uptoDA1 r

/-- The cursor-position report that answers the probe: the first `CSI … R` of the stream. -/
def probeAnswer : List VaxisModel.Model.Input.Seq → Option Int
  | [] => none
  | .csi _ ps 82 :: _ => match ps with
    | [_, c :: _] => some c
    | _ => none
  | _ :: r => probeAnswer r

def stepStart (op impl : String) : String :=
  match op.splitOn " @ " with
  | [hd, body] =>
    let f := fields hd
    let flag (k : String) : Bool := (VaxisModel.Driver.C03.kv f k) == some "1"
    let q := ((VaxisModel.Driver.C03.kv f "q").bind String.toNat?).getD 0
    let toks := body.splitOn " | "
    let parse (ts : List String) : Option (List VaxisModel.Model.Input.Seq) :=
      ts.mapM fun t => (VaxisModel.Driver.C03.parseSeq (fields t)).map (·.1)
    -- `tmo`: the sequences before it arrive while the probe waits, the rest after CursorPosition has returned
    let before := toks.takeWhile (· != "tmo")
    let after := (toks.dropWhile (· != "tmo")).drop 1
    match parse (before.filter (· != "")), parse (after.filter (· != "")) with
    | some seqs1, some seqs2 =>
      let seqs := seqs1 ++ seqs2
      let o : VaxisModel.Spec.Startup.Opts := { disableKitty := flag "dk", colorterm := flag "ct" }
      let p : VaxisModel.Model.InputLoop.Params :=
        { qcap := if q == 0 then VaxisModel.Gen.Caps.defaultQueueSize else q, kinds := VaxisModel.Model.InputLoop.Kinds.ofGen, b64 := fun _ => none }
      let st1 := sched p o false (64 * seqs.length + 20000) (VaxisModel.Model.Startup.St.init o) seqs1
      let st := sched p o true (64 * seqs.length + 20000) st1 seqs2
      let caps := st.sys.vs.caps
      let mc := s!"{bitsStr caps.toList} {canBits caps} tid={VaxisModel.Driver.C03.cpsOut st.termID}"
      -- the property oracle: what the replies established, independently of the model's run
      let want := VaxisModel.Spec.Startup.specCaps o (uptoDA1 seqs) (probeAnswer seqs1)
      let got := match fields impl with | d :: _ => d.toList.map (· == '1') | _ => []
      -- with a small event queue the probe's answer may be stuck behind a full queue (time-out) and the
      -- non-blocking OSC 176 notification may be dropped: configuration-dependent, not judged
      let judged (n : String) : Bool := q == 0 || !(n == "explicitWidth" || n == "osc176")
      let diffs := (VaxisModel.Model.Input.Caps.fieldNames.zip (want.toList.zip got)).filter fun x => judged x.1 && x.2.1 != x.2.2
      let canWant := canBits (VaxisModel.Driver.C03.capsOfBits got)
      let canGot := match fields impl with | _ :: c :: _ => c | _ => ""
      let v := if st.phase != .ready then "FAIL start-up did not complete in the model schedule"
        else match diffs with
        | x :: _ => s!"FAIL capability {x.1}: detected {x.2.2}, the replies establish {x.2.1}"
        | [] => if canWant == canGot then "ok" else s!"FAIL Can* accessors {canGot} do not reflect the detected capabilities {canWant}"
      s!"{mc}\t{impl}\t{v}"
    | _, _ => "bad-op\tbad-op\tbad-op"
  | _ => "bad-op\tbad-op\tbad-op"

/-! ### API writers -/

def b64Alphabet : Array Char := "ABCDEFGHIJKLMNOPQRSTUVWXYZabcdefghijklmnopqrstuvwxyz0123456789+/".toList.toArray

/-- RFC 4648 base64 with padding (spec side: what `ClipboardPush` must put into OSC 52). -/
def base64 : List Nat → List Char
  | [] => []
  | [a] => [b64Alphabet[a / 4]!, b64Alphabet[a % 4 * 16]!, '=', '=']
  | [a, b] => [b64Alphabet[a / 4]!, b64Alphabet[a % 4 * 16 + b / 16]!, b64Alphabet[b % 16 * 4]!, '=']
  | a :: b :: c :: r => b64Alphabet[a / 4]! :: b64Alphabet[a % 4 * 16 + b / 16]! :: b64Alphabet[b % 16 * 4 + c / 64]! :: b64Alphabet[c % 64]! :: base64 r

/-- `fmt.Sprintf(f, args…)` for templates with `%s` / `%d` verbs only. -/
def substVerbs : List Char → List String → List Char
  | '%' :: 's' :: r, a :: as => a.toList ++ substVerbs r as
  | '%' :: 'd' :: r, a :: as => a.toList ++ substVerbs r as
  | c :: r, as => c :: substVerbs r as
  | [], _ => []

def bytesHex (l : List Char) : String :=
  if l.isEmpty then "-" else hexOfBytes (l.map fun c => c.toNat)

def strOfHex (h : String) : String :=
  if h == "-" then "" else match hexBytes? h with
    | some bs => String.ofList (bs.map fun b => Char.ofNat b)
    | none => ""

open VaxisModel.Gen.Sequences in
/-- What the call must put on the wire: the sequences.go template of the API with the caller's
arguments — and nothing for a colour query the terminal did not advertise. -/
def apiExpected (adv name a b : String) : Option String :=
  let bit (i : Nat) : Bool := (adv.toList.reverse.getD i '0') == '1'
  let f (t : String) (args : List String) : Option String := some (bytesHex (substVerbs t.toList args))
  match name with
  | "clipboard-push" => f «osc52put» [String.ofList (base64 (a.toList.map Char.toNat))]
  | "clipboard-pop" => f «osc52pop» []
  | "notify" => if a == "" then f «osc9notify» [b] else f «osc777notify» [a, b]
  | "title" => f «setTitle» [a]
  | "appid" => f «setAppID» [a]
  | "bell" => some "07"
  | "cursorpos" => f «dsrcpr» []
  | "qcolor" => if bit 8 then f «osc4» [a] else some "-"
  | "qfg" => if bit 9 then f «osc10» [] else some "-"
  | "qbg" => if bit 10 then f «osc11» [] else some "-"
  | _ => none

def step (line : String) : String :=
  let (op, impl) := splitTab line
  if op.startsWith "start " then stepStart op impl else
  if op.startsWith "img " then VaxisModel.Driver.C07img.stepImg op impl else
  match fields op with
  | ["caps", a, _, k] =>
      let e := expected a (k == "1")
      let want := bitsStr e ++ " " ++ bitsStr (canOf e)
      let got := match fields impl with | [d, _] => d.toList.map (· == '1') | _ => []
      let v := if want = impl then "ok" else
        match firstDiff e got with
        | some d => s!"FAIL capability {d}"
        | none => s!"FAIL Can* accessors {impl} do not reflect the detected capabilities {want}"
      s!"{want}\t{impl}\t{v}"
  | ["api", adv, "newimage", a, _] =>
      -- which image object NewImage hands out: a kitty / sixel image only if the terminal advertised that protocol
      -- (the block renderers are always allowed; they are also the fallback when the pixel size is unknown)
      let bit (i : Nat) : Bool := (adv.toList.reverse.getD i '0') == '1'
      let ty := strOfHex ((a.drop 2).toString)
      let v := if ty == "KittyImage" && !bit 5 then "FAIL NewImage returned a kitty image although the terminal did not answer the kitty graphics query"
        else if ty == "Sixel" && !(bit 0 || bit 17) then "FAIL NewImage returned a sixel image although the terminal advertised no sixel support"
        else if ty == "KittyImage" || ty == "Sixel" || ty == "HalfBlockImage" || ty == "FullBlockImage" || ty == "none" then "ok"
        else s!"FAIL unknown image type {ty}"
      s!"img:{ty}\timg:{ty}\t{v}"
  | ["api", adv, name, a, b] =>
      match apiExpected adv name (strOfHex ((a.drop 2).toString)) (strOfHex ((b.drop 2).toString)) with
      | some want =>
        let v := if want == impl then "ok"
          else if impl.startsWith "hang" then s!"FAIL {name} never returned (wrote {(impl.drop 5).toString})" ++ (if want == "-" then " although the terminal did not advertise the report it queries" else "")
          else if want == "-" then s!"FAIL {name} wrote {impl} although the terminal did not advertise the report it queries"
          else s!"FAIL {name} must write exactly {want}, wrote {impl}"
        s!"{want}\t{impl}\t{v}"
      | none => "bad-op\tbad-op\tbad-op"
  | ["width", u, e, z, _, wc, nz, std] =>
      -- the oracle: the method that matches the capabilities (the clause of the property text, `Props.C07.width_method`)
      let m := VaxisModel.Model.Width.widthMethod (u == "1") (e == "1") (z == "1")
      let pick (m : VaxisModel.Model.Width.WidthMethod) : String := match m with | .unicodeStd => std | .noZWJ => nz | .wcwidth => wc
      let want := pick m
      -- the model: the statement chain of RenderedWidth as regenerated from vaxis.go, interpreted
      -- (`Props.C07Width.width_method_interpreted`: equal to `widthMethod` on the unchanged tree)
      let mc := match VaxisModel.Model.WidthGen.widthMethodGen (u == "1") (e == "1") (z == "1") with
        | some g => pick g
        | none => "unknown"
      s!"{mc}\t{impl}\t{if want = impl then "ok" else s!"FAIL RenderedWidth {impl} but the method for these capabilities gives {want}"}"
  | _ => "bad-op\tbad-op\tbad-op"

def main : IO Unit := lineLoop step

end VaxisModel.Driver.C07caps
