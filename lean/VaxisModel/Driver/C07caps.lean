import VaxisModel.Driver.Common
import VaxisModel.Model.Width

/-! Driver for C07 capability detection and width method. Lines:
  caps <19 advertised bits, MSB first = xtversion … LSB = sixel> <initcol> <kitty>  \t <17 detected bits> <7 Can* bits>
  width <unicodeCore> <explicitWidth> <noZWJ> <ghex> <wcwidth> <nozwj> <unicodeStd> \t <RenderedWidth>
The expected detection is the specification "exactly those the replies established": each flag is on
iff the terminal sent the reply that advertises it. -/
namespace VaxisModel.Driver.C07caps
open VaxisModel.Driver

def names : List String := ["sixels", "synchronizedUpdate", "unicodeCore", "colorThemeUpdates", "kittyKeyboard", "kittyGraphics", "rgb",
  "styledUnderlines", "osc4", "osc10", "osc11", "osc176", "reportSizePixels", "reportSizeChars", "inBandResize", "explicitWidth", "noZWJ"]

/-- Advertised bit `i` (fakeconsole.CapNames order) from the MSB-first 19-character string. -/
def adv (s : String) (i : Nat) : Bool := (s.toList.reverse.getD i '0') == '1'

/-- What the replies establish. -/
def expected (a : String) (kitty : Bool) : List Bool :=
  [adv a 0 || adv a 17, adv a 1, adv a 2, adv a 3, adv a 4, adv a 5, adv a 6, adv a 7 || adv a 16,
   adv a 8, adv a 9, adv a 10, adv a 11, adv a 12, adv a 13, adv a 14, adv a 15, kitty && adv a 18]

def bitsStr (l : List Bool) : String := String.ofList (l.map fun b => if b then '1' else '0')

/-- Can* accessors: CanSixel CanRGB CanKittyGraphics CanReportColor CanReportForegroundColor CanReportBackgroundColor CanSetAppID. -/
def canOf (d : List Bool) : List Bool :=
  [d.getD 0 false, d.getD 6 false, d.getD 5 false, d.getD 8 false, d.getD 9 false, d.getD 10 false, d.getD 11 false]

def firstDiff (e g : List Bool) : Option String :=
  (names.zip (e.zip g)).findSome? fun (n, (x, y)) => if x == y then none else some s!"{n}: detected {y}, replies establish {x}"

def step (line : String) : String :=
  let (op, impl) := splitTab line
  match fields op with
  | ["caps", a, _, k] =>
      let e := expected a (k == "1")
      let want := bitsStr e ++ " " ++ bitsStr (canOf e)
      let got := match fields impl with | [d, _] => d.toList.map (· == '1') | _ => []
      let v := if want = impl then "ok" else
        match firstDiff e got with
        | some d => s!"FAIL capability {d}"
        | none => s!"FAIL Can* accessors {impl} do not reflect the detected capabilities {want}"
      s!"{want}\t{impl}\t{v}"
  | ["width", u, e, z, _, wc, nz, std] =>
      let m := VaxisModel.Model.Width.widthMethod (u == "1") (e == "1") (z == "1")
      let want := match m with | .unicodeStd => std | .noZWJ => nz | .wcwidth => wc
      s!"{want}\t{impl}\t{if want = impl then "ok" else s!"FAIL RenderedWidth {impl} but the method for these capabilities gives {want}"}"
  | _ => "bad-op\tbad-op\tbad-op"

def main : IO Unit := lineLoop step

end VaxisModel.Driver.C07caps
