import VaxisModel.Driver.Common
import VaxisModel.Spec.ImageEsc
import VaxisModel.Model.ImageProto

/-! Handler of the `img` lines of the C07caps stream (also a stand-alone driver for them):

  img <19 advertised bits> sc=<cols>x<rows> px=<xpix>x<ypix> im=<kind>:<w>x<h>:<seed> rs=<w>x<h> win=<x>,<y>,<w>,<h> mv=<n>
    \t cls=<type> cell=<w>x<h> w1=<w>x<h> w3=<w>x<h> new=<hex> resize=<hex> f1=<hex> f2=<hex> f3=<hex> f4=<hex> destroy=<hex> f5=<hex>

model-canon = the class `NewImage` hands out according to the model of the start-up (`Model.ImageProto`,
the switch interpreted from `Gen.Writers.newImage`) and the image escapes the scenario then produces;
impl-canon = the real class and the image escapes lexed from the real bytes; verdict = the gating
oracle `Spec.ImageEsc.judge` on every phase's bytes under what the terminal advertised. -/
namespace VaxisModel.Driver.C07img
open VaxisModel.Driver VaxisModel.Spec.ImageEsc VaxisModel.Model.ImageProto

def kvOf (fs : List String) (k : String) : Option String :=
  fs.findSome? fun t => if t.startsWith (k ++ "=") then some (t.drop (k.length + 1)).toString else none

def pairOf (sep : String) (s : String) : Option (Nat × Nat) :=
  match s.splitOn sep with
  | [a, b] => do let x ← a.toNat?; let y ← b.toNat?; pure (x, y)
  | _ => none

def phases : List String := ["new", "resize", "f1", "f2", "f3", "f4", "destroy", "f5"]

def stepImg (op impl : String) : String :=
  let f := fields op
  let g := fields impl
  match f with
  | "img" :: adv :: _ =>
    let bit (i : Nat) : Bool := (adv.toList.reverse.getD i '0') == '1'
    let a : Adv := { kitty := bit 5, sixel := bit 0 || bit 17, rgb := bit 6, sync := bit 1 }
    match (kvOf f "px").bind (pairOf "x"), (kvOf g "cls"), (kvOf g "cell").bind (pairOf "x"),
          (kvOf g "w1").bind (pairOf "x"), (kvOf g "w3").bind (pairOf "x") with
    | some (xp, yp), some cls, some (cw, ch), some (w1w, w1h), some (w3w, w3h) =>
      if g.any (·.startsWith "timeout:") then "timeout\ttimeout\t-" else
      -- the model side
      let pixKnown := bit 14 && xp > 0 && yp > 0
      -- `graphicsProtocol` and `NewImage`, both interpreted from the regenerated source facts
      let cl := (detectedGen ⟨a.sixel, a.kitty, pixKnown⟩).bind newImageGen
      let mcls := match cl with | some c => c.name | none => "unknown"
      let mc := match cl with
        | some c => expectedEsc c (fits cw ch w1w w1h || fits cw ch w3w w3h) cw ch
        | none => "unknown"
      -- the implementation side: lex every phase
      let lexed : List (String × Option (List Tok)) := phases.map fun ph =>
        (ph, match kvOf g ph with
             | some h => if h.startsWith "panic:" then none else (hexBytes? h).map lex
             | none => none)
      match lexed.find? (·.2.isNone) with
      | some (ph, _) => s!"cls={mcls} esc={mc}\tbad-phase:{ph}\tFAIL phase {ph} missing, malformed or panicked: {(kvOf g ph).getD "-"}"
      | none =>
        let all : List Tok := lexed.foldr (fun x acc => (x.2.getD []) ++ acc) []
        let seen := all.foldl see {}
        let note := if chunkingOK all false then "" else " chunking!"
        let v := match lexed.findSome? fun x => judge a x.1 (x.2.getD []) with
          | some why => "FAIL " ++ why
          | none =>
            if cls == "KittyImage" && !a.kitty then "FAIL NewImage returned a kitty image although the terminal did not answer the kitty graphics query"
            else if cls == "Sixel" && !a.sixel then "FAIL NewImage returned a sixel image although the terminal advertised no sixel support"
            else "ok"
        s!"cls={mcls} esc={mc}\tcls={cls} esc={seen.canon}{note}\t{v}"
    | _, _, _, _, _ => "bad-op\tbad-op\tbad-op"
  | _ => "bad-op\tbad-op\tbad-op"

def step (line : String) : String :=
  let (op, impl) := splitTab line
  stepImg op impl

def main : IO Unit := lineLoop step

end VaxisModel.Driver.C07img
