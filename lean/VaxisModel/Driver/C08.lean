import VaxisModel.Driver.Common
import VaxisModel.Driver.C02
import VaxisModel.Model.ParserRunIO
import VaxisModel.Spec.VT500

/-! Driver for C08.  One line per case:

  `life <consumer> <script> <cluster table>\t<items> | <flags>`

(script and flags: see harness/cmd/C08/main.go).  model-canon = the LTS of Model/ParserRun.lean
driven by the script (Model/ParserRunIO.lean), interpreting the regenerated table, followed by the
flags the theorems of Props/C08.lean promise (`closed wc immut-ok`); impl-canon = the
implementation's line; verdict = the property read off the implementation's output alone:
exactly one EOF item, last, channel closed, WaitClose returned, no panic/hang, retained sequences
unchanged, as many `C0 0x1B` items as the script has lone ESCs (an ESC that is the last byte before
a pause), and — for scripts without Close() — the items the Spec machine prescribes when every lone
ESC is the Escape key and parsing resumes from ground. -/
namespace VaxisModel.Driver.C08
open VaxisModel.Driver VaxisModel.Model.Parser VaxisModel.Model.ParserIO VaxisModel.Model.ParserRun
open VaxisModel.Model.ParserRunIO

def parseEv (t : String) : Option Ev :=
  if t = "p" then some .pause
  else if t = "c" then some .close
  else if t = "w" then some .wait
  else if t = "g" then some .go
  else if t.startsWith "d" then (hexBytes? (t.drop 1).toString).map .data
  else none

/-- script → events (the final E/R only says how the stream ends; both are `eof` for the parser) -/
def parseScript (s : String) : Option (List Ev) :=
  let parts := s.splitOn ","
  match parts.getLast? with
  | some e => if e = "E" ∨ e = "R" ∨ e = "X" then parts.dropLast.mapM parseEv else none
  | none => none

/-- Byte segments between lone ESCs (ESC as the last byte before a pause). -/
def segments : List Ev → List Nat → List (List Nat)
  | [], cur => [cur]
  | .data l :: rest, cur => segments rest (cur ++ l)
  | .close :: rest, cur => segments rest cur
  | .wait :: rest, cur => segments rest cur
  | .go :: rest, cur => segments rest cur
  | .pause :: rest, cur =>
    if cur.getLast? = some 0x1B then cur :: segments rest [] else segments rest cur

/-- pauses only matter after a lone ESC; but a pause resets "last byte" for the next one -/
def wantEsc (evs : List Ev) : Nat := (segments evs []).length - 1

/-- A `wait` means the timer expired before the following bytes arrived but its callback ran late:
    the gap *is* the delay.  The property leaves both readings open — the ESC was lone (a pause) or
    it was prompt (nothing) — but nothing else: every way of reading each `wait`. -/
def readings : List Ev → List (List Ev)
  | [] => [[]]
  | .wait :: rest => (readings rest).flatMap fun r => [.pause :: r, r]
  | .go :: rest => readings rest
  | e :: rest => (readings rest).map (e :: ·)

def verdict (evs : List Ev) (impl : String) : String :=
  match impl.splitOn " | " with
  | [itemsS, flagsS] =>
    let toks := (itemsS.splitOn " ").filter (· ≠ "")
    let flags := (flagsS.splitOn " ").filter (· ≠ "")
    if toks.contains "!" then "FAIL panic"
    else if toks.contains "hang" then "FAIL hang: the channel was not closed"
    else if toks.any (·.startsWith "W!") then "FAIL Print width"
    else if toks.getLast? ≠ some "Z" then "FAIL last item is not EOF"
    else if (toks.filter (· = "Z")).length ≠ 1 then "FAIL more than one EOF item"
    else if !flags.contains "closed" then "FAIL channel not closed after EOF"
    else if !flags.contains "wc" then "FAIL WaitClose did not return"
    else if flags.contains "timer-late" then "FAIL the Escape report of a lone ESC came more than 60 ms after it on each of four tries (the disambiguation delay is 10 ms)"
    else if !flags.contains "immut-ok" then s!"FAIL a delivered sequence was modified before Finish ({flagsS})"
    else if evs.contains .close then
      -- Close(): what was read before it is parsed, and the items are those of a prefix of the input
      let pre := (evs.takeWhile (· ≠ .close)).flatMap fun | .data l => l | _ => []
      -- (the pending ReadRune, and print's look-ahead over what is buffered, keep calling Read while
      -- they hold an incomplete rune: how far exactly the last rune/cluster reaches is the model's
      -- business — `close_then_read_stops` and the correspondence; here: a prefix, and not too short)
      let next := (evs.dropWhile (· ≠ .close)).flatMap fun | .data l => l | _ => []
      let body := C02.mergePrints ((toks.dropLast).filter (· ≠ "X"))
      let devs : List Spec.VT500.Dev :=
        [{}, { lazyST := true }, { c0ClearsST := true }, { lazyST := true, c0ClearsST := true }]
      -- (the read is only issued when at most an incomplete rune — up to 3 bytes — is still buffered;
      -- whatever is buffered but not yet parsed when the loop stops is dropped)
      let all := pre ++ next
      let okFor (k : Nat) : Bool :=
        let rsM := Spec.VT500.decodeMarked (all.take (pre.length - 3 + k))
        devs.any fun d =>
          let (oM, fM) := Spec.VT500.runD d rsM
          (oM ++ fM).any C02.tooBig ||
          C02.relToks body (C02.mergePrints (oM.map C02.specTokM)) ||
          C02.relToks body (C02.mergePrints ((oM ++ fM).map C02.specTokM))
      -- all-ASCII script: no incomplete runes, no clusters — exactly one more rune is parsed after Close()
      let first := match (evs.dropWhile (· ≠ .close)).find? (fun | .data _ => true | _ => false) with
        | some (.data l) => l
        | _ => []
      if all.all (· < 0x80) then
        let want := pre.length + min 1 first.length
        if okFor (want + 3 - pre.length) && pre.length ≥ 3 || (pre.length < 3 && (
            let rsM := Spec.VT500.decodeMarked (all.take want)
            devs.any fun d =>
              let (oM, fM) := Spec.VT500.runD d rsM
              (oM ++ fM).any C02.tooBig ||
              C02.relToks body (C02.mergePrints (oM.map C02.specTokM)) ||
              C02.relToks body (C02.mergePrints ((oM ++ fM).map C02.specTokM)))) then "ok"
        else s!"FAIL[close] after Close() and the return of the pending read exactly {want} bytes should have been parsed"
      else
      if (List.range (next.length + 4)).any okFor then "ok"
      else "FAIL[close] after Close() the items are not those of a prefix of the input that covers what was read before the Close"
    else
      let body := C02.mergePrints ((toks.dropLast).filter (· ≠ "X"))
      let devs : List Spec.VT500.Dev :=
        [{}, { lazyST := true }, { c0ClearsST := true }, { lazyST := true, c0ClearsST := true }]
      -- does the implementation's output agree with the Spec under this reading of the script?
      -- 2 = yes, 1 = only up to C02's recorded deviations (judged there), 0 = no
      let judge (ev : List Ev) : Nat :=
        let segsM := (segments ev []).map Spec.VT500.decodeMarked
        let segs := segsM.map (·.map Spec.VT500.unmark)
        let (out, flush) := Spec.VT500.runWithEscKeys segs
        if (out ++ flush).any C02.tooBig then 1 else
        if body = C02.mergePrints (out.map C02.specTok) || body = C02.mergePrints ((out ++ flush).map C02.specTok)
        then 2
        else if devs.any fun d =>
            let (oM, fM) := Spec.VT500.runWithEscKeysD d segsM
            C02.relToks body (C02.mergePrints (oM.map C02.specTokM)) ||
            C02.relToks body (C02.mergePrints ((oM ++ fM).map C02.specTokM))
        then 1 else 0
      if evs.contains .wait then
        let js := (readings evs).map judge
        if js.contains 2 then "ok" else if js.contains 1 then "-"
        else "FAIL[esc-boundary] neither reading of the delayed timer (lone ESC / prompt ESC) explains the items"
      else
        let nEsc := (toks.filter (· = "C:1b")).length
        if nEsc ≠ wantEsc evs then
          s!"FAIL[esc-count] {nEsc} Escape reports for {wantEsc evs} lone ESCs"
        else match judge evs with
          | 2 => "ok"
          | 1 => "-"
          | _ =>
            let segs := (segments evs []).map Spec.VT500.decode
            let (out, _) := Spec.VT500.runWithEscKeys segs
            s!"FAIL[after-esc-key] spec requires [{" ".intercalate (C02.mergePrints (out.map C02.specTok))}]"
  | _ => "FAIL malformed harness line"

def step (line : String) : String :=
  let (op, impl) := splitTab line
  if op.startsWith "#" || op.startsWith "sched " then "-\t-\t-" else   -- (`sched`: an op of the stream C08Sched, in a replay file)
  match fields op with
  | ["life", _, sc, cl] =>
    match parseScript sc, C02.parseClusters cl with
    | some evs, some tbl =>
      let late := sc.endsWith ",X" || sc = "X"
      let cfg : Cfg := { clearsST := Gen.ParserTable.timerClearsIgnoreST, guarded := Gen.ParserTable.timerGuarded }
      let (items, sys) := runEvents genTable cfg (C02.lookupCl tbl) late evs
      let panicked := items.contains (.seq .panic)
      let flags := if panicked then "-" else
        (if sys.chanClosed ∧ sys.pc = .done then "closed wc " else "") ++ "immut-ok"
      let mc := if panicked then "! | send-on-closed-channel"
                else " ".intercalate (items.map C02.itemTok) ++ " | " ++ flags
      s!"{mc}\t{impl}\t{verdict evs impl}"
    | _, _ => "bad-op\tbad-op\tbad-op"
  | _ => "bad-op\tbad-op\tbad-op"

def main : IO Unit := lineLoop step

end VaxisModel.Driver.C08
