import VaxisModel.Driver.Common
import VaxisModel.Driver.C02
import VaxisModel.Model.ParserRunIO
import VaxisModel.Spec.VT500

/-! Driver for C08.  One line per case:

  `life <consumer> <script> <cluster table>\t<items> | <flags>`

(script and flags: see harness/cmd/C08/main.go).  model-canon = the LTS of Model/ParserRun.lean
driven by the script (Model/ParserRunIO.lean), interpreting the regenerated table, followed by the
flags the theorems of Props/C08.lean promise (`closed wc immut-ok`); impl-canon = the
implementation's line; verdict = the property read off the implementation's output alone:
exactly one EOF item, last, channel closed, WaitClose returned, no panic/hang, retained sequences
unchanged, as many `C0 0x1B` items as the script has lone ESCs (an ESC that is the last byte before
a pause), and — for scripts without Close() — the items the Spec machine prescribes when every lone
ESC is the Escape key and parsing resumes from ground. -/
namespace VaxisModel.Driver.C08
open VaxisModel.Driver VaxisModel.Model.Parser VaxisModel.Model.ParserIO VaxisModel.Model.ParserRun
open VaxisModel.Model.ParserRunIO

def parseEv (t : String) : Option Ev :=
  if t = "p" then some .pause
  else if t = "c" then some .close
  else if t.startsWith "d" then (hexBytes? (t.drop 1).toString).map .data
  else none

/-- script → events (the final E/R only says how the stream ends; both are `eof` for the parser) -/
def parseScript (s : String) : Option (List Ev) :=
  let parts := s.splitOn ","
  match parts.getLast? with
  | some e => if e = "E" ∨ e = "R" then parts.dropLast.mapM parseEv else none
  | none => none

/-- Byte segments between lone ESCs (ESC as the last byte before a pause). -/
def segments : List Ev → List Nat → List (List Nat)
  | [], cur => [cur]
  | .data l :: rest, cur => segments rest (cur ++ l)
  | .close :: rest, cur => segments rest cur
  | .pause :: rest, cur =>
    if cur.getLast? = some 0x1B then cur :: segments rest [] else segments rest cur

/-- pauses only matter after a lone ESC; but a pause resets "last byte" for the next one -/
def wantEsc (evs : List Ev) : Nat := (segments evs []).length - 1

def verdict (evs : List Ev) (impl : String) : String :=
  match impl.splitOn " | " with
  | [itemsS, flagsS] =>
    let toks := (itemsS.splitOn " ").filter (· ≠ "")
    let flags := (flagsS.splitOn " ").filter (· ≠ "")
    if toks.contains "!" then "FAIL panic"
    else if toks.contains "hang" then "FAIL hang: the channel was not closed"
    else if toks.any (·.startsWith "W!") then "FAIL Print width"
    else if toks.getLast? ≠ some "Z" then "FAIL last item is not EOF"
    else if (toks.filter (· = "Z")).length ≠ 1 then "FAIL more than one EOF item"
    else if !flags.contains "closed" then "FAIL channel not closed after EOF"
    else if !flags.contains "wc" then "FAIL WaitClose did not return"
    else if !flags.contains "immut-ok" then s!"FAIL a delivered sequence was modified before Finish ({flagsS})"
    else if evs.contains .close then "ok"
    else
      let nEsc := (toks.filter (· = "C:1b")).length
      if nEsc ≠ wantEsc evs then
        s!"FAIL[esc-count] {nEsc} Escape reports for {wantEsc evs} lone ESCs"
      else
        let segsM := (segments evs []).map Spec.VT500.decodeMarked
        let segs := segsM.map (·.map Spec.VT500.unmark)
        let body := C02.mergePrints ((toks.dropLast).filter (· ≠ "X"))
        let (out, flush) := Spec.VT500.runWithEscKeys segs
        if (out ++ flush).any C02.tooBig then "-" else
        if body = C02.mergePrints (out.map C02.specTok) || body = C02.mergePrints ((out ++ flush).map C02.specTok)
        then "ok" else
        -- C02's recorded deviations (ST suppression details, invalid byte after a Prepend character)
        -- are judged by C02 on the same streams; here they are tolerated, anything else is a failure
        let devs : List Spec.VT500.Dev :=
          [{}, { lazyST := true }, { c0ClearsST := true }, { lazyST := true, c0ClearsST := true }]
        if devs.any fun d =>
            let (oM, fM) := Spec.VT500.runWithEscKeysD d segsM
            C02.relToks body (C02.mergePrints (oM.map C02.specTokM)) ||
            C02.relToks body (C02.mergePrints ((oM ++ fM).map C02.specTokM))
        then "-"
        else s!"FAIL[after-esc-key] spec requires [{" ".intercalate (C02.mergePrints (out.map C02.specTok))}]"
  | _ => "FAIL malformed harness line"

def step (line : String) : String :=
  let (op, impl) := splitTab line
  if op.startsWith "#" then "-\t-\t-" else
  match fields op with
  | ["life", _, sc, cl] =>
    match parseScript sc, C02.parseClusters cl with
    | some evs, some tbl =>
      let (items, sys) := runEvents genTable Gen.ParserTable.timerClearsIgnoreST (C02.lookupCl tbl) evs
      let flags := (if sys.chanClosed ∧ sys.pc = .done then "closed wc " else "") ++ "immut-ok"
      let mc := " ".intercalate (items.map C02.itemTok) ++ " | " ++ flags
      s!"{mc}\t{impl}\t{verdict evs impl}"
    | _, _ => "bad-op\tbad-op\tbad-op"
  | _ => "bad-op\tbad-op\tbad-op"

def main : IO Unit := lineLoop step

end VaxisModel.Driver.C08
