import VaxisModel.Driver.Common
import VaxisModel.Driver.C02
import VaxisModel.Model.ParserRunSched
import VaxisModel.Spec.VT500

/-! Driver for the forced-schedule stream of C08 (round 4).

`!enum <tier> <seed>` — asked by the harness before it runs anything: the schedules to replay, one
per line (`S <labels>`), closed by `END`.  They are enumerated from the statement-grained LTS
(`Model/ParserRunSched.lean : enumerate`): every interleaving of the statements of `run` with those
of the timer callbacks for a set of scripted inputs, with and without a `Close()`.

`sched <labels>\t<obs>` — one replayed schedule.  labels (comma separated): `K` Close(), `R<hex>` /
`Re` the pending read returns this byte / end of input, `M` next statement of `run`, `X` the timer
expires (its callback goroutine starts and parks in front of `Lock`), `C<k>` next statement of
callback `k`.  obs (space separated, one per label, then `end/<closed|open>/<items>`):
`<point>/<escGen>/<state>/<ignoreST>/<mutex held>/<items>[/panic:<msg>]` = where the goroutine that moved is
parked afterwards, the guarded fields and whether `p.mu` is held (TryLock) as read while every goroutine is parked; `skip` = the label could
not be executed (goroutine not where the schedule wants it); `hang`.

model-canon = the same line computed by the LTS; verdict = the property read off the observations
of the real code alone (no model): no panic, no hang; one EOF, last, channel closed; guarded fields
(`escGen`, `state`, `ignoreST`) change only in a step taken between a goroutine's `Lock` and its
`Unlock`, never two goroutines inside, and `p.mu` is held exactly while one is; an Escape report only while the ESC is the last byte parsed;
a lone ESC followed by silence (no read return, no Close) is reported; after `Close()` the select
does not enter another read; all items = the Spec machine over the bytes parsed, with the Escape key
where it was reported. -/
namespace VaxisModel.Driver.C08Sched
open VaxisModel.Driver VaxisModel.Model.Parser VaxisModel.Model.ParserTable VaxisModel.Model.ParserRun
open VaxisModel.Model.ParserRunFine VaxisModel.Model.ParserRunSched

def hexNat (n : Nat) : String := String.ofList (Nat.toDigits 16 n)

def labelTok : SLabel → String
  | .close => "K"
  | .read (.rune r) => "R" ++ hexOfNat2 r
  | .read .eof => "Re"
  | .main => "M"
  | .expire => "X"
  | .cb k => s!"C{k}"

def hexNat? (s : String) : Option Nat :=
  if s.isEmpty then none else
  s.toList.foldl (fun acc c => match acc, hexDigit? c with
    | some a, some d => some (a * 16 + d)
    | _, _ => none) (some 0)

def parseLabel (t : String) : Option SLabel :=
  if t = "K" then some .close
  else if t = "M" then some .main
  else if t = "X" then some .expire
  else if t = "Re" then some (.read .eof)
  else if t.startsWith "R" then (hexNat? (t.drop 1).toString).map fun r => .read (.rune r)
  else if t.startsWith "C" then ((t.drop 1).toString.toNat?).map .cb
  else none

def parseLabels (s : String) : Option (List SLabel) := (s.splitOn ",").mapM parseLabel

def stateName : StateId → String
  | .ground => "ground" | .escape => "escape" | .escapeIntermediate => "escapeIntermediate"
  | .csiEntry => "csiEntry" | .csiParam => "csiParam" | .csiIntermediate => "csiIntermediate"
  | .csiIgnore => "csiIgnore" | .dcsEntry => "dcsEntry" | .dcsParam => "dcsParam"
  | .dcsIntermediate => "dcsIntermediate" | .dcsPassthrough => "dcsPassthrough" | .dcsIgnore => "dcsIgnore"
  | .oscString => "oscString" | .sosPm => "sosPm" | .apc => "apc" | .ss3 => "ss3"

def itemsTok (o : List Seq) : String :=
  if o.isEmpty then "-" else "+".intercalate (o.map C02.seqTok)

/-! ### the model's observations -/

structure MState where
  f : FSys := {}
  nil : Bool := false          -- `p.state == nil` (the loop was left through `anywhere`'s eof arm)

def obsTok (f : FSys) (nil : Bool) (l : SLabel) (o : List Seq) : String :=
  let st := if nil then "nil" else stateName f.ps.state
  let panicked := o.contains .panic
  let o' := o.filter (· ≠ .panic)
  s!"{pointAfter f l}/{f.escGen}/{st}/{if f.ps.ignoreST then 1 else 0}/{if f.mutex.isSome then 1 else 0}/{itemsTok o'}" ++
    (if panicked then "/panic:send-on-closed-channel" else "")

def modelLine (ls : List SLabel) : String :=
  let rec go (m : MState) : List SLabel → List String → List String × MState
    | [], acc => (acc.reverse, m)
    | l :: rest, acc =>
      match sstep genTable m.f l with
      | none => go m rest ("skip" :: acc)
      | some (f1, o) =>
        -- `p.state` becomes nil when `anywhere` returns nil: the step from point 13 that stops the loop
        let nil1 := m.nil || (match m.f.mpc, l with
          | .bumped i, .main => stops genTable m.f.ps i
          | _, _ => false)
        -- a callback that passed its check sets `p.state = ground` again (not reachable after the loop ended)
        let nil2 := match l with
          | .cb k => (match f1.cbs[k]? with | some (_, .stateSet) => false | _ => nil1)
          | _ => nil1
        go { f := f1, nil := nil2 } rest (obsTok f1 nil2 l o :: acc)
  let (toks, m) := go {} ls []
  " ".intercalate (toks ++ [s!"end/{if m.f.chanClosed then "closed" else "open"}/-"])

/-! ### the oracle on the implementation's observations -/

structure Obs where
  skip : Bool := false
  hang : Bool := false
  pt : Nat := 0
  gen : Nat := 0
  st : String := ""
  ign : Bool := false
  locked : Bool := false
  items : List String := []
  panic : String := ""
  deriving Inhabited

def parseObs (t : String) : Option Obs :=
  if t = "skip" then some { skip := true }
  else if t = "hang" then some { hang := true }
  else match t.splitOn "/" with
  | pt :: gen :: st :: ign :: lk :: items :: rest =>
    match pt.toNat?, gen.toNat? with
    | some p, some g =>
      some { pt := p, gen := g, st := st, ign := ign = "1", locked := lk = "1",
             items := if items = "-" then [] else items.splitOn "+",
             panic := "/".intercalate rest }
    | _, _ => none
  | _ => none

structure OState where
  k : Nat := 0                          -- index of the label
  gen : Nat := 0
  st : String := "ground"
  ign : Bool := false
  mainPt : Nat := 10
  cbPts : List Nat := []
  cbX : List Nat := []                  -- label index of the `X` that started callback k
  lastRead : Option Inp := none
  cur : List Nat := []                  -- bytes parsed since the last Escape report
  segs : List (List Nat) := []
  eofParsed : Bool := false
  escIdx : Nat := 0                     -- label index of the step that parsed the last ESC
  quietSince : Bool := true             -- no read return and no Close() since then
  closeSeen : Bool := false
  items : List String := []
  sawSkip : Bool := false
  fail : Option String := none

def held (s : OState) : Nat :=
  (if [12, 13, 14, 22, 23].contains s.mainPt then 1 else 0) + (s.cbPts.filter fun p => [31, 32, 33, 34].contains p).length

def failWith (s : OState) (m : String) : OState := if s.fail.isSome then s else { s with fail := some m }

def ostep (s : OState) (l : SLabel) (o : Obs) : OState :=
  let s := { s with k := s.k + 1 }
  if o.skip then { s with sawSkip := true } else
  if o.hang then failWith s s!"FAIL hang at label {s.k} ({labelTok l}): the goroutine did not reach its next yield point" else
  let s := if o.panic ≠ "" then failWith s s!"FAIL panic at label {s.k} ({labelTok l}): {o.panic}" else s
  -- where the goroutine stood before the step
  let from_ : Nat := match l with
    | .main => s.mainPt
    | .read _ => 15
    | .cb k => s.cbPts.getD k 0
    | _ => 0
  let changed := o.gen ≠ s.gen || o.st ≠ s.st || o.ign ≠ s.ign
  let what := (if o.gen ≠ s.gen then s!"escGen {s.gen}->{o.gen} " else "") ++ (if o.st ≠ s.st then s!"state {s.st}->{o.st} " else "") ++
    (if o.ign ≠ s.ign then s!"ignoreST " else "")
  let inside := match l with
    | .main => [12, 13, 22].contains from_
    | .cb _ => [31, 32, 33, 34].contains from_
    | _ => false
  let s := if changed && !inside then
      failWith s s!"FAIL[unguarded-write] {what}written by the step from point {from_} (label {s.k} {labelTok l}): outside the section the mutex guards (data race with the other goroutine's read)"
    else s
  -- bookkeeping per label
  let s := match l with
    | .close => { s with closeSeen := true, quietSince := false }
    | .read i => { s with lastRead := some i, mainPt := o.pt, quietSince := false }
    | .expire => { s with cbPts := s.cbPts ++ [o.pt], cbX := s.cbX ++ [s.k] }
    | .main =>
      let s := if from_ = 13 then
          match s.lastRead with
          | some (.rune r) => if r = 0x1B then { s with cur := s.cur ++ [r], escIdx := s.k, quietSince := true } else { s with cur := s.cur ++ [r] }
          | some .eof => { s with eofParsed := true }
          | none => s
        else s
      let s := if from_ = 10 && s.closeSeen && o.pt ≠ 20 then
          failWith s s!"FAIL[close] after Close() the select entered another read (main at point {o.pt})"
        else s
      { s with mainPt := o.pt }
    | .cb k =>
      let fresh := s.cur.getLast? = some 0x1B && !s.eofParsed && s.cbX.getD k 0 > s.escIdx
      let s := if from_ = 31 && o.pt ≠ 32 && fresh && s.quietSince then
          failWith s s!"FAIL[lone-esc] a lone ESC followed by silence (no read returned, no Close) was not reported: callback {k} gave up at its check (label {s.k})"
        else s
      let s := if o.items.contains "C:1b" then
          if s.cur.getLast? = some 0x1B && !s.eofParsed then { s with segs := s.segs ++ [s.cur], cur := [] }
          else failWith s s!"FAIL[late-escape] Escape reported by callback {k} at label {s.k} although the ESC is not the last byte parsed (a following byte, or the end of input, had been parsed)"
        else s
      { s with cbPts := s.cbPts.set k o.pt }
  let s := { s with gen := o.gen, st := o.st, ign := o.ign, items := s.items ++ o.items }
  if held s > 1 then failWith s s!"FAIL[mutex] two goroutines between Lock and Unlock after label {s.k}"
  else if held s = 1 && !o.locked then
    failWith s s!"FAIL[mutex] after label {s.k} ({labelTok l}) a goroutine stands between its Lock and its Unlock (main at {s.mainPt}, callbacks at {s.cbPts}) but p.mu is free"
  else if held s = 0 && o.locked then
    failWith s s!"FAIL[mutex] after label {s.k} ({labelTok l}) p.mu is held although no goroutine stands between a Lock and an Unlock (main at {s.mainPt}, callbacks at {s.cbPts})"
  else s

def verdict (ls : List SLabel) (impl : String) : String :=
  let toks := (impl.splitOn " ").filter (· ≠ "")
  match toks.getLast? with
  | none => "FAIL malformed harness line"
  | some endTok =>
    let obsToks := toks.dropLast
    if obsToks.length ≠ ls.length then "FAIL malformed harness line (one observation per label)" else
    match obsToks.mapM parseObs, endTok.splitOn "/" with
    | some obs, ["end", closed, trailing] =>
      let s := (ls.zip obs).foldl (fun s lo => ostep s lo.1 lo.2) {}
      let items := s.items ++ (if trailing = "-" then [] else trailing.splitOn "+")
      match s.fail with
      | some m => m
      | none =>
        if items.any (·.startsWith "panic:") then
          s!"FAIL panic after the schedule, when every goroutine ran on freely: {(items.filter (·.startsWith "panic:")).headD ""}"
        else if items.contains "hang" then "FAIL hang: run or a timer callback did not come to its end"
        else if items.getLast? ≠ some "Z" then "FAIL last item is not EOF"
        else if (items.filter (· = "Z")).length ≠ 1 then "FAIL more than one EOF item"
        else if closed ≠ "closed" then "FAIL channel not closed after EOF"
        else if s.sawSkip then "-"
        else
          let body := C02.mergePrints ((items.dropLast).filter (· ≠ "X"))
          let segs := s.segs ++ [s.cur]
          let (out, flush) := Spec.VT500.runWithEscKeys segs
          if body = C02.mergePrints (out.map C02.specTok) || body = C02.mergePrints ((out ++ flush).map C02.specTok) then "ok"
          else
            let (oD, fD) := Spec.VT500.runWithEscKeysD { lazyST := true } segs
            if body = C02.mergePrints (oD.map C02.specTok) || body = C02.mergePrints ((oD ++ fD).map C02.specTok) then "-"
            else s!"FAIL[esc-key] items differ from the Spec machine with the Escape key where it was reported: spec [{" ".intercalate (C02.mergePrints (out.map C02.specTok))}]"
    | _, _ => "FAIL malformed harness line"

/-! ### the schedules -/

/-- scripted inputs (bytes, one per read) × whether a `Close()` is issued -/
def scripts : List (List Nat × Bool) :=
  [([0x1B], false), ([0x1B], true), ([0x1B, 0x5B, 0x41], false), ([0x1B, 0x18], false), ([0x1B, 0x1B], false),
   ([0x61, 0x1B], true), ([0x1B, 0x5D, 0x78, 0x1B], false), ([0x1B, 0x0A], false), ([0x1B, 0x61], true),
   ([0x1B, 0x50, 0x71, 0x1B], false), ([], true),
   ([0x1B, 0x5B], true), ([0x1B, 0x1B], true), ([0x1B, 0x5D, 0x1B, 0x5C], false), ([0x1B, 0x18], true)]

def lcg (s : Nat) : Nat := (s * 6364136223846793005 + 1442695040888963407) % 18446744073709551616

/-- every `stride`-th element -/
def thin (stride off : Nat) (l : List α) : List α :=
  (l.zipIdx.filter fun (_, i) => (i + off) % stride = 0).map (·.1)

/-- bytes for the random scripts: ESC, `[`, `A`, CAN, SUB, LF, `]`, `x`, `\`, `P`, `q`, BEL, `O` -/
def alphabet : List Nat := [0x1B, 0x1B, 0x1B, 0x5B, 0x41, 0x18, 0x1A, 0x0A, 0x5D, 0x78, 0x5C, 0x50, 0x71, 0x07, 0x4F]

/-- pseudo-random scripted inputs (1–5 bytes, at least one ESC) with pseudo-random complete schedules -/
def randomSchedules (seed n : Nat) : List (List SLabel) :=
  (List.range n).filterMap fun j =>
    let s0 := lcg (seed * 2654435761 + j * 40503 + 17)
    let len := 1 + (s0 / 65536) % 5
    let (ins, s1) := (List.range len).foldl (fun (acc : List Nat × Nat) _ =>
      let s := lcg acc.2
      (acc.1 ++ [alphabet.getD ((s / 4294967296) % alphabet.length) 0x1B], s)) ([], s0)
    let ins := if ins.contains 0x1B then ins else 0x1B :: ins
    sample genTable 400 {} ins ((s1 / 1048576) % 3 = 0) (lcg s1) []

def schedules (thorough : Bool) (seed : Nat) : List (List SLabel) :=
  let cap := if thorough then 60000 else 20000
  let perScript := if thorough then 6000 else 300
  (scripts.flatMap fun (ins, mayClose) =>
    let all := (enumerate genTable 80 {} ins mayClose [] cap []).reverse
    let picked := if all.length ≤ perScript then all else
      let stride := (all.length + perScript - 1) / perScript
      thin stride (seed % stride) all
    let nRand := if thorough then 200 else 20
    let rnd := (List.range nRand).filterMap fun j =>
      sample genTable 200 {} ins mayClose (lcg (seed * 1000003 + j * 7919 + ins.length)) []
    picked ++ rnd) ++ randomSchedules seed (if thorough then 6000 else 400)

def step (line : String) : String :=
  let (op, impl) := splitTab line
  if op.startsWith "!enum" then
    match fields op with
    | [_, tier, seed] =>
      let ss := schedules (tier = "thorough") (seed.toNat?.getD 1)
      -- `FULL`: every interleaving of every scripted input was taken (no stride)
      let full := scripts.all fun (ins, mayClose) =>
        (enumerate genTable 80 {} ins mayClose [] 60000 []).length ≤ (if tier = "thorough" then 6000 else 300)
      "\n".intercalate ((ss.map fun s => "S " ++ ",".intercalate (s.map labelTok)) ++ (if full then ["FULL"] else []) ++ ["END"])
    | _ => "END"
  else if op.startsWith "#" || op.startsWith "life " then "-\t-\t-" else   -- (`life`: an op of the other stream of C08, in a replay file)
  match fields op with
  | ["sched", lbls] =>
    match parseLabels lbls with
    | some ls => s!"{modelLine ls}\t{impl}\t{verdict ls impl}"
    | none => "bad-op\tbad-op\tbad-op"
  | _ => "bad-op\tbad-op\tbad-op"

def main : IO Unit := lineLoop step

end VaxisModel.Driver.C08Sched
