import VaxisModel.Driver.Common
import VaxisModel.Model.Key
import VaxisModel.Model.KeyBody
import VaxisModel.Spec.KeyEnc
import VaxisModel.Spec.KeyEvent
import VaxisModel.Spec.KeyEncUni

/-! Driver for C09 (key decoding and binding matching).  Every line is self-contained
(stateless, shardable).  Tokens are space separated.

  U=<r:flags:upper:lower;…>   values of the `unicode` functions for every rune the case mentions
                              (flags: 1 IsUpper 2 IsLower 4 IsLetter 8 IsGraphic 16 IsPrint)
  F=<a:b;…>                   pairs of distinct runes equal under simple case folding
  key  = kc/sc/bl/mods/ev/text   (text = runes joined by '.', '-' if empty)
  seq  = P:<runes> | C0:<n> | E:<n> | S3:<n> | CSI:<final>:<p.p/p.p/…>   ('-' = no parameters)

Ops (`op<TAB>impl`):
  dec U seq spec            impl = key          model decodeKey; oracle = Spec expected key (`spec`)
  e2e U seq spec            impl = key|none     the bytes injected into a real Vaxis (fake console), Key event from Events()
  mat U key rune mask       impl = 0|1          model matches;  oracle = documented rules + strong-mods
  mstr U F key str          impl = 0|1          model matchString
  self U F key              impl = String()|0|1 model keyString + matchString of it; oracle: a pressed chord matches
  str U key                 impl = runes        model keyString
  xp U F seqL seqK binds    impl = strL|strK|bitsL|bitsK   cross-protocol: same String, same bindings
  hypa U F                  impl = agree|differ hypothesis AsciiAgree of self_match evaluated on Go's ToLower / SimpleFold (128 ASCII runes)
  hyp kind U c C withText   impl = ok|viol:…    hypotheses of Props.C09Uni.cross_protocol_char_<kind> evaluated on Go's values
  xpu kind class U F …      as xp, for a character key of any script (legacy sequence = Spec.KeyEncUni.legacyChar)
-/
namespace VaxisModel.Driver.C09
open VaxisModel.Driver VaxisModel.Model.Key VaxisModel.Spec

structure URow where
  r : Int
  flags : Nat
  up : Int
  lo : Int

def findRow (t : List URow) (r : Int) : Option URow := t.find? (·.r == r)

def mkUni (t : List URow) (folds : List (Int × Int)) : Uni :=
  let flag (bit : Nat) (r : Int) : Bool := match findRow t r with
    | some row => row.flags / bit % 2 == 1
    | none => false
  { isUpper := flag 1, isLower := flag 2, isLetter := flag 4, isGraphic := flag 8, isPrint := flag 16
    toUpper := fun r => match findRow t r with | some row => row.up | none => r
    toLower := fun r => match findRow t r with | some row => row.lo | none => r
    foldEq := fun a b =>
      -- ASCII letters fold with their other case; everything else comes from the `F=` pairs
      (decide (65 ≤ a ∧ a ≤ 90 ∧ b = a + 32) || decide (65 ≤ b ∧ b ≤ 90 ∧ a = b + 32)) ||
      folds.any fun (x, y) => (x == a && y == b) || (x == b && y == a) }

/-- The rows that violate the law `Spec.KeyEnc.UpperHasLower`: a lower-case rune with an upper case of its own whose upper
    case is not listed or is its own lower case.  (`Props.C09Driver.driver_uni_upper_has_lower`: empty ⇒ the law holds
    of `mkUni t folds`.) -/
def upperHasLowerBad (t : List URow) : List URow :=
  t.filter fun row => row.flags / 2 % 2 == 1 && row.up != row.r &&
    (match findRow t row.up with | some U => U.lo == U.r | none => true)

/-- The runes — all 128 ASCII runes and every listed row — at which the oracle built from the rows differs from Go's
    tables on ASCII / above the Unicode range (`Spec.KeyEnc.asciiUni`): the hypothesis `AgreeOnKeys` of
    `Props/C09CrossUni` evaluated on the harness's rows. -/
def agreeOnKeysBad (t : List URow) : List Int :=
  let u := mkUni t []
  let a := KeyEnc.asciiUni
  (((List.range 128).map fun (r : Nat) => ((r : Nat) : Int)) ++ t.map (·.r)).filter fun r => KeyEnc.inKeyDom r &&
    !(u.isUpper r == a.isUpper r && u.isLower r == a.isLower r && u.isLetter r == a.isLetter r &&
      u.isGraphic r == a.isGraphic r && u.isPrint r == a.isPrint r &&
      u.toUpper r == a.toUpper r && u.toLower r == a.toLower r)

def sepInts? (sep : String) (s : String) : Option (List Int) :=
  if s = "-" ∨ s = "" then some [] else (s.splitOn sep).mapM (·.toInt?)

def parseU? (tok : String) : Option (List URow) :=
  if !tok.startsWith "U=" then none else
  let body := (tok.drop 2).toString
  if body = "-" ∨ body = "" then some [] else
  (body.splitOn ";").mapM fun e =>
    match e.splitOn ":" with
    | [r, f, up, lo] => do
        let r ← r.toInt?; let f ← f.toNat?; let up ← up.toInt?; let lo ← lo.toInt?
        pure { r, flags := f, up, lo }
    | _ => none

def parseF? (tok : String) : Option (List (Int × Int)) :=
  if !tok.startsWith "F=" then none else
  let body := (tok.drop 2).toString
  if body = "-" ∨ body = "" then some [] else
  (body.splitOn ";").mapM fun e =>
    match e.splitOn ":" with
    | [a, b] => do let a ← a.toInt?; let b ← b.toInt?; pure (a, b)
    | _ => none

def parseKey? (tok : String) : Option Key :=
  match tok.splitOn "/" with
  | [kc, sc, bl, m, ev, t] => do
      let kc ← kc.toInt?; let sc ← sc.toInt?; let bl ← bl.toInt?; let m ← m.toNat?; let ev ← ev.toInt?
      let t ← sepInts? "." t
      pure { keycode := kc, shifted := sc, base := bl, mods := m, event := ev, text := t }
  | _ => none

def showStr (s : Str) : String := if s.isEmpty then "-" else ".".intercalate (s.map toString)

def showKey (k : Key) : String :=
  s!"{k.keycode}/{k.shifted}/{k.base}/{k.mods}/{k.event}/{showStr k.text}"

def parseSeq? (tok : String) : Option Seq :=
  match tok.splitOn ":" with
  | ["P", g] => do pure (.print (← sepInts? "." g))
  | ["C0", n] => do pure (.c0 (← n.toInt?))
  | ["E", n] => do pure (.esc (← n.toInt?))
  | ["S3", n] => do pure (.ss3 (← n.toInt?))
  | ["CSI", fin, ps] => do
      let fin ← fin.toInt?
      if ps = "-" then pure (.csi [] fin) else
      let params ← (ps.splitOn "/").mapM (sepInts? ".")
      pure (.csi params fin)
  | _ => none

def bit (n : Nat) (i : Nat) : Bool := n / 2 ^ i % 2 == 1

/-- The expected key for a `dec` case, from the Spec, or an error text if the case's chord/form does
    not produce the sequence the harness parsed (harness encoder or parser disagrees with the Spec). -/
def expected (u : Uni) (seq : Seq) (spec : String) : Except String (Option Key) :=
  match spec.splitOn ":" with
  | ["-"] => .ok none
  | ["p"] => match seq with
      | .print g => .ok (some (KeyEnc.printExpected u g))
      | _ => .error "spec p on a non-print sequence"
  | ["c"] => match seq with
      | .c0 b => if 0 ≤ b ∧ b < 32 then .ok (some (KeyEnc.c0Expected b)) else .error "C0 out of range"
      | _ => .error "spec c on a non-C0 sequence"
  | ["e"] => match seq with
      | .esc f => .ok (some (KeyEnc.escExpected u f))
      | _ => .error "spec e on a non-ESC sequence"
  | ["s"] => match seq with
      | .ss3 b => match lookup b KeyEnc.ss3Table with
          | some k => .ok (some { keycode := k })
          | none => .ok none
      | _ => .error "spec s on a non-SS3 sequence"
  | ["z"] => if seq = .csi [] 90 then .ok (some (KeyEnc.shiftFix u { keycode := Gen.Keys.KeyTab, mods := KeyEnc.shiftBit })) else .error "spec z: not CSI Z"
  | ["n", fin, _] =>
      match fin.toInt? with
      | some fin =>
        if seq ≠ .csi [] fin then .error "spec n: sequence is not a parameterless CSI"
        else match lookup2 (1, fin) KeyEnc.functional with
          | some key => .ok (some (KeyEnc.shiftFix u { keycode := key }))
          | none => .ok none
      | _ => .error "bad spec n"
  | ["m", mods, code] =>
      match mods.toNat?, code.toInt? with
      | some mods, some code =>
        if seq = .csi [[27], [(mods : Int) + 1], [code]] 126 then
          .ok (some (KeyEnc.shiftFix u { keycode := code, mods := mods }))
        else .error "spec m: sequence is not CSI 27;mods+1;code ~"
      | _, _ => .error "bad spec m"
  | ["k", num, fin, _, mods, ev, sh, bl, text, form] =>
      match num.toInt?, fin.toInt?, mods.toNat?, ev.toInt?, sh.toInt?, bl.toInt?, sepInts? "." text, form.toNat? with
      | some num, some fin, some mods, some ev, some sh, some bl, some text, some form =>
        -- the key the report denotes, per the Spec table; other numbers with final `u` are the
        -- code point of the key itself (printable keys only); anything else denotes nothing
        let key? : Option Int := match lookup2 (num, fin) KeyEnc.functional with
          | some k => some k
          | none => if fin = 117 ∧ 32 ≤ num ∧ ¬(127 ≤ num ∧ num ≤ 159) ∧ validRune num = true then some num else none
        match key? with
        | none => .ok none
        | some key =>
        let c : KeyEnc.Chord := { key, mods, event := ev, shifted := sh, base := bl, text }
        let f : KeyEnc.Form := { withShifted := bit form 0, withBase := bit form 1, withMods := bit form 2,
                                 withEvent := bit form 3, withText := bit form 4 }
        if KeyEnc.kittySeq num fin c f ≠ seq then .error "spec k: parsed sequence differs from Spec.kittySeq"
        else if !(text.all validRune) then .ok none
        else .ok (some (KeyEnc.kittyExpected u c f))
      | _, _, _, _, _, _, _, _ => .error "bad spec k"
  | _ => .error "unknown spec"

def bad : String := "bad-op\tbad-op\tbad-op"

def b01 (b : Bool) : String := if b then "1" else "0"

def parseBinds? (tok : String) : Option (List (Int × Nat)) :=
  if tok = "-" then some [] else
  (tok.splitOn ",").mapM fun e =>
    match e.splitOn ":" with
    | [r, m] => do let r ← r.toInt?; let m ← m.toNat?; pure (r, m)
    | _ => none

/-- `hypa`: AsciiAgree on the rows / fold pairs the harness computed with Go's `unicode` package
    (folding only from the `F=` pairs — nothing hard-wired). -/
def asciiAgreeOn (t : List URow) (f : List (Int × Int)) : Bool :=
  let lower (r : Int) : Int := match findRow t r with | some row => row.lo | none => r
  let fold (a b : Int) : Bool := f.any fun (x, y) => (x == a && y == b) || (x == b && y == a)
  (List.range 128).all fun (a : Nat) =>
    lower a == KeyEnc.asciiUni.toLower a &&
    (List.range 128).all fun (b : Nat) => fold a b == KeyEnc.asciiUni.foldEq a b

/-- One chord of a character key under the legacy and a kitty encoding (`rest` = further code points of a
    grapheme cluster typed on the key: `xpg` ops; empty for `xpu`). -/
def xpuCore (kind cls ut ft num fin key mods sh form bt sl sk : String) (rest : List Int) (impl : String) : Option String :=
    match parseU? ut, parseF? ft, parseSeq? sl, parseSeq? sk, parseBinds? bt,
          num.toInt?, fin.toInt?, key.toInt?, mods.toNat?, sh.toInt?, form.toNat? with
    | some t, some f, some seqL, some seqK, some binds, some num, some fin, some key, some mods, some sh, some form =>
      let u := mkUni t f
      let kl := decodeKey u seqL
      let kk := decodeKey u seqK
      let bits (k : Key) : String := String.join (binds.map fun (r, m) => b01 («matches» u k r m))
      let model := s!"{showStr (keyString u kl)}|{showStr (keyString u kk)}|{bits kl}|{bits kk}"
      let fm : KeyEnc.Form := { withShifted := bit form 0, withBase := bit form 1, withMods := bit form 2,
                                withEvent := bit form 3, withText := bit form 4 }
      let produced := if mods % 2 = 1 then sh else key
      let c : KeyEnc.Chord := { key, mods, shifted := sh, text := if fm.withText then produced :: rest else [] }
      let v :=
        if !(num = key ∧ fin = 117 ∧ validRune key = true ∧ lookup2 (key, 117) KeyEnc.functional = none) then
          "FAIL generator: not a character key"
        else if KeyEnc.kittySeq num fin c fm ≠ seqK then "FAIL generator/parser: kitty sequence differs from Spec.kittySeq"
        else if rest = [] ∧ KeyEncUni.legacyChar key sh mods ≠ some seqL then "FAIL generator/parser: legacy sequence differs from Spec.legacyChar"
        else if rest ≠ [] ∧ (seqL ≠ .print (produced :: rest) ∨ !fm.withText ∨ mods > 1) then "FAIL generator/parser: legacy sequence is not the grapheme cluster"
        else if rest ≠ [] ∧ showKey kl ≠ showKey kk then s!"FAIL xpg[{kind} {cls}] the two reports of the cluster decode to different events: {showKey kl} vs {showKey kk}"
        else if cls.startsWith "outside:" then
          -- a code point that is not its own lower case is not a kitty key code (the protocol reports the lower-case
          -- form of the key): run on the real code, compared with the model, not judged — unless the claim is wrong
          (if u.toLower key ≠ key then "-"
           else s!"FAIL xpu[{kind} {cls}] the key {key} is its own lower case: it is a kitty key code and must be judged")
        else match impl.splitOn "|" with
        | [a, b, c, d] =>
          if a ≠ b then s!"FAIL xpu[{kind} {cls}] String() differs between the legacy and the kitty report: {a} vs {b}"
          else if c ≠ d then
            let idx := (List.zip c.toList d.toList).findIdx (fun (p : Char × Char) => p.1 != p.2)
            match binds[idx]? with
            | some (r, m) =>
              let rel := if r = key then "the key itself" else if r = sh then "the shifted character"
                         else if u.toUpper r = key then "a lower-case rune whose upper case is the key"
                         else if r = u.toUpper key then "ToUpper of the key" else "a related rune"
              s!"FAIL xpu[{kind} {cls}] binding ({r}, mods {m}) [{rel}] matches under one encoding only"
            | none => s!"FAIL xpu[{kind} {cls}] bindings differ"
          else "ok"
        | _ => "FAIL malformed impl"
      some s!"{model}\t{impl}\t{v}"
    | _, _, _, _, _, _, _, _, _, _, _ => none

def stepUni (op : List String) (impl : String) : Option String :=
  match op with
  | ["hypa", ut, ft] =>
    match parseU? ut, parseF? ft with
    | some t, some f =>
      let model := if asciiAgreeOn t f then "agree" else "differ"
      let v := if model = "agree" ∧ impl = "agree" then "ok"
               else "FAIL AsciiAgree (hypothesis of self_match) does not hold of Go's unicode tables"
      some s!"{model}\t{impl}\t{v}"
    | _, _ => none
  | ["hypk", ut] =>
    match parseU? ut with
    | some t =>
      let bad := agreeOnKeysBad t
      let model := if bad.isEmpty then "agree" else "differ"
      let v := if bad.isEmpty ∧ impl = "agree" then "ok"
               else s!"FAIL AgreeOnKeys (hypothesis of cross_protocol_any_uni) does not hold of Go's unicode tables at {bad}"
      some s!"{model}\t{impl}\t{v}"
    | none => none
  | ["hypl", ut] =>
    match parseU? ut with
    | some t =>
      let bad := upperHasLowerBad t
      let model := if bad.isEmpty then "holds" else "fails"
      let v := if bad.isEmpty ∧ impl = "holds" then "ok"
               else s!"FAIL UpperHasLower (law used by cross_protocol_char_plain_keycode) does not hold of Go's unicode tables: {bad.map (·.r)}"
      some s!"{model}\t{impl}\t{v}"
    | none => none
  | ["hyp", kind, ut, ct, Ct, wt] =>
    match parseU? ut, ct.toInt?, Ct.toInt? with
    | some t, some c, some C =>
      let u := mkUni t []
      let dom := t.map (·.r)
      let withText := wt == "1"
      let hs := match kind with
        | "plain" => KeyEncUni.hypPlain u dom c withText
        | "shift" => KeyEncUni.hypShift u c C withText
        | "alt" => KeyEncUni.hypAlt u c
        | _ => KeyEncUni.hypAltShift u c C
      let v := KeyEncUni.violated hs
      let model := if v.isEmpty then "ok" else "viol:" ++ ",".intercalate v
      some s!"{model}\t{impl}\t-"
    | _, _, _ => none
  | ["xpu", kind, cls, ut, ft, num, fin, key, mods, sh, form, bt, sl, sk] =>
    xpuCore kind cls ut ft num fin key mods sh form bt sl sk [] impl
  | ["xpg", kind, cls, ut, ft, num, fin, key, mods, sh, form, rt, bt, sl, sk] =>
    match sepInts? "." rt with
    | some rest => if rest.isEmpty then none else xpuCore kind cls ut ft num fin key mods sh form bt sl sk rest impl
    | none => none
  | _ => none

def step (line : String) : String :=
  let (op, impl) := splitTab line
  match fields op with
  | ["dec", ut, seqt, spec] =>
    match parseU? ut, parseSeq? seqt with
    | some t, some seq =>
      let u := mkUni t []
      let model := decodeKey64 u seq      -- Go's 64-bit `int` (differs from `decodeKey` only at math.MinInt64)
      match expected u seq spec with
      | .error e => s!"{showKey model}\t{impl}\tFAIL generator/parser disagrees with Spec: {e}"
      | .ok none => s!"{showKey model}\t{impl}\t-"
      | .ok (some k) =>
        let v := if showKey k = impl then "ok" else s!"FAIL decoded {impl} but the encoding denotes {showKey k}"
        s!"{showKey model}\t{impl}\t{v}"
    | _, _ => bad
  | ["e2e", ut, seqt, spec] =>
    -- the same sequence injected into a real Vaxis; `none` = Vaxis did not route it to a Key event
    -- (cursor-position report, paste marker, …: routing is C03's)
    match parseU? ut, parseSeq? seqt with
    | some t, some seq =>
      if impl = "none" then "none\tnone\t-" else
      let u := mkUni t []
      let model := decodeKey64 u seq
      match expected u seq spec with
      | .error e => s!"{showKey model}\t{impl}\tFAIL generator/parser disagrees with Spec: {e}"
      | .ok none => s!"{showKey model}\t{impl}\t-"
      | .ok (some k) =>
        let v := if showKey k = impl then "ok" else s!"FAIL Vaxis delivered {impl} but the encoding denotes {showKey k}"
        s!"{showKey model}\t{impl}\t{v}"
    | _, _ => bad
  | ["mat", ut, kt, rt, mt] =>
    match parseU? ut, parseKey? kt, rt.toInt?, mt.toNat? with
    | some t, some k, some r, some m =>
      let u := mkUni t []
      let model := «matches» u k r m
      let want := decide (KeyEnc.matchSpec u k r m)
      let v :=
        if impl = "1" ∧ KeyEnc.strong (KeyEnc.stripLocks k.mods) ≠ KeyEnc.strong (KeyEnc.stripLocks m) then
          "FAIL matched although Ctrl/Alt/Super/Hyper/Meta differ"
        else if impl = b01 want then "ok"
        else s!"FAIL Matches returned {impl} but the documented rules give {b01 want}"
      s!"{b01 model}\t{impl}\t{v}"
    | _, _, _, _ => bad
  | ["mstr", ut, ft, kt, st] =>
    match parseU? ut, parseF? ft, parseKey? kt, sepInts? "." st with
    | some t, some f, some k, some s =>
      let u := mkUni t f
      s!"{b01 (matchString u k s)}\t{impl}\t-"
    | _, _, _, _ => bad
  | ["self", ut, ft, kt] =>
    match parseU? ut, parseF? ft, parseKey? kt with
    | some t, some f, some k =>
      let u := mkUni t f
      let s := keyString u k
      let model := s!"{showStr s}|{b01 (matchString u k s)}"
      let v := if KeyEnc.bindableEvent k then
          (if impl.endsWith "|1" then "ok"
           else
             let cls := if KeyEnc.pressedChord k then "chord" else s!"event type {k.event}"
             s!"FAIL self-match [{cls}]: key {showKey k} does not match its own String() {impl}") else "-"
      s!"{model}\t{impl}\t{v}"
    | _, _, _ => bad
  | ["str", ut, kt] =>
    match parseU? ut, parseKey? kt with
    | some t, some k =>
      let u := mkUni t []
      s!"{showStr (keyString u k)}\t{impl}\t-"
    | _, _ => bad
  | ["xp", ut, ft, num, fin, key, mods, sh, form, bt, sl, sk] =>
    match parseU? ut, parseF? ft, parseSeq? sl, parseSeq? sk, parseBinds? bt,
          num.toInt?, fin.toInt?, key.toInt?, mods.toNat?, sh.toInt?, form.toNat? with
    | some t, some f, some seqL, some seqK, some binds, some num, some fin, some key, some mods, some sh, some form =>
      let u := mkUni t f
      let kl := decodeKey u seqL
      let kk := decodeKey u seqK
      let bits (k : Key) : String := String.join (binds.map fun (r, m) => b01 («matches» u k r m))
      let model := s!"{showStr (keyString u kl)}|{showStr (keyString u kk)}|{bits kl}|{bits kk}"
      let c : KeyEnc.Chord := { key, mods, shifted := sh }
      let fm : KeyEnc.Form := { withShifted := bit form 0, withBase := bit form 1, withMods := bit form 2,
                                withEvent := bit form 3, withText := bit form 4 }
      let okKey := lookup2 (num, fin) KeyEnc.functional = some key ∨
          (lookup2 (num, fin) KeyEnc.functional = none ∧ fin = 117 ∧ num = key ∧ validRune key = true)
      let v :=
        if !decide okKey then "FAIL generator: (number, final) does not denote that key in the Spec table"
        else if KeyEnc.kittySeq num fin c fm ≠ seqK then "FAIL generator/parser: kitty sequence differs from Spec.kittySeq"
        else if KeyEnc.xtermLegacy key mods sh false ≠ some seqL ∧ KeyEnc.xtermLegacy key mods sh true ≠ some seqL then
          "FAIL generator/parser: legacy sequence differs from Spec.xtermLegacy"
        else match impl.splitOn "|" with
        | [a, b, c, d] =>
          if a ≠ b then s!"FAIL String() differs between the legacy and the kitty report: {a} vs {b}"
          else if c ≠ d then
            let idx := (List.zip c.toList d.toList).findIdx (fun (p : Char × Char) => p.1 != p.2)
            match binds[idx]? with
            | some (r, m) => s!"FAIL binding ({r}, mods {m}) matches under one encoding only"
            | none => "FAIL bindings differ"
          else "ok"
        | _ => "FAIL malformed impl"
      s!"{model}\t{impl}\t{v}"
    | _, _, _, _, _, _, _, _, _, _, _ => bad
  | op => (stepUni op impl).getD bad

/-! ### Structural tie: the bodies extracted from key.go on this run

`Model/KeyBody.lean` interprets the bodies of `decodeKey`, `Key.Matches`, `Key.MatchString` and
`Key.String` as the extractor regenerated them (`Gen/KeyBody.lean`).  On every case the driver
also runs those and requires the results of the hand-written model (about which the theorems are
stated; `Props/C09Body.lean` proves the two coincide): a difference — or a shape the interpreter
has no meaning for — poisons the model column, so it is reported as broken correspondence. -/

open VaxisModel.Model.KeyBody in
def genAgrees (line : String) : Bool :=
  let (op, _) := splitTab line
  let decOK (u : Uni) (s : Seq) : Bool :=
    -- the interpreted body computes over ℤ like the hand model: compare them on the int64-adjusted sequence
    let s64 : Seq := match s with
      | .csi params fin => .csi (int64Params params) fin
      | s => s
    decodeKeyGen u s64 == some (decodeKey u s64)
  let strOK (u : Uni) (k : Key) : Bool := keyStringGen u k == some (keyString u k)
  let matOK (u : Uni) (k : Key) (r : Int) (m : Nat) : Bool := matchesGen u k r m == some («matches» u k r m)
  let mstrOK (u : Uni) (k : Key) (s : Str) : Bool := matchStringGen u k s == some (matchString u k s)
  let xpOK (ut ft sl sk bt : String) : Bool :=
    match parseU? ut, parseF? ft, parseSeq? sl, parseSeq? sk, parseBinds? bt with
    | some t, some f, some seqL, some seqK, some binds =>
      let u := mkUni t f
      let kl := decodeKey u seqL
      let kk := decodeKey u seqK
      decOK u seqL && decOK u seqK && strOK u kl && strOK u kk &&
        binds.all fun (r, m) => matOK u kl r m && matOK u kk r m
    | _, _, _, _, _ => true
  match fields op with
  | ["dec", ut, seqt, _] | ["e2e", ut, seqt, _] =>
    (match parseU? ut, parseSeq? seqt with
     | some t, some seq => decOK (mkUni t []) seq
     | _, _ => true)
  | ["mat", ut, kt, rt, mt] =>
    (match parseU? ut, parseKey? kt, rt.toInt?, mt.toNat? with
     | some t, some k, some r, some m => matOK (mkUni t []) k r m
     | _, _, _, _ => true)
  | ["mstr", ut, ft, kt, st] =>
    (match parseU? ut, parseF? ft, parseKey? kt, sepInts? "." st with
     | some t, some f, some k, some s => mstrOK (mkUni t f) k s
     | _, _, _, _ => true)
  | ["self", ut, ft, kt] =>
    (match parseU? ut, parseF? ft, parseKey? kt with
     | some t, some f, some k => let u := mkUni t f; strOK u k && mstrOK u k (keyString u k)
     | _, _, _ => true)
  | ["str", ut, kt] =>
    (match parseU? ut, parseKey? kt with
     | some t, some k => strOK (mkUni t []) k
     | _, _ => true)
  | ["xp", ut, ft, _, _, _, _, _, _, bt, sl, sk] => xpOK ut ft sl sk bt
  | ["xpu", _, _, ut, ft, _, _, _, _, _, _, bt, sl, sk] => xpOK ut ft sl sk bt
  | ["xpg", _, _, ut, ft, _, _, _, _, _, _, _, bt, sl, sk] => xpOK ut ft sl sk bt
  | _ => true

def stepTied (line : String) : String :=
  let out := step line
  if genAgrees line then out else "extracted-body≠model|" ++ out

def main : IO Unit := lineLoop stepTied

end VaxisModel.Driver.C09
