import VaxisModel.Driver.Common
import VaxisModel.Model.Conc
import VaxisModel.Model.ConcSession
import VaxisModel.Gen.Conc
import VaxisModel.Model.ConcProtect

/-! Driver for C10.  One op line per case:
```
post seed=… posters=… m=… q=… keys=…  ⇥ posters=<b> close=<b> panic="…" leak=<n> plans=<p0,p1,…> recv=<g.i,…>
suspend …                              ⇥ <ok|suspend-hang|…> posters=<b> close=<b> panic="…" leak=<n>
fullclose … | sigclose … | dblclose …  ⇥ <outcome> … leak=<n>
race <group>                           ⇥ races=<n> …
sigblocked seed=… keys=k               ⇥ queued=… blocked=… pending=… closed-before-receive=… after-receive=quit-ok leak=0
contract seed=… ops=CRC|SRRC …         ⇥ as cycles (Resume's precondition violated: witness, verdict `-`)
lostkey seed=… variant=v               ⇥ ctl=<keys> got=<keys> pos=r,c seq=<hex>   (keys shaped like a cursor-position report around a query given up / answered / absent)
cycles seed=… ops=SRSRC gate=g keys=k q=…  ⇥ S:ret,done R S:ret,done … (one observation per call of the main goroutine)
```
model-canon: what the LTS of `Model/Conc.lean` allows (shutdown completes and nothing is left when the
application keeps consuming or not, whoever closes: F13, F33 and F53 are repaired);
verdict: the property oracle on the implementation's trace — per-poster FIFO, no duplicate, nothing
invented, blocking posts never dropped (the queue LTS's trace conditions), Close/Suspend within the
bound, no library goroutine left, no data race reported. -/
namespace VaxisModel.Driver.C10
open VaxisModel.Driver VaxisModel.Model.Conc

def kv (f : List String) (k : String) : Option String :=
  f.findSome? fun x => if x.startsWith (k ++ "=") then some ((x.drop (k.length + 1)).toString) else none

def parseRecv (s : String) : Option (List (Nat × Nat)) :=
  if s = "-" ∨ s = "" then some [] else
    (s.splitOn ",").mapM fun x =>
      match x.splitOn "." with
      | [g, i] => do pure ((← g.toNat?), (← i.toNat?))
      | _ => none

/-- Replay the received events on the queue LTS as far as the observation allows: every received
event must be the next not-yet-delivered attempt of its poster that was accepted. Returns the
first violation. -/
def checkTrace (plans : List (List Char)) (recv : List (Nat × Nat)) (allPosted : Bool) (noDropPossible : Bool) : Option String :=
  let rec go (recv : List (Nat × Nat)) (last : List (Nat × Nat)) (seen : List (Nat × Nat)) : Option String :=
    match recv with
    | [] => none
    | (g, i) :: rest =>
      match plans[g]? with
      | none => some s!"received an event of unknown poster {g}"
      | some plan =>
        match plan[i]? with
        | none => some s!"received {g}.{i}, which was never posted"
        | some k =>
          if k != 'n' && k != 'b' then some s!"received {g}.{i}, which was not a tagged post"
          else if seen.contains (g, i) then some s!"event {g}.{i} delivered twice"
          else match last.lookup g with
            | some j => if i ≤ j then some s!"poster {g}: event {i} delivered after event {j}" else go rest ((g, i) :: last) ((g, i) :: seen)
            | none => go rest ((g, i) :: last) ((g, i) :: seen)
  match go recv [] [] with
  | some v => some v
  | none =>
    if !allPosted then none else
    -- blocking posts never dropped; and with a queue that cannot fill, nothing dropped at all
    let missing := (plans.zipIdx.flatMap fun (plan, g) =>
      plan.zipIdx.filterMap fun (k, i) =>
        if (k == 'b' || (noDropPossible && k == 'n')) && !recv.contains (g, i) then some (g, i, k) else none)
    match missing with
    | [] => none
    | (g, i, k) :: _ => some (if k == 'b' then s!"blocking post {g}.{i} was never delivered" else s!"post {g}.{i} was dropped although the queue cannot have been full")

def step (line : String) : String :=
  let (op, impl) := splitTab line
  let f := fields op
  let fi := fields impl
  match f with
  | "#case" :: _ => "-\t-\t-"
  | "post" :: rest =>
    let posters := kv fi "posters"; let close := kv fi "close"; let leak := kv fi "leak"; let panic := kv fi "panic"
    let queries := kv fi "queries"
    let ic := s!"posters={posters.getD "?"} queries={queries.getD "?"} close={close.getD "?"} leak={leak.getD "?"}"
    let mc := "posters=true queries=true close=true leak=0"
    let plans : List (List Char) := (((kv fi "plans").getD "").splitOn ",").map String.toList
    let verdict :=
      match parseRecv ((kv fi "recv").getD "-") with
      | none => "FAIL malformed trace"
      | some recv =>
        let q := ((kv rest "q").bind String.toNat?).getD 0
        let total := plans.foldl (fun (a : Nat) (p : List Char) => a + p.length) 0 + ((kv rest "keys").bind String.toNat?).getD 0 + 44
        match checkTrace plans recv (posters == some "true") (q == 0 && total < 1024) with
        | some v => s!"FAIL {v}"
        | none =>
          if posters != some "true" then "FAIL a poster did not finish (deadlock while posting)"
          else if queries != some "true" then "FAIL a terminal query (CursorPosition / ClipboardPop) did not return: a requester or the input goroutine is blocked on a hand-off channel"
          else if panic != some "\"\"" then s!"FAIL Close panicked: {panic.getD ""}"
          else if close != some "true" then "FAIL Close did not return within the bound"
          else if leak != some "0" then s!"FAIL {leak.getD "?"} library goroutine(s) left after Close"
          else "ok"
    s!"{mc}\t{ic}\t{verdict}"
  | "suspend" :: _ =>
    let out := fi.headD "?"
    let posters := kv fi "posters"; let close := kv fi "close"; let leak := kv fi "leak"; let panic := kv fi "panic"
    let ic := s!"{out} posters={posters.getD "?"} close={close.getD "?"} leak={leak.getD "?"}"
    let mc := "ok posters=true close=true leak=0"
    let verdict :=
      if out != "ok" then s!"FAIL {out}: Suspend/Resume did not complete within the bound"
      else if posters != some "true" then "FAIL a poster did not finish"
      else if panic != some "\"\"" then s!"FAIL Close panicked: {panic.getD ""}"
      else if close != some "true" then "FAIL Close did not return within the bound"
      else if leak != some "0" then s!"FAIL {leak.getD "?"} library goroutine(s) left after Suspend/Resume cycles and Close"
      else "ok"
    s!"{mc}\t{ic}\t{verdict}"
  | "cycles" :: rest =>
    -- a session that could not be set up (the input goroutine never reached its blocking post within
    -- the failure time-out) is not judged
    if impl == "incomplete" then "-\t-\t-" else
    -- the session run on the shutdown LTS, configured from the source facts (statement order of
    -- Suspend, Resume clearing `suspended`), under the scheduling policy the gate stands for
    let ops := ((kv rest "ops").getD "").toList
    let gate := ((kv rest "gate").bind String.toNat?).getD 0
    let keys := ((kv rest "keys").bind String.toNat?).getD 0
    let q := ((kv rest "q").bind String.toNat?).getD 0
    let nocons := (kv rest "nocons") == some "1"
    let s0 : SSys := { qcap := if q == 0 then 1024 else q, queueLen := 1, consumer := !nocons, inbuf := List.replicate keys (some 1),
                       da1First := da1FirstOf Gen.Conc.skeleton_Suspend, resumeClears := resumeClearsOf Gen.Conc.skeleton_Resume,
                       waitDrains := waitDrainsOf Gen.Conc.shape_Parser_WaitClose, postQuitArm := postQuitArmOf Gen.Conc.shape_PostEventBlocking }
    let pol : Policy := if gate == 1 then .libFirst else .callerFirst
    let mc := " ".intercalate (session pol (400 + 40 * keys) s0 ops)
    -- the oracle (independent of the model): every Suspend and every Close returns and leaves no
    -- parser / input goroutine behind; every Resume succeeds
    -- (without a consumer and with a full queue an input goroutine blocked in a post legitimately
    -- outlives Suspend — the application's next receive releases it —, never Close)
    let bad := fi.find? fun o => !(o == "R" || o == "S:ret,done" || o == "C:ret,done" || (nocons && o == "S:ret,alive"))
    let verdict := match bad with
      | some o =>
        if o.endsWith "hang,alive" then s!"FAIL {if o.startsWith "S" then "Suspend" else "Close"} did not return within the bound ({o}, session {String.ofList ops} gate {gate})"
        else if o.endsWith "ret,alive" then s!"FAIL the parser / input goroutine started by the library is still alive after {if o.startsWith "S" then "Suspend" else "Close"} returned ({o}, session {String.ofList ops})"
        else s!"FAIL {o} (session {String.ofList ops})"
      | none => if fi.length == ops.length then "ok" else s!"FAIL session {String.ofList ops} stopped early: {impl}"
    s!"{mc}\t{impl}\t{verdict}"
  | "forced" :: rest =>
    -- the trace of yield points replayed label by label on the shutdown LTS; then the model's
    -- prediction of the outcome from the state the trace leads to
    let kind := (kv rest "kind").getD "?"
    let q := ((kv rest "q").bind String.toNat?).getD 0
    let qcap := if q == 0 then 1024 else q
    let full := kind == "full"
    let s0 : SSys := { qcap := qcap, queueLen := if full then qcap else 0, consumer := !full,
                       da1First := da1FirstOf Gen.Conc.skeleton_Suspend, resumeClears := resumeClearsOf Gen.Conc.skeleton_Resume,
                       waitDrains := waitDrainsOf Gen.Conc.shape_Parser_WaitClose, postQuitArm := postQuitArmOf Gen.Conc.shape_PostEventBlocking }
    let out := (kv fi "out").getD "?"
    let tr := ((kv fi "trace").getD "-")
    let items := if tr == "-" then [] else tr.splitOn ","
    let (conf, pred) := match replayTrace { s := s0 } items with
      | .error e => (s!"conf=FAILED({e.replace " " "_"})", "?")
      | .ok r =>
        let sEnd := runToRest .libFirst 600 r.s
        ("conf=ok", if allReturned sEnd && goroutinesDone sEnd && !sEnd.panicked then "ok" else "hang")
    -- the LTS's `checkFlag` step is the test-and-set of `vx.closed` inside ONE critical section of closeMu; that
    -- is a fact of the source (`closeGuardedOf skeleton_Close`, theorem close_guarded).  Without it two
    -- overlapping Close calls both get past the check and `close(chQuit)` runs twice: the model then predicts the panic
    let guarded := closeGuardedOf Gen.Conc.skeleton_Close
    let pred := if kind == "dbl" && !guarded then "panic" else pred
    let conf := if kind == "dbl" && !guarded then "conf=ok" else conf
    let verdict :=
      if out == "ok" then "ok"
      else if out == "panic" then s!"FAIL forced schedule {kind}: Close panicked (two overlapping Close calls both got past the closed check: close of closed channel)"
      else if out == "leak" then s!"FAIL forced schedule {kind}: a library goroutine is left after Close returned"
      else if kind == "sig" then s!"FAIL Close from the input goroutine's signal arm never completes with sequences pending (forced schedule, {out})"
      else if kind == "full" then s!"FAIL Close never returns while the event queue is full and input is pending (forced schedule, {out})"
      else s!"FAIL forced schedule {kind}: {out}"
    s!"out={pred} conf=ok\tout={out} {conf}\t{verdict}"
  | "fullclose" :: _ =>
    -- F53 repaired: the LTS has no stuck state any more (shutdown_completes has no hypothesis on the
    -- queue or the consumer): Close returns and nothing is left
    let out := fi.headD "?"
    let leak := (kv fi "leak").getD "?"
    let verdict :=
      if out != "close-ok" then s!"FAIL Close never returns while the event queue is full and input is pending ({out})"
      else if leak != "0" then s!"FAIL {leak} library goroutine(s) left after Close with a full queue (the input goroutine stays blocked in PostEventBlocking)"
      else "ok"
    s!"close-ok leak=0\t{out} leak={leak}\t{verdict}"
  | "sigclose" :: _ =>
    -- F13 repaired: Close on the input goroutine completes whatever is pending
    let out := fi.headD "?"
    let leak := (kv fi "leak").getD "?"
    let verdict :=
      if out != "quit-ok" then s!"FAIL Close from the input goroutine's signal arm never completes with sequences pending ({out})"
      else if leak != "0" then s!"FAIL {leak} library goroutine(s) left after Close from the signal arm"
      else "ok"
    s!"quit-ok leak=0\t{out} leak={leak}\t{verdict}"
  | "sigsuspend" :: _ =>
    -- the application's Suspend concurrent with Close from the kill-signal arm (F210 repaired: the LTS
    -- has both callers at once, Suspend's critical section under `suspLock`; every run completes)
    -- `ok-unserved`: the signal arrived after the input goroutine had left its select; nobody serves it
    -- (a state of rest of the LTS: `killSig` pending, `ipc = done`), Suspend returned: same canonical value
    let out := if fi.headD "?" == "ok-unserved" then "ok" else fi.headD "?"
    let leak := (kv fi "leak").getD "?"
    let verdict :=
      if out == "suspend-hang" then "FAIL Suspend concurrent with a Close from the kill-signal arm never returns"
      else if out == "quit-hang" then "FAIL Close from the kill-signal arm concurrent with Suspend never completes"
      else if out != "ok" then s!"FAIL Suspend concurrent with a Close from the kill-signal arm: {impl}"
      else if leak != "0" then s!"FAIL {leak} library goroutine(s) left after Suspend concurrent with Close"
      else "ok"
    s!"ok leak=0\t{out} leak={leak}\t{verdict}"
  | "sigblocked" :: rest =>
    -- a kill signal while the input goroutine is blocked posting to a full queue nobody receives from:
    -- on the LTS the state is at rest with the signal pending (the kill arm belongs to the `select`);
    -- one `consume` later every maximal run ends final (Props.C10Resume.kill_signal_waits_for_the_consumer)
    if impl == "incomplete" then "-\t-\t-" else
    let keys := ((kv rest "keys").bind String.toNat?).getD 1
    let s0 : SSys := { qcap := 1, queueLen := 1, consumer := false, inbuf := List.replicate keys (some 1),
                       da1First := da1FirstOf Gen.Conc.skeleton_Suspend, resumeClears := resumeClearsOf Gen.Conc.skeleton_Resume,
                       waitDrains := waitDrainsOf Gen.Conc.shape_Parser_WaitClose, postQuitArm := postQuitArmOf Gen.Conc.shape_PostEventBlocking }
    let s1 := runToRest .libFirst 200 s0
    let s2 := match snext s1 .signal with | some x => runToRest .libFirst 200 x | none => s1
    let blocked := match s2.ipc with | .posting _ => 1 | _ => 0
    let s3 := runToRest .libFirst 600 { s2 with consumer := true }
    let mc := s!"blocked={blocked} pending={if s2.killSig then 1 else 0} closed-before-receive={if s2.quitCloses > 0 then 1 else 0} after-receive={if s3.final && s3.quitCloses == 1 then "quit-ok" else "quit-hang"} leak=0"
    let g := fun k => (kv fi k).getD "?"
    let ic := s!"blocked={g "blocked"} pending={g "pending"} closed-before-receive={g "closed-before-receive"} after-receive={g "after-receive"} leak={g "leak"}"
    let verdict :=
      if g "after-receive" != "quit-ok" then s!"FAIL a kill signal that arrived while the input goroutine was blocked in a post is never served although the application receives again ({impl})"
      else if g "leak" != "0" then s!"FAIL {g "leak"} library goroutine(s) left after the kill-signal Close"
      else "ok"
    s!"{mc}\t{ic}\t{verdict}"
  | "contract" :: rest =>
    -- witness of what happens when the precondition of Resume is violated (Props.C10Resume): not judged.
    -- Resume after Close is a transition of the LTS (the prediction is compared); Resume while the parser
    -- of the running session has not stopped is not (`unmodelled`: resume_needs_stopped_parser)
    let ops := ((kv rest "ops").getD "").toList
    let keys := ((kv rest "keys").bind String.toNat?).getD 0
    let s0 : SSys := { inbuf := List.replicate keys (some 1),
                       da1First := da1FirstOf Gen.Conc.skeleton_Suspend, resumeClears := resumeClearsOf Gen.Conc.skeleton_Resume,
                       waitDrains := waitDrainsOf Gen.Conc.shape_Parser_WaitClose, postQuitArm := postQuitArmOf Gen.Conc.shape_PostEventBlocking }
    let pred := session .callerFirst (400 + 40 * keys) s0 ops
    if pred.contains "unmodelled" then s!"outside-contract\toutside-contract\t-"
    else s!"{" ".intercalate pred}\t{impl}\t-"
  | "lostkey" :: _ =>
    -- "no lost events" for terminal input around a cursor-position query that was given up / answered /
    -- never issued: the input goroutine's `deliver` label of `USys` hands a reply to a requester only
    -- while a request is open and otherwise posts the sequence (C10Use.no_lost_event_all_actors); the
    -- control run (same input, no query) is the reference
    if impl == "incomplete" then "-\t-\t-" else
    let ctl := (kv fi "ctl").getD "?"; let got := (kv fi "got").getD "?"
    let verdict :=
      if ctl == "?" || ctl == "-" || ctl == "error-new" then "FAIL lostkey: the control run delivered nothing"
      else if got == ctl then "ok"
      else s!"FAIL a key event sent by the terminal was lost or altered after a cursor-position query (delivered {got}; the same input without a pending query delivers {ctl})"
    s!"delivered={ctl}\tdelivered={got}\t{verdict}"
  | "dblclose" :: _ =>
    let out := fi.headD "?"
    let verdict := if out == "close-ok" then "ok" else s!"FAIL concurrent Close calls: {out}"
    s!"close-*\tclose-*\t{verdict}"
  | "race" :: g =>
    let grp := g.headD "all"
    -- group sigrender (kill signal while the main goroutine renders): the regenerated access facts say
    -- whether the writer's buffer is written by both goroutines without a common mutex (Witness.F410);
    -- if so a report is possible and the model does not predict `races=0`
    if grp == "sigrender" && VaxisModel.Model.ConcProtect.racyPair Gen.Conc.funcRoles Gen.Conc.fieldAccesses "writer.buf" "main" "input" then
      if impl.startsWith "races=0" then s!"races=0\traces=0\tok"
      else if impl.startsWith "races=" then s!"races>0\traces>0\tFAIL data race reported by the race detector in group {grp}: {impl}"
      else if impl.startsWith "race-unavailable" || impl.startsWith "race-skipped" then s!"{impl}\t{impl}\t-"
      else s!"races>0\t{impl}\tFAIL race run failed: {impl}"
    else
    if impl.startsWith "races=0" then s!"races=0\traces=0\tok"
    else if impl.startsWith "race-unavailable" || impl.startsWith "race-skipped" then s!"{impl}\t{impl}\t-"
    else if impl.startsWith "races=" then s!"races=0\t{(fi.headD "")}\tFAIL data race reported by the race detector in group {grp}: {impl}"
    else s!"races=0\t{impl}\tFAIL race run failed: {impl}"
  | _ => "bad-op\tbad-op\tbad-op"

def main : IO Unit := lineLoop step

end VaxisModel.Driver.C10
