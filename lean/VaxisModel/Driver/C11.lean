import VaxisModel.Driver.Common
import VaxisModel.Model.Window
import VaxisModel.Spec.Window
import VaxisModel.Model.App

/-! Driver for C11.  One case per line (stateless):

  `<kind> <uc><ew> <sw>x<sh> <chain> <args> <lib> <ann> <hex>\t<impl>`

* kind: setcell setstyle fill clear print trunc println wrap chars
* `<uc><ew>`: capability bits unicodeCore, explicitWidth (e.g. `01`)
* chain: root first, `/`-separated; `Rc,r,w,h` root struct literal, `Nc,r,w,h` = parent.New(c,r,w,h),
  `Dc,r,w,h` = struct literal with a Parent pointer
* args: setcell `c,r,g,w,st` · setstyle `c,r,st` · fill `g,w,st` · trunc/println `row` · others `-`
* lib: `g:cw:nl:tb,...`  (characterWidth / contains-newline / trailing-line-break per grapheme id)
* ann: segments `|`-separated: `st;lineseg/lineseg/...`, lineseg = `g.uw.tab,...`
  (print family: one line segment per Segment = the clusters of the whole text)
* hex: the texts (for replay; ignored here)

impl / model canon: `geoms;ox,oy;ret;cells` — geometry of every window root first, Origin() of the
leaf, returned (col,row) or `-`, changed cells `x,y,g,w,st` in (y,x) order.  For `chars`:
the `g.w` list `Characters` returns.

The verdict is the C11 oracle on the implementation's result alone: containment in the clip region
computed from the implementation's own geometries, placement = origin + offset, and for the text
helpers the reading-order layout of `Spec.Window` with display width = characterWidth. -/
namespace VaxisModel.Driver.C11
open VaxisModel.Driver VaxisModel.Model.Window

def sentinel : Cell := { g := 9, w := 1, st := 255 }

def ints? (s : String) : Option (List Int) := (s.splitOn ",").mapM (·.toInt?)

inductive Step where
  | r (c r w h : Int) | n (c r w h : Int) | d (c r w h : Int)

def parseStep? (s : String) : Option Step :=
  match s.toList with
  | k :: rest =>
    match ints? (String.ofList rest) with
    | some [a, b, c, d] =>
        if k = 'R' then some (.r a b c d) else if k = 'N' then some (.n a b c d)
        else if k = 'D' then some (.d a b c d) else none
    | _ => none
  | [] => none

/-- Build the window chain with the model's constructors; returns every window, root first. -/
def buildChain : List Step → Option (List Win)
  | .r a b c d :: rest =>
      let rec go (cur : Win) (acc : List Win) : List Step → Option (List Win)
        | [] => some acc.reverse
        | .n a b c d :: rest => let w := cur.new a b c d; go w (w :: acc) rest
        | .d a b c d :: rest => let w := cur.direct a b c d; go w (w :: acc) rest
        | .r .. :: _ => none
      go (.root a b c d) [.root a b c d] rest
  | _ => none

def geomStr (w : Win) : String := s!"{w.col},{w.row},{w.width},{w.height}"

/-- Rebuild a chain from reported geometries (root first) without any clamping. -/
def chainOfGeoms : List (List Int) → Option Win
  | [a, b, c, d] :: rest =>
      let rec go (cur : Win) : List (List Int) → Option Win
        | [] => some cur
        | [a, b, c, d] :: rest => go (.child a b c d cur) rest
        | _ => none
      go (.root a b c d) rest
  | _ => none

def parseLibEnt? (e : String) : Option (Nat × Int × Bool × Bool) :=
  match (e.splitOn ":").map (·.toInt?) with
  | [some g, some cw, some nl, some tb] => some (g.toNat, cw, nl != 0, tb != 0)
  | _ => none

def parseLib (s : String) : Option Lib :=
  match (if s = "-" then some [] else (s.splitOn ",").mapM parseLibEnt?) with
  | none => none
  | some ents =>
    let find (g : Nat) := ents.find? (·.1 = g)
    some { cw := fun g => match find g with | some e => e.2.1 | none => 1
           hasNL := fun g => match find g with | some e => e.2.2.1 | none => false
           trailBrk := fun g => match find g with | some e => e.2.2.2 | none => false }

def parseRaw? (s : String) : Option Raw :=
  match (s.splitOn ".").map (·.toInt?) with
  | [some g, some uw, some t] => some { g := g.toNat, uw := uw, tab := t != 0 }
  | _ => none

def parseLineSeg? (s : String) : Option (List Raw) :=
  if s = "" then some [] else (s.splitOn ",").mapM parseRaw?

/-- `st;ls/ls/...` → (st, line segments). -/
def parseSeg? (s : String) : Option (Nat × List (List Raw)) :=
  match s.splitOn ";" with
  | [st, body] => do
      let st ← st.toNat?
      let lss ← if body = "" then some [] else (body.splitOn "/").mapM parseLineSeg?
      some (st, lss)
  | _ => none

def parseAnn? (s : String) : Option (List (Nat × List (List Raw))) :=
  if s = "-" then some [] else (s.splitOn "|").mapM parseSeg?

def cellStr (x y : Int) (c : Cell) : String := s!"{x},{y},{c.g},{c.w},{c.st}"

/-- Changed cells of the model screen relative to the all-sentinel start, (y,x) order. -/
def diffCells (s : Screen) : List (Int × Int × Cell) :=
  (upTo s.rows).flatMap fun y => (upTo s.cols).filterMap fun x =>
    match s.get x y with
    | some c => if c = sentinel then none else some (x, y, c)
    | none => none

def cellsStr (l : List (Int × Int × Cell)) : String :=
  if l.isEmpty then "-" else " ".intercalate (l.map fun (x, y, c) => cellStr x y c)

def retStr : Option (Int × Int) → String
  | none => "-"
  | some (c, r) => s!"{c},{r}"

def startScreen (sw sh : Int) : Screen :=
  { cols := sw, rows := sh, buf := List.replicate sh.toNat (List.replicate sw.toNat sentinel) }

/-- Spec items: display width = characterWidth; a TAB is eight blanks. -/
def items (lib : Lib) (brk : Nat → Bool) (st : Nat) (raws : List Raw) : List Spec.Window.Item :=
  raws.flatMap fun r =>
    if r.tab then List.replicate 8 { g := gSpace, w := 1, brk := false, st := st }
    else [{ g := r.g, w := lib.cw r.g, brk := brk r.g, st := st }]

structure Parsed where
  kind : String
  uc : Bool
  ew : Bool
  sw : Int
  sh : Int
  wins : List Win
  args : List Int
  lib : Lib
  ann : List (Nat × List (List Raw))
  whole : List (List (Nat × String)) := []   -- wrap: per Segment, the clusters of the whole text (id, hex)

def parseOp? (op : String) : Option Parsed := do
  match fields op with
  | kind :: caps :: dims :: chain :: args :: lib :: ann :: tail =>
      let (uc, ew) ← match caps.toList with
        | [a, b] => some (a == '1', b == '1')
        | _ => none
      let (sw, sh) ← match (dims.splitOn "x").map (·.toInt?) with
        | [some a, some b] => some (a, b)
        | _ => none
      let steps ← (chain.splitOn "/").mapM parseStep?
      let wins ← buildChain steps
      let args ← if args = "-" then some [] else ints? args
      let lib ← parseLib lib
      let ann ← parseAnn? ann
      let whole : List (List (Nat × String)) := match tail with
        | [_, w] => (w.splitOn "|").map fun sg =>
            if sg = "-" then [] else (sg.splitOn ",").filterMap fun e => match e.splitOn ":" with
              | [i, h] => i.toNat?.map fun n => (n, h)
              | _ => none
        | _ => []
      some { kind, uc, ew, sw, sh, wins, args, lib, ann, whole }
  | _ => none

def flat1 (ann : List (Nat × List (List Raw))) : List (Nat × List Raw) :=
  ann.map fun (st, lss) => (st, lss.flatten)

/-- The model's result for a parsed op: final screen and returned position. -/
def runModel (p : Parsed) (win : Win) : Option (Screen × Option (Int × Int)) :=
  let s := startScreen p.sw p.sh
  let rm := remeasure p.uc p.ew
  match p.kind, p.args with
  | "setcell", [c, r, g, w, st] => some (win.setCell s c r { g := g.toNat, w := w, st := st.toNat }, none)
  | "setstyle", [c, r, st] => some (win.setStyle s c r st.toNat, none)
  | "fill", [g, w, st] => some (fill win s { g := g.toNat, w := w, st := st.toNat }, none)
  | "clear", [] => some (clear win s, none)
  | "print", [] => let r := print p.lib rm win s (flat1 p.ann); some (r.1, some r.2)
  | "trunc", [row] => some (printTruncate p.lib rm win s row (flat1 p.ann), none)
  | "println", [row] => some (println p.lib rm win s row (flat1 p.ann), none)
  | "wrap", [] => let r := wrap p.lib rm win s p.ann; some (r.1, some r.2)
  | "cursor", [c, r, _] => some (s, some (VaxisModel.Model.App.cursorPos win c r))
  | _, _ => none

/-- What the property requires the changed cells to be, from the implementation's own geometry. -/
def specOps (p : Parsed) (win : Win) : Option (List Op) :=
  let cols := win.width
  match p.kind, p.args with
  | "setcell", [c, r, g, w, st] => some [{ col := c, row := r, cell := { g := g.toNat, w := w, st := st.toNat } }]
  | "setstyle", [c, r, st] => some [{ col := c, row := r, cell := { sentinel with st := st.toNat } }]
  | "fill", [g, w, st] =>
      -- every cell of the window: offsets 0 ≤ c < width, 0 ≤ r < height
      some ((upTo win.height).flatMap fun r => (upTo win.width).map fun c =>
        { col := c, row := r, cell := { g := g.toNat, w := w, st := st.toNat } })
  | "clear", [] =>
      some ((upTo win.height).flatMap fun r => (upTo win.width).map fun c =>
        { col := c, row := r, cell := { g := gSpace, w := 1, st := 0 } })
  | "print", [] =>
      some (Spec.Window.layout cols ((flat1 p.ann).flatMap fun (st, rs) => items p.lib p.lib.hasNL st rs) 0 0).1
  | "trunc", [row] =>
      some (Spec.Window.layoutTrunc cols row ((flat1 p.ann).flatMap fun (st, rs) => items p.lib (fun _ => false) st rs) 0)
  | "println", [row] =>
      some (Spec.Window.layoutLine cols row ((flat1 p.ann).flatMap fun (st, rs) => items p.lib (fun _ => false) st rs) 0)
  | "wrap", [] =>
      some (Spec.Window.layoutWrap cols
        (p.ann.flatMap fun (st, lss) => lss.map fun rs => items p.lib p.lib.trailBrk st rs) 0 0).1
  | _, _ => none

def parseCell? (s : String) : Option (Int × Int × Cell) :=
  match ints? s with
  | some [x, y, g, w, st] => some (x, y, { g := g.toNat, w := w, st := st.toNat })
  | _ => none

structure Impl where
  geoms : List (List Int)
  origin : Int × Int
  ret : String
  cells : List (Int × Int × Cell)

def parseImpl? (s : String) : Option Impl :=
  match s.splitOn ";" with
  | [gs, o, ret, cells] => do
      let geoms ← (gs.splitOn "/").mapM ints?
      let origin ← match ints? o with | some [a, b] => some (a, b) | _ => none
      let cells ← if cells = "-" then some [] else (cells.splitOn " ").mapM parseCell?
      some { geoms, origin, ret, cells }
  | _ => none

def firstDiff (a b : List (Int × Int × Cell)) : String :=
  match a, b with
  | [], [] => "same"
  | (x, y, c) :: _, [] => s!"unexpected change at {cellStr x y c}"
  | [], (x, y, c) :: _ => s!"missing {cellStr x y c}"
  | (x, y, c) :: ra, (x', y', c') :: rb =>
      if (x, y, c) = (x', y', c') then firstDiff ra rb
      else s!"got {cellStr x y c} want {cellStr x' y' c'}"

/-- Observation through the reference terminal after a `Render` (the property's observation point):
    a cluster of display width `W ≥ 2` shown at `(x,y)` also occupies the columns `x+1 … x+W-1`.
    Returns the first displayed wide cluster placed by the op one of whose continuation columns does
    not satisfy `inside`.  Cells shadowed by an earlier wide cluster of the row are not displayed;
    a cluster that does not fit in the rest of the *screen* row is rendered as a blank (C01, F02
    repaired), so it occupies one column. -/
def spill (p : Parsed) (inside : Int → Int → Bool) (s : Screen) (cells : List (Int × Int × Cell)) : Option (Int × Int × Int × Int) :=
  let widthOf (c : Cell) : Int := if c.w = 0 then p.lib.cw c.g else c.w
  let cellAt (x y : Int) : Cell := match cells.find? (fun (x', y', _) => x' = x ∧ y' = y) with
    | some (_, _, c) => c
    | none => sentinel
  let rec scan (y : Int) (xs : List Int) (skip : Nat) : Option (Int × Int × Int × Int) :=
    match xs with
    | [] => none
    | x :: rest =>
      match skip with
      | k + 1 => scan y rest k
      | 0 =>
        let c := cellAt x y
        let w := widthOf c
        if w ≥ 2 ∧ x + w ≤ s.cols then
          let changed := c != sentinel
          match (if changed then (upTo w).find? (fun i => i ≥ 1 ∧ ¬ inside (x + i) y) else none) with
          | some i => some (x, y, w, x + i)
          | none => scan y rest (w.toNat - 1)
        else scan y rest 0
  (upTo s.rows).findSome? fun y => scan y (upTo s.cols) 0

/-- The three readings of "the cluster stays inside":
    * in the window's own rectangle — required of every chain (`Props.C11.print_fits` …; a failure is
      `spill`, the F111 defect, repaired);
    * in the clip region, for a right-nested chain (everything `vx.Window()`/`New` build) — follows
      from the first (`Props.C11.text_extent_clip`; a failure is `spill` too);
    * in the clip region, for a chain with a struct-literal child that reaches beyond its parent's
      right edge — the window accepts a wide cluster on the parent's last column (`spill-literal`,
      known finding F111b). -/
def spillVerdict (p : Parsed) (win : Win) (s : Screen) (cells : List (Int × Int × Cell)) : String :=
  let own := fun (x y : Int) => decide (Spec.Window.inOwnRect win x y)
  let clip := fun (x y : Int) => decide (Spec.Window.visible win s x y)
  match spill p own s cells with
  | some (x, y, w, xo) =>
      s!"FAIL spill {p.kind}: the cluster of width {w} placed at {x},{y} is displayed up to column {xo}, outside the window"
  | none =>
    match spill p clip s cells with
    | some (x, y, w, xo) =>
        if decide (Spec.Window.rightNested win) then
          s!"FAIL spill {p.kind}: the cluster of width {w} placed at {x},{y} is displayed up to column {xo}, outside the clip region"
        else
          s!"FAIL spill-literal {p.kind}: the cluster of width {w} placed at {x},{y} is displayed up to column {xo}, outside an ancestor that the struct-literal window reaches beyond"
    | none => "ok"

/-- "Never splitting a cluster across cells": the clusters `Wrap` takes from its line segments must
    be the clusters of the Segment's text.  Returns the first cluster of a text that Wrap divides. -/
def splitCluster (p : Parsed) : Option (Nat × String) :=
  if p.kind ≠ "wrap" ∨ p.whole.length ≠ p.ann.length then none else
  let rec firstDiff : List Nat → List (Nat × String) → Option String
    | a :: as, (b, h) :: bs => if a = b then firstDiff as bs else some h
    | [], (_, h) :: _ => some h
    | _, [] => none
  ((List.range p.ann.length).zip (p.ann.zip p.whole)).findSome? fun (k, (sg, w)) =>
    (firstDiff (sg.2.flatten.map (·.g)) w).map fun h => (k, h)

def verdict (p : Parsed) (impl : Impl) : String :=
  match chainOfGeoms impl.geoms with
  | none => "FAIL unreadable geometry"
  | some win =>
    let s := startScreen p.sw p.sh
    let o := Spec.Window.absOrigin win
    if impl.origin ≠ o then s!"FAIL Origin() {impl.origin.1},{impl.origin.2} but offsets sum to {o.1},{o.2}"
    else if p.kind = "cursor" then
      -- `Window.ShowCursor(c,r,style)`: the cursor is requested visible at origin + offset in that style
      match p.args with
      | [c, r, st] =>
        let want := s!"{o.1 + c},{o.2 + r},{st},1"
        if ¬ impl.cells.isEmpty then "FAIL ShowCursor changed screen cells"
        else if impl.ret = want then "ok" else s!"FAIL cursor requested {impl.ret}, window origin + offset is {want}"
      | _ => "FAIL bad op"
    else
    match impl.cells.find? (fun (x, y, _) => ¬ Spec.Window.visible win s x y) with
    | some (x, y, _) => s!"FAIL escape {p.kind}: cell {x},{y} changed outside the clip region"
    | none =>
      match specOps p win with
      | none => "FAIL bad op"
      | some ops =>
        let want := Spec.Window.expected win s ops
        if impl.cells ≠ want then s!"FAIL placement {p.kind}: {firstDiff impl.cells want}"
        else if ["print", "wrap", "println", "trunc"].contains p.kind then
          match spillVerdict p win s impl.cells, splitCluster p with
          | "ok", some (k, h) =>
              s!"FAIL split wrap: the cluster {h} of segment {k} is divided among several cells (a line segment ends inside it)"
          | v, _ => v
        else if ["setcell", "fill"].contains p.kind then
          -- the primitives themselves: a wide cell accepted on the last column of the window (or of an
          -- ancestor) is displayed beyond it — `SetCell` looks at the cell's column only (finding F111b)
          match spill p (fun x y => decide (Spec.Window.visible win s x y)) s impl.cells with
          | some (x, y, w, xo) =>
              s!"FAIL spill-primitive {p.kind}: the cell of width {w} placed at {x},{y} is displayed up to column {xo}, outside the clip region"
          | none => "ok"
        else "ok"

def charsStr (l : List Chr) : String :=
  if l.isEmpty then "-" else ",".intercalate (l.map fun c => s!"{c.g}.{c.w}")

def step (line : String) : String :=
  let (op, impl) := splitTab line
  if op.startsWith "#" then "-\t-\t-" else
  match parseOp? op with
  | none => "bad-op\tbad-op\tbad-op"
  | some p =>
    if p.kind = "chars" then
      let m := charsStr (characters ((flat1 p.ann).flatMap (·.2)))
      s!"{m}\t{impl}\t-"
    else
    match p.wins.getLast? with
    | none => "bad-op\tbad-op\tbad-op"
    | some win =>
      match runModel p win with
      | none => "bad-op\tbad-op\tbad-op"
      | some (s', ret) =>
        let o := win.origin
        let rs := match p.kind, p.args, ret with
          | "cursor", [_, _, st], some (x, y) => s!"{x},{y},{st},1"
          | _, _, _ => retStr ret
        let mc := s!"{"/".intercalate (p.wins.map geomStr)};{o.1},{o.2};{rs};{cellsStr (diffCells s')}"
        if impl = "panic" then s!"{mc}\tpanic\tFAIL panic"
        else match parseImpl? impl with
        | none => s!"{mc}\t{impl}\tFAIL unreadable impl result"
        | some i => s!"{mc}\t{impl}\t{verdict p i}"

def main : IO Unit := lineLoop step

end VaxisModel.Driver.C11
