import VaxisModel.Driver.C01
import VaxisModel.Model.C12Compose
import VaxisModel.Model.EmuIO
import VaxisModel.Model.C12Replies
import VaxisModel.Model.C12Read
import VaxisModel.Model.C12Ref

/-! Driver for C12: a Vaxis application rendered into the embedded terminal emulator.
Uses the C01 driver's state for `caps`/`size`/`dict`/`cell`/`showcursor`/`hidecursor` lines, plus:

  emucaps <0|1 = COLORTERM is truecolor> \t <17 detected capability bits (order of C07caps)>
      verdict: nothing is detected that the emulator does not implement, and sixels / unicodeCore (advertised by
               DA1 attribute 4 / DECRPM 2027 = 3 in every state) ARE detected
  emurender <grid> \t <emulator snapshot>
      snapshot = curRow;curCol;curStyle;dectcem|row/row/…  with cells ghex:w:fg:bg:ul:uls:attr:link:params
      verdict: the emulator grid equals the application's screen (under the detected capabilities),
               cursor position / visibility / shape as requested
  emudraw \t <host grid, cells inline in the same format>
      verdict: the cells Draw put into a host window of the same size mean the emulator grid

  emuqstart <w> <h>
      the reply exchange starts: the model emulator is New() + resize(w, h)
  emuquery <op line of Model/EmuIO.lean> \t <hex of the bytes the real emulator replied>
      one sequence Vaxis wrote during start-up. model-canon = the bytes of `Model.C12Replies.replies`
      on the model state, impl-canon = the real reply; then the model emulator executes the sequence.
  emucapsto <0|1> <cpr|da1> \t <17 bits>: the same after a timer of New() fired (one reply withheld)
  emucaps also compares (model-canon / impl-canon): the capability bits `Model.C12Replies.capsFrom`
      derives from the MODELLED replies (C03's model of handleSequence + New()) with the bits the real
      Vaxis detected, and checks that `Model.C12Replies.startupQueries` is what Vaxis really sent
      (the sequences between the alternate-screen prelude and DA1).
  emuadopt \t <full emulator snapshot, format of Model/EmuIO.lean>
      the model emulator continues from the implementation's state (after start-up and after a resize)
  emustate \t <full emulator snapshot>
      model-canon vs impl-canon: THE COMPOSITION OF THE MODELS — the renderer model's tokens for the
      frame just rendered (`renderFrameC`), through the wire `Model.C12Compose.opsOfToksM` (= `opsOfToks`
      plus the parser's clustering of consecutive text, pairs declared by `merges a b cluster` lines), run by the
      emulator model (`runOps`) from the previous state — against the real emulator's full state after
      the real renderer's bytes went through the real parser (`=` when every snapshot token agrees).

      verdict: THE READ-BACK EQUATIONS of `Props/C12Read.lean` evaluated on the real emulator's state:
      `Model.C12Read.readScreen encHex e.active` = the application's screen (`expectedC`) and
      `readCursor e` = the requested cursor.
  emuresize <w> <h> \t <full emulator snapshot after the host resized the emulator>
      model-canon vs impl-canon: the emulator MODEL's `resize(w, h)` from its state against the real
      emulator's state (directly or through `Draw` into a window of another size); the model continues
      from the implementation's state. verdict: the resize left the pen, the cursor visibility and shape
      as they were and (application on the alternate screen) the active screen blank — the start state
      of the next segment of `Props/C12Resize.lean`.

For emurender/emudraw/emucaps model-canon and impl-canon are both the oracle's summary. -/
namespace VaxisModel.Driver.C12
open VaxisModel.Driver VaxisModel.Model.Render VaxisModel.Spec VaxisModel.Spec.Display

structure St where
  base : C01.St := {}
  emu : List (List DCell) := []
  dead : Bool := false
  /-- the emulator MODEL's state (composition stream) -/
  emuM : Option VaxisModel.Model.Emu.Emu := none
  /-- the emulator model panicked / has no state: later frames of the case are not compared -/
  emuDead : Bool := false
  /-- reply exchange: model emulator, sequences seen so far (newest first), modelled replies (in order) -/
  qEmu : Option VaxisModel.Model.Emu.Emu := none
  qOps : List VaxisModel.Model.Emu.EOp := []
  qReplies : List VaxisModel.Model.Input.Seq := []
  /-- reply exchange: the background colour the attached host reports (`replies`' `hostBg`) -/
  qBg : Option (Nat × Nat × Nat) := none
  /-- grapheme pairs the emulator's parser merges when written back to back: (a, b, the cluster) -/
  merges : List (String × String × String) := []
  /-- the application's screen and cursor of the frame just rendered (for the read-back verdict) -/
  want : Option (List (List DCell) × Option (Int × Int × Int)) := none
  /-- the reference terminal of C06 (`Spec.Term`) run next to the emulator on the renderer model's tokens
      (`Props/C12Bridge.emu_and_term_show`); `trefLost`: a step was not accepted with exactly one state -/
  tref : Option VaxisModel.Spec.Term.T := none
  trefLost : Bool := false
  deriving Inhabited

def C05diff (m i : String) : String × String :=
  if m = i then ("=", "=") else
  let mt := fields m
  let it := fields i
  if mt.length ≠ it.length then (m, i) else
  let d := (mt.zip it).filter (fun p => p.1 ≠ p.2)
  (" ".intercalate (d.map (·.1)), " ".intercalate (d.map (·.2)))

def decHex (g : String) : List Nat := (hexBytes? g).getD []

/-- bytes → the renderer model's opaque (hex) string; inverse of `decHex` on lower-case hex. -/
def encHex (g : List Nat) : String := if g.isEmpty then "" else hexOfBytes g

/-- What `resize()` must leave alone / establish for an application on the alternate screen. -/
def resizeVerdict (before after : VaxisModel.Model.Emu.Emu) : String :=
  if after.cur.st ≠ before.cur.st then "FAIL resize changed the pen"
  else if after.mode.dectcem ≠ before.mode.dectcem ∨ after.cur.shape ≠ before.cur.shape then "FAIL resize changed the cursor visibility or shape"
  else if before.mode.smcup ∧ !(after.active.all fun r => r.all fun c => c.g.isEmpty && c.w == 0 && c.st == {}) then
    "FAIL the alternate screen is not blank after resize"
  else "ok"

/-- One frame through the models: renderer model → wire → emulator model. Also advances the
    renderer model's memory (`last`, cursor, pointer shape, refresh flag). -/
def modelFrame (s : St) (next : Grid) (forceRefresh : Bool) : St :=
  let b := s.base
  let refresh := b.refresh || forceRefresh
  let f : Frame := { caps := b.caps, refresh := refresh, next := next, last := b.last,
                     cursorNext := b.cn, cursorLast := b.cl, shapeNext := b.shapeN, shapeLast := b.shapeL }
  let (last', mtoks) := renderFrameC (C01.cwOf b.dict) f
  -- the wire WITH the parser's clustering of consecutive text (`merges` / `cat` as declared by the harness)
  let mg : String → String → Bool := fun x y => s.merges.any fun m => m.1 == x && m.2.1 == y
  let ct : String → String → String := fun x y =>
    match s.merges.find? (fun m => m.1 == x && m.2.1 == y) with
    | some m => m.2.2
    | none => x ++ y
  let ops := VaxisModel.Model.C12Compose.opsOfToksM mg ct decHex (C01.cwOf b.dict) mtoks
  let (em, dead) := match s.emuM with
    | some e => (match VaxisModel.Model.Emu.runOps e ops with
                 | .ok e' => (some e', s.emuDead)
                 | .error _ => (none, true))
    | none => (none, s.emuDead)
  let tref' := s.tref.bind fun t =>
    VaxisModel.Model.C12Ref.refRun t (mtoks.filterMap (VaxisModel.Model.C12Ref.refTok decHex (C01.cwOf b.dict)))
  { s with base := { b with last := last', refresh := false, cl := b.cn, shapeL := b.shapeN }, emuM := em, emuDead := dead,
           tref := tref', trefLost := s.trefLost || (s.tref.isSome && tref'.isNone) }

def fullCaps : Caps := { rgb := true, styledUnderlines := true, explicitWidth := false, sync := false }

def parseCell (s : String) : Option Cell :=
  match s.splitOn ":" with
  | [g, w, fg, bg, ul, uls, attr, link, lp] => do
      let w ← w.toInt?
      let fg ← fg.toNat?
      let bg ← bg.toNat?
      let ul ← ul.toNat?
      let uls ← uls.toNat?
      let attr ← attr.toNat?
      pure { g := C01.unhex g, w := w, style := { link := C01.unhex link, linkParams := C01.unhex lp, fg := fg, bg := bg, ul := ul, ulStyle := uls, attr := attr } }
  | _ => none

def parseRows (s : String) : Option Grid :=
  if s = "-" ∨ s = "" then some [] else
  (s.splitOn "/").mapM fun row => if row = "" then some [] else (row.splitOn ",").mapM parseCell

/-- What an emulator grid shows: its rows read left to right, a glyph of width `w` shadowing the
    `w-1` cells after it (the emulator leaves whatever was there in those cells and `Draw` skips
    them). A cell without a glyph or with width 0 is a blank of width 1. -/
def emuMeaning (g : Grid) : List (List DCell) :=
  Expected.expected (fun s => if s = "" then 0 else 1) fullCaps g

/-- No visible glyph of the application's row extends past the end of the row. -/
def fitsRowB (cw : String → Nat) : Nat → List Cell → Bool
  | _, [] => true
  | skip + 1, _ :: cs => fitsRowB cw skip cs
  | 0, c :: cs => decide ((Expected.cellWidth cw c).toNat ≤ (c :: cs).length) && fitsRowB cw ((Expected.cellWidth cw c).toNat - 1) cs

/-- If the first differing cell differs only in the width given to the same grapheme, say so. -/
def widthNote (exp emu : List (List DCell)) (v : String) : String :=
  let pairs : List (DCell × DCell) := (exp.zip emu).flatMap fun (a, b) => a.zip b
  match pairs.find? (fun (x, y) => x != y) with
  | some (DCell.glyph g w st lp l, DCell.glyph g' w' st' lp' l') =>
      if g = g' ∧ st = st' ∧ lp = lp' ∧ l = l' ∧ w ≠ w' then
        s!"FAIL emulator measures grapheme {g} as width {w'}, the application (measuring by the advertised capabilities) as width {w}"
      else v
  | _ => v

def names : List String := ["sixels", "synchronizedUpdate", "unicodeCore", "colorThemeUpdates", "kittyKeyboard", "kittyGraphics", "rgb",
  "styledUnderlines", "osc4", "osc10", "osc11", "osc176", "reportSizePixels", "reportSizeChars", "inBandResize", "explicitWidth", "noZWJ"]

/-- Features the emulator implements (widgets/term: sixel DCS, direct-colour and styled-underline SGR, grapheme clustering,
    the OSC 11 background query through its host). -/
def implemented : List String := ["sixels", "rgb", "styledUnderlines", "unicodeCore", "osc11"]

def step (s : St) (line : String) : St × String :=
  let (op, impl) := splitTab line
  match fields op with
  | "#case" :: _ => ({}, "-\t-\t-")
  | ["merges", a, b, c] => ({ s with merges := (C01.unhex a, C01.unhex b, C01.unhex c) :: s.merges }, "-\t-\t-")
  | "emuqstart" :: w :: h :: host =>
      -- `host`: nothing = no host Vaxis attached; "-" = attached, background unknown; r g b = attached, background known
      match w.toInt?, h.toInt? with
      | some w, some h =>
        match VaxisModel.Model.Emu.Emu.new VaxisModel.Model.Emu.Fixes.current w h with
        | .ok e =>
          let bg : Option (Nat × Nat × Nat) := match host.map String.toNat? with
            | [some r, some g, some b] => some (r, g, b)
            | _ => none
          ({ s with qEmu := some { e with hasVx := !host.isEmpty }, qOps := [], qReplies := [], qBg := bg }, "-\t-\t-")
        | .error _ => (s, C01.bad3)
      | _, _ => (s, C01.bad3)
  | "emuquery" :: rest =>
      match VaxisModel.Model.EmuIO.parseOp? (" ".intercalate rest), s.qEmu with
      | some (.op o), some e =>
        if o matches .c0 0 then (s, "-\t-\t-") else      -- padding NULs of the console buffer
        let rs := VaxisModel.Model.C12Replies.replies s.qBg e o
        let mb := hexOfBytes (rs.flatMap VaxisModel.Model.C12Replies.seqBytes)
        let ib := if impl = "" then "-" else impl
        let e' := match VaxisModel.Model.Emu.emuStep e o with
          | .ok (e', _) => some e'
          | .error _ => none
        ({ s with qEmu := e', qOps := o :: s.qOps, qReplies := s.qReplies ++ rs }, s!"reply={mb}\treply={ib}\t-")
      | _, _ => (s, "-\t-\t-")
  | "emucaps" :: ct =>
      -- `ct` = "1": COLORTERM=truecolor in the environment (New() posts `truecolor` itself: C07's `colorterm`)
      let colorterm := ct == ["1"]
      let det := (names.zip (impl.toList.map (· == '1'))).filter (·.2) |>.map (·.1)
      -- "exactly": nothing is understood that is not implemented, AND what the emulator advertises in its
      -- replies whatever its state (sixel graphics: DA1 attribute 4; Unicode core: DECRPM 2027 = 3) is understood;
      -- direct colour is taken from COLORTERM iff it says so
      let must := ["sixels", "unicodeCore"] ++ (if colorterm then ["rgb"] else [])
      let v := match det.find? (fun n => !implemented.contains n) with
        | some n => s!"FAIL Vaxis understood the emulator's replies as '{n}', which the emulator does not implement"
        | none =>
          match must.find? (fun n => !det.contains n) with
          | some n => s!"FAIL the emulator implements and advertises '{n}', but Vaxis did not understand its replies that way"
          | none => "ok"
      if s.qEmu.isNone then (s, s!"chk\tchk\t{v}") else
      -- the model of the exchange: capabilities derived from the modelled replies
      let mcaps := match VaxisModel.Model.C12Replies.capsFrom s.qReplies with
        | .ok c => String.ofList (names.map fun n =>
            if n == "rgb" && colorterm then '1' else
            match (VaxisModel.Model.Input.Caps.fieldNames.zip c.toList).find? (fun (p : String × Bool) => p.1 == n) with
            | some (_, true) => '1'
            | _ => '0')
        | .error _ => "panic"
      -- `startupAll` (prelude ++ startupQueries ++ mode set-up) is what Vaxis really sent
      let ops := s.qOps.reverse
      let same := (ops.map reprStr) == (VaxisModel.Model.C12Replies.startupAll.map reprStr)
      let mq := if same then "queries=model" else "queries=" ++ " | ".intercalate (VaxisModel.Model.C12Replies.startupAll.map reprStr)
      let iq := if same then "queries=model" else "queries=" ++ " | ".intercalate (ops.map reprStr)
      (s, s!"caps={mcaps} {mq}\tcaps={impl} {iq}\t{v}")
  | ["emucapsto", ct, which] =>
      -- a timer of New() fired because one reply was lost on the way. `which` = "cpr": the 50 ms timer of the
      -- explicit-width probe (Props/C12Startup.emu_dialogue_caps: the record is still exact); "da1": the 3 s
      -- context of the collection loop (Props/C12Timers.emu_dialogue_caps_within: nothing is understood that the
      -- emulator does not announce; direct colour only from COLORTERM) — evaluated on the implementation
      let colorterm := ct == "1"
      let det := (names.zip (impl.toList.map (· == '1'))).filter (·.2) |>.map (·.1)
      let announced := ["sixels", "unicodeCore", "osc11"] ++ (if colorterm then ["rgb"] else [])
      let must := if which == "cpr" then ["sixels", "unicodeCore"] ++ (if colorterm then ["rgb"] else []) else []
      let v := match det.find? (fun n => !announced.contains n) with
        | some n => s!"FAIL a timer of New() fired and Vaxis understood '{n}', which the emulator did not announce"
        | none =>
          match must.find? (fun n => !det.contains n) with
          | some n => s!"FAIL only the probe timed out, but '{n}' (announced by the emulator) was not understood"
          | none => "ok"
      (s, s!"chk\tchk\t{v}")
  | ["emuadopt"] =>
      match VaxisModel.Model.EmuIO.parseSnap? impl with
      | some sn =>
        ({ s with emuM := some sn.e, emuDead := false,
                  tref := some (VaxisModel.Model.C12Ref.refOf sn.e sn.e.height.toNat sn.e.width.toNat), trefLost := false }, "-\t-\t-")
      | none => (s, "-\tunparsed\tFAIL unparsed emulator snapshot")
  | ["emuresize", w, h] =>
      match VaxisModel.Model.EmuIO.parseSnap? impl, w.toInt?, h.toInt? with
      | some sn, some w, some h =>
        let istr := VaxisModel.Model.EmuIO.renderSnap sn.e
        let out := match s.emuM with
          | some e =>
            let v := resizeVerdict e sn.e
            (match VaxisModel.Model.Emu.emuStep e (.resize w h) with
             | .ok (e', _) =>
               let (a, b) := C05diff (VaxisModel.Model.EmuIO.renderSnap { e' with hasVx := false }) istr
               s!"{a}\t{b}\t{v}"
             | .error _ => s!"model-panic\t{istr}\t{v}")
          | none => "-\t-\t-"
        ({ s with emuM := some sn.e, emuDead := false, want := none,
                  tref := some (VaxisModel.Model.C12Ref.refOf sn.e sn.e.height.toNat sn.e.width.toNat), trefLost := false }, out)
      | _, _, _ => (s, "-\tunparsed\tFAIL unparsed emulator snapshot")
  | ["emustate"] =>
      match VaxisModel.Model.EmuIO.parseSnap? impl with
      | none => (s, "-\tunparsed\tFAIL unparsed emulator snapshot")
      | some sn =>
        let istr := VaxisModel.Model.EmuIO.renderSnap sn.e
        -- the conclusion of the equational composition theorem, evaluated on the real emulator's state
        let rb := if s.dead then "-" else match s.want with
          | none => "-"
          | some (exp, cur) =>
            if VaxisModel.Model.C12Read.readScreen encHex sn.e.active != exp then
              "FAIL read-back of the emulator's grid (readScreen) is not the application's screen"
            else if VaxisModel.Model.C12Read.readCursor sn.e != cur then
              "FAIL read-back of the emulator's cursor (readCursor) is not the requested cursor"
            else "ok"
        -- the conclusion of `Props/C12Bridge.emu_and_term_show`, evaluated on the real emulator's state: the reference
        -- terminal of C06 (Spec.Term), fed the renderer model's tokens of every frame so far, accepts that state
        let rb := if rb != "ok" then rb else
          if s.trefLost then "FAIL the reference terminal (Spec.Term) did not accept a step of the renderer's tokens with exactly one state"
          else match s.tref with
            | none => rb
            | some t =>
              match VaxisModel.Model.C12Ref.refAccepts t sn.e sn.e.width.toNat with
              | some why => s!"FAIL the reference terminal (Spec.Term fed the renderer model's tokens) does not accept the emulator's {why}"
              | none => "ok"
        -- also compared when a frame of this case already failed the oracle (known findings F112b / F112d):
        -- the MODELS reproduce those too (the wire models the parser's clustering, `opsOfToksM`)
        let out := match s.emuM with
          | some e =>
            let (a, b) := C05diff (VaxisModel.Model.EmuIO.renderSnap { e with hasVx := false }) istr
            s!"{a}\t{b}\t{rb}"
          | none => if s.emuDead then s!"model-panic\t{istr}\t{rb}" else s!"-\t-\t{rb}"
        -- continue from the implementation's state (identical to the model's when they agree)
        ({ s with emuM := some sn.e, emuDead := false }, out)
  | [op, enc] =>
      if op ≠ "emurender" ∧ op ≠ "emurefresh" then
        let (b', out) := C01.step s.base line
        ({ s with base := b' }, out)
      else
      match C01.parseGrid s.base enc, impl.splitOn "|" with
      | some next, [hd, rows] =>
        let s := modelFrame s next (op == "emurefresh")
        match hd.splitOn ";" |>.map String.toInt?, parseRows rows with
        | [some cr, some cc, some cs, some vis], some g =>
          let emu := emuMeaning g
          -- a glyph that does not fit in the rest of its row shows as a blank in its style (F02 repaired, 990e1a4)
          let exp := Expected.expectedC (C01.cwOf s.base.dict) s.base.caps next
          let v :=
            match C01.gridDiff next exp emu with
            | some d => s!"FAIL emulator {d}"
            | none =>
              if s.base.cn.visible then
                if vis = 0 then "FAIL cursor requested visible but the emulator hides it"
                else if cr ≠ s.base.cn.row ∨ cc ≠ s.base.cn.col then s!"FAIL emulator cursor at ({cr},{cc}) requested ({s.base.cn.row},{s.base.cn.col})"
                else if cs ≠ (s.base.cn.style : Int) then s!"FAIL emulator cursor shape {cs} requested {s.base.cn.style}"
                else "ok"
              else if vis ≠ 0 then "FAIL cursor requested hidden but the emulator shows it"
              else "ok"
          let v := if s.dead then "-" else widthNote exp emu v
          let wantCur : Option (Int × Int × Int) :=
            if s.base.cn.visible then some (s.base.cn.row, s.base.cn.col, (s.base.cn.style : Int)) else none
          ({ s with emu := emu, dead := s.dead || (v != "ok" && v != "-"), want := some (exp, wantCur) }, s!"chk\tchk\t{v}")
        | _, _ => (s, C01.bad3)
      | _, _ => (s, C01.bad3)
  | ["emudraw"] =>
      match parseRows impl with
      | some g =>
        let host := Expected.expected (fun _ => 1) fullCaps g
        let v := if s.dead then "-" else match C01.gridDiff g s.emu host with
          | some d => s!"FAIL host window after Draw: {d}"
          | none => "ok"
        (s, s!"chk\tchk\t{v}")
      | none => (s, C01.bad3)
  | _ =>
      let (b', out) := C01.step s.base line
      ({ s with base := b' }, out)

def main : IO Unit := foldLoop ({} : St) step

end VaxisModel.Driver.C12
