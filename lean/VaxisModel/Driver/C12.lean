import VaxisModel.Driver.C01

/-! Driver for C12: a Vaxis application rendered into the embedded terminal emulator.
Uses the C01 driver's state for `caps`/`size`/`dict`/`cell`/`showcursor`/`hidecursor` lines, plus:

  emucaps \t <17 detected capability bits (order of C07caps)>
      verdict: nothing is detected that the emulator does not implement
  emurender <grid> \t <emulator snapshot>
      snapshot = curRow;curCol;curStyle;dectcem|row/row/…  with cells ghex:w:fg:bg:ul:uls:attr:link:params
      verdict: the emulator grid equals the application's screen (under the detected capabilities),
               cursor position / visibility / shape as requested
  emudraw \t <host grid, cells inline in the same format>
      verdict: the cells Draw put into a host window of the same size mean the emulator grid

There is no separate model line here (the composition renderer-model ∘ emulator-model is the
subject of C01 and C06); model-canon and impl-canon are both the oracle's summary. -/
namespace VaxisModel.Driver.C12
open VaxisModel.Driver VaxisModel.Model.Render VaxisModel.Spec VaxisModel.Spec.Display

structure St where
  base : C01.St := {}
  emu : List (List DCell) := []
  dead : Bool := false
  deriving Inhabited

def fullCaps : Caps := { rgb := true, styledUnderlines := true, explicitWidth := false, sync := false }

def parseCell (s : String) : Option Cell :=
  match s.splitOn ":" with
  | [g, w, fg, bg, ul, uls, attr, link, lp] => do
      let w ← w.toInt?
      let fg ← fg.toNat?
      let bg ← bg.toNat?
      let ul ← ul.toNat?
      let uls ← uls.toNat?
      let attr ← attr.toNat?
      pure { g := C01.unhex g, w := w, style := { link := C01.unhex link, linkParams := C01.unhex lp, fg := fg, bg := bg, ul := ul, ulStyle := uls, attr := attr } }
  | _ => none

def parseRows (s : String) : Option Grid :=
  if s = "-" ∨ s = "" then some [] else
  (s.splitOn "/").mapM fun row => if row = "" then some [] else (row.splitOn ",").mapM parseCell

/-- What an emulator grid shows: its rows read left to right, a glyph of width `w` shadowing the
    `w-1` cells after it (the emulator leaves whatever was there in those cells and `Draw` skips
    them). A cell without a glyph or with width 0 is a blank of width 1. -/
def emuMeaning (g : Grid) : List (List DCell) :=
  Expected.expected (fun s => if s = "" then 0 else 1) fullCaps g

/-- No visible glyph of the application's row extends past the end of the row. -/
def fitsRowB (cw : String → Nat) : Nat → List Cell → Bool
  | _, [] => true
  | skip + 1, _ :: cs => fitsRowB cw skip cs
  | 0, c :: cs => decide ((Expected.cellWidth cw c).toNat ≤ (c :: cs).length) && fitsRowB cw ((Expected.cellWidth cw c).toNat - 1) cs

/-- If the first differing cell differs only in the width given to the same grapheme, say so. -/
def widthNote (exp emu : List (List DCell)) (v : String) : String :=
  let pairs : List (DCell × DCell) := (exp.zip emu).flatMap fun (a, b) => a.zip b
  match pairs.find? (fun (x, y) => x != y) with
  | some (DCell.glyph g w st lp l, DCell.glyph g' w' st' lp' l') =>
      if g = g' ∧ st = st' ∧ lp = lp' ∧ l = l' ∧ w ≠ w' then
        s!"FAIL emulator measures grapheme {g} as width {w'}, the application (measuring by the advertised capabilities) as width {w}"
      else v
  | _ => v

def names : List String := ["sixels", "synchronizedUpdate", "unicodeCore", "colorThemeUpdates", "kittyKeyboard", "kittyGraphics", "rgb",
  "styledUnderlines", "osc4", "osc10", "osc11", "osc176", "reportSizePixels", "reportSizeChars", "inBandResize", "explicitWidth", "noZWJ"]

/-- Features the emulator implements (widgets/term: sixel DCS, direct-colour and styled-underline SGR, grapheme clustering). -/
def implemented : List String := ["sixels", "rgb", "styledUnderlines", "unicodeCore"]

def step (s : St) (line : String) : St × String :=
  let (op, impl) := splitTab line
  match fields op with
  | "#case" :: _ => ({}, "-\t-\t-")
  | ["emucaps"] =>
      let det := (names.zip (impl.toList.map (· == '1'))).filter (·.2) |>.map (·.1)
      match det.find? (fun n => !implemented.contains n) with
      | some n => (s, s!"chk\tchk\tFAIL Vaxis understood the emulator's replies as '{n}', which the emulator does not implement")
      | none => (s, "chk\tchk\tok")
  | ["emurender", enc] =>
      match C01.parseGrid s.base enc, impl.splitOn "|" with
      | some next, [hd, rows] =>
        match hd.splitOn ";" |>.map String.toInt?, parseRows rows with
        | [some cr, some cc, some cs, some vis], some g =>
          let emu := emuMeaning g
          -- a glyph that does not fit in the rest of its row shows as a blank in its style (F02 repaired, 990e1a4)
          let exp := Expected.expectedC (C01.cwOf s.base.dict) s.base.caps next
          let v :=
            match C01.gridDiff next exp emu with
            | some d => s!"FAIL emulator {d}"
            | none =>
              if s.base.cn.visible then
                if vis = 0 then "FAIL cursor requested visible but the emulator hides it"
                else if cr ≠ s.base.cn.row ∨ cc ≠ s.base.cn.col then s!"FAIL emulator cursor at ({cr},{cc}) requested ({s.base.cn.row},{s.base.cn.col})"
                else if cs ≠ (s.base.cn.style : Int) then s!"FAIL emulator cursor shape {cs} requested {s.base.cn.style}"
                else "ok"
              else if vis ≠ 0 then "FAIL cursor requested hidden but the emulator shows it"
              else "ok"
          let v := if s.dead then "-" else widthNote exp emu v
          ({ s with emu := emu, dead := s.dead || (v != "ok" && v != "-") }, s!"chk\tchk\t{v}")
        | _, _ => (s, C01.bad3)
      | _, _ => (s, C01.bad3)
  | ["emudraw"] =>
      match parseRows impl with
      | some g =>
        let host := Expected.expected (fun _ => 1) fullCaps g
        let v := if s.dead then "-" else match C01.gridDiff g s.emu host with
          | some d => s!"FAIL host window after Draw: {d}"
          | none => "ok"
        (s, s!"chk\tchk\t{v}")
      | none => (s, C01.bad3)
  | _ =>
      let (b', out) := C01.step s.base line
      ({ s with base := b' }, out)

def main : IO Unit := foldLoop ({} : St) step

end VaxisModel.Driver.C12
