import VaxisModel.Driver.Common
import VaxisModel.Driver.C09
import VaxisModel.Model.TermKey
import VaxisModel.Model.TermMouse
import VaxisModel.Model.TermInputModes
import VaxisModel.Spec.TermInput

/-! Driver for C13 (keys, pastes and mouse forwarded into the embedded terminal). Stateless lines.
Token formats as in Driver/C09 (`U=`, key, seq); additionally

  modes = 9-bit number: 1 deckpam, 2 decckm, 4 paste, 8 mouseButtons(1000), 16 mouseDrag(1002),
          32 mouseMotion(1003), 64 mouseSGR(1006), 128 altScroll(1007), 256 smcup(1049)
  mouse = button,col,row,event,mods
  seqs  = sequences the real ansi parser produced from the bytes the widget wrote, joined by ','
          ('-' = none); a CSI with intermediates is `M:<inter>:<final>:<params>`

Ops (`op<TAB>impl`):
  key U key modes      impl = out|seqs|decoded      out = runes written; decoded = decodeKey(first seq)
  mouse modes mouse    impl = ret|written|seqs|pm    pm = parseMouseEvent(first seq) as button,col,row,event,mods
  paste modes start|end  impl = out|seqs
  ckey U script key / cmouse script mouse / cpaste script start|end
                       the same, but the modes are whatever the child's own output `script` selected: the harness
                       feeds the bytes through the real parser and Model.update; the oracle uses Spec.specModes
-/
namespace VaxisModel.Driver.C13
open VaxisModel.Driver VaxisModel.Driver.C09
open VaxisModel.Model.Key VaxisModel.Model.Mouse VaxisModel.Model.TermKey VaxisModel.Model.TermMouse
open VaxisModel.Spec VaxisModel.Spec.TermInput
open VaxisModel.Model.TermInputModes (ChildOp childModes)

def modesOf (n : Nat) : Modes :=
  { deckpam := bit n 0, decckm := bit n 1, paste := bit n 2, mouseButtons := bit n 3, mouseDrag := bit n 4,
    mouseMotion := bit n 5, mouseSGR := bit n 6, altScroll := bit n 7, smcup := bit n 8 }

/-- A parsed sequence with intermediates (mouse reports). -/
inductive PSeq where
  | plain (s : Seq)
  | csiI (inter : List Int) (params : List (List Int)) (final : Int)
  | other (what : String)
deriving DecidableEq

def parsePSeq? (tok : String) : Option PSeq :=
  match tok.splitOn ":" with
  | ["M", inter, fin, ps] => do
      let inter ← sepInts? "." inter
      let fin ← fin.toInt?
      let params ← if ps = "-" then pure [] else (ps.splitOn "/").mapM (sepInts? ".")
      pure (.csiI inter params fin)
  | "X" :: rest => some (.other (":".intercalate rest))
  | _ => (parseSeq? tok).map .plain

def parsePSeqs? (tok : String) : Option (List PSeq) :=
  if tok = "-" ∨ tok = "" then some [] else (tok.splitOn ",").mapM parsePSeq?

def parseMouse? (tok : String) : Option Mouse :=
  match tok.splitOn "," with
  | [b, c, r, e, m] => do
      let b ← b.toInt?; let c ← c.toInt?; let r ← r.toInt?; let e ← e.toInt?; let m ← m.toNat?
      pure { button := b, col := c, row := r, event := e, mods := m }
  | _ => none

def showMouse (m : Mouse) : String := s!"{m.button},{m.col},{m.row},{m.event},{m.mods}"

def field (impl : String) (i : Nat) : String := ((impl.splitOn "|")[i]?).getD ""

def keyVerdict (u : Uni) (k : Key) (md : Modes) (seqs : List PSeq) (dkTok : String) : String :=
  let xm := xtermMods k
  -- cursor-key mode selects the encoding
  let cursor : Option String :=
    match lookup k.keycode cursorKeys with
    | some fin =>
      if xm = 0 then
        if seqs = [.plain (cursorSeq fin md.decckm)] then none
        else some s!"FAIL [cursor-key mode] unmodified cursor key is not sent in the form DECCKM={md.decckm} selects"
      else none
    | none => none
  match cursor with
  | some e => e
  | none =>
    if XtermDomain u k then
      match seqs, parseKey? dkTok with
      | [_], some dk =>
        if decide (keyArrives u k dk) then "ok"
        else s!"FAIL [key round trip] forwarded key decodes to {showKey dk}, which does not match key {k.keycode} mods {xm}"
      | _, _ => s!"FAIL [key round trip] forwarded bytes are not exactly one key sequence ({seqs.length} sequences)"
    else "-"

def mouseVerdict (md : Modes) (m : Mouse) (seqs : List PSeq) (pmTok : String) : String :=
  if !realMouse m then "-"
  else if altScrollApplies md m then
    let fin : Int := if m.button = 64 then 65 else 66
    let want : List PSeq := List.replicate 3 (.plain (cursorSeq fin md.decckm))
    if seqs = want then "ok"
    else s!"FAIL [alternate scroll] wheel on the alternate screen must become three cursor keys in the form DECCKM={md.decckm} selects"
  else if !enabledFor md m then
    if seqs.isEmpty then "ok"
    else
      let cls := if md.mouseSGR ∧ !(md.mouseButtons || md.mouseDrag || md.mouseMotion) then "only 1006 set" else "event class not enabled"
      s!"FAIL [mouse not enabled: {cls}] bytes were written for a mouse event the child has not enabled"
  else if md.mouseSGR then
    match sgrReport m with
    | none => "-"
    | some (inter, params, fin) =>
      if seqs.isEmpty then
        let cls := if m.event = Gen.Keys.EventMotion ∧ md.mouseMotion ∧ !md.mouseDrag then "1003 without 1002" else "other"
        s!"FAIL [enabled mouse event not reported: {cls}] nothing was written"
      else if seqs ≠ [.csiI inter params fin] then "FAIL [mouse round trip] not the SGR report of the event"
      else match parseMouse? pmTok with
        | some pm => if sameMouse pm m then "ok" else s!"FAIL [mouse round trip] parsed back as {showMouse pm}"
        | none => "FAIL [mouse round trip] Vaxis does not parse the report back"
  else "-"

/-- `s1.1006,r1000,pam,pnm,ris` — what the child wrote before the event ('-' = nothing). -/
def parseScript? (tok : String) : Option (List ChildOp) :=
  if tok = "-" ∨ tok = "" then some [] else
  (tok.splitOn ",").mapM fun t =>
    if t = "pam" then some .pam
    else if t = "pnm" then some .pnm
    else if t = "ris" then some .ris
    else if t.startsWith "s" then (sepInts? "." (t.drop 1).toString).map .set
    else if t.startsWith "r" then (sepInts? "." (t.drop 1).toString).map .reset
    else none

/-- `mdM` = the modes the model of the code is in, `mdS` = the modes the child selected according to
    the Spec (they coincide for the ops that set the modes through the hook). -/
def keyStep (u : Uni) (k : Key) (mdM mdS : Modes) (impl : String) : String :=
  let out := encodeXterm u k mdM.deckpam mdM.decckm
  let seqTok := field impl 1
  match parsePSeqs? seqTok with
  | none => bad
  | some seqs =>
    let mdk : String := match seqs with
      | .plain s :: _ => showKey (decodeKey u s)
      | _ => "-"
    let model := s!"{showStr out}|{seqTok}|{mdk}"
    s!"{model}\t{impl}\t{keyVerdict u k mdS seqs (field impl 2)}"

def mouseStep (m : Mouse) (mdM mdS : Modes) (impl : String) : String :=
  let (w, r) := handleMouse mdM m
  let seqTok := field impl 2
  match parsePSeqs? seqTok with
  | none => bad
  | some seqs =>
    let mpm : String := match seqs with
      | .csiI inter params fin :: _ => match parseMouseEvent inter params fin with
          | some pm => showMouse pm
          | none => "-"
      | _ => "-"
    let model := s!"{showStr r}|{showStr w}|{seqTok}|{mpm}"
    s!"{model}\t{impl}\t{mouseVerdict mdS m seqs (field impl 3)}"

def pasteStep (which : String) (mdM mdS : Modes) (impl : String) : String :=
  let dummy : Uni := mkUni [] []
  let out := update dummy mdM (if which = "start" then .pasteStart else .pasteEnd)
  let seqTok := field impl 1
  match parsePSeqs? seqTok with
  | none => bad
  | some seqs =>
    let want : List PSeq := if mdS.paste then [.plain (if which = "start" then pasteStartSeq else pasteEndSeq)] else []
    let v := if seqs = want then "ok"
      else if mdS.paste then "FAIL [paste] bracketed-paste marker not sent although the child enabled mode 2004"
      else "FAIL [paste not enabled] bytes were written although the child has not enabled bracketed paste"
    s!"{showStr out}|{seqTok}\t{impl}\t{v}"

def step (line : String) : String :=
  let (op, impl) := splitTab line
  match fields op with
  | ["key", ut, kt, mt] =>
    match parseU? ut, parseKey? kt, mt.toNat? with
    | some t, some k, some mn => keyStep (mkUni t []) k (modesOf mn) (modesOf mn) impl
    | _, _, _ => bad
  | ["mouse", mt, mst] =>
    match mt.toNat?, parseMouse? mst with
    | some mn, some m => mouseStep m (modesOf mn) (modesOf mn) impl
    | _, _ => bad
  | ["paste", mt, which] =>
    match mt.toNat? with
    | some mn => pasteStep which (modesOf mn) (modesOf mn) impl
    | none => bad
  -- the same three, with the modes established by what the child wrote (real parser + Model.update)
  | ["ckey", ut, sc, kt] =>
    match parseU? ut, parseScript? sc, parseKey? kt with
    | some t, some ops, some k => keyStep (mkUni t []) k (childModes ops) (specModes ops) impl
    | _, _, _ => bad
  | ["cmouse", sc, mst] =>
    match parseScript? sc, parseMouse? mst with
    | some ops, some m => mouseStep m (childModes ops) (specModes ops) impl
    | _, _ => bad
  | ["cpaste", sc, which] =>
    match parseScript? sc with
    | some ops => pasteStep which (childModes ops) (specModes ops) impl
    | none => bad
  | _ => bad

def main : IO Unit := lineLoop step

end VaxisModel.Driver.C13
