import VaxisModel.Spec.KeyEvent
import VaxisModel.Driver.Common
import VaxisModel.Driver.C09
import VaxisModel.Model.TermKey
import VaxisModel.Model.TermMouse
import VaxisModel.Model.TermBody
import VaxisModel.Model.TermInputModes
import VaxisModel.Model.TermChild
import VaxisModel.Spec.TermInput

/-! Driver for C13 (keys, pastes and mouse forwarded into the embedded terminal). Stateless lines.
Token formats as in Driver/C09 (`U=`, key, seq); additionally

  modes = 9-bit number: 1 deckpam, 2 decckm, 4 paste, 8 mouseButtons(1000), 16 mouseDrag(1002),
          32 mouseMotion(1003), 64 mouseSGR(1006), 128 altScroll(1007), 256 smcup(1049)
  mouse = button,col,row,event,mods
  seqs  = sequences the real ansi parser produced from the bytes the widget wrote, joined by ','
          ('-' = none); a CSI with intermediates is `M:<inter>:<final>:<params>`

Ops (`op<TAB>impl`):
  key U key modes      impl = out|seqs|decoded      out = runes written; decoded = decodeKey(first seq)
  mouse modes mouse    impl = ret|written|seqs|pm    pm = parseMouseEvent(first seq) as button,col,row,event,mods
  paste modes start|end  impl = out|seqs
  ppaste U modes payload seqs   a whole bracketed paste through a real host Vaxis: impl = out|events
                       payload = code points injected between ESC[200~ and ESC[201~; seqs = what the real ansi
                       parser makes of the payload; events = what the host posted (S, E, K<key>), each forwarded with the
                       real Model.Update; out = code points the child received
  ckey U script key / cmouse script mouse / cpaste script start|end
                       the same, but the modes are whatever the child's own output `script` selected (mode sequences
                       and any other output: text, cursor movement, SM/RM, DECSTR, DECSC/DECRC, OSC, resizes …): the
                       harness feeds the bytes through the real parser and Model.update; model = the regenerated dispatch
                       and mode tables (`TermChild.modesAfter`, which `Props/C13Child` proves equal to the emulator model
                       `Model.Emu` on every stream); the oracle uses `Spec.specModesOfStream`
-/
namespace VaxisModel.Driver.C13
open VaxisModel.Driver VaxisModel.Driver.C09
open VaxisModel.Model.Key VaxisModel.Model.Mouse VaxisModel.Model.TermKey VaxisModel.Model.TermMouse
open VaxisModel.Spec VaxisModel.Spec.TermInput
open VaxisModel.Model.TermInputModes (ChildOp ChildSeq)
open VaxisModel.Model.TermChild (modesAfter)

def modesOf (n : Nat) : Modes :=
  { deckpam := bit n 0, decckm := bit n 1, paste := bit n 2, mouseButtons := bit n 3, mouseDrag := bit n 4,
    mouseMotion := bit n 5, mouseSGR := bit n 6, altScroll := bit n 7, smcup := bit n 8 }

/-- A parsed sequence with intermediates (mouse reports). -/
inductive PSeq where
  | plain (s : Seq)
  | csiI (inter : List Int) (params : List (List Int)) (final : Int)
  | other (what : String)
deriving DecidableEq

def parsePSeq? (tok : String) : Option PSeq :=
  match tok.splitOn ":" with
  | ["M", inter, fin, ps] => do
      let inter ← sepInts? "." inter
      let fin ← fin.toInt?
      let params ← if ps = "-" then pure [] else (ps.splitOn "/").mapM (sepInts? ".")
      pure (.csiI inter params fin)
  | "X" :: rest => some (.other (":".intercalate rest))
  | _ => (parseSeq? tok).map .plain

def parsePSeqs? (tok : String) : Option (List PSeq) :=
  if tok = "-" ∨ tok = "" then some [] else (tok.splitOn ",").mapM parsePSeq?

def parseMouse? (tok : String) : Option Mouse :=
  match tok.splitOn "," with
  | [b, c, r, e, m] => do
      let b ← b.toInt?; let c ← c.toInt?; let r ← r.toInt?; let e ← e.toInt?; let m ← m.toNat?
      pure { button := b, col := c, row := r, event := e, mods := m }
  | _ => none

def showMouse (m : Mouse) : String := s!"{m.button},{m.col},{m.row},{m.event},{m.mods}"

def field (impl : String) (i : Nat) : String := ((impl.splitOn "|")[i]?).getD ""

/-- Oracles on the code points written for one key event, beyond the round trip: the text clause, the
    xterm form of Ctrl+Alt+letter, and "no junk for Ctrl + a character". `none` = nothing to object to. -/
def bytesVerdict (k : Key) (out : Str) : Option String :=
  let xm := xtermMods k
  let alt := xm &&& KeyEnc.altBit ≠ 0
  let ctrl := xm &&& KeyEnc.ctrlBit ≠ 0
  if textDue k ∧ out ≠ k.text then
    some s!"FAIL [text lost] the event carries the text {showStr k.text} (no Alt/Ctrl) but {showStr out} was written"
  else if ctrl ∧ 32 ≤ k.keycode ∧ k.keycode < Gen.Keys.maxRune ∧ validRune k.keycode then
    match (if alt then altCtrlXterm k.keycode else none) with
    | some want =>
      if out = want then none
      else some s!"FAIL [alt+ctrl not xterm's form] expected ESC + the C0 byte ({showStr want}), {showStr out} was written"
    | none =>
      let body := if alt then (match out with | 27 :: r => r | r => r) else out
      let fine : Bool := body == [k.keycode] || body == [] ||
        (match body with | [b] => decide (0 ≤ b ∧ b < 32) || decide (b = 127) | _ => false)
      if fine then none
      else some s!"FAIL [ctrl junk] Ctrl + key {k.keycode} wrote {showStr out}: neither the key, nor a control code, nor nothing"
  else none

/-- The ordinary clauses for one (non-release, non-keypad) key event. -/
def keyVerdictCore (u : Uni) (k : Key) (md : Modes) (seqs : List PSeq) (dkTok : String) (outTok : String := "") : String :=
  let xm := xtermMods k
  -- cursor-key mode selects the encoding
  let cursor : Option String :=
    match lookup k.keycode cursorKeys with
    | some fin =>
      if xm = 0 then
        if seqs = [.plain (cursorSeq fin md.decckm)] then none
        else some s!"FAIL [cursor-key mode] unmodified cursor key is not sent in the form DECCKM={md.decckm} selects"
      else none
    | none => none
  match cursor with
  | some e => e
  | none =>
    let bv : Option String := match sepInts? "." outTok with
      | some out => bytesVerdict k out
      | none => none
    match bv with
    | some e => e
    | none =>
    -- shifted-code chords: (ESC +) the character Shift produces, read back as (that character, mods without Shift)
    let sv : Option String :=
      if ShiftedDomain k then
        match shiftedLegacy k, seqs, parseKey? dkTok with
        | some s, [.plain s'], some dk =>
          if s' ≠ s then some s!"FAIL [shifted-code chord] key {k.keycode} with Shift reports the shifted code {k.shifted}; the xterm report of the chord is (ESC +) that character, something else was written"
          else if decide (shiftedArrives u k dk) then none
          else some s!"FAIL [shifted-code chord] forwarded key decodes to {showKey dk}, which does not match ({k.shifted}, mods {KeyEnc.unshift xm})"
        | _, _, _ => some s!"FAIL [shifted-code chord] forwarded bytes are not exactly one key sequence ({seqs.length} sequences)"
      else none
    match sv with
    | some e => e
    | none =>
    if XtermDomainU u k then
      match seqs, parseKey? dkTok with
      | [_], some dk =>
        if decide (keyArrives u k dk) then "ok"
        else s!"FAIL [key round trip] forwarded key decodes to {showKey dk}, which does not match key {k.keycode} mods {xm}"
      | _, _ => s!"FAIL [key round trip] forwarded bytes are not exactly one key sequence ({seqs.length} sequences)"
    else if textDue k ∨ ShiftedDomain k ∨ (xm &&& KeyEnc.ctrlBit ≠ 0 ∧ 32 ≤ k.keycode ∧ k.keycode < Gen.Keys.maxRune ∧ validRune k.keycode) then "ok"
    else "-"

/-- One key event: releases write nothing; a keypad key is judged by the keypad clause (`Spec.keypadJudgedAs`:
    application mode → exactly the `SS3` code; otherwise as the event of the key it stands for; Begin has reports of
    its own); every other key by the ordinary clauses. -/
def keyVerdict (u : Uni) (k : Key) (md : Modes) (seqs : List PSeq) (dkTok : String) (outTok : String := "") : String :=
  -- a key release is not a key press: the xterm encoding has no releases, nothing may be written
  if k.event = Gen.Keys.EventRelease then
    (if seqs.isEmpty ∧ (outTok = "-" ∨ outTok = "") then "ok"
     else "FAIL [release forwarded] a key release was written to the child, which reads it as the key pressed again")
  else
  match keypadJudgedAs k md.deckpam with
  | some (.inl want) =>
    (match sepInts? "." outTok with
     | some out => if out = want then "ok"
         else s!"FAIL [keypad] keypad key {k.keycode} (DECKPAM={md.deckpam}): the child must receive {showStr want}, got {showStr out}"
     | none => "-")
  | some (.inr k') =>
    let v := keyVerdictCore u k' md seqs dkTok outTok
    if v.startsWith "FAIL" then s!"FAIL [keypad] keypad key {k.keycode} is the key {k'.keycode} here (DECKPAM={md.deckpam}, mods {k.mods}):{v.drop 4}"
    else v
  | none =>
    if k.keycode = Gen.Keys.KeyKeyPadBegin then
      let xm := xtermMods k
      match keypadBeginLegacy xm md.decckm, seqs, parseKey? dkTok with
      | none, _, _ => "-"
      | some s, [.plain s'], some dk =>
        if s' ≠ s then s!"FAIL [keypad] keypad Begin (mods {xm}) is not sent as xterm's report for DECCKM={md.decckm}"
        else if decide (keyArrives u k dk) then "ok"
        else s!"FAIL [keypad] keypad Begin decodes to {showKey dk}, which does not match key {k.keycode} mods {xm}"
      | some _, _, _ => s!"FAIL [keypad] keypad Begin: forwarded bytes are not exactly one key sequence ({seqs.length} sequences)"
    else keyVerdictCore u k md seqs dkTok outTok

def mouseVerdict (md : Modes) (m : Mouse) (seqs : List PSeq) (pmTok : String) : String :=
  if !realMouse m then "-"
  else if altScrollApplies md m then
    let fin : Int := if m.button = 64 then 65 else 66
    let want : List PSeq := List.replicate 3 (.plain (cursorSeq fin md.decckm))
    if seqs = want then "ok"
    else s!"FAIL [alternate scroll] wheel on the alternate screen must become three cursor keys in the form DECCKM={md.decckm} selects"
  else if !enabledFor md m then
    if seqs.isEmpty then "ok"
    else
      let cls := if md.mouseSGR ∧ !(md.mouseButtons || md.mouseDrag || md.mouseMotion) then "only 1006 set" else "event class not enabled"
      s!"FAIL [mouse not enabled: {cls}] bytes were written for a mouse event the child has not enabled"
  else if md.mouseSGR then
    match sgrReport m with
    | none => "-"
    | some (inter, params, fin) =>
      if seqs.isEmpty then
        let cls := if m.event = Gen.Keys.EventMotion ∧ md.mouseMotion ∧ !md.mouseDrag then "1003 without 1002" else "other"
        s!"FAIL [enabled mouse event not reported: {cls}] nothing was written"
      else if seqs ≠ [.csiI inter params fin] then "FAIL [mouse round trip] not the SGR report of the event"
      else match parseMouse? pmTok with
        | some pm => if sameMouse pm m then "ok" else s!"FAIL [mouse round trip] parsed back as {showMouse pm}"
        | none => "FAIL [mouse round trip] Vaxis does not parse the report back"
  else "-"

/-- What the child wrote before the event ('-' = nothing), one token per parsed sequence:
    `s1.1006` = `CSI ? 1 ; 1006 h`, `r1000` = `CSI ? 1000 l`, `pam` = `ESC =`, `pnm` = `ESC >`, `ris` = `ESC c`;
    any other CSI as `c<label hex>:<params>` (label = intermediates ++ final as the real parser reports them,
    e.g. `c68:1000` = `CSI 1000 h` (ANSI SM), `c2170:` = `CSI ! p` (DECSTR)), any other ESC as `e<label hex>`;
    `t<hex>` = text / C0 bytes, `o<hex>` = an OSC string, `z<w>x<h>` = the widget is resized. -/
def parseScript? (tok : String) : Option (List ChildSeq) :=
  if tok = "-" ∨ tok = "" then some [] else
  (tok.splitOn ",").mapM fun t =>
    if t = "pam" then some (.esc [61])
    else if t = "pnm" then some (.esc [62])
    else if t = "ris" then some (.esc [99])
    else if t.startsWith "s" then (sepInts? "." (t.drop 1).toString).map (.csi [63, 104])
    else if t.startsWith "r" then (sepInts? "." (t.drop 1).toString).map (.csi [63, 108])
    else if t.startsWith "c" then
      match (t.drop 1).toString.splitOn ":" with
      | [lab, ps] => do
          let l ← hexBytes? lab
          let ps ← sepInts? "." ps
          if l.isEmpty then none else pure (.csi l ps)
      | _ => none
    else if t.startsWith "e" then (hexBytes? (t.drop 1).toString).bind fun l => if l.isEmpty then none else some (.esc l)
    else if t.startsWith "t" ∨ t.startsWith "o" ∨ t.startsWith "z" then some .other
    else none

/-- The modes the model of the code is in after the child's stream (regenerated dispatch and mode tables). -/
def childModes (seqs : List ChildSeq) : Modes := modesAfter {} seqs
/-- The modes the child selected, by the standard. -/
def specModes (seqs : List ChildSeq) : Modes := specModesOfStream seqs

/-- `mdM` = the modes the model of the code is in, `mdS` = the modes the child selected according to
    the Spec (they coincide for the ops that set the modes through the hook). -/
def keyStep (u : Uni) (k : Key) (mdM mdS : Modes) (impl : String) : String :=
  let out := update u mdM (.key k)
  let seqTok := field impl 1
  match parsePSeqs? seqTok with
  | none => bad
  | some seqs =>
    let mdk : String := match seqs with
      | .plain s :: _ => showKey (decodeKey u s)
      | _ => "-"
    let model := s!"{showStr out}|{seqTok}|{mdk}"
    s!"{model}\t{impl}\t{keyVerdict u k mdS seqs (field impl 2) (field impl 0)}"

def mouseStep (m : Mouse) (mdM mdS : Modes) (impl : String) : String :=
  let (w, r) := handleMouse mdM m
  let seqTok := field impl 2
  match parsePSeqs? seqTok with
  | none => bad
  | some seqs =>
    let mpm : String := match seqs with
      | .csiI inter params fin :: _ => match parseMouseEvent inter params fin with
          | some pm => showMouse pm
          | none => "-"
      | _ => "-"
    let model := s!"{showStr r}|{showStr w}|{seqTok}|{mpm}"
    s!"{model}\t{impl}\t{mouseVerdict mdS m seqs (field impl 3)}"

def pasteStep (which : String) (mdM mdS : Modes) (impl : String) : String :=
  let dummy : Uni := mkUni [] []
  let out := update dummy mdM (if which = "start" then .pasteStart else .pasteEnd)
  let seqTok := field impl 1
  match parsePSeqs? seqTok with
  | none => bad
  | some seqs =>
    let want : List PSeq := if mdS.paste then [.plain (if which = "start" then pasteStartSeq else pasteEndSeq)] else []
    let v := if seqs = want then "ok"
      else if mdS.paste then "FAIL [paste] bracketed-paste marker not sent although the child enabled mode 2004"
      else "FAIL [paste not enabled] bytes were written although the child has not enabled bracketed paste"
    s!"{showStr out}|{seqTok}\t{impl}\t{v}"

/-- Items of a paste from the parser's sequences (`none` = a sequence the paste model does not cover). -/
def itemOfSeq? : Seq → Option PasteItem
  | .print g => some (.grapheme g)
  | .c0 b => some (.c0 b)
  | .csi [[200]] 126 => some .start
  | .csi [[201]] 126 => some .stop
  | _ => none

def showEvent : Event → String
  | .key k => "K" ++ showKey k
  | .pasteStart => "S"
  | .pasteEnd => "E"
  | .mouse _ => "M"

def parseEvent? (tok : String) : Option Event :=
  if tok = "S" then some .pasteStart
  else if tok = "E" then some .pasteEnd
  else if tok.startsWith "K" then (parseKey? (tok.drop 1).toString).map .key
  else none

/-- Remove every occurrence of a marker from the payload. -/
def stripMarker (mk : Str) : Nat → Str → Str
  | 0, s => s
  | _, [] => []
  | fuel + 1, c :: rest =>
    if mk.isPrefixOf (c :: rest) then stripMarker mk fuel ((c :: rest).drop mk.length)
    else c :: stripMarker mk fuel rest

/-- A whole paste. model-canon = what the model writes for the events the host posted | the events the
    model of the host (`Spec.pasteEvents` over the parser's sequences) expects; oracle (independent of
    both): the child receives `ESC[200~ payload ESC[201~` byte-identical if it enabled 2004, and the
    payload with the markers removed otherwise. -/
def ppasteStep (u : Uni) (md : Modes) (payload : Str) (seqTok : String) (impl : String) : String :=
  let outTok := field impl 0
  let evTok := field impl 1
  let evs? : Option (List Event) := if evTok = "-" ∨ evTok = "" then some [] else (evTok.splitOn ",").mapM parseEvent?
  let seqs? : Option (List Seq) := if seqTok = "-" ∨ seqTok = "" then some [] else (seqTok.splitOn ",").mapM parseSeq?
  match evs?, seqs?, sepInts? "." outTok with
  | some evs, some seqs, some out =>
    let mout := forward u md evs
    let mev : String := match seqs.mapM itemOfSeq? with
      | some items => ",".intercalate ((pasteEvents u false (.start :: items ++ [.stop])).map showEvent)
      | none => evTok   -- sequences outside the paste model: events not predicted
    let startM := renderSeq pasteStartSeq
    let endM := renderSeq pasteEndSeq
    let want : Str :=
      if md.paste then startM ++ payload ++ endM
      else stripMarker startM (payload.length + 1) (stripMarker endM (payload.length + 1) payload)
    let v := if payload.contains 8 then "-"     -- BS is reported as the BackSpace key by the host (see notes)
      else if out = want then "ok"
      else if md.paste then s!"FAIL [paste payload] the child enabled 2004 and must receive the paste byte-identical ({showStr want}), got {showStr out}"
      else s!"FAIL [paste payload] the child must receive the payload without markers ({showStr want}), got {showStr out}"
    s!"{showStr mout}|{mev}\t{impl}\t{v}"
  | _, _, _ => bad

def step (line : String) : String :=
  let (op, impl) := splitTab line
  match fields op with
  | ["hypk", ut] =>
    match parseU? ut with
    | some t =>
      let bad := VaxisModel.Driver.C09.agreeOnKeysBad t
      let model := if bad.isEmpty then "agree" else "differ"
      let v := if bad.isEmpty ∧ impl = "agree" then "ok"
               else s!"FAIL AgreeOnKeys (hypothesis of key_roundtrip_any_uni) does not hold of Go's unicode tables at {bad}"
      s!"{model}\t{impl}\t{v}"
    | none => bad
  | ["key", ut, kt, mt] =>
    match parseU? ut, parseKey? kt, mt.toNat? with
    | some t, some k, some mn => keyStep (mkUni t []) k (modesOf mn) (modesOf mn) impl
    | _, _, _ => bad
  | ["mouse", mt, mst] =>
    match mt.toNat?, parseMouse? mst with
    | some mn, some m => mouseStep m (modesOf mn) (modesOf mn) impl
    | _, _ => bad
  | ["ppaste", ut, mt, pt, st] =>
    match parseU? ut, mt.toNat?, sepInts? "." pt with
    | some t, some mn, some payload => ppasteStep (mkUni t []) (modesOf mn) payload st impl
    | _, _, _ => bad
  | ["paste", mt, which] =>
    match mt.toNat? with
    | some mn => pasteStep which (modesOf mn) (modesOf mn) impl
    | none => bad
  -- the same three, with the modes established by what the child wrote (real parser + Model.update)
  | ["ckey", ut, sc, kt] =>
    match parseU? ut, parseScript? sc, parseKey? kt with
    | some t, some ops, some k => keyStep (mkUni t []) k (childModes ops) (specModes ops) impl
    | _, _, _ => bad
  | ["cmouse", sc, mst] =>
    match parseScript? sc, parseMouse? mst with
    | some ops, some m => mouseStep m (childModes ops) (specModes ops) impl
    | _, _ => bad
  | ["cpaste", sc, which] =>
    match parseScript? sc with
    | some ops => pasteStep which (childModes ops) (specModes ops) impl
    | none => bad
  | _ => bad

/-! ### Structural tie: the bodies extracted from widgets/term on this run

`Model/TermBody.lean` interprets the bodies of `encodeXterm`, `handleMouse` and `Model.Update` as the
extractor regenerated them (`Gen/TermBody.lean`).  On every case the driver also runs those and
requires the results of the hand-written model (`Props/C13Body.lean` proves they coincide): a
difference, or a shape the interpreter has no meaning for, poisons the model column. -/

open VaxisModel.Model.TermBody in
def genAgrees (line : String) : Bool :=
  let (op, impl) := splitTab line
  let keyOK (u : Uni) (k : Key) (md : Modes) : Bool :=
    encodeXtermGen u k md.deckpam md.decckm == some (encodeXterm u k md.deckpam md.decckm) &&
    updateGen u md (.key k) == some (update u md (.key k))
  let mouseOK (m : Mouse) (md : Modes) : Bool :=
    let u : Uni := mkUni [] []
    handleMouseGen u md m == some (handleMouse md m) && updateGen u md (.mouse m) == some (update u md (.mouse m))
  let pasteOK (md : Modes) : Bool :=
    let u : Uni := mkUni [] []
    updateGen u md .pasteStart == some (update u md .pasteStart) && updateGen u md .pasteEnd == some (update u md .pasteEnd)
  match fields op with
  | ["key", ut, kt, mt] =>
    (match parseU? ut, parseKey? kt, mt.toNat? with
     | some t, some k, some mn => keyOK (mkUni t []) k (modesOf mn)
     | _, _, _ => true)
  | ["ckey", ut, sc, kt] =>
    (match parseU? ut, parseScript? sc, parseKey? kt with
     | some t, some ops, some k => keyOK (mkUni t []) k (childModes ops)
     | _, _, _ => true)
  | ["mouse", mt, mst] =>
    (match mt.toNat?, parseMouse? mst with
     | some mn, some m => mouseOK m (modesOf mn)
     | _, _ => true)
  | ["cmouse", sc, mst] =>
    (match parseScript? sc, parseMouse? mst with
     | some ops, some m => mouseOK m (childModes ops)
     | _, _ => true)
  | ["paste", mt, _] => (match mt.toNat? with | some mn => pasteOK (modesOf mn) | none => true)
  | ["cpaste", sc, _] => (match parseScript? sc with | some ops => pasteOK (childModes ops) | none => true)
  | ["ppaste", ut, mt, _, _] =>
    (match parseU? ut, mt.toNat? with
     | some t, some mn =>
       let u := mkUni t []
       let md := modesOf mn
       let evTok := field impl 1
       let evs? : Option (List Event) := if evTok = "-" ∨ evTok = "" then some [] else (evTok.splitOn ",").mapM parseEvent?
       (match evs? with
        | some evs => evs.all fun ev => updateGen u md ev == some (update u md ev)
        | none => true)
     | _, _ => true)
  | _ => true

def stepTied (line : String) : String :=
  let out := step line
  if genAgrees line then out else "extracted-body≠model|" ++ out

def main : IO Unit := lineLoop stepTied

end VaxisModel.Driver.C13
