import VaxisModel.Driver.Common
import VaxisModel.Model.SurfExec
import VaxisModel.Gen.SurfaceBodies
import VaxisModel.Model.Layout
import VaxisModel.Spec.Surface

/-! Driver for C14 (stateless, one case per line).

`ws W H col row` — `NewSurface(W,H)` then `WriteCell(col,row,marker)`.
    impl / model: `len;i,i,…` (buffer length; indices whose cell changed, `-` if none) or `panic`.

`draw minW,minH,maxW,maxH <widget tokens…>` — `Draw(ctx)` of a built-in widget tree. Tokens:
    `C` (Center, child follows) · `T h|s st hex lines` (Text hard/soft) · `R h|s hex lines` (RichText)
    · `F st hex chars` (TextField) · `B st hex lines` (Button).  `lines` = `~` (no line) or lines
    joined by `/`, a line = `_` (empty) or cells `g.w.st` joined by `,` — the lines the real scanner
    produced for this constraint with the real `Characters`.  `hex` = the content (replay only).
    impl / model: surface nodes in pre-order joined by `;`, node = `depth:col:row:z:w:h:len:fill:cells`
    (`fill` = common style of the cells with empty grapheme, `x` if mixed, `-` if none; `cells` = the
    others as `i=g.w.st` joined by `,`, `-` if none) or `panic:explicit` / `panic:runtime`.

`drawzs mw,mh c|n gap acts` — a list.Dynamic drawn again after calls of its exported API (scrolled state): no model,
only the layout-contract oracle on the real surfaces (`scrolledVerdict`).
`drawz …` — as `draw` for trees with a list.Dynamic: token `D c|n gap k <k widgets>` (DrawCursor on/off, Gap,
    the k items Draw drew, in order, each scanned for `Max.Width − gutter` × unbounded).  impl / model: sizes and
    origins only, `depth:col:row:z:w:h:len` per surface in pre-order.

`render SWxSH <nodes>` — paint a hand-built surface tree as the root surface of a frame on a SW×SH
    screen prefilled with a sentinel, through the hook `VerifC14RenderRoot` (the render call of
    App.Run: `s.render(win.New(0,0,W,H), …)`); model `renderClipped`. nodes as above but
    `depth:col:row:z:w:h:len:cells` (len = buffer length) with the whole buffer `g.w.st,…` (`-` = empty;
    `g.w.st*N` = a run of N equal cells).
    impl / model: changed screen cells `x,y,g,w,st` in (y,x) order (`-` if none) or `panic`.
`run SWxSH <nodes>` — the same tree returned by the root widget of a real `App.Run` on a SW×SH fake
    console; one frame; model `runFrame` (`win.Clear()` then `renderRoot`, whose window is read from
    the source).  impl / model: the screen cells that are not the blank cell, same format.
`bare SWxSH <nodes>` — the bare recursive `s.render(win, …)` into the whole screen window (hook
    `VerifC14Render`); model `render`; oracle: the painter's algorithm without the root's own clip
    (the clip of the surface passed in is the caller's window).

Verdicts are the C14 oracle (`Spec.Surface`) on the implementation's result only. -/
namespace VaxisModel.Driver.C14
open VaxisModel.Driver VaxisModel.Model.Window VaxisModel.Model.Surface VaxisModel.Model.Layout

def marker : Cell := { g := 7, w := 1, st := 3 }
def sentinel : Cell := { g := 9, w := 1, st := 255 }

/-! ### ws -/

def changedIdx (buf : List Cell) : List Nat :=
  ((List.range buf.length).zip buf).filterMap fun (i, c) => if c = default then none else some i

def idxStr (l : List Nat) : String := if l.isEmpty then "-" else ",".intercalate (l.map toString)

def wsHand (W H col row : Nat) : String :=
  let s := newSurface srcArith (UInt16.ofNat W) (UInt16.ofNat H)
  match writeCell srcArith s (UInt16.ofNat col) (UInt16.ofNat row) marker with
  | .error _ => "panic"
  | .ok s' => s!"{s'.buf.length};{idxStr (changedIdx s'.buf)}"

/-- Round 4: the same case through the statement interpreter on the REGENERATED bodies of `NewSurface` and `WriteCell`
(`Gen/SurfaceBodies`, `Model/SurfExec`): what the executed source computes. -/
def wsExecuted (W H col row : Nat) : String :=
  open VaxisModel.Model.SurfExec in
  match run noRo Gen.SurfaceBodies.newSurface Gen.SurfaceBodies.newSurfaceParams [.u16 (UInt16.ofNat W), .u16 (UInt16.ofNat H), .wid 0] (Screen.resize 0 0) with
  | .ok (.surf s, _, _) =>
    (match run noRo Gen.SurfaceBodies.writeCell Gen.SurfaceBodies.writeCellParams
        [.surf s, .u16 (UInt16.ofNat col), .u16 (UInt16.ofNat row), .cell marker] (Screen.resize 0 0) with
     | .ok (_, some (.surf s'), _) => s!"{s'.buf.length};{idxStr (changedIdx s'.buf)}"
     | .error (.panic _) => "panic"
     | .error (.stuck why) => s!"stuck:{why}"
     | _ => "stuck:result")
  | .error (.panic _) => "panic"
  | .error (.stuck why) => s!"stuck:{why}"
  | _ => "stuck:result"

/-- The hand-written model and the executed bodies must agree (`Props.C14Body.newSurface_body_eq_model`,
`writeCell_body_eq_model` prove it for the unchanged source); a difference is shown as such and compared with the real code. -/
def wsModel (W H col row : Nat) : String :=
  let m := wsHand W H col row
  let e := wsExecuted W H col row
  if m = e then m else s!"model={m}|executed-body={e}"

def wsVerdict (W H col row : Nat) (impl : String) : String :=
  if impl = "panic" then
    s!"FAIL panic: WriteCell({col},{row}) on a {W}x{H} surface panicked"
  else match impl.splitOn ";" with
  | [len, idx] =>
    match len.toNat?, commaNats? idx with
    | some len, some idx =>
      if len ≠ W * H then s!"FAIL buflen: NewSurface({W},{H}) has {len} cells, want {W * H}"
      else
        let want := Spec.Surface.expectedWrite W H col row
        if idx = want then "ok"
        else s!"FAIL index: WriteCell({col},{row}) on {W}x{H} changed {idxStr idx}, want {idxStr want}"
    | _, _ => "FAIL unreadable impl result"
  | _ => "FAIL unreadable impl result"

/-! ### draw -/

def parseCell? (s : String) : Option Cell :=
  match (s.splitOn ".").map (·.toInt?) with
  | [some g, some w, some st] => some { g := g.toNat, w := w, st := st.toNat }
  | _ => none

def parseLine? (s : String) : Option (List Cell) :=
  if s = "_" then some [] else (s.splitOn ",").mapM parseCell?

def parseLines? (s : String) : Option (List (List Cell)) :=
  if s = "~" then some [] else (s.splitOn "/").mapM parseLine?

mutual
/-- One widget from the front of the token list; returns the rest. -/
def parseW : Nat → List String → Option (Widget × List String)
  | 0, _ => none
  | fuel + 1, toks =>
    match toks with
    | "C" :: rest => do
        let (w, r) ← parseW fuel rest
        some (.center w, r)
    | "T" :: m :: st :: _ :: lines :: rest => do
        let st ← st.toNat?
        let ls ← parseLines? lines
        some (.text (m == "h") st ls, rest)
    | "R" :: m :: _ :: lines :: rest => do
        let ls ← parseLines? lines
        some (.rich (m == "h") ls, rest)
    | "F" :: _ :: _ :: chars :: rest => do
        let l ← if chars = "~" then some [] else parseLine? chars
        some (.field l, rest)
    | "B" :: st :: _ :: lines :: rest => do
        let st ← st.toNat?
        let ls ← parseLines? lines
        some (.button st ls, rest)
    | "D" :: cur :: gap :: k :: rest => do
        let gap ← gap.toInt?
        let k ← k.toNat?
        let (ws, r) ← parseWs fuel k rest
        some (.dynamic (cur == "c") gap ws, r)
    | _ => none
def parseWs : Nat → Nat → List String → Option (Widgets × List String)
  | _, 0, rest => some (.nil, rest)
  | 0, _ + 1, _ => none
  | fuel + 1, k + 1, rest => do
      let (w, r) ← parseW fuel rest
      let (ws, r2) ← parseWs fuel k r
      some (.cons w ws, r2)
end

def parseWidget? (toks : List String) : Option Widget :=
  match parseW (toks.length + 1) toks with
  | some (w, []) => some w
  | _ => none

/-- The oracle's reading of the documentation: Center, Button and list.Dynamic "must have bounded
constraints" (they panic otherwise); Center and Button hand their constraint on, Dynamic hands its
items `Max.Width − gutter` × unbounded.  `true` = some widget of the tree that must have bounded
constraints receives an unbounded one, so an explicit panic is the documented outcome. -/
def mustPanic : Nat → Widget → Nat → Nat → Bool
  | 0, _, _, _ => false
  | _ + 1, .text .., _, _ => false
  | _ + 1, .rich .., _, _ => false
  | _ + 1, .field .., _, _ => false
  | fuel + 1, .center ch, mw, mh => mw == 65535 || mh == 65535 || mustPanic fuel ch mw mh
  | _ + 1, .button .., mw, mh => mw == 65535 || mh == 65535
  | fuel + 1, .dynamic cur _ kids, mw, mh =>
      mw == 65535 || mh == 65535 ||
        kids.toList.any fun k => mustPanic fuel k ((mw + 65536 - (if cur then 2 else 0)) % 65536) 65535

/-- Expected surface nodes in pre-order: (name, the Max that surface must respect, is-a-centring-parent).
The cursor surface Dynamic wraps its first item in is `Max.Width` wide and as high as the item. -/
def expectedNodes : Nat → Widget → Nat → Nat → List (String × Nat × Nat × Bool)
  | 0, _, _, _ => []
  | _ + 1, .text hard _ _, mw, mh => [(if hard then "text-hard" else "text-soft", mw, mh, false)]
  | _ + 1, .rich hard _, mw, mh => [(if hard then "richtext-hard" else "richtext-soft", mw, mh, false)]
  | _ + 1, .field _, mw, mh => [("textfield", mw, mh, false)]
  | fuel + 1, .center c, mw, mh => ("center", mw, mh, true) :: expectedNodes fuel c mw mh
  | _ + 1, .button _ _, mw, mh => [("button", mw, mh, true), ("text-soft", mw, mh, false)]
  | fuel + 1, .dynamic cur _ kids, mw, mh =>
      let cw := (mw + 65536 - (if cur then 2 else 0)) % 65536
      let each := kids.toList.map fun k => expectedNodes fuel k cw 65535
      let each := match cur, each with
        | true, first :: rest => (("list-cursor", mw, 65535, false) :: first) :: rest
        | _, l => l
      ("dynamic", mw, mh, false) :: each.flatten

structure Node where
  depth : Nat
  col : Int
  row : Int
  z : Int
  w : Nat
  h : Nat
  len : Nat
  rest : String    -- fill:cells (draw) or cells (render)

mutual
def flattenS : Nat → Int → Int → Int → Surface → List (Nat × Int × Int × Int × Surface)
  | d, c, r, z, .mk w h b k => (d, c, r, z, .mk w h b k) :: flattenK (d + 1) k
def flattenK : Nat → Kids → List (Nat × Int × Int × Int × Surface)
  | _, .nil => []
  | d, .cons c r z s rest => flattenS d c r z s ++ flattenK d rest
end

def fillOf (buf : List Cell) : String :=
  match (buf.filter (·.g = 0)).map (·.st) with
  | [] => "-"
  | st :: rest => if rest.all (· = st) then toString st else "x"

def sparse (buf : List Cell) : String :=
  let l := ((List.range buf.length).zip buf).filterMap fun (i, c) =>
    if c.g = 0 then none else some s!"{i}={c.g}.{c.w}.{c.st}"
  if l.isEmpty then "-" else ",".intercalate l

def dumpSurface (s : Surface) : String :=
  ";".intercalate ((flattenS 0 0 0 0 s).map fun (d, c, r, z, n) =>
    s!"{d}:{c}:{r}:{z}:{n.w.toNat}:{n.h.toNat}:{n.buf.length}:{fillOf n.buf}:{sparse n.buf}")

/-- Sizes and origins only (draw ops with a Dynamic: `drawz`). -/
def dumpSizes (s : Surface) : String :=
  ";".intercalate ((flattenS 0 0 0 0 s).map fun (d, c, r, z, n) =>
    s!"{d}:{c}:{r}:{z}:{n.w.toNat}:{n.h.toNat}:{n.buf.length}")

def parseNode? (s : String) : Option Node :=
  match s.splitOn ":" with
  | d :: c :: r :: z :: w :: h :: len :: rest => do
      some { depth := ← d.toNat?, col := ← c.toInt?, row := ← r.toInt?, z := ← z.toInt?,
             w := ← w.toNat?, h := ← h.toNat?, len := ← len.toNat?, rest := ":".intercalate rest }
  | _ => none

def drawHand (sizesOnly : Bool) (c : Ctx) (w : Widget) : String :=
  match draw w c with
  | .error .explicit => "panic:explicit"
  | .error _ => "panic:runtime"
  | .ok s => if sizesOnly then dumpSizes s else dumpSurface s

section executed
open VaxisModel.Model.SurfExec

def execResult (sizesOnly : Bool) (r : Except Err (Val × Option Val × Screen)) : String :=
  match r with
  | .ok (.tup (.surf s) _, _, _) => if sizesOnly then dumpSizes s else dumpSurface s
  | .error (.panic .explicit) => "panic:explicit"
  | .error (.panic _) => "panic:runtime"
  | .error (.stuck why) => s!"stuck:{why}"
  | _ => "stuck:result"

def sizeVal (r : Except Err (Val × Option Val × Screen)) : Except Err Val :=
  match r with
  | .ok (v, _, _) => .ok v
  | .error e => .error e

/-- Round 4: the ROOT widget's Draw through the statement interpreter on the regenerated bodies (`Gen/SurfaceBodies`):
`Center.Draw` (the child's Draw being the model), soft-wrap `RichText` / `Text` (`drawSoftwrap` calling the executed
`findContainerSize`).  hard-wrap `RichText` / `Text` (`Draw` calling the executed `findContainerSize`), `TextField`, `Button` (its Center-around-the-label
draw being the model).  `none` = not executed (Dynamic: C19's interpreter). -/
def drawExecuted (sizesOnly : Bool) (c : Ctx) (w : Widget) : Option String :=
  let scr0 := Screen.resize 0 0
  -- Center / Button allocate Max.Width × Max.Height cells: executed up to 40 000 cells (the theorems cover the rest;
  -- the thorough tier has constraints of 2 000 000 cells, which the hand model alone goes through)
  let big := c.maxW.toNat * c.maxH.toNat > 40000 && c.maxW != unbounded && c.maxH != unbounded
  match w with
  | .center child =>
    if big then none else
    let R : Ro := { noRo with fields := fun f => if f = "Child" then some (.wid 1) else none, childDraw := fun c' => draw child c' }
    some (execResult sizesOnly (run R Gen.SurfaceBodies.centerDraw Gen.SurfaceBodies.centerDrawParams [.wid 0, .ctx c] scr0))
  | .rich false lines =>
    let flds : String → Option Val := fun f => if f = "Softwrap" then some (.bool true) else none
    let R0 : Ro := { noRo with fields := flds, soft := lines, wrapW := c.maxW }
    let selfFn : String → List Val → Option (Except Err Val) := fun f args =>
      if f = "meth:cells" then some (.ok (.cells lines.flatten))
      else if f = "meth:findContainerSize" then
        some (sizeVal (run R0 Gen.SurfaceBodies.richFindContainerSize Gen.SurfaceBodies.richFindContainerSizeParams args scr0))
      else none
    let R : Ro := { R0 with self := selfFn }
    some (execResult sizesOnly (run R Gen.SurfaceBodies.richDrawSoftwrap Gen.SurfaceBodies.richDrawSoftwrapParams [.wid 0, .ctx c] scr0))
  | .text false st lines =>
    let flds : String → Option Val := fun f =>
      if f = "Softwrap" then some (.bool true) else if f = "Style" then some (.sty st) else if f = "Content" then some .text else none
    let R0 : Ro := { noRo with fields := flds, soft := lines, wrapW := c.maxW }
    let selfFn : String → List Val → Option (Except Err Val) := fun f args =>
      if f = "meth:findContainerSize" then
        some (sizeVal (run R0 Gen.SurfaceBodies.textFindContainerSize Gen.SurfaceBodies.textFindContainerSizeParams args scr0))
      else none
    let R : Ro := { R0 with self := selfFn }
    some (execResult sizesOnly (run R Gen.SurfaceBodies.textDrawSoftwrap Gen.SurfaceBodies.textDrawSoftwrapParams [.wid 0, .ctx c] scr0))
  | .rich true lines =>
    let flds : String → Option Val := fun f => if f = "Softwrap" then some (.bool false) else none
    let R0 : Ro := { noRo with fields := flds, hard := lines, wrapW := c.maxW }
    let selfFn : String → List Val → Option (Except Err Val) := fun f args =>
      if f = "meth:cells" then some (.ok (.cells lines.flatten))
      else if f = "meth:findContainerSize" then
        some (sizeVal (run R0 Gen.SurfaceBodies.richFindContainerSize Gen.SurfaceBodies.richFindContainerSizeParams args scr0))
      else none
    let R : Ro := { R0 with self := selfFn }
    some (execResult sizesOnly (run R Gen.SurfaceBodies.richDraw Gen.SurfaceBodies.richDrawParams [.wid 0, .ctx c] scr0))
  | .text true st lines =>
    let flds : String → Option Val := fun f =>
      if f = "Softwrap" then some (.bool false) else if f = "Style" then some (.sty st) else if f = "Content" then some .text else none
    let R0 : Ro := { noRo with fields := flds, hard := lines, wrapW := c.maxW }
    let selfFn : String → List Val → Option (Except Err Val) := fun f args =>
      if f = "meth:findContainerSize" then
        some (sizeVal (run R0 Gen.SurfaceBodies.textFindContainerSize Gen.SurfaceBodies.textFindContainerSizeParams args scr0))
      else none
    let R : Ro := { R0 with self := selfFn }
    some (execResult sizesOnly (run R Gen.SurfaceBodies.textDraw Gen.SurfaceBodies.textDrawParams [.wid 0, .ctx c] scr0))
  | .field chars =>
    -- the value as one grapheme cluster per character (the result does not depend on the clustering:
    -- `Props.C14Body.textfieldDraw_body_eq_model`); style 0 is never read: the characters carry theirs
    let st := (chars.head?.map (·.st)).getD 0
    let flds : String → Option Val := fun f =>
      if f = "Value" then some (.clusters (chars.map fun ch => [ch])) else if f = "Style" then some (.sty st)
      else if f = "cursor" then some (.int 0) else none
    let R : Ro := { noRo with fields := flds }
    if chars.all (·.st == st) then
      some (execResult sizesOnly (run R Gen.SurfaceBodies.textfieldDraw Gen.SurfaceBodies.textfieldDrawParams [.wid 0, .ctx c] scr0))
    else none
  | .button st lines =>
    if big then none else
    let flds : String → Option Val := fun f =>
      if f = "mouseDown" ∨ f = "hover" ∨ f = "focused" then some (.bool false)
      else if f = "Style" then some (.wid 7)
      else if f = "MouseDown" then some (.sty (st + 1)) else if f = "Hover" then some (.sty (st + 2)) else if f = "Focus" then some (.sty (st + 3))
      else if f = "Default" then some (.sty st) else if f = "Label" then some .text else none
    let R : Ro := { noRo with fields := flds, labelDraw := fun st' c' => draw (.center (.text false st' lines)) c' }
    some (execResult sizesOnly (run R Gen.SurfaceBodies.buttonDraw Gen.SurfaceBodies.buttonDrawParams [.wid 0, .ctx c] scr0))
  | _ => none

end executed

/-- The hand-written model, and — where the root widget's body is executed — the executed source; they agree on the
unchanged tree (`Props.C14Body`), a difference is shown as such and compared with the real code. -/
def drawModel (sizesOnly : Bool) (c : Ctx) (w : Widget) : String :=
  let m := drawHand sizesOnly c w
  match drawExecuted sizesOnly c w with
  | some e => if e = m then m else s!"model={m}|executed-body={e}"
  | none => m

/-- Parent of node `i` in a pre-order list with depths: the nearest earlier node of depth-1. -/
def parentIdx (nodes : List Node) (i : Nat) : Option Nat :=
  match nodes[i]? with
  | none => none
  | some n => if n.depth = 0 then none else
      ((List.range i).reverse.find? fun j => match nodes[j]? with
        | some p => p.depth + 1 = n.depth
        | none => false)

def drawVerdict (c : Ctx) (w : Widget) (impl : String) : String :=
  let fuel := 64
  let must := mustPanic fuel w c.maxW.toNat c.maxH.toNat
  if impl = "panic:explicit" then
    if must then "ok" else "FAIL panic: explicit panic although every widget that must have bounded constraints has them"
  else if impl.startsWith "panic" then s!"FAIL panic: Draw panicked"
  else
  match (impl.splitOn ";").mapM parseNode? with
  | none => "FAIL unreadable impl result"
  | some nodes =>
    let exp := expectedNodes fuel w c.maxW.toNat c.maxH.toNat
    if nodes.length ≠ exp.length then
      s!"FAIL shape: {nodes.length} surfaces, the widget tree has {exp.length}"
    else
    let errs := (List.range nodes.length).filterMap fun i =>
      match nodes[i]?, exp[i]? with
      | some n, some (kind, maxW, maxH, _) =>
        -- a zero Surface{} (TextField with a zero constraint) has no buffer at all
        if n.w > maxW ∨ n.h > maxH then
          some s!"FAIL size: {kind} surface {n.w}x{n.h} exceeds max {maxW}x{maxH}"
        else if n.len ≠ n.w * n.h then
          some s!"FAIL buflen: {kind} surface {n.w}x{n.h} has {n.len} cells"
        else match parentIdx nodes i with
          | none => none
          | some j =>
            match nodes[j]?, exp[j]? with
            | some p, some (_, _, _, true) =>
              if n.w ≤ p.w ∧ n.h ≤ p.h then
                if Spec.Surface.centred p.w p.h n.w n.h n.col n.row then none
                else some s!"FAIL centre: {kind} {n.w}x{n.h} at {n.col},{n.row} in {p.w}x{p.h}"
              else none
            | _, _ => none
      | _, _ => none
    match errs with
    | e :: _ => e
    | [] => "ok"

/-- Oracle for a `list.Dynamic` drawn in any scroll state (op `drawzs`), from the documentation only: Draw
does not panic for a bounded constraint; the list's surface is within `Max`; every item is within the
constraint the list hands it (`Max.Width − gutter` wide, any height); the surface the cursored item is
wrapped in (a child of the list that has a child itself) is at most `Max.Width` wide; every buffer holds
exactly width × height cells. -/
def scrolledVerdict (mw mh : Nat) (cursor : Bool) (impl : String) : String :=
  if impl.startsWith "panic" then "FAIL panic: Dynamic.Draw panicked in a scrolled state with a bounded constraint"
  else
  match (impl.splitOn ";").mapM parseNode? with
  | none => "FAIL unreadable impl result"
  | some nodes =>
    let cw := (mw + 65536 - (if cursor then 2 else 0)) % 65536
    let errs := (List.range nodes.length).filterMap fun i =>
      match nodes[i]? with
      | none => none
      | some n =>
        let isWrapper : Bool := n.depth == 1 && (match nodes[i + 1]? with | some m => m.depth == 2 | none => false)
        let maxW := if n.depth == 0 || isWrapper then mw else cw
        let maxH := if n.depth = 0 then mh else 65535
        if n.depth > 2 then some s!"FAIL shape: surface at depth {n.depth} under a list of leaf items"
        else if n.w > maxW ∨ n.h > maxH then some s!"FAIL size: scrolled list, depth {n.depth} surface {n.w}x{n.h} exceeds max {maxW}x{maxH}"
        else if n.len ≠ n.w * n.h then some s!"FAIL buflen: scrolled list, depth {n.depth} surface {n.w}x{n.h} has {n.len} cells"
        else none
    match errs with
    | e :: _ => e
    | [] => "ok"

/-! ### render -/

/-- One buffer token: `g.w.st` or a run `g.w.st*N`. -/
def parseRun? (s : String) : Option (List Cell) :=
  match s.splitOn "*" with
  | [c] => (parseCell? c).map fun x => [x]
  | [c, n] => do
      let x ← parseCell? c
      let n ← n.toNat?
      some (List.replicate n x)
  | _ => none

def parseBuf? (s : String) : Option (List Cell) :=
  if s = "-" then some [] else ((s.splitOn ",").mapM parseRun?).map List.flatten

/-- Build the model tree and the spec tree from the pre-order node list. -/
partial def buildTrees (nodes : List (Node × List Cell)) (depth : Nat) :
    List (Int × Int × Int × Surface) × List Spec.Surface.Tree × List (Node × List Cell) :=
  match nodes with
  | [] => ([], [], [])
  | (n, buf) :: rest =>
    if n.depth < depth then ([], [], nodes)
    else
      let (ks, ts, rest1) := buildTrees rest (depth + 1)
      let kids := ks.foldl (fun acc (c, r, z, s) => acc.snoc c r z s) Kids.nil
      let s := Surface.mk (UInt16.ofNat n.w) (UInt16.ofNat n.h) buf kids
      let t := Spec.Surface.Tree.node n.col n.row n.z n.w n.h buf ts
      let (ks2, ts2, rest2) := buildTrees rest1 depth
      ((n.col, n.row, n.z, s) :: ks2, t :: ts2, rest2)

def startScreen (sw sh : Int) : Screen :=
  { cols := sw, rows := sh, buf := List.replicate sh.toNat (List.replicate sw.toNat sentinel) }

def cellStr (x y : Int) (c : Cell) : String := s!"{x},{y},{c.g},{c.w},{c.st}"

def cellsStr (l : List (Int × Int × Cell)) : String :=
  if l.isEmpty then "-" else " ".intercalate (l.map fun (x, y, c) => cellStr x y c)

def diffCells (s : Screen) : List (Int × Int × Cell) :=
  (upTo s.rows).flatMap fun y => (upTo s.cols).filterMap fun x =>
    match s.get x y with
    | some c => if c = sentinel then none else some (x, y, c)
    | none => none

def wellFormed : List (Node × List Cell) → Bool
  | l => l.all fun (n, b) => b.length = n.w * n.h

inductive Entry where
  | root    -- hook VerifC14RenderRoot on a sentinel screen
  | run     -- a frame of the real App.Run
  | bare    -- hook VerifC14Render on a sentinel screen
deriving DecidableEq

def blankScreen (sw sh : Int) : Screen :=
  { cols := sw, rows := sh, buf := List.replicate sh.toNat (List.replicate sw.toNat clearCell) }

def nonBlank (s : Screen) : List (Int × Int × Cell) :=
  (upTo s.rows).flatMap fun y => (upTo s.cols).filterMap fun x =>
    match s.get x y with
    | some c => if c = clearCell then none else some (x, y, c)
    | none => none

def renderStep (e : Entry) (dims : String) (nodesStr : String) (impl : String) : String :=
  match (dims.splitOn "x").map (·.toInt?), (nodesStr.splitOn ";").mapM (fun s => do
      let n ← parseNode? s
      let b ← parseBuf? n.rest
      some (n, b)) with
  | [some sw, some sh], some nodes =>
    match buildTrees nodes 0 with
    | ([(_, _, _, s)], [t], []) =>
      let scr := startScreen sw sh
      let mc := match e with
        | .root => (match renderClipped s (Win.ofScreen scr) scr with
            | .error _ => "panic"
            | .ok scr' => cellsStr (diffCells scr'))
        | .bare => (match render s (Win.ofScreen scr) scr with
            | .error _ => "panic"
            | .ok scr' => cellsStr (diffCells scr'))
        | .run => (match runFrame s (blankScreen sw sh) with
            | .error _ => "panic"
            | .ok scr' => cellsStr (nonBlank scr'))
      let verdict :=
        if !wellFormed nodes then "-"
        else if impl = "panic" then "FAIL panic: render panicked on a well-formed surface tree"
        else
          -- the property: every surface, the root included, is clipped to its parent / itself;
          -- the bare recursive render leaves the clip of the surface passed in to its caller
          let exp := Spec.Surface.expectedPaint (e != .bare) t sw sh
          let exp := if e = .run then exp.filter (fun (_, _, c) => c ≠ clearCell) else exp
          let want := cellsStr exp
          if impl = want then "ok" else s!"FAIL paint: got {impl} want {want}"
      s!"{mc}\t{impl}\t{verdict}"
    | _ => "bad-op\tbad-op\tbad-op"
  | _, _ => "bad-op\tbad-op\tbad-op"

def step (line : String) : String :=
  let (op, impl) := splitTab line
  if op.startsWith "#" then "-\t-\t-" else
  match fields op with
  | ["ws", W, H, col, row] =>
    match W.toNat?, H.toNat?, col.toNat?, row.toNat? with
    | some W, some H, some col, some row => s!"{wsModel W H col row}\t{impl}\t{wsVerdict W H col row impl}"
    | _, _, _, _ => "bad-op\tbad-op\tbad-op"
  | ["render", dims, nodes] => renderStep .root dims nodes impl
  | ["run", dims, nodes] => renderStep .run dims nodes impl
  | ["bare", dims, nodes] => renderStep .bare dims nodes impl
  | "drawzs" :: ctx :: cur :: _ =>
    -- list.Dynamic in a scrolled state (round 3): no model; the layout-contract oracle on the real surfaces
    match (ctx.splitOn ",").map (·.toNat?) with
    | [some mw, some mh] => s!"-\t-\t{scrolledVerdict mw mh (cur = "c") impl}"
    | _ => "bad-op\tbad-op\tbad-op"
  | kind :: ctx :: toks =>
    if kind = "draw" ∨ kind = "drawz" then
    match (ctx.splitOn ",").map (·.toNat?), parseWidget? toks with
    | [some a, some b, some c, some d], some w =>
      let ctx : Ctx := { minW := UInt16.ofNat a, minH := UInt16.ofNat b, maxW := UInt16.ofNat c, maxH := UInt16.ofNat d }
      s!"{drawModel (kind = "drawz") ctx w}\t{impl}\t{drawVerdict ctx w impl}"
    | _, _ => "bad-op\tbad-op\tbad-op"
    else "bad-op\tbad-op\tbad-op"
  | _ => "bad-op\tbad-op\tbad-op"

def main : IO Unit := lineLoop step

end VaxisModel.Driver.C14
