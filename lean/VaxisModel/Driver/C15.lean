import VaxisModel.Driver.Common
import VaxisModel.Model.Vxfw
import VaxisModel.Model.VxfwErr
import VaxisModel.Spec.Routing

/-! Driver for C15, stream `C15` (handler level: the unexported focus / mouse handlers, hit test,
command interpreter and render's child sort, called through `verif_hooks_c15.go`).

Token formats (space separated decimal integers):
  TREE   := id w h n (col row z TREE)*n
  CMD    := 0 nil | 1 redraw | 2 refresh | 3 quit | 4 consume | 5 id focus | 6 debug | 7 k title
            | 8 n CMD*n BatchCmd | 9 n CMD*n []Command
  SCRIPT := m CMD*m        answers of the 0th, 1st, … handler call of this op (then nil)
Ops: `init root ncap cap* N`, `ev k n S SCRIPT`, `ev u n S SCRIPT`, `ev i S SCRIPT`,
  `upd T TREE S SCRIPT`, `render T TREE`, `setframe r T TREE`, `mouse col row S SCRIPT`,
  `mupd T TREE S SCRIPT`, `mexit clear S SCRIPT`, `tfin S SCRIPT` (terminal FocusIn arm of Run),
  `cmd C CMD S SCRIPT`, `hit col row T TREE`.
Result of a state op: `log;f=focus;p=path;x=flags;h=hits;m=mouse;t=titles`.
The shared pieces (parsers, canonical forms, oracle checks) are also used by `Driver/C15Run`. -/
namespace VaxisModel.Driver.C15
open VaxisModel.Driver VaxisModel.Model.Vxfw VaxisModel.Spec.Routing

/-! ### parsing -/

abbrev Toks := List String

def pInt : Toks → Option (Int × Toks)
  | [] => none
  | a :: r => a.toInt?.map (·, r)

def pNat : Toks → Option (Nat × Toks)
  | [] => none
  | a :: r => a.toNat?.map (·, r)

def pKw (k : String) : Toks → Option Toks
  | [] => none
  | a :: r => if a = k then some r else none

mutual
partial def pTree (ts : Toks) : Option (STree × Toks) := do
  let (i, ts) ← pNat ts
  let (w, ts) ← pNat ts
  let (h, ts) ← pNat ts
  let (n, ts) ← pNat ts
  let (ch, ts) ← pKids n ts
  pure (.node i w h ch, ts)
partial def pKids (n : Nat) (ts : Toks) : Option (List Kid × Toks) :=
  match n with
  | 0 => some ([], ts)
  | n + 1 => do
    let (c, ts) ← pInt ts
    let (r, ts) ← pInt ts
    let (z, ts) ← pInt ts
    let (t, ts) ← pTree ts
    let (rest, ts) ← pKids n ts
    pure ((c, r, z, t) :: rest, ts)
end

mutual
partial def pCmd (ts : Toks) : Option (Cmd × Toks) := do
  let (k, ts) ← pNat ts
  match k with
  | 0 => pure (.nil, ts)
  | 1 => pure (.redraw, ts)
  | 2 => pure (.refresh, ts)
  | 3 => pure (.quit, ts)
  | 4 => pure (.consume, ts)
  | 5 => let (w, ts) ← pNat ts; pure (.focus w, ts)
  | 6 => pure (.debug, ts)
  | 7 => let (n, ts) ← pNat ts; pure (.other n, ts)
  | 8 => let (n, ts) ← pNat ts; let (l, ts) ← pCmds n ts; pure (.batch l, ts)
  | 9 => let (n, ts) ← pNat ts; let (l, ts) ← pCmds n ts; pure (.slice l, ts)
  | _ => none
partial def pCmds (n : Nat) (ts : Toks) : Option (List Cmd × Toks) :=
  match n with
  | 0 => some ([], ts)
  | n + 1 => do
    let (c, ts) ← pCmd ts
    let (rest, ts) ← pCmds n ts
    pure (c :: rest, ts)
end

/-- Script entries; a top-level entry `10` is "this call returns an error" (command ignored). -/
partial def pEntries (n : Nat) (ts : Toks) : Option (List Cmd × List Bool × Toks) :=
  match n with
  | 0 => some ([], [], ts)
  | n + 1 =>
    match ts with
    | "10" :: r => do
      let (cs, fs, ts) ← pEntries n r
      pure (.nil :: cs, true :: fs, ts)
    | _ => do
      let (c, ts) ← pCmd ts
      let (cs, fs, ts) ← pEntries n ts
      pure (c :: cs, false :: fs, ts)

def pScriptE (ts : Toks) : Option (List Cmd × List Bool × Toks) := do
  let ts ← pKw "S" ts
  let (n, ts) ← pNat ts
  pEntries n ts

def pScript (ts : Toks) : Option (List Cmd × Toks) :=
  (pScriptE ts).map fun (c, _, r) => (c, r)

def pTreeKw (k : String) (ts : Toks) : Option (STree × Toks) := do
  let ts ← pKw k ts
  pTree ts

/-- Widgets of a tree in pre-order (driver-side copy of `Lemmas.Vxfw.ids`). -/
partial def treeIds : STree → List Nat
  | .node i _ _ ch => i :: ch.flatMap fun (_, _, _, t) => treeIds t

/-- The precondition of the hover theorems (`StepDistinct`): the tree draws every widget at most
once. Trees given to the mouse handler that do not meet it are rejected (`bad-op`): the property
quantifies over widget trees, and `Props.C15.hover_needs_distinct` shows what happens otherwise. -/
def treeDistinct (t : STree) : Bool :=
  let l := treeIds t
  l.eraseDups.length == l.length

def pHoverTree (k : String) (ts : Toks) : Option (STree × Toks) := do
  let (t, ts) ← pTreeKw k ts
  if treeDistinct t then pure (t, ts) else none

/-! ### printing -/

def evCode : Ev → String
  | .key k => s!"K{k}"
  | .custom k => s!"U{k}"
  | .init => "I"
  | .mouse c r => s!"M{c}.{r}"
  | .focusIn => "FI"
  | .focusOut => "FO"
  | .mouseEnter => "ME"
  | .mouseLeave => "ML"

def phCode : Phase → String
  | .capture => "c" | .target => "t" | .bubble => "b"

def joinOr (l : List String) : String := if l.isEmpty then "-" else ",".intercalate l

def logOf (tr : List Entry) : String :=
  joinOr (tr.filterMap fun
    | .call w ev ph => some s!"{w}:{evCode ev}:{phCode ph}"
    | .draw => some "D"
    | _ => none)

def titlesOf (tr : List Entry) : List Nat :=
  tr.filterMap fun | .eff (.other k) => some k | _ => none

def b01 (b : Bool) : String := if b then "1" else "0"

def flagsOf (s : St) : String :=
  b01 s.redraw ++ b01 s.refresh ++ b01 s.quit ++ b01 s.consume ++ b01 s.debug

def hitsStr (l : List Hit) : String := joinOr (l.map fun h => s!"{h.col}.{h.row}.{h.w}")

def stateStr (s : St) (err : Bool := false) : String :=
  let st := if s.stuck then ";stuck" else ""
  let e := if err then ";e=1" else ""
  s!"{logOf s.trace};f={s.focused};p={joinOr (s.path.map toString)};x={flagsOf s};h={hitsStr s.lastHits};m={b01 s.mouse.isSome};t={joinOr ((titlesOf s.trace).map toString)}{e}{st}"

partial def treeStr : STree → String
  | .node i w h ch =>
    " ".intercalate ([toString i, toString w, toString h, toString ch.length] ++
      ch.map fun (c, r, z, t) => s!"{c} {r} {z} {treeStr t}")

/-! ### parsing the implementation's result -/

def parseEv (s : String) : Option Ev :=
  if s = "I" then some .init
  else if s = "FI" then some .focusIn
  else if s = "FO" then some .focusOut
  else if s = "ME" then some .mouseEnter
  else if s = "ML" then some .mouseLeave
  else if s.startsWith "K" then (s.drop 1).toString.toNat?.map .key
  else if s.startsWith "U" then (s.drop 1).toString.toNat?.map .custom
  else if s.startsWith "M" then
    match (s.drop 1).toString.splitOn "." with
    | [a, b] => do let c ← a.toInt?; let r ← b.toInt?; pure (.mouse c r)
    | _ => none
  else none

def parsePh (s : String) : Option Phase :=
  if s = "c" then some .capture else if s = "t" then some .target else if s = "b" then some .bubble else none

/-- Log entry: a call or a draw marker. -/
def parseLog (s : String) : Option (List Entry) :=
  if s = "-" ∨ s = "" then some [] else
  (s.splitOn ",").mapM fun e =>
    if e = "D" then some .draw else
    match e.splitOn ":" with
    | [w, ev, ph] => do
      let w ← w.toNat?; let ev ← parseEv ev; let ph ← parsePh ph
      pure (.call w ev ph)
    | _ => none

def parseHits (s : String) : Option (List Hit) :=
  if s = "-" ∨ s = "" then some [] else
  (s.splitOn ",").mapM fun e =>
    match e.splitOn "." with
    | [c, r, w] => do
      let c ← c.toInt?; let r ← r.toInt?; let w ← w.toNat?
      pure ⟨c, r, w⟩
    | _ => none

structure Impl where
  log : List Entry
  f : Option Nat
  p : List Nat
  x : List Bool   -- redraw refresh quit consume debug
  h : List Hit
  m : Bool
  t : List Nat
  q : Bool := false
  e : Bool := false     -- the entry point returned an error
  deriving Inhabited

def kv (k : String) (s : String) : Option String :=
  if s.startsWith (k ++ "=") then some (s.drop (k.length + 1)).toString else none

def parseImpl (s : String) : Option Impl := do
  let fs := s.splitOn ";"
  let log ← parseLog (← fs[0]?)
  let get (k : String) : Option String := fs.findSome? (kv k)
  let f := (← get "f").toNat?
  let p ← commaNats? (← get "p")
  let x := (← get "x").toList.map (· == '1')
  let h ← match get "h" with | some v => parseHits v | none => some []
  let m := match get "m" with | some v => v == "1" | none => false
  let t ← match get "t" with | some v => commaNats? v | none => some []
  let q := match get "q" with | some v => v == "1" | none => false
  let e := match get "e" with | some v => v == "1" | none => false
  pure { log, f, p, x, h, m, t, q, e }

/-! ### oracle pieces (evaluated on the implementation's output) -/

/-- Spec-side z-sort of children (stable merge sort), recursively. -/
partial def specSort : STree → STree
  | .node i w h ch =>
    .node i w h ((ch.map fun (c, r, z, t) => (c, r, z, specSort t)).mergeSort (fun a b => a.2.2.1 ≤ b.2.2.1))

/-- The trace the implementation's log stands for: each logged call followed by the non-focus
effects of its scripted answer; a `focusSet` before each FocusIn notification (the assignment
`f.focused = w` immediately precedes that call in `focusWidget`). `extra` are commands executed
before any call (the argument of a `cmd` op). -/
def implTrace (script : List Cmd) (log : List Entry) : List Entry :=
  let rec go (k : Nat) : List Entry → List Entry
    | [] => []
    | .call w ev ph :: r =>
      let pre := if ev = .focusIn then [Entry.eff (.focusSet w)] else []
      let effs := ((script.getD k .nil).flatten.filterMap effOfAtom).map Entry.eff
      pre ++ [.call w ev ph] ++ effs ++ go (k + 1) r
    | e :: r => e :: go k r
  go 0 log

def executedAtoms (script : List Cmd) (log : List Entry) : List Atom :=
  let n := (log.filter fun | .call .. => true | _ => false).length
  (List.range n).flatMap fun k => (script.getD k .nil).flatten

def hasAtom (as : List Atom) (a : Atom) : Bool := as.contains a

/-- Some FocusOut call of the log was answered with a command containing a focus command. -/
def focusOutAnsweredWithFocus (script : List Cmd) (log : List Entry) : Bool :=
  let calls := log.filter fun | .call .. => true | _ => false
  (calls.zipIdx).any fun (e, k) =>
    match e with
    | .call _ .focusOut _ => (script.getD k .nil).flatten.any fun | .focus _ => true | _ => false
    | _ => false

def sortNats (l : List Nat) : List Nat := l.mergeSort (· ≤ ·)

def sameSet (a b : List Nat) : Bool := a.all b.contains && b.all a.contains

/-- The calls of a log with their index and whether the script makes them fail. -/
def callsWithFail (fails : List Bool) (log : List Entry) : List (Entry × Bool) :=
  ((log.filter fun | .call .. => true | _ => false).zipIdx).map fun (e, k) => (e, fails.getD k false)

def isFocusNote : Entry → Bool
  | .call _ .focusIn _ => true
  | .call _ .focusOut _ => true
  | _ => false

/-- Error plumbing evaluated on the implementation's output: an error is returned iff a call
other than a FocusIn/FocusOut notification of `focusWidget` (whose errors are logged / dropped)
failed, and then that call is the last thing in the log. -/
def errChecks (fails : List Bool) (now : Impl) : Option String :=
  let cs := callsWithFail fails now.log
  let hard := cs.filter fun (e, f) => f && !isFocusNote e
  if now.e then
    match cs.getLast? with
    | some (e, true) =>
      if isFocusNote e then some "FAIL error: an error of a FocusIn/FocusOut handler was returned (focusWidget's errors are logged)"
      else if hard.length != 1 then some "FAIL error: handlers were called after a handler had returned an error"
      else if now.log.getLast? != some e then some "FAIL error: something happened after the failing handler call"
      else none
    | _ => some "FAIL error: an error was returned but the last handler call did not fail"
  else if !hard.isEmpty then some "FAIL error: a handler returned an error and it was not passed on"
  else none

/-- The trace used for the focus pairing: a FocusOut whose handler failed cancels the focus change. -/
def dropFailedFocusOut (fails : List Bool) (log : List Entry) : List Entry :=
  let rec go (k : Nat) : List Entry → List Entry
    | [] => []
    | .call w ev ph :: r =>
      if ev = .focusOut ∧ fails.getD k false then go (k + 1) r else .call w ev ph :: go (k + 1) r
    | e :: r => e :: go k r
  go 0 log

/-- A FocusOut / FocusIn pair delivered to ONE widget: not a focus change (the property speaks of the old and the new
widget; a focus command for the widget that is focused already must deliver nothing). Returns that widget. -/
def selfFocusPair : Option Nat → List Entry → Option Nat
  | _, [] => none
  | _, .call w .focusOut _ :: r => selfFocusPair (some w) r
  | some w, .call w' .focusIn _ :: r => if w = w' then some w else selfFocusPair none r
  | p, _ :: r => selfFocusPair p r

/-- Checks shared by all state ops. `pre` = atoms executed before the first call (for `cmd`).
`consumeRule`: `none` = consume' must be consume ∨ executed, `some b` = must be `b`. -/
def commonChecks (prevF : Nat) (prevX : List Bool) (hover : List Nat) (script : List Cmd) (pre : List Atom)
    (now : Impl) (consumeRule : Option Bool) (fails : List Bool := []) : Option String × List Nat :=
  let tr := implTrace script now.log
  let trF := implTrace script (dropFailedFocusOut fails now.log)
  let atoms := pre ++ executedAtoms script now.log
  -- focus notifications in pairs
  let hov' := (hoverRun hover tr)
  let focusMsg : Option String :=
    if now.e then none else
    match focusRun prevF false trF with
    | some f' => if some f' = now.f then
                   (match selfFocusPair none trF with
                    | some w => some s!"FAIL focus: FocusOut and FocusIn delivered to the same widget {w} although the focus did not change"
                    | none => none)
                 else some s!"FAIL focus: last FocusIn went to {f'} but focused widget is {now.f.getD 0}"
    | none =>
      if focusOutAnsweredWithFocus script now.log
      then some "FAIL focus-balance: a FocusOut handler returned a focus command; FocusOut/FocusIn no longer pair up"
      else some "FAIL focus-balance: FocusOut/FocusIn notifications do not pair up"
  let get (i : Nat) (l : List Bool) : Bool := l.getD i false
  let want (i : Nat) (as : List Atom) : Bool := get i prevX || as.any (atoms.contains ·)
  let flagMsg : Option String :=
    if get 0 now.x != want 0 [.redraw, .debug] then some "FAIL commands: redraw flag wrong"
    else if get 1 now.x != want 1 [.refresh] then some "FAIL commands: refresh flag wrong"
    else if get 2 now.x != want 2 [.quit] then some "FAIL commands: quit flag wrong"
    else if get 4 now.x != want 4 [.debug] then some "FAIL commands: debug flag wrong"
    else if !now.e && get 3 now.x != (match consumeRule with | some b => b | none => want 3 [.consume]) then
      some "FAIL commands: consume flag wrong"
    else if sortNats now.t != sortNats (atoms.filterMap fun | .other k => some k | _ => none) then
      some "FAIL commands: title commands not executed exactly once"
    else none
  let hoverMsg : Option String :=
    match hov' with
    | none => some "FAIL hover: MouseEnter/MouseLeave do not alternate for some widget"
    | some hs => if now.e || sameSet hs (now.h.map (·.w)) then none
                 else some "FAIL hover: entered widgets differ from the widgets under the pointer"
  let msg := match (errChecks fails now).orElse fun _ => flagMsg with
    | some m => some m
    | none => match hoverMsg with
      | some m => some m
      | none => focusMsg
  (msg, hov'.getD (now.h.map (·.w)))

/-- Routing check of a dispatch: the offers of `ev` in the implementation's trace. -/
def routedPart (ev : Ev) (tr : List Entry) : List Entry := tr.dropWhile (fun e => !isRouted ev e)

/-! ### driver state -/

structure DS where
  ok : Bool := false
  caps : List Nat := []
  root : Nat := 0
  model : St := St.init 0
  prev : Impl := default
  lastTree : STree := .node 0 0 0 []
  frameTree : STree := .node 0 0 0 []
  focusMoved : Bool := false     -- a focus change since the last `upd`
  hover : List Nat := []
  /-- the pointer position the IMPLEMENTATION was last given (op inputs: `mouse c r`; cleared by `mexit 1`) -/
  ptr : Option (Int × Int) := none
  deriving Inhabited

def fuelDefault : Nat := 40

def mkOracle (caps : List Nat) (script : List Cmd) : Oracle :=
  { h := fun _ _ _ k => script.getD k .nil, captures := fun w => caps.contains w }

def mkEOracle (caps : List Nat) (script : List Cmd) (fails : List Bool) : EOracle :=
  { o := mkOracle caps script, fails := fun _ _ _ k => fails.getD k false }

def bad : String := "bad-op\tbad-op\tbad-op"

def firstMsg (l : List (Option String)) : String :=
  match l.findSome? id with
  | some m => m
  | none => "ok"

/-- The path invariant evaluated on the implementation's state: `path` is the drawn chain (tree of
the last `upd` / frame) of the widget that is focused now, `[root]` if it is not drawn. -/
def pinvMsg (root : Nat) (tree : STree) (now : Impl) : Option String :=
  let ep := expectedPath root tree (now.f.getD 0)
  if now.p == ep then none
  else some s!"FAIL path: path {now.p} is not the drawn chain {ep} of the focused widget {now.f.getD 0}"

def hasFocusIn (log : List Entry) : Bool := log.any fun | .call _ .focusIn _ => true | _ => false

/-- Run one op of the model from `d.model` with a fresh per-op trace and call counter. -/
def fresh (s : St) : St := { s with trace := [], calls := 0 }

def stepState (d : DS) (toks : Toks) (impl : String) : Option (DS × String) := do
  match toks with
  | "ev" :: rest =>
    let (ev, rest) ← (match rest with
      | "k" :: n :: r => n.toNat?.map fun n => (Ev.key n, r)
      | "u" :: n :: r => n.toNat?.map fun n => (Ev.custom n, r)
      | "i" :: r => some (Ev.init, r)
      | _ => none)
    let (script, fails, _) ← pScriptE rest
    let eo := mkEOracle d.caps script fails
    let o := eo.o
    let (m, merr) := eHandleEvent eo fuelDefault (fresh d.model) ev
    let now ← parseImpl impl
    let tr := implTrace script now.log
    let pf := d.prev.f.getD 0
    let ep := expectedPath d.root d.lastTree pf
    let routeMsg : Option String :=
      if now.e then none   -- the dispatch was cut short by a returned error (judged by errChecks)
      else if conforms ev pf (planOf o.captures ep .focusTgt) tr then none
      else if conforms ev pf (planOf o.captures d.prev.p .focusTgt) tr then
        some s!"FAIL stale-path: routed over the stored path {d.prev.p}, but the drawn chain of the focused widget {pf} is {ep}"
      else some s!"FAIL routing: calls do not follow capture/target/bubble over the drawn chain {ep} of the focused widget {pf}"
    let (cm, hov) := commonChecks pf d.prev.x d.hover script [] now (some false) fails
    let v := firstMsg [routeMsg, cm, pinvMsg d.root d.lastTree now]
    pure ({ d with model := m, prev := now, hover := hov },
      s!"{stateStr m merr}\t{impl}\t{v}")
  | "upd" :: rest =>
    let (t, rest) ← pTreeKw "T" rest
    let (script, fails, _) ← pScriptE rest
    let eo := mkEOracle d.caps script fails
    let m := eUpdatePath eo fuelDefault (fresh d.model) t
    let now ← parseImpl impl
    let pf := d.prev.f.getD 0
    let pathMsg : Option String :=
      match chain pf t with
      | some _ =>
        if now.p != expectedPath d.root t pf then some s!"FAIL path: path {now.p} is not the drawn chain {expectedPath d.root t pf}"
        else if now.f != some pf ∨ !now.log.isEmpty then some "FAIL path: focus drawn but handlers were called"
        else none
      | none => none
    let (cm, hov) := commonChecks pf d.prev.x d.hover script [] now none fails
    pure ({ d with model := m, prev := now, hover := hov, lastTree := t },
      s!"{stateStr m}\t{impl}\t{firstMsg [pathMsg, pinvMsg d.root t now, cm]}")
  | "setframe" :: r :: rest =>
    let (t, _) ← pHoverTree "T" rest
    let tm := if r = "1" then sortTree t else t
    let ts := if r = "1" then specSort t else t
    let m := { fresh d.model with lastFrame := tm }
    let now ← parseImpl impl
    let (cm, hov) := commonChecks (d.prev.f.getD 0) d.prev.x d.hover [] [] now none
    pure ({ d with model := m, prev := now, hover := hov, frameTree := ts },
      s!"{stateStr m}\t{impl}\t{firstMsg [cm, pinvMsg d.root d.lastTree now]}")
  | "mouse" :: c :: r :: rest =>
    let c ← c.toInt?; let r ← r.toInt?
    let (script, fails, _) ← pScriptE rest
    let eo := mkEOracle d.caps script fails
    let o := eo.o
    let (m, merr) := eMouseHandleEvent eo fuelDefault (fresh d.model) c r
    let now ← parseImpl impl
    let tr := implTrace script now.log
    let ev := Ev.mouse c r
    let pf := d.prev.f.getD 0
    let wantHits := underRoot d.frameTree c r
    let hitMsg : Option String :=
      if now.e then none
      else if now.h != wantHits then some s!"FAIL hit: hit list {hitsStr now.h} but surfaces under the pointer are {hitsStr wantHits}" else none
    let routed := routedPart ev tr
    let routeMsg : Option String :=
      if now.e then none else
      match now.h.getLast? with
      | none => if routed.isEmpty then none else some "FAIL mouse-routing: nothing under the pointer but the event was offered"
      | some tg =>
        if conforms ev pf (planOf o.captures (now.h.map (·.w)) (.tgt tg.w)) routed then none
        else some s!"FAIL mouse-routing: calls do not follow capture/target/bubble over hit list {hitsStr now.h}"
    let (cm, hov) := commonChecks pf d.prev.x d.hover script [] now
      (if now.e then none else if now.h.isEmpty then none else some false) fails
    pure ({ d with model := m, prev := now, hover := hov, ptr := some (c, r) },
      s!"{stateStr m merr}\t{impl}\t{firstMsg [hitMsg, routeMsg, cm, pinvMsg d.root d.lastTree now]}")
  | "mupd" :: rest =>
    let (t, rest) ← pHoverTree "T" rest
    let (script, fails, _) ← pScriptE rest
    let eo := mkEOracle d.caps script fails
    let (m, merr) := eMouseUpdate eo fuelDefault (fresh d.model) t
    let now ← parseImpl impl
    let hitMsg : Option String :=
      if now.e then none else
      if !d.prev.m then (if now.h != d.prev.h then some "FAIL hit: no pointer but hit list changed" else none)
      else match d.ptr with      -- from the op inputs, not from the model's state
        | some (c, r) =>
          let wantHits := underRoot t c r
          if now.h != wantHits then some s!"FAIL hit: hit list {hitsStr now.h} but surfaces under the pointer are {hitsStr wantHits}" else none
        | none => none
    let (cm, hov) := commonChecks (d.prev.f.getD 0) d.prev.x d.hover script [] now none fails
    pure ({ d with model := m, prev := now, hover := hov },
      s!"{stateStr m merr}\t{impl}\t{firstMsg [hitMsg, cm, pinvMsg d.root d.lastTree now]}")
  | "mexit" :: cl :: rest =>
    let (script, fails, _) ← pScriptE rest
    let eo := mkEOracle d.caps script fails
    let s0 := fresh d.model
    let (m, merr) := eMouseExit eo fuelDefault (if cl = "1" then { s0 with mouse := none } else s0)
    let now ← parseImpl impl
    let (cm, hov) := commonChecks (d.prev.f.getD 0) d.prev.x d.hover script [] now none fails
    let closeMsg : Option String :=
      if now.e then none else
      if !hov.isEmpty ∨ !now.h.isEmpty then some s!"FAIL hover: widgets {hov} still entered after the pointer left" else none
    pure ({ d with model := m, prev := now, hover := hov, ptr := if cl = "1" then none else d.ptr },
      s!"{stateStr m merr}\t{impl}\t{firstMsg [cm, closeMsg, pinvMsg d.root d.lastTree now]}")
  | "tfin" :: rest =>
    -- the vaxis.FocusIn arm of Run: mouseHandler.mouseEnter(root)
    let (script, fails, _) ← pScriptE rest
    let eo := mkEOracle d.caps script fails
    let (m, merr) := eMouseEnter eo fuelDefault (fresh d.model) d.root
    let now ← parseImpl impl
    let (cm, hov) := commonChecks (d.prev.f.getD 0) d.prev.x d.hover script [] now none fails
    let enterMsg : Option String :=
      if !hov.contains d.root then some s!"FAIL hover: root widget {d.root} not entered after terminal FocusIn" else none
    pure ({ d with model := m, prev := now, hover := hov },
      s!"{stateStr m merr}\t{impl}\t{firstMsg [cm, enterMsg, pinvMsg d.root d.lastTree now]}")
  | "cmd" :: rest =>
    let rest ← pKw "C" rest
    let (c, rest) ← pCmd rest
    let (script, fails, _) ← pScriptE rest
    let eo := mkEOracle d.caps script fails
    let m := eHandleCommand eo fuelDefault (fresh d.model) c
    let now ← parseImpl impl
    -- the command itself counts as the answer of a virtual call number -1: prepend its effects
    let pre := c.flatten
    let (cm, hov) := commonChecks (d.prev.f.getD 0) d.prev.x d.hover script pre now none fails
    pure ({ d with model := m, prev := now, hover := hov },
      s!"{stateStr m}\t{impl}\t{firstMsg [cm, pinvMsg d.root d.lastTree now]}")
  | _ => none

def step (d : DS) (line : String) : DS × String :=
  let (op, impl) := splitTab line
  let toks := fields op
  match toks with
  | "#case" :: _ => ({}, "-\t-\t-")
  | "init" :: root :: ncap :: rest =>
    match root.toNat?, ncap.toNat? with
    | some root, some ncap =>
      let caps := (rest.take ncap).filterMap (·.toNat?)
      let m := St.init root
      match parseImpl impl with
      | some now =>
        ({ ok := true, caps, root, model := m, prev := now, lastTree := .node root 0 0 [] },
          s!"{stateStr m}\t{impl}\tok")
      | none => (d, bad)
    | _, _ => (d, bad)
  | "render" :: rest =>
    match pTreeKw "T" rest with
    | some (t, _) =>
      let v := if impl = treeStr (specSort t) then "ok" else "FAIL render: children not in stable z order"
      (d, s!"{treeStr (sortTree t)}\t{impl}\t{v}")
    | none => (d, bad)
  | "hit" :: c :: r :: rest =>
    match c.toInt?, r.toInt?, pTreeKw "T" rest with
    | some c, some r, some (t, _) =>
      let v := match parseHits impl with
        | some h => if h = under 0 0 t c r then "ok" else s!"FAIL hit: surfaces under the pointer are {hitsStr (under 0 0 t c r)}"
        | none => "FAIL hit: unparsable"
      (d, s!"{hitsStr (hitTest t c r)}\t{impl}\t{v}")
    | _, _, _ => (d, bad)
  | _ =>
    if !d.ok then (d, bad) else
    if impl = "panic" ∨ impl = "hang" then (d, s!"-\t{impl}\tFAIL {impl}") else
    match stepState d toks impl with
    | some r => r
    | none => (d, bad)

def main : IO Unit := foldLoop ({} : DS) step

end VaxisModel.Driver.C15
