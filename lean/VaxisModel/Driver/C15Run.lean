import VaxisModel.Driver.C15

/-! Driver for C15, stream `C15Run`: the real `App.Run` loop on a fake console, events posted
with `PostEvent`, every event followed by a sentinel custom event that the test widgets ignore
(its dispatch clears `consumeEvent`; it is how the harness knows the event has been processed).

Ops: `init root ncap cap* N T TREE S SCRIPT` (Run start: Init{} dispatched, first layout, then
the initial `vaxis.Resize` that `vaxis.New` leaves in the queue), `key n S SCRIPT`,
`custom n S SCRIPT`, `mouse col row S SCRIPT`, `focusin S SCRIPT`, `focusout S SCRIPT`,
`resize`, `redrawev`, `frame T TREE1 T TREE2 S SCRIPT` (the timer arm ran).
Result: `log;f=focus;p=path;x=flags;q=returned`. -/
namespace VaxisModel.Driver.C15Run
open VaxisModel.Driver VaxisModel.Driver.C15 VaxisModel.Model.Vxfw VaxisModel.Spec.Routing

def runStr (s : St) (err : Bool := false) : String :=
  let st := if s.stuck then ";stuck" else ""
  let e := if err then ";e=1" else ""
  s!"{logOf s.trace};f={s.focused};p={joinOr (s.path.map toString)};x={flagsOf s};q={b01 (s.quit || err)}{e}{st}"

/-- Hover bookkeeping that names the offending widget and resynchronises. -/
def hoverScan : List Nat → List Entry → List Nat × Option (Nat × String)
  | hs, [] => (hs, none)
  | hs, .call w .mouseEnter _ :: r =>
    if hs.contains w then
      let (h', v) := hoverScan hs r
      (h', some (w, "MouseEnter while already entered") |>.orElse fun _ => v)
    else hoverScan (w :: hs) r
  | hs, .call w .mouseLeave _ :: r =>
    if hs.contains w then hoverScan (hs.erase w) r
    else
      let (h', v) := hoverScan hs r
      (h', some (w, "MouseLeave while not entered") |>.orElse fun _ => v)
  | hs, _ :: r => hoverScan hs r

structure RS where
  ok : Bool := false
  caps : List Nat := []
  root : Nat := 0
  model : St := St.init 0
  prev : Impl := default
  lastTree : STree := .node 0 0 0 []     -- tree whose chain `path` was computed from (spec-sorted)
  frameTree : STree := .node 0 0 0 []    -- tree the mouse handler hit-tests (spec-sorted / first layout)
  focusMoved : Bool := false
  hover : List Nat := []
  ghost : Bool := false                  -- the root widget is in the hit list by a terminal FocusIn (no mouse event / FocusOut since)
  pointer : Option (Int × Int) := none
  done : Bool := false
  deriving Inhabited

def flagChecks (prevX : List Bool) (atoms : List Atom) (now : Impl) (resetRedraw : Bool) : Option String :=
  let get (i : Nat) (l : List Bool) : Bool := l.getD i false
  let want (i : Nat) (as : List Atom) : Bool := get i prevX || as.any (atoms.contains ·)
  if !resetRedraw && get 0 now.x != want 0 [.redraw, .debug] then some "FAIL commands: redraw flag wrong"
  else if !resetRedraw && get 1 now.x != want 1 [.refresh] then some "FAIL commands: refresh flag wrong"
  else if get 2 now.x != want 2 [.quit] then some "FAIL commands: quit flag wrong"
  else if !resetRedraw && get 4 now.x != want 4 [.debug] then some "FAIL commands: debug flag wrong"
  else if now.q != (get 2 now.x || now.e) then some "FAIL quit: Run returned iff quit flag or error — violated"
  else none

def focusChecks (prevF : Nat) (script : List Cmd) (now : Impl) (fails : List Bool := []) : Option String :=
  let tr := implTrace script (dropFailedFocusOut fails now.log)
  if now.e then none else
  match focusRun prevF false tr with
  | some f' => if some f' = now.f then
                 (match selfFocusPair none tr with
                  | some w => some s!"FAIL focus: FocusOut and FocusIn delivered to the same widget {w} although the focus did not change"
                  | none => none)
               else some s!"FAIL focus: last FocusIn went to {f'} but focused widget is {now.f.getD 0}"
  | none =>
    if focusOutAnsweredWithFocus script now.log
    then some "FAIL focus-balance: a FocusOut handler returned a focus command; FocusOut/FocusIn no longer pair up"
    else some "FAIL focus-balance: FocusOut/FocusIn notifications do not pair up"

/-- After a step: clear `consume` if the sentinel was dispatched (not after a returned error). -/
def afterSentinel (s : St) (always : Bool) (err : Bool := false) : St :=
  if err then s else
  if always || !s.quit then { s with consume := false } else s

/-- Hover verdict of one op. `expected` = the widgets that must be entered after the op when the
property determines them. Returns (message, new hover set). -/
def hoverVerdict (hov : List Nat) (hv : Option (Nat × String)) (expected : Option (List Nat)) :
    Option String × List Nat :=
  match hv with
  | some (w, what) => (some s!"FAIL hover: widget {w}: {what}", expected.getD hov)
  | none =>
    match expected with
    | some e =>
      if sameSet hov e then (none, hov)
      else (some s!"FAIL hover: entered widgets {hov} but the widgets that must be entered are {e}", e)
    | none => (none, hov)

def stepEv (d : RS) (toks : Toks) (impl : String) : Option (RS × String) := do
  let now ← parseImpl impl
  let pf := d.prev.f.getD 0
  let finish (d : RS) (m : St) (msgs : List (Option String)) (err : Bool := false) : RS × String :=
    ({ d with model := m, prev := now, done := now.q }, s!"{runStr m err}\t{impl}\t{firstMsg msgs}")
  match toks with
  | "resize" :: _ | "redrawev" :: _ =>
    let m := afterSentinel (runEvent (mkOracle d.caps []) fuelDefault (fresh d.model) .resize) false
    let fm := if now.x.getD 0 false = false then some "FAIL commands: redraw not requested" else none
    let lm := if now.log.isEmpty then none else some "FAIL routing: resize/redraw reached a widget"
    pure (finish d m [fm, lm])
  | kind :: rest =>
    let (ev, rest) ← (match kind, rest with
      | "key", n :: r => n.toNat?.map fun n => (RunEv.key n, r)
      | "custom", n :: r => n.toNat?.map fun n => (RunEv.other n, r)
      | "mouse", c :: r :: rest => do let c ← c.toInt?; let r ← r.toInt?; pure (RunEv.mouse c r, rest)
      | "focusin", r => some (RunEv.focusIn, r)
      | "focusout", r => some (RunEv.focusOut, r)
      | _, _ => none)
    let (script, fails, _) ← pScriptE rest
    let eo := mkEOracle d.caps script fails
    let o := eo.o
    let (m0, merr) := eRunEvent eo fuelDefault (fresh d.model) ev
    let m := afterSentinel m0 false merr
    let tr := implTrace script now.log
    let atoms := executedAtoms script now.log
    let (hov, hv) := hoverScan d.hover tr
    let fmsg := focusChecks pf script now fails
    let cmsg := (errChecks fails now).orElse fun _ => flagChecks d.prev.x atoms now false
    if now.e then
      -- Run returned a handler's error: judged by errChecks (last thing = the failing call) and the flags
      let (hm, hov') := hoverVerdict hov hv none
      pure (finish { d with hover := hov' } m [cmsg, hm] merr)
    else
    match ev with
    | .key _ | .other _ =>
      let e : Ev := match ev with | .key k => .key k | .other k => .custom k | _ => .init
      let ep := expectedPath d.root d.lastTree pf
      let routeMsg : Option String :=
        if conforms e pf (planOf o.captures ep .focusTgt) tr then none
        else if conforms e pf (planOf o.captures d.prev.p .focusTgt) tr then
          some s!"FAIL stale-path: routed over the stored path {d.prev.p}, but the drawn chain of the focused widget {pf} is {ep}"
        else some s!"FAIL routing: calls do not follow capture/target/bubble over the drawn chain {ep} of the focused widget {pf}"
      let (hm, hov') := hoverVerdict hov hv none
      pure (finish { d with hover := hov' } m
        [routeMsg, cmsg, hm, fmsg, pinvMsg d.root d.lastTree now])
    | .mouse c r =>
      let e := Ev.mouse c r
      let hits := underRoot d.frameTree c r
      let routed := routedPart e tr
      let routeMsg : Option String :=
        match hits.getLast? with
        | none => if routed.isEmpty then none else some "FAIL mouse-routing: nothing under the pointer but the event was offered"
        | some tg =>
          if conforms e pf (planOf o.captures (hits.map (·.w)) (.tgt tg.w)) routed then none
          else some s!"FAIL mouse-routing: calls do not follow capture/target/bubble over the surfaces under the pointer {hitsStr hits}"
      let (hm, hov') := hoverVerdict hov hv (some (hits.map (·.w)))
      pure (finish { d with hover := hov', ghost := false, pointer := some (c, r) } m
        [routeMsg, cmsg, hm, fmsg, pinvMsg d.root d.lastTree now])
    | .focusIn =>
      -- terminal FocusIn: the root widget is entered now (notified only if it was not), nobody else changes
      let want := if d.hover.contains d.root then d.hover else d.root :: d.hover
      let (hm, hov') := hoverVerdict hov hv (some want)
      pure (finish { d with hover := hov', ghost := d.ghost || !d.hover.contains d.root } m
        [cmsg, hm, fmsg, pinvMsg d.root d.lastTree now])
    | .focusOut =>
      let (hm, hov') := hoverVerdict hov hv (some [])
      pure (finish { d with hover := hov', ghost := false, pointer := none } m
        [cmsg, hm, fmsg, pinvMsg d.root d.lastTree now])
    | _ => none
  | _ => none

def stepFrame (d : RS) (rest : Toks) (impl : String) : Option (RS × String) := do
  let (t1, rest) ← pHoverTree "T" rest
  let (t2, rest) ← pHoverTree "T" rest
  let (script, fails, _) ← pScriptE rest
  let eo := mkEOracle d.caps script fails
  let (m0, merr) := eRunFrame eo fuelDefault (fresh d.model) t1 t2
  let m := afterSentinel m0 true merr
  let now ← parseImpl impl
  let pf := d.prev.f.getD 0
  let tr := implTrace script now.log
  let draws := (now.log.filter (· == .draw)).length
  let used := if draws ≥ 2 then t2 else t1
  let sorted := specSort used
  let (hov, hv) := hoverScan d.hover tr
  -- hover set after the frame = surfaces of the first layout under the pointer; no pointer known
  -- (before the first mouse event or after terminal focus left): nothing is entered, except the root
  -- widget if a terminal FocusIn arrived since (`ghost`)
  let expected : Option (List Nat) := some (match d.pointer with
    | some (c, r) => (underRoot t1 c r).map (·.w)
    | none => if d.ghost then [d.root] else [])
  let (hm, hov') := hoverVerdict hov hv expected
  let gh := d.ghost && d.pointer.isNone
  -- path after the frame: the drawn chain, in the frame just rendered, of the widget focused at the end
  let pathMsg := pinvMsg d.root sorted now
  let fmsg := focusChecks pf script now fails
  let cmsg := (errChecks fails now).orElse fun _ => flagChecks d.prev.x (executedAtoms script now.log) now true
  let drawMsg := if draws = 0 then some "FAIL frame: no layout" else none
  if now.e then
    pure ({ d with model := m, prev := now, done := now.q, hover := hov },
      s!"{runStr m merr}\t{impl}\t{firstMsg [drawMsg, cmsg, (hoverVerdict hov hv none).1]}")
  else
  pure ({ d with model := m, prev := now, done := now.q, lastTree := sorted, frameTree := sorted, hover := hov',
                 ghost := gh },
    s!"{runStr m}\t{impl}\t{firstMsg [drawMsg, cmsg, pathMsg, hm, fmsg]}")

def stepInit (rest : Toks) (impl : String) : Option (RS × String) := do
  let (root, rest) ← pNat rest
  let (ncap, rest) ← pNat rest
  let caps := (rest.take ncap).filterMap (·.toNat?)
  let rest := rest.drop (ncap + 1)
  let (t, rest) ← pHoverTree "T" rest
  let (script, fails, _) ← pScriptE rest
  let eo := mkEOracle caps script fails
  let o := eo.o
  let (s0, ierr) := eRunInit eo fuelDefault root t
  let m := if ierr then s0 else afterSentinel (runEvent o fuelDefault s0 .resize) false
  let now ← parseImpl impl
  let tr := implTrace script now.log
  let c1 := conforms .init root (planOf o.captures [root] .focusTgt) (tr.filter (· != .draw))
  let routeMsg := if c1 || now.e then none else some "FAIL routing: Init not offered capture/target to the root"
  let fmsg := (errChecks fails now).orElse fun _ => focusChecks root script now fails
  let d : RS := { ok := true, caps, root, model := m, prev := now, lastTree := .node root 0 0 [], frameTree := t,
                  done := now.q }
  pure (d, s!"{runStr m ierr}\t{impl}\t{firstMsg [routeMsg, fmsg]}")

def step (d : RS) (line : String) : RS × String :=
  let (op, impl) := splitTab line
  let toks := fields op
  match toks with
  | "#case" :: _ => ({}, "-\t-\t-")
  | "init" :: rest =>
    if impl = "panic" ∨ impl = "hang" then (d, s!"-\t{impl}\tFAIL {impl}") else
    match stepInit rest impl with
    | some r => r
    | none => (d, bad)
  | _ =>
    if !d.ok then (d, bad) else
    if impl = "panic" ∨ impl = "hang" ∨ impl = "noframe" then (d, s!"-\t{impl}\tFAIL {impl}") else
    match toks with
    | "frame" :: rest => (stepFrame d rest impl).getD (d, bad)
    | _ => (stepEv d toks impl).getD (d, bad)

def main : IO Unit := foldLoop ({} : RS) step

end VaxisModel.Driver.C15Run
