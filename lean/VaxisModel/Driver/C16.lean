import VaxisModel.Driver.Common
import VaxisModel.Model.Wrap
import VaxisModel.Spec.Wrap

/-! Driver for C16 (see harness/cmd/C16/main.go for the op format).
Output per line: `model-canon \t impl-canon \t verdict`, where the canon is the list of emitted
lines per width (`L tok,tok; …` joined by `|`) and the verdict is the C16 oracle
(`Spec.Wrap`) evaluated on the implementation's lines. -/
namespace VaxisModel.Driver.C16
open VaxisModel.Driver VaxisModel.Model.Wrap
open VaxisModel.Spec.Wrap (nonWs content natWidth trimTrailing lineWidthOK conserved hardBreakOK noNeedlessSplit noTermInLines)

structure Alpha where
  widths : Array Nat
  flags : Array Nat

def mkCell (a : Alpha) (id style : Nat) : Cell :=
  let f := a.flags.getD id 0
  { g := id, w := a.widths.getD id 0, style := style,
    sp := f % 2 == 1, term := f / 2 % 2 == 1, nl := f / 4 % 2 == 1 }

/-- `ctx.Characters(line)` as Text.Draw applies it to a scanned line: a tab becomes 8 spaces
(flag bit 8; the space is the alphabet entry with grapheme " ", passed as `spaceId`). -/
def charsOf (a : Alpha) (spaceId : Nat) (c : Cell) : List Cell :=
  if a.flags.getD c.g 0 / 8 % 2 == 1 then List.replicate 8 (mkCell a spaceId c.style) else [c]

def tokOf (c : Cell) : Nat := c.style * 4096 + c.g

def encLine (l : List Cell) : String := ",".intercalate (l.map fun c => toString (tokOf c)) ++ ";"
def encLines : Lines → String
  | .hang => "hang"
  | .ok ls => "L" ++ String.join (ls.map encLine)

/-- Parse `L…` into lines of cells. -/
def decLines (a : Alpha) (s : String) : Option (List (List Cell)) :=
  if s.startsWith "L" then
    let body := (s.drop 1).toString
    let parts := body.splitOn ";"
    -- the last part (after the final ';') is empty
    let parts := parts.dropLast
    parts.mapM fun p =>
      if p = "" then some [] else
        (p.splitOn ",").mapM fun t => t.toNat?.map fun n => mkCell a (n % 4096) (n / 4096)
  else none

def verdictFor (a : Alpha) (lb : Option (Nat → Nat → Bool)) (cells : List Cell) (width : Nat) (impl : String) : String :=
  if impl = "hang" then s!"FAIL termination w={width} the scanner does not terminate"
  else if impl = "panic" then s!"FAIL panic w={width}"
  else match decLines a impl with
  | none => s!"FAIL unparsable result w={width}"
  | some ls =>
    if width = 0 then (if ls.isEmpty then "ok" else s!"FAIL width0 Scan returned true for width 0")
    else if !conserved cells ls then s!"FAIL conservation w={width}"
    else
      match ls.zipIdx.find? (fun p => !lineWidthOK width p.1) with
      | some (l, i) =>
        let t := trimTrailing l
        let tw := natWidth t
        -- classification of the failing shape (used by known-findings matching)
        let lastW := (t.getLast?.map (·.w)).getD 0
        let cls := if tw ≥ 65536 then "u16-overflow"
                   else if lastW ≥ 2 ∧ tw - lastW < width then "wide-tail" else "other"
        s!"FAIL line_width w={width} line={i} trimmed-width={tw} shape={cls}"
      | none =>
        if !hardBreakOK cells ls then s!"FAIL hard_break w={width}"
        else if (match lb with
          | some lb => !noNeedlessSplit lb width cells ls
          | none => false) then s!"FAIL needless_split w={width}"
        else if !noTermInLines ls then
          -- a hard break that did not end its line (literal reading); shape: where the terminator sits
          match ls.zipIdx.find? (fun p => p.1.any (·.term)) with
          | some (l, i) =>
            let shape := if (l.head?.map (·.term)).getD false && !(l.drop 1).any (·.term) then "leading" else "inner"
            s!"FAIL terminator_in_line w={width} line={i} shape={shape}"
          | none => s!"FAIL terminator_in_line w={width}"
        else "ok"

def firstFail (vs : List String) : String :=
  match vs.find? (· ≠ "ok") with
  | some v => v
  | none => "ok"

def parseAlpha (ws fl : String) : Option Alpha := do
  let w ← commaNats? ws
  let f ← commaNats? fl
  some { widths := w.toArray, flags := f.toArray }

def lbOf (k : Nat) (m : String) : Nat → Nat → Bool :=
  let arr := m.toList.toArray
  fun i j => arr.getD (i * k + j) '0' == '1'

/-- Oracle table of the plain scanner: entries `pos.st.len.br.st2`. -/
def parseOTable (n s : Nat) (t : String) : Option (Array (Option (Nat × Bool × Nat))) := do
  let mut arr : Array (Option (Nat × Bool × Nat)) := Array.replicate ((n + 1) * s) none
  if t = "-" then return arr
  for e in t.splitOn "," do
    match (e.splitOn ".").mapM (·.toNat?) with
    | some [pos, st, len, br, st2] => arr := arr.setIfInBounds (pos * s + st) (some (len, br == 1, st2))
    | _ => none
  return arr

def plainOracle (n s : Nat) (tbl : Array (Option (Nat × Bool × Nat))) : Nat → List Cell → Nat × Bool × Nat :=
  fun st rest =>
    match tbl.getD ((n - rest.length) * s + st) none with
    | some r => r
    | none => (0, false, st)   -- not in the table: the model loop makes no progress (reported as hang)

def widthsRange (lo hi : Nat) : List Nat := (List.range (hi + 1 - lo)).map (· + lo)

/-- Surface canon: `S<w>x<h>:` rows `;`-terminated. -/
def encSurface (s : (UInt16 × UInt16) × List (List (Option Cell))) : String :=
  s!"S{s.1.1.toNat}x{s.1.2.toNat}:" ++ String.join (s.2.map fun row =>
    ",".intercalate (row.map fun | some c => toString (tokOf c) | none => "_") ++ ";")

/-- Draw oracle on the implementation's surface (`draw_one_line_per_row`), for `maxH` at least the
number of lines: row `r` shows line `r`: every positive-width cell of the line that starts left of
the surface edge is at its column (columns = running sum of widths); nothing else is drawn except
zero-width cells; there are exactly as many rows as lines. `ls` = the *model-independent* lines are
not available here, so the oracle takes the lines the implementation's own scanner returned
(second field of the impl result). -/
def drawVerdict (a : Alpha) (chars : Cell → List Cell) (impl : String) (maxW maxH : Nat) : String :=
  let (implSurface, implLines) := match impl.splitOn "#" with
    | [x, y] => (x, y)
    | _ => (impl, "")
  match decLines a implLines with
  | none => if impl = "panic" then "FAIL draw panic" else if impl = "hang" then "FAIL draw hang" else "FAIL draw malformed result"
  | some ls =>
  match implSurface.splitOn ":" with
  | [hdr, body] =>
    match ((hdr.drop 1).toString.splitOn "x").mapM (·.toNat?) with
    | some [w, h] =>
      let rows := (body.splitOn ";").dropLast
      if rows.length ≠ h then "FAIL draw malformed surface" else
      if ls.length ≤ maxH ∧ h ≠ ls.length then s!"FAIL draw_rows surface has {h} rows for {ls.length} lines" else
      let rowOK (r : Nat) (row : String) : Bool :=
        let got := (row.splitOn ",").toArray
        let line := (ls.getD r []).flatMap chars
        -- expected: positive-width cells at their columns
        let rec place : List Cell → Nat → List (Nat × Nat) → List (Nat × Nat)
          | [], _, acc => acc
          | c :: cs, col, acc =>
            if col ≥ w ∨ col ≥ maxW then acc
            else place cs (col + c.w) (if c.w > 0 then (col, tokOf c) :: acc else acc)
        let exp := place line 0 []
        (List.range w).all fun col =>
          let g := got.getD col "_"
          match exp.find? (·.1 == col) with
          | some (_, t) => g == toString t
          | none =>
            -- nothing of positive width starts here: empty, or a zero-width cell of this line
            g == "_" || (match g.toNat? with
              | some t => (mkCell a (t % 4096) (t / 4096)).w == 0
              | none => false)
      if (rows.zipIdx.all fun p => rowOK p.2 p.1) then "ok" else "FAIL draw_one_line_per_row"
    | _ => "FAIL draw malformed surface"
  | _ => "FAIL draw malformed surface"

def bad : String := "bad-op\tbad-op\tbad-op"

def step (line : String) : String :=
  let (op, impl) := splitTab line
  match fields op with
  | [kind, wlo, whi, al, ws, fl, lbm, cs, sty] =>
    if kind = "R" ∨ kind = "DR" then
      match parseAlpha ws fl, commaNats? cs, commaNats? sty, wlo.toNat?, whi.toNat? with
      | some a, some ids, some stys, some lo, some hi =>
        let cells := (ids.zip stys).map fun p => mkCell a p.1 p.2
        let lb := lbOf a.widths.size lbm
        if kind = "R" then
          let ws := widthsRange lo hi
          let impls := impl.splitOn "|"
          let model := "|".intercalate (ws.map fun w => encLines (richLines lb w cells))
          let v := firstFail ((ws.zip impls).map fun p => verdictFor a (some lb) cells p.1 p.2)
          let v := if impls.length ≠ ws.length then "FAIL malformed result" else v
          s!"{model}\t{impl}\t{v}"
        else
          -- Draw: lo = Max.Width, hi = Max.Height
          let mw := UInt16.ofNat lo
          let mh := UInt16.ofNat hi
          match richLines lb lo cells with
          | .hang => s!"hang\t{impl}\t-"
          | .ok ls =>
            let model := encSurface (surface mw mh ls) ++ "#" ++ encLines (.ok ls)
            s!"{model}\t{impl}\t{drawVerdict a (fun c => [c]) impl lo hi}"
      | _, _, _, _, _ => bad
    else if kind = "P" ∨ kind = "DP" then
      -- P lo hi alpha widths flags cells nstates otable
      match parseAlpha ws fl, commaNats? lbm, cs.toNat?, wlo.toNat?, whi.toNat? with
      | some a, some ids, some ns, some lo, some hi =>
        let cells := ids.map fun i => mkCell a i 0
        let n := cells.length
        match parseOTable n ns sty with
        | none => bad
        | some tbl =>
          let o := plainOracle n ns tbl
          if kind = "P" then
            let ws := widthsRange lo hi
            let impls := impl.splitOn "|"
            let model := "|".intercalate (ws.map fun w => encLines (plainLines o w cells 0))
            let v := firstFail ((ws.zip impls).map fun p => verdictFor a none cells p.1 p.2)
            let v := if impls.length ≠ ws.length then "FAIL malformed result" else v
            s!"{model}\t{impl}\t{v}"
          else
            let mw := UInt16.ofNat lo
            let mh := UInt16.ofNat hi
            let spaceId := ((al.splitOn ",").idxOf? "20").getD 4095
            let chars := charsOf a spaceId
            match plainLines o lo cells 0 with
            | .hang => s!"hang\t{impl}\t-"
            | .ok ls =>
              let model := encSurface (surface mw mh (ls.map (·.flatMap chars))) ++ "#" ++ encLines (.ok ls)
              s!"{model}\t{impl}\t{drawVerdict a chars impl lo hi}"
      | _, _, _, _, _ => bad
    else bad
  | ["H", _al, ws, fl, cs, sty] =>
    match parseAlpha ws fl, commaNats? cs, commaNats? sty with
    | some a, some ids, some stys =>
      let cells := (ids.zip stys).map fun p => mkCell a p.1 p.2
      let model := encLines (hardLines cells)
      -- oracle: the lines are the input split at "\n" cells (a final "\n" adds no line)
      let v := match decLines a impl with
        | none => "FAIL hard unparsable"
        | some ls =>
          let joined : List (List Nat) := ls.map fun (l : List Cell) => l.map tokOf
          let rec split : List Cell → List Nat → List (List Nat)
            | [], cur => [cur.reverse]
            | c :: rest, cur => if c.nl then (if rest.isEmpty then [cur.reverse] else cur.reverse :: split rest []) else split rest (tokOf c :: cur)
          let exp := if cells.isEmpty then [] else split cells []
          if joined == exp then "ok" else "FAIL hard_wrap lines differ from the split at newlines"
      s!"{model}\t{impl}\t{v}"
    | _, _, _ => bad
  | _ => bad

def main : IO Unit := lineLoop step

end VaxisModel.Driver.C16
