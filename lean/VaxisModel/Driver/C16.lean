import VaxisModel.Driver.Common
import VaxisModel.Model.Wrap
import VaxisModel.Model.WrapDraw
import VaxisModel.Model.WrapHeap
import VaxisModel.Spec.Wrap
import VaxisModel.Model.WrapObj

/-! Driver for C16 (see harness/cmd/C16/main.go for the op format).
Output per line: `model-canon \t impl-canon \t verdict`, where the canon is the list of emitted
lines per width (`L tok,tok; …` joined by `|`) and the verdict is the C16 oracle
(`Spec.Wrap`) evaluated on the implementation's lines. -/
namespace VaxisModel.Driver.C16
open VaxisModel.Driver VaxisModel.Model.Wrap
open VaxisModel.Model
/-- The plain scanner as the OBJECT of the current source (`Model/WrapObj.lean`: `s.state` stored where text.go stores
it, read from the regenerated facts); equal to `plainLines o w cells 0` by `Props.C16Obj.src_scanner_is_value_model`. -/
def plainObjLines (o : Nat → List Cell → Nat × Bool × Nat) (w : Nat) (cells : List Cell) : Lines :=
  match WrapObj.srcLines o 0 w cells with
  | some r => .ok r.1
  | none => .hang

open VaxisModel.Spec.Wrap (nonWs content natWidth trimTrailing lineWidthOK conserved hardBreakOK noNeedlessSplit noTermInLines segChain noNeedlessSplitRuns)

structure Alpha where
  widths : Array Nat
  flags : Array Nat

def mkCell (a : Alpha) (id style : Nat) : Cell :=
  let f := a.flags.getD id 0
  { g := id, w := a.widths.getD id 0, style := style,
    sp := f % 2 == 1, term := f / 2 % 2 == 1, nl := f / 4 % 2 == 1 }

/-- `ctx.Characters(line)` as Text.Draw applies it to a scanned line: a tab becomes 8 spaces
(flag bit 8; the space is the alphabet entry with grapheme " ", passed as `spaceId`). -/
def charsOf (a : Alpha) (spaceId : Nat) (c : Cell) : List Cell :=
  if a.flags.getD c.g 0 / 8 % 2 == 1 then List.replicate 8 (mkCell a spaceId c.style) else [c]

def tokOf (c : Cell) : Nat := c.style * 4096 + c.g

def encLine (l : List Cell) : String := ",".intercalate (l.map fun c => toString (tokOf c)) ++ ";"
def encLines : Lines → String
  | .hang => "hang"
  | .ok ls => "L" ++ String.join (ls.map encLine)

/-- Parse `L…` into lines of cells. -/
def decLines (a : Alpha) (s : String) : Option (List (List Cell)) :=
  if s.startsWith "L" then
    let body := (s.drop 1).toString
    let parts := body.splitOn ";"
    -- the last part (after the final ';') is empty
    let parts := parts.dropLast
    parts.mapM fun p =>
      if p = "" then some [] else
        (p.splitOn ",").mapM fun t => t.toNat?.map fun n => mkCell a (n % 4096) (n / 4096)
  else none

/-- `nns width ls` = the "never split a run that fits" oracle: for richtext the runs of the pairwise
break matrix (`noNeedlessSplit`), for text the segments of uniseg's own segmentation of the whole
text (the chain of fresh queries from the start, read from the oracle table). -/
def verdictFor (a : Alpha) (nns : Nat → List (List Cell) → Bool) (cells : List Cell) (width : Nat) (impl : String) : String :=
  if impl = "hang" then s!"FAIL termination w={width} the scanner does not terminate"
  else if impl = "panic" then s!"FAIL panic w={width}"
  else if impl.startsWith "alias:" then
    -- the harness's aliasing oracle: the scanner wrote into the caller's cells (or behind them), or a
    -- later Scan changed a line already returned
    s!"FAIL aliasing w={width} {(impl.splitOn ":").getD 1 "?"}"
  else match decLines a impl with
  | none => s!"FAIL unparsable result w={width}"
  | some ls =>
    if width = 0 then (if ls.isEmpty then "ok" else s!"FAIL width0 Scan returned true for width 0")
    else if !conserved cells ls then s!"FAIL conservation w={width}"
    else
      match ls.zipIdx.find? (fun p => !lineWidthOK width p.1) with
      | some (l, i) =>
        let t := trimTrailing l
        let tw := natWidth t
        -- classification of the failing shape (used by known-findings matching)
        let lastW := (t.getLast?.map (·.w)).getD 0
        let cls := if tw ≥ 65536 then "u16-overflow"
                   else if lastW ≥ 2 ∧ tw - lastW < width then "wide-tail" else "other"
        s!"FAIL line_width w={width} line={i} trimmed-width={tw} shape={cls}"
      | none =>
        if !hardBreakOK cells ls then s!"FAIL hard_break w={width}"
        else if !nns width ls then s!"FAIL needless_split w={width}"
        else if !noTermInLines ls then
          -- a hard break that did not end its line (literal reading); shape: where the terminator sits
          match ls.zipIdx.find? (fun p => p.1.any (·.term)) with
          | some (l, i) =>
            let shape := if (l.head?.map (·.term)).getD false && !(l.drop 1).any (·.term) then "leading" else "inner"
            s!"FAIL terminator_in_line w={width} line={i} shape={shape}"
          | none => s!"FAIL terminator_in_line w={width}"
        else "ok"

def firstFail (vs : List String) : String :=
  match vs.find? (· ≠ "ok") with
  | some v => v
  | none => "ok"

def parseAlpha (ws fl : String) : Option Alpha := do
  let w ← commaNats? ws
  let f ← commaNats? fl
  some { widths := w.toArray, flags := f.toArray }

def lbOf (k : Nat) (m : String) : Nat → Nat → Bool :=
  let arr := m.toList.toArray
  fun i j => arr.getD (i * k + j) '0' == '1'

/-- Oracle table of the plain scanner: entries `pos.st.len.br.st2`. -/
def parseOTable (n s : Nat) (t : String) : Option (Array (Option (Nat × Bool × Nat))) := do
  let mut arr : Array (Option (Nat × Bool × Nat)) := Array.replicate ((n + 1) * s) none
  if t = "-" then return arr
  for e in t.splitOn "," do
    match (e.splitOn ".").mapM (·.toNat?) with
    | some [pos, st, len, br, st2] => arr := arr.setIfInBounds (pos * s + st) (some (len, br == 1, st2))
    | _ => none
  return arr

def plainOracle (n s : Nat) (tbl : Array (Option (Nat × Bool × Nat))) : Nat → List Cell → Nat × Bool × Nat :=
  fun st rest =>
    match tbl.getD ((n - rest.length) * s + st) none with
    | some r => r
    | none => (0, false, st)   -- not in the table: the model loop makes no progress (reported as hang)

def widthsRange (lo hi : Nat) : List Nat := (List.range (hi + 1 - lo)).map (· + lo)

/-- Token of a drawn cell, as the harness prints it: `_` / `_<style>` for the empty grapheme (the
style is how `Fill` shows), `E<style>` for the "…" of the hard-wrap branch, otherwise
`style*4096 + id` (the model's grapheme ids are the alphabet ids shifted by `WrapDraw.gShift`). -/
def encWinCell (c : Window.Cell) : String :=
  if c.g == Window.gEmpty then (if c.st == 0 then "_" else s!"_{c.st}")
  else if c.g == Window.gEllipsis then s!"E{c.st}"
  else if c.g < WrapDraw.gShift then "?"
  else toString (c.st * 4096 + (c.g - WrapDraw.gShift))

/-- Surface canon of a `WrapDraw.Drawn`: `S<w>x<h>:` then the rows of the buffer, `;`-terminated. -/
def encDrawn : WrapDraw.Drawn → String
  | .hang => "hang"
  | .panic _ => "panic"
  | .ok s =>
    let w := s.w.toNat
    let h := s.h.toNat
    let arr := s.buf.toArray
    s!"S{w}x{h}:" ++ String.join ((List.range h).map fun r =>
      ",".intercalate ((List.range w).map fun c => encWinCell (arr.getD (r * w + c) default)) ++ ";")

/-- Draw oracle on the implementation's surface (`draw_one_line_per_row`), for `maxH` at least the
number of lines: row `r` shows line `r`: every positive-width cell of the line that starts left of
the surface edge is at its column (columns = running sum of widths); nothing else is drawn except
zero-width cells; there are exactly as many rows as lines. `ls` = the *model-independent* lines are
not available here, so the oracle takes the lines the implementation's own scanner returned
(second field of the impl result). -/
def drawVerdict (a : Alpha) (chars : Cell → List Cell) (impl : String) (maxW maxH : Nat) : String :=
  let (implSurface, implLines) := match impl.splitOn "#" with
    | [x, y] => (x, y)
    | _ => (impl, "")
  match decLines a implLines with
  | none => if impl = "panic" then "FAIL draw panic" else if impl = "hang" then "FAIL draw hang" else "FAIL draw malformed result"
  | some ls =>
  match implSurface.splitOn ":" with
  | [hdr, body] =>
    match ((hdr.drop 1).toString.splitOn "x").mapM (·.toNat?) with
    | some [w, h] =>
      let rows := (body.splitOn ";").dropLast
      if rows.length ≠ h then "FAIL draw malformed surface" else
      if ls.length ≤ maxH ∧ h ≠ ls.length then s!"FAIL draw_rows surface has {h} rows for {ls.length} lines" else
      if ls.length > maxH ∧ h ≠ maxH then s!"FAIL draw_rows surface has {h} rows for {ls.length} lines at Max.Height {maxH}" else
      let rowOK (r : Nat) (row : String) : Bool :=
        let got := (row.splitOn ",").toArray
        let line := (ls.getD r []).flatMap chars
        -- expected: positive-width cells at their columns
        let rec place : List Cell → Nat → List (Nat × Nat) → List (Nat × Nat)
          | [], _, acc => acc
          | c :: cs, col, acc =>
            if col ≥ w ∨ col ≥ maxW then acc
            else place cs (col + c.w) (if c.w > 0 then (col, tokOf c) :: acc else acc)
        let exp := place line 0 []
        (List.range w).all fun col =>
          let g := got.getD col "_"
          match exp.find? (·.1 == col) with
          | some (_, t) => g == toString t
          | none =>
            -- nothing of positive width starts here: empty, or a zero-width cell of this line
            g.startsWith "_" || (match g.toNat? with
              | some t => (mkCell a (t % 4096) (t / 4096)).w == 0
              | none => false)
      if (rows.zipIdx.all fun p => rowOK p.2 p.1) then "ok" else "FAIL draw_one_line_per_row"
    | _ => "FAIL draw malformed surface"
  | _ => "FAIL draw malformed surface"

/-- The lines of a hard-wrapped text, from the property text ("a hard line break always ends the
current line"): the cells split at the hard line breaks (`term`: "\n", "\r\n", "\r", U+2028, …; a
final one adds no line; no cells, no lines). -/
def splitNl (cells : List Cell) : List (List Cell) :=
  let rec go : List Cell → List Cell → List (List Cell)
    | [], cur => [cur.reverse]
    | c :: rest, cur =>
      if c.term then (if rest.isEmpty then [cur.reverse] else cur.reverse :: go rest [])
      else go rest (c :: cur)
  if cells.isEmpty then [] else go cells []

/-- Oracle for `RichText.Draw` with `Softwrap = false`, on the implementation's surface only
(written from the property text, not from the model): the surface has `min(#lines, Max.Height)`
rows and is at most `Max.Width` wide; row `k` shows line `k` cell by cell at cumulative columns;
a line that does not fit `Max.Width` is cut short by one "…" in the style of the cell it replaces, after
which the row is blank: the "…" stands where the rest of the line does **not** fit into the remaining
columns (`needless-ellipsis` when it fits exactly — finding F316, fixed; `early-ellipsis` when with room to
spare), behind the longest prefix that leaves it a column (`short-prefix`), and it must be there
(`missing-ellipsis`); a line that fits is there whole and no cell sticks out over `Max.Width`. -/
def hardDrawVerdictLines (ls : List (List Cell)) (impl : String) (maxW maxH : Nat) : String :=
  if impl = "panic" then "FAIL hard_draw panic" else if impl = "hang" then "FAIL hard_draw hang" else
  match impl.splitOn ":" with
  | [hdr, body] =>
    match ((hdr.drop 1).toString.splitOn "x").mapM (·.toNat?) with
    | some [w, h] =>
      let rows := (body.splitOn ";").dropLast
      let wantH := min ls.length maxH
      if rows.length ≠ h then "FAIL hard_draw malformed surface"
      else if h ≠ wantH then s!"FAIL hard_draw rows surface has {h} rows for {ls.length} lines at Max.Height {maxH}"
      else if w > maxW then s!"FAIL hard_draw surface wider than Max.Width"
      else
        -- one row: walk the line; `none` = fine
        let rowBad (r : Nat) (row : String) : Option String :=
          let got := (if row = "" then [] else row.splitOn ",").toArray
          let blankFrom (col : Nat) : Bool :=
            (List.range (w - col)).all fun d => (got.getD (col + d) "_").startsWith "_"
          let rec walk : List Cell → Nat → Option String
            | [], col => if blankFrom col then none else some s!"row={r} col={col} something drawn after the line"
            | c :: cs, col =>
              if col ≥ w then none   -- nothing of the rest is visible on the surface
              else
                let g := got.getD col "_"
                let remaining := natWidth (c :: cs)
                if c.w > 0 ∧ g == s!"E{c.style}" then   -- (a zero-width grapheme is never the one replaced)
                  -- F316 (fixed in /repo 65842f0): the rest of the line fits exactly (the shape the old
                  -- `i < len(chars)` guard produced); an ellipsis with room to spare is a different defect
                  if remaining == maxW - col then some s!"needless-ellipsis row={r} col={col} remaining={remaining} maxw={maxW}"
                  else if remaining < maxW - col then some s!"row={r} col={col} early-ellipsis remaining={remaining} maxw={maxW}"
                  -- the line does not fit: the ellipsis stands behind the *longest* prefix that leaves it a column
                  else if col + c.w + 1 ≤ maxW then some s!"row={r} col={col} short-prefix the next grapheme (width {c.w}) still leaves room at maxw={maxW}"
                  else if blankFrom (col + 1) then none else some s!"row={r} col={col} cells after the ellipsis"
                else if remaining > maxW - col ∧ c.w > 0 ∧ col + c.w ≥ maxW then
                  -- the line does not fit and this grapheme leaves no column for the ellipsis: it must be the ellipsis
                  some s!"row={r} col={col} missing-ellipsis remaining={remaining} maxw={maxW}"
                else if c.w == 0 then
                  -- overwritten by the next cell unless it is the last one of the line
                  if !cs.isEmpty then walk cs col
                  else if g == toString (tokOf c) then
                    (if blankFrom (col + 1) then none else some s!"row={r} col={col} something drawn after the line")
                  else if g.startsWith "_" then walk cs col
                  else some s!"row={r} col={col} wrong cell"
                else if g != toString (tokOf c) then some s!"row={r} col={col} wrong cell"
                else if col + c.w > maxW then some s!"row={r} col={col} cell sticks out over Max.Width"
                else if !((List.range (c.w - 1)).all fun d => (got.getD (col + 1 + d) "_").startsWith "_") then
                  some s!"row={r} col={col} cells under a wide grapheme"
                else walk cs (col + c.w)
          walk (ls.getD r []) 0
        match (rows.zipIdx.filterMap fun p => rowBad p.2 p.1).head? with
        | some why => s!"FAIL hard_draw {why}"
        | none => "ok"
    | _ => "FAIL hard_draw malformed surface"
  | _ => "FAIL hard_draw malformed surface"

def hardDrawVerdict (cells : List Cell) (impl : String) (maxW maxH : Nat) : String :=
  hardDrawVerdictLines (splitNl cells) impl maxW maxH

/-- `DW maxW nlines` / `DWR maxW nlines` (F216 witness): `Text.Draw` / `RichText.Draw` of `nlines` lines "a", …, "a", "b", "c" at
Max = maxW × 65535.  The expected value is **not** an execution of the model (65535 rows of
`List.set` are too slow) but the *proved specification* `Props.C16Draw.draw_row_is_line`: the
surface has `min(nlines, Max.Height)` rows, as wide as the widest line (1), and row `k` shows
line `k`.  Only rows 0..2 are compared.  Tokens: a = 0, b = 1, c = 2. -/
def dwExpected (maxW nlines : Nat) : String :=
  if maxW = 0 then "S0x0:" else
  let h := min nlines 65535
  let line (k : Nat) : Nat := if k + 2 < nlines then 0 else if k + 2 = nlines then 1 else 2
  s!"S1x{h}:" ++ String.join ((List.range (min 3 h)).map fun k => toString (line k) ++ ";")

def bad : String := "bad-op\tbad-op\tbad-op"

/-- `DP`: Text.Draw (soft wrap) with `Text.Style = tst`; lo = Max.Width, hi = Max.Height.  Model =
`WrapDraw.textDraw` (plain scanner model with the per-case segmentation oracle, `ctx.Characters`
re-clustering as `charsOf`, C14's drawing loops incl. `Fill`). -/
def stepDP (wlo whi al ws fl cs nstates otable : String) (tst : Nat) (impl : String) : String :=
  match parseAlpha ws fl, commaNats? cs, nstates.toNat?, wlo.toNat?, whi.toNat? with
  | some a, some ids, some ns, some lo, some hi =>
    let cells := ids.map fun i => mkCell a i 0
    let n := cells.length
    match parseOTable n ns otable with
    | none => bad
    | some tbl =>
      let o := plainOracle n ns tbl
      let spaceId := ((al.splitOn ",").idxOf? "20").getD 4095
      let chars := charsOf a spaceId
      match WrapDraw.textDraw o 0 chars tst (UInt16.ofNat lo) (UInt16.ofNat hi) cells with
      | .hang => s!"hang\t{impl}\t-"
      | d =>
        let model := encDrawn d ++ "#" ++ encLines (plainLines o lo cells 0)
        -- the oracle expects every cell of a line in the widget's style
        let styled := fun c => (chars c).map fun x => { x with style := tst }
        s!"{model}\t{impl}\t{drawVerdict a styled impl lo hi}"
  | _, _, _, _, _ => bad

/-- `MB <text>`: both soft-wrap scanners on a text that fits on one line but for its hard breaks. The property text:
"a hard line break always ends the current line" — `must` hard breaks inside the text (as `uniseg.FirstLineSegment` reports
them: LF, CR, CRLF, and the classes BK / NL of UAX #14: U+2028, U+2029, U+0085, VT, FF) mean `must + 1` lines, for the plain
and for the rich scanner.  No model output (the scanner models take the library's answers as parameters). -/
def stepMB (impl : String) : String :=
  let kv := (impl.splitOn ";").map fun p => p.splitOn "="
  let get (k : String) : Option Nat := (kv.find? fun p => p.head? == some k).bind fun p => (p.getD 1 "").toNat?
  match get "plain", get "rich", get "must" with
  | some np, some nr, some m =>
    let v := if np < m + 1 then s!"FAIL hard_break_ignored scanner=plain lines={np} hard-breaks={m}"
             else if nr < m + 1 then s!"FAIL hard_break_ignored scanner=rich lines={nr} hard-breaks={m}"
             else "ok"
    s!"{impl}\t{impl}\t{v}"
  | _, _, _ => s!"{impl}\t{impl}\tFAIL malformed result"

def step (line : String) : String :=
  let (op, impl) := splitTab line
  match fields op with
  | ["MB", _txt] => stepMB impl
  | ["DP", wlo, whi, al, ws, fl, cells, ns, ot, tst] => stepDP wlo whi al ws fl cells ns ot (tst.toNat?.getD 0) impl
  | ["DP", wlo, whi, al, ws, fl, cells, ns, ot] => stepDP wlo whi al ws fl cells ns ot 0 impl
  | [dw, mw, nl] =>
    if dw ≠ "DW" ∧ dw ≠ "DWR" then bad else   -- Text.Draw / RichText.Draw (soft wrap): the same expectation
    match mw.toNat?, nl.toNat? with
    | some mw, some nl =>
      let exp := dwExpected mw nl
      let v := if impl = exp then "ok" else s!"FAIL draw_row_is_line rows 0..2 of {nl} lines at Max.Height 65535 are not lines 0..2"
      s!"{exp}\t{impl}\t{v}"
    | _, _ => bad
  | [kind, wlo, whi, al, ws, fl, lbm, cs, sty] =>
    if kind = "DT" then
      -- Text.Draw, Softwrap = false: lo = Max.Width, hi = Max.Height; every cell in Text.Style.
      -- Model = `WrapDraw.textHardDraw`: `text.hardLines` + C14's drawing loops (`Layout.drawText`, hard mode
      -- of Text); oracle = the hard-wrap row oracle over the lines of the property text
      match parseAlpha ws fl, commaNats? cs, commaNats? sty, wlo.toNat?, whi.toNat? with
      | some a, some ids, some stys, some lo, some hi =>
        let st := stys.headD 0
        let cells := ids.map fun i => mkCell a i st
        let spaceId := ((al.splitOn ",").idxOf? "20").getD 4095
        let d := WrapDraw.textHardDraw (charsOf a spaceId) st (UInt16.ofNat lo) (UInt16.ofNat hi) cells
        s!"{encDrawn d}\t{impl}\t{hardDrawVerdict cells impl lo hi}"
      | _, _, _, _, _ => bad
    else
    if kind = "R" ∨ kind = "DR" ∨ kind = "DH" then
      match parseAlpha ws fl, commaNats? cs, commaNats? sty, wlo.toNat?, whi.toNat? with
      | some a, some ids, some stys, some lo, some hi =>
        let cells := (ids.zip stys).map fun p => mkCell a p.1 p.2
        let lb := lbOf a.widths.size lbm
        if kind = "R" then
          let ws := widthsRange lo hi
          let impls := impl.splitOn "|"
          -- the heap-level model (`Model.WrapHeap`: Go slices, `append` in place) runs next to the
          -- value-level one on small texts: same lines, read after the last Scan, and the caller's
          -- array with its spare capacity untouched (`Props.C16Heap`); a difference shows in model-canon
          let oH : List Cell → Nat × Bool := fun l => ((richOracle lb () l).1, (richOracle lb () l).2.1)
          let spare : List Cell := [{ g := 4094, w := 77, style := 0, sp := false, term := false, nl := false }]
          let heapOK (w : Nat) : Bool :=
            if cells.length > 12 then true else
            match WrapHeap.runH (fun c n => if c == 0 then n else 2 * c) oH w cells spare, richLines lb w cells with
            | some (ls, arr0), .ok ls' => ls == ls' && arr0 == cells ++ spare
            | none, .hang => true
            | _, _ => false
          let model := "|".intercalate (ws.map fun w =>
            if heapOK w then encLines (richLines lb w cells) else "heap-model-differs")
          let v := firstFail ((ws.zip impls).map fun p => verdictFor a (fun w ls => noNeedlessSplit lb w cells ls) cells p.1 p.2)
          let v := if impls.length ≠ ws.length then "FAIL malformed result" else v
          s!"{model}\t{impl}\t{v}"
        else if kind = "DH" then
          -- RichText.Draw, Softwrap = false: lo = Max.Width, hi = Max.Height
          let model := encDrawn (WrapDraw.richHardDraw (UInt16.ofNat lo) (UInt16.ofNat hi) cells)
          s!"{model}\t{impl}\t{hardDrawVerdict cells impl lo hi}"
        else
          -- RichText.Draw (soft wrap): lo = Max.Width, hi = Max.Height; model = the scanner model
          -- composed with C14's drawing loops on a Surface (`WrapDraw.richDraw`)
          match WrapDraw.richDraw lb (UInt16.ofNat lo) (UInt16.ofNat hi) cells with
          | .hang => s!"hang\t{impl}\t-"
          | d =>
            let model := encDrawn d ++ "#" ++ encLines (richLines lb lo cells)
            s!"{model}\t{impl}\t{drawVerdict a (fun c => [c]) impl lo hi}"
      | _, _, _, _, _ => bad
    else if kind = "P" then
      -- P lo hi alpha widths flags cells nstates otable
      match parseAlpha ws fl, commaNats? lbm, cs.toNat?, wlo.toNat?, whi.toNat? with
      | some a, some ids, some ns, some lo, some hi =>
        let cells := ids.map fun i => mkCell a i 0
        let n := cells.length
        match parseOTable n ns sty with
        | none => bad
        | some tbl =>
          let o := plainOracle n ns tbl
          if kind = "P" then
            let ws := widthsRange lo hi
            let impls := impl.splitOn "|"
            let model := "|".intercalate (ws.map fun w => encLines (plainObjLines o w cells))
            let segs := segChain o (n + 1) 0 cells
            let v := firstFail ((ws.zip impls).map fun p => verdictFor a (fun w ls => noNeedlessSplitRuns segs w ls) cells p.1 p.2)
            let v := if impls.length ≠ ws.length then "FAIL malformed result" else v
            s!"{model}\t{impl}\t{v}"
          else bad
      | _, _, _, _, _ => bad
    else bad
  | ["H", _al, ws, fl, cs, sty] =>
    match parseAlpha ws fl, commaNats? cs, commaNats? sty with
    | some a, some ids, some stys =>
      let cells := (ids.zip stys).map fun p => mkCell a p.1 p.2
      let model := encLines (hardLines cells)
      -- oracle: the lines are the input split at the hard line breaks (a final one adds no line)
      let v := if impl.startsWith "alias:" then s!"FAIL aliasing hardwrap {(impl.splitOn ":").getD 1 "?"}" else
        match decLines a impl with
        | none => "FAIL hard unparsable"
        | some ls =>
          let joined : List (List Nat) := ls.map fun (l : List Cell) => l.map tokOf
          let rec split : List Cell → List Nat → List (List Nat)
            | [], cur => [cur.reverse]
            | c :: rest, cur => if c.term then (if rest.isEmpty then [cur.reverse] else cur.reverse :: split rest []) else split rest (tokOf c :: cur)
          let exp := if cells.isEmpty then [] else split cells []
          if joined == exp then "ok" else "FAIL hard_wrap lines differ from the split at the hard line breaks"
      s!"{model}\t{impl}\t{v}"
    | _, _, _ => bad
  | _ => bad

def main : IO Unit := lineLoop step

end VaxisModel.Driver.C16
