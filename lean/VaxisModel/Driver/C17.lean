import VaxisModel.Driver.Common
import VaxisModel.Model.TextField
import VaxisModel.Model.TextInput
import VaxisModel.Model.TextInputCells
import VaxisModel.Model.TextFieldCl
import VaxisModel.Model.EdGen
import VaxisModel.Spec.Uax29
import VaxisModel.Model.TextInputCl
import VaxisModel.Spec.Editor
import VaxisModel.Spec.EditorView

/-! Driver for C17 (op format: harness/cmd/C17/main.go).  State per case: the widget model, and the
ideal editor `Spec.Editor` run on the *meaning* of every op; the verdict compares the
implementation's observable state with the ideal editor's. -/
namespace VaxisModel.Driver.C17
open VaxisModel.Driver
open VaxisModel.Model
open VaxisModel.Spec.Editor (Ed Op Callback)
open VaxisModel.Spec.Uax29 (clUax)

structure St where
  nocb : Bool := false             -- the TextField has no callbacks installed
  kind : String := ""
  widths : Array Nat := #[]
  words : Array Bool := #[]
  tf : TextField.TF Nat := TextField.new
  ti : TextInput.TI Nat := TextInput.new
  ed : Ed Nat := ⟨[], 0⟩
  dead : Bool := false      -- model panicked / hung earlier in this case
  masked : Bool := false    -- textinput: SetInvisibleChar was called
  -- kinds tfc / tic: texts of atoms (code points) whose graphemes can merge
  classes : Array Char := #[]          -- grapheme-break class of each atom (header `k=`)
  cw : List (List Nat × List Nat) := [] -- widths of the characters each cluster seen so far is drawn as (op field `W=`)
  tfc : TextFieldCl.TF Nat := TextFieldCl.new
  tic : TextInputCl.TIC Nat := TextInputCl.new
  edc : Ed (List Nat) := ⟨[], 0⟩

def St.w (s : St) (g : Nat) : Nat := s.widths.getD g 1
def St.isWord (s : St) (g : Nat) : Bool := s.words.getD g false

def ids? (s : String) : Option (List Nat) := commaNats? s
def showIds (l : List Nat) : String := joinNats "," l

def widthOf (s : St) (l : List Nat) : Nat := (l.map s.w).foldl (· + ·) 0

def meaning? (m : String) (text : List Nat) : Option (Op Nat) :=
  match m with
  | "insert" => some (.insert text)
  | "home" => some .home
  | "end" => some .toEnd
  | "right" => some .right
  | "left" => some .left
  | "delr" => some .deleteRight
  | "dell" => some .deleteLeft
  | "kill" => some .killToEnd
  | "killstart" => some .killToStart
  | "delword" => some .deleteWordLeft
  | "wordleft" => some .wordLeft
  | "wordright" => some .wordRight
  | "submit" => some .submit
  | "noop" => some .noop
  | _ => none

def showCb : Callback Nat → String
  | .change t => "C" ++ showIds t
  | .submit t => "S" ++ showIds t
def showCall : TextField.Call Nat → String
  | .change t => "C" ++ showIds t
  | .submit t => "S" ++ showIds t
def showLog (l : List String) : String := if l.isEmpty then "-" else ";".intercalate l

/-! ### the TextField as the interpreter run on the translated bodies (`Gen/EditorLang.lean`) -/

def cl1 (s : List Nat) : List (List Nat) := s.map ([·])

def toCl (t : TextField.TF Nat) : TextFieldCl.TF Nat := ⟨t.value, t.cursor, t.n⟩
def ofCl (t : TextFieldCl.TF Nat) : TextField.TF Nat := ⟨t.value, t.cursor, t.n⟩

/-- An API call through the translated body (`none`: the interpreter has no meaning for it). -/
def apiI (cl : List Nat → List (List Nat)) (tf : TextFieldCl.TF Nat) (f : String) (args : List (EdLang.V Nat)) : Option (TextFieldCl.TF Nat) :=
  (EdRun.tfApi EdGen.genTf cl f args tf).map (·.1)

/-- `HandleEvent` through the translated bodies. -/
def keyI (nocb : Bool) (cl : List Nat → List (List Nat)) (tf : TextFieldCl.TF Nat) (ev : TextField.KeyEv Nat) :
    Option (TextFieldCl.TF Nat × List (TextFieldCl.Call Nat)) :=
  (if nocb then EdRun.tfHandleKeyNoCb EdGen.genTf cl tf ev else EdRun.tfHandleKey EdGen.genTf cl tf ev).map fun (t, log) =>
    (t, log.map fun (k, v) => if k = "submit" then TextFieldCl.Call.submit v else TextFieldCl.Call.change v)

/-- textinput's `Update` / `SetContent` through the translated bodies, over merging graphemes … -/
def tiUpdI (cl : List Nat → List (List Nat)) (isW : List Nat → Bool) (m : TextInputCl.TIC Nat) (ev : TextInputCl.Ev Nat) :
    Option (TextInputCl.TIC Nat) := EdRun.tiRunUpdate EdGen.genTi cl isW m ev
def tiSetI (cl : List Nat → List (List Nat)) (isW : List Nat → Bool) (m : TextInputCl.TIC Nat) (t : List Nat) :
    Option (TextInputCl.TIC Nat) := EdRun.tiRunSetContent EdGen.genTi cl isW m t

/-- … and over graphemes that never merge (kind `ti`: one atom per grapheme). -/
def tiToCl (m : TextInput.TI Nat) : TextInputCl.TIC Nat := ⟨m.content.map ([·]), m.cursor, m.offset, m.paste⟩
def tiOfCl (m : TextInputCl.TIC Nat) : TextInput.TI Nat := ⟨m.content.map (·.headD 0), m.cursor, m.offset, m.paste⟩
def evToCl : TextInput.Ev Nat → TextInputCl.Ev Nat
  | .pasteEnd => .pasteEnd
  | .release => .release
  | .pasteKey t => .pasteKey t
  | .key s c a sup t => .key s c a sup t
  | .other => .other

/-- The cursor column `Draw` computes, through the translated body (`chars` = widths of the characters a cluster is
    drawn as); the hand model when the body cannot be run. -/
def colI (cl : List Nat → List (List Nat)) (chars : List Nat → List Nat) (tf : TextFieldCl.TF Nat) : Nat :=
  match EdRun.tfDrawCol EdGen.genTf cl (fun c => (chars c).map Int.ofNat) tf 1000 1 with
  | some (some c) => (c % 65536).toNat
  | _ => (TextFieldCl.drawCursorCol cl chars tf).toNat

/-- `Draw` at a given surface size through the translated body: `nocursor` for a zero-sized surface. -/
def drawI (cl : List Nat → List (List Nat)) (chars : List Nat → List Nat) (tf : TextFieldCl.TF Nat) (w h : Nat) : String :=
  match EdRun.tfDrawCol EdGen.genTf cl (fun c => (chars c).map Int.ofNat) tf w h with
  | some (some c) => s!"col={(c % 65536).toNat}"
  | some none => "nocursor"
  | none => if w = 0 ∨ h = 0 then "nocursor" else s!"col={(TextFieldCl.drawCursorCol cl chars tf).toNat}"

/-- The model column when a translated body could not be run. -/
def noBody : String := "unknown-body"

def tfCanon (s : St) (tf : TextField.TF Nat) (cbs : List (TextField.Call Nat)) : String :=
  s!"v={showIds tf.value} col={colI cl1 (fun c => [s.w (c.headD 0)]) (toCl tf)} cb={showLog (cbs.map showCall)} cur={tf.cursor} n={tf.n}"

/-- What the ideal editor requires of a TextField observation. -/
def tfExpect (s : St) (ed : Ed Nat) (cbs : List (Callback Nat)) : String :=
  s!"v={showIds ed.text} col={widthOf s (ed.text.take ed.cursor)} cb={showLog (cbs.map showCb)} cur={ed.cursor}"

/-- The implementation's observation without the cached count `n=` (an internal of the widget: it is
    compared with the model, not judged by the ideal editor). -/
def dropN (s : String) : String := (s.splitOn " n=").headD s

def verdictEq (what got want : String) : String :=
  if got = want then "ok" else s!"FAIL {what}: implementation {got} but the ideal editor gives {want}"

def bit (s : String) (i : Nat) : Bool := (s.toList.getD i '0') == '1'

def stepTF (s : St) (op : List String) (impl : String) : St × String :=
  let isW := s.isWord
  match op with
  | ["key", m, rel, bits, text, _name] =>
    match ids? text, meaning? m (match ids? text with | some t => t | none => []) with
    | some t, some sop =>
      let ev : TextField.KeyEv Nat :=
        { release := rel == "1", text := t, home := bit bits 0, toEnd := bit bits 1, right := bit bits 2,
          left := bit bits 3, delRight := bit bits 4, delLeft := bit bits 5, kill := bit bits 6, enter := bit bits 7 }
      let ecb := if s.nocb then [] else VaxisModel.Spec.Editor.callbacks isW s.ed sop
      let ed' := VaxisModel.Spec.Editor.apply isW s.ed sop
      match keyI s.nocb cl1 (toCl s.tf) ev with
      | some (tfc', cbsC) =>
        let tf' := ofCl tfc'
        let cbs : List (TextField.Call Nat) := cbsC.map fun c => match c with | .change v => .change v | .submit v => .submit v
        let s' := { s with tf := tf', ed := ed' }
        (s', s!"{tfCanon s' tf' cbs}\t{impl}\t{verdictEq "textfield" (dropN impl) (tfExpect s' ed' ecb)}")
      | none =>
        let s' := { s with tf := (TextField.handleKey s.tf ev).1, ed := ed' }
        (s', s!"{noBody}\t{impl}\t{verdictEq "textfield" (dropN impl) (tfExpect s' ed' ecb)}")
    | _, _ => (s, "bad-op\tbad-op\tbad-op")
  | ["nocb"] =>
    let s' := { s with nocb := true }
    (s', s!"{tfCanon s' s'.tf []}\t{impl}\t{verdictEq "textfield" (dropN impl) (tfExpect s' s'.ed [])}")
  | ["draw", w, h] =>
    match w.toNat?, h.toNat? with
    | some w, some h =>
      let mdl := drawI cl1 (fun c => [s.w (c.headD 0)]) (toCl s.tf) w h
      if w = 0 ∨ h = 0 then (s, s!"{mdl}\t{impl}\t{verdictEq "draw" impl "nocursor"}")
      else
        let want := widthOf s (s.ed.text.take s.ed.cursor)
        (s, s!"{mdl}\t{impl}\t{verdictEq "cursor_column" impl s!"col={want}"}")
    | _, _ => (s, "bad-op\tbad-op\tbad-op")
  | _ =>
    -- programmatic API: no callbacks
    -- (translated function, arguments, the hand model's result as a fallback, the ideal operation)
    let r : Option (String × List (EdLang.V Nat) × TextField.TF Nat × Op Nat) :=
      match op with
      | ["ins", t] => (ids? t).map fun t => ("InsertStringAtCursor", [.str t], TextField.insertString s.tf t, .insert t)
      | ["cur", i] => i.toNat?.map fun i => ("CursorTo", [.num (i : Nat)], (TextField.cursorTo s.tf i).1, .moveTo i)
      | ["delr"] => some ("DeleteCharRightOfCursor", [], (TextField.deleteRight s.tf).1, .deleteRight)
      | ["dell"] => some ("DeleteCharLeftOfCursor", [], (TextField.deleteLeft s.tf).1, .deleteLeft)
      | ["kill"] => some ("DeleteCursorToEndOfLine", [], (TextField.killToEnd s.tf).1, .killToEnd)
      | ["reset"] => some ("Reset", [], TextField.reset s.tf, .reset)
      | _ => none
    match r with
    | some (f, args, hand, sop) =>
      let ed' := VaxisModel.Spec.Editor.apply isW s.ed sop
      match apiI cl1 (toCl s.tf) f args with
      | some tfc' =>
        let tf' := ofCl tfc'
        let s' := { s with tf := tf', ed := ed' }
        (s', s!"{tfCanon s' tf' []}\t{impl}\t{verdictEq "textfield" (dropN impl) (tfExpect s' ed' [])}")
      | none =>
        let s' := { s with tf := hand, ed := ed' }
        (s', s!"{noBody}\t{impl}\t{verdictEq "textfield" (dropN impl) (tfExpect s' ed' [])}")
    | none => (s, "bad-op\tbad-op\tbad-op")

def tiCanon (m : TextInput.TI Nat) : String := s!"v={showIds m.content} cur={m.cursor}"
def tiExpect (ed : Ed Nat) : String := s!"v={showIds ed.text} cur={ed.cursor}"

def hexString (h : String) : String :=
  match hexBytes? h with
  | some bs => String.ofList (bs.map fun b => Char.ofNat b)   -- key names are ASCII
  | none => ""

def glyphStr {α : Type} (f : α → String) : TextInput.Glyph α → String
  | .g x => f x
  | .trunc => "T"
  | .mask => "M"

/-- The window row as the harness reports it: one entry per column (`2` = the blank of `Fill`). -/
def rowStr {α : Type} (f : α → String) (w : Nat) (cells : List (Int × TextInput.Glyph α)) : String :=
  let r := TextInput.renderRow "2" w (cells.map fun c => (c.1, glyphStr f c.2))
  if r.isEmpty then "-" else ",".intercalate r

/-- Oracle for the drawn row while the line fits: the prompt from column 0, then the ideal editor's
text (or the mask), each grapheme at the column = display width before it; nothing else. -/
def expectRow {α : Type} (f : α → String) (width : α → Int) (masked : Bool) (w : Nat) (prompt text : List α) : String :=
  let pw := (prompt.map width).foldl (· + ·) 0
  rowStr f w (TextInput.placed width .g prompt 0 ++
    TextInput.placed width (if masked then fun _ => .mask else .g) text pw)

def stepTI (s : St) (op : List String) (impl : String) : St × String :=
  let isW := s.isWord
  if s.dead then (s, s!"dead\t{impl}\t-") else
  let upd (ev : TextInput.Ev Nat) (sop : Op Nat) : St × String :=
    match (tiUpdI cl1 (fun c => isW (c.headD 0)) (tiToCl s.ti) (evToCl ev)).map tiOfCl with
    | none => ({ s with dead := true }, s!"panic\t{impl}\t{verdictEq "textinput" impl (tiExpect (VaxisModel.Spec.Editor.apply isW s.ed sop))}")
    | some m' =>
      let ed' := VaxisModel.Spec.Editor.apply isW s.ed sop
      ({ s with ti := m', ed := ed' }, s!"{tiCanon m'}\t{impl}\t{verdictEq "textinput" impl (tiExpect ed')}")
  match op with
  | ["upd", m, key, mods, text, _name] =>
    match ids? text with
    | some t =>
      match meaning? m t with
      | some sop => upd (.key (hexString key) (bit mods 0) (bit mods 1) (bit mods 2) t) sop
      | none => (s, "bad-op\tbad-op\tbad-op")
    | none => (s, "bad-op\tbad-op\tbad-op")
  | ["rel"] => upd .release .noop
  | ["mask"] => ({ s with masked := true }, s!"{tiCanon s.ti}\t{impl}\t{verdictEq "textinput" impl (tiExpect s.ed)}")
  | ["pkey", t] =>
    match ids? t with
    | some t => upd (.pasteKey t) .noop
    | none => (s, "bad-op\tbad-op\tbad-op")
  | ["pend"] => upd .pasteEnd (.insert s.ti.paste)
  | ["set", t] =>
    match ids? t with
    | some t =>
      let m' := ((tiSetI cl1 (fun c => isW (c.headD 0)) (tiToCl s.ti) t).map tiOfCl).getD (TextInput.setContent s.ti t)
      let ed' := VaxisModel.Spec.Editor.apply isW s.ed (.setContent t)
      ({ s with ti := m', ed := ed' }, s!"{tiCanon m'}\t{impl}\t{verdictEq "textinput" impl (tiExpect ed')}")
    | none => (s, "bad-op\tbad-op\tbad-op")
  | ["draw", w, p] =>
    match w.toNat?, ids? p with
    | some w, some prompt =>
      if impl = "skipped-after-hang" then (s, s!"-\t-\t-") else
      let wd : Nat → Int := fun g => (s.w g : Int)
      -- oracle: Draw terminates; while prompt + text + scrolloff fit in the window, the cursor
      -- column is the width of the prompt plus the text before the cursor
      let pw := widthOf s prompt
      let tw := widthOf s s.ed.text
      let fits := pw + tw + 4 < w
      let v (got : String) : String :=
        if got = "hang" then "FAIL draw_terminates: textinput.Draw does not return"
        else if got = "panic" then "FAIL draw panics"
        else if fits then verdictEq "cursor_column/cells" got
          s!"col={pw + widthOf s (s.ed.text.take s.ed.cursor)} row={expectRow toString wd s.masked w prompt s.ed.text}"
        else if pw ≥ w then "ok"   -- the prompt fills the window: Draw returns before the text
        else
          -- round 3, the scrolled case (independent of the model; `Props.C17Ext.textinput_cells_scrolled` proves the
          -- same of the model): whatever offset `Draw` settles on (0 ≤ offset ≤ cursor), the row is the prompt
          -- followed by that window of the ideal text — left truncator iff something is scrolled out, right
          -- truncator at the grapheme that reaches the edge and nothing after it.  Which offset, and the cursor
          -- column, are not judged (the property speaks of the cursor column only while the text fits).
          let rowGot := match got.splitOn " row=" with | [_, r] => r | _ => "?"
          let window (off : Nat) : String :=
            rowStr toString w (TextInput.placed wd .g prompt 0 ++
              VaxisModel.Spec.EditorView.windowCells wd s.masked w (decide (off > 0)) (s.ed.text.drop off) pw)
          if (List.range (s.ed.cursor + 1)).any fun off => window off == rowGot then "ok"
          else s!"FAIL scrolled row {rowGot} is not the prompt followed by a window of the text (truncators at the cut ends) for any offset 0..{s.ed.cursor}"
      let row := match TextInput.drawCells wd s.masked s.ti prompt w with
        | some cs => rowStr toString w cs
        | none => "-"
      match TextInput.draw wd s.ti prompt w with
      | .hang => ({ s with dead := true }, s!"hang\t{impl}\t{v impl}")
      | .early m' => ({ s with ti := m' }, s!"nocursor row={row}\t{impl}\t{v impl}")
      | .shown m' c => ({ s with ti := m' }, s!"col={c} row={row}\t{impl}\t{v impl}")
    | _, _ => (s, "bad-op\tbad-op\tbad-op")
  | _ => (s, "bad-op\tbad-op\tbad-op")

/-! ### kinds `tfc` / `tic`: merging graphemes

`clUax` is the driver's segmentation oracle: the extended-grapheme-cluster rules of UAX #29 that
matter for the harness atoms (GB6–8 Hangul jamo, GB9 Extend/ZWJ, GB11 emoji ZWJ sequences, GB12/13
regional-indicator pairs) over the class of each atom given in the case header.  It is compared with
the real uniseg on every op (the `v=` field of the implementation is uniseg's segmentation). -/

def St.cls (s : St) (a : Nat) : Char := s.classes.getD a 'O'
def St.cl (s : St) : List Nat → List (List Nat) := clUax s.cls
/-- `isAlphaNumeric` of a character: a single rune that is a letter or number. -/
def St.isWordC (s : St) (c : List Nat) : Bool :=
  -- through the translated body of `isAlphaNumeric`; `unicode.IsLetter || IsNumber` of an atom from the case header
  match EdRun.tiIsAlnumI EdGen.genTi (fun a => s.words.getD a false) (fun _ => false) c with
  | some b => b
  | none => (match c with | [a] => s.words.getD a false | _ => false)
def St.cchars (s : St) (c : List Nat) : List Nat := ((s.cw.find? (·.1 == c)).map (·.2)).getD [1]
def St.cwidth (s : St) (c : List Nat) : Nat := (s.cchars c).foldl (· + ·) 0

def showClusters (l : List (List Nat)) : String :=
  if l.isEmpty then "-" else ",".intercalate (l.map fun c => "+".intercalate (c.map toString))
def clusters? (t : String) : Option (List (List Nat)) :=
  if t = "" ∨ t = "-" then some [] else (t.splitOn ",").mapM fun c => (c.splitOn "+").mapM (·.toNat?)

def showCbC : Callback (List Nat) → String
  | .change t => "C" ++ showClusters t
  | .submit t => "S" ++ showClusters t

def widthOfC (s : St) (l : List (List Nat)) : Nat := (l.map s.cwidth).foldl (· + ·) 0

def meaningC? (s : St) (m : String) (text : List Nat) : Option (Op (List Nat)) :=
  match m with
  | "insert" => some (.insert (s.cl text))
  | "home" => some .home
  | "end" => some .toEnd
  | "right" => some .right
  | "left" => some .left
  | "delr" => some .deleteRight
  | "dell" => some .deleteLeft
  | "kill" => some .killToEnd
  | "killstart" => some .killToStart
  | "delword" => some .deleteWordLeft
  | "wordleft" => some .wordLeft
  | "wordright" => some .wordRight
  | "submit" => some .submit
  | "noop" => some .noop
  | _ => none

/-- Learn the widths of the implementation's clusters: `v=<clusters>` of the observation zipped
with the op field `W=<widths>` (computed by the harness with the real `vaxis.Characters`). -/
def learnWidths (s : St) (wf : Option String) (impl : String) : St :=
  match wf with
  | none => s
  | some w =>
    let v := ((fields impl).find? (·.startsWith "v=")).map fun f => (f.drop 2).toString
    match v.bind clusters?, clusters? ((w.drop 2).toString) with
    | some cs, some ws => { s with cw := (cs.zip ws) ++ s.cw.take 64 }
    | _, _ => s

/-- The three laws of `Spec.Editor.Segmentation`, checked on the text at hand (every cluster-aligned
prefix, every split): a violation shows up in the model column (broken correspondence). -/
def segLawsOk (cl : List Nat → List (List Nat)) (v : List Nat) : Bool :=
  let cs := cl v
  cs.flatten == v &&
  (List.range (cs.length + 1)).all (fun i => (cl (cs.take i).flatten).length == i) &&
  (List.range (v.length + 1)).all (fun j => (cl (v.take j)).length ≤ cs.length)
def segFlag (cl : List Nat → List (List Nat)) (v : List Nat) : String :=
  if segLawsOk cl v then "" else " SEGMENTATION-LAW-VIOLATED"

def tfcCanon (s : St) (tf : TextFieldCl.TF Nat) (cbs : List (TextFieldCl.Call Nat)) : String :=
  let shc : TextFieldCl.Call Nat → String
    | .change t => "C" ++ showClusters (s.cl t)
    | .submit t => "S" ++ showClusters (s.cl t)
  s!"v={showClusters (s.cl tf.value)} col={colI s.cl s.cchars tf} cb={showLog (cbs.map shc)} cur={tf.cursor} n={tf.n}{segFlag s.cl tf.value}"

def tfcExpect (s : St) (ed : Ed (List Nat)) (cbs : List (Callback (List Nat))) : String :=
  s!"v={showClusters ed.text} col={widthOfC s (ed.text.take ed.cursor)} cb={showLog (cbs.map showCbC)} cur={ed.cursor}"

def stepTFC (s : St) (op : List String) (impl : String) : St × String :=
  let isW := s.isWordC
  let cl := s.cl
  match op with
  | ["key", m, rel, bits, text, _name] =>
    match ids? text with
    | some t =>
      match meaningC? s m t with
      | some sop =>
        let ev : TextField.KeyEv Nat :=
          { release := rel == "1", text := t, home := bit bits 0, toEnd := bit bits 1, right := bit bits 2,
            left := bit bits 3, delRight := bit bits 4, delLeft := bit bits 5, kill := bit bits 6, enter := bit bits 7 }
        let ecb := if s.nocb then [] else VaxisModel.Spec.Editor.callbacksC cl isW s.edc sop
        let ed' := VaxisModel.Spec.Editor.applyC cl isW s.edc sop
        match keyI s.nocb cl s.tfc ev with
        | some (tf', cbs) =>
          let s' := { s with tfc := tf', edc := ed' }
          (s', s!"{tfcCanon s' tf' cbs}\t{impl}\t{verdictEq "textfield" (dropN impl) (tfcExpect s' ed' ecb)}")
        | none =>
          let s' := { s with tfc := (TextFieldCl.handleKey cl s.tfc ev).1, edc := ed' }
          (s', s!"{noBody}\t{impl}\t{verdictEq "textfield" (dropN impl) (tfcExpect s' ed' ecb)}")
      | none => (s, "bad-op\tbad-op\tbad-op")
    | none => (s, "bad-op\tbad-op\tbad-op")
  | ["seg", t] =>
    -- the segmentation laws on one text: the model column is the driver's clUax (clusters and its own
    -- law check), the implementation column the real uniseg; the verdict judges uniseg's laws
    match ids? t with
    | some t =>
      let lw := if segLawsOk cl t then "ok" else "violated"
      let v := if impl.endsWith " laws=ok" then "ok" else s!"FAIL segmentation law violated by uniseg on this text: {impl}"
      (s, s!"seg={showClusters (cl t)} laws={lw}\t{impl}\t{v}")
    | none => (s, "bad-op\tbad-op\tbad-op")
  | ["nocb"] =>
    let s' := { s with nocb := true }
    (s', s!"{tfcCanon s' s'.tfc []}\t{impl}\t{verdictEq "textfield" (dropN impl) (tfcExpect s' s'.edc [])}")
  | ["draw", w, h] =>
    match w.toNat?, h.toNat? with
    | some w, some h =>
      let mdl := drawI cl s.cchars s.tfc w h
      if w = 0 ∨ h = 0 then (s, s!"{mdl}\t{impl}\t{verdictEq "draw" impl "nocursor"}")
      else
        let want := widthOfC s (s.edc.text.take s.edc.cursor)
        (s, s!"{mdl}\t{impl}\t{verdictEq "cursor_column" impl s!"col={want}"}")
    | _, _ => (s, "bad-op\tbad-op\tbad-op")
  | _ =>
    let r : Option (String × List (EdLang.V Nat) × TextFieldCl.TF Nat × Op (List Nat)) :=
      match op with
      | ["ins", t] => (ids? t).map fun t => ("InsertStringAtCursor", [.str t], TextFieldCl.insertString cl s.tfc t, .insert (cl t))
      | ["cur", i] => i.toNat?.map fun i => ("CursorTo", [.num (i : Nat)], (TextFieldCl.cursorTo s.tfc i).1, .moveTo i)
      | ["delr"] => some ("DeleteCharRightOfCursor", [], (TextFieldCl.deleteRight cl s.tfc).1, .deleteRight)
      | ["dell"] => some ("DeleteCharLeftOfCursor", [], (TextFieldCl.deleteLeft cl s.tfc).1, .deleteLeft)
      | ["kill"] => some ("DeleteCursorToEndOfLine", [], (TextFieldCl.killToEnd cl s.tfc).1, .killToEnd)
      | ["reset"] => some ("Reset", [], TextFieldCl.reset s.tfc, .reset)
      | _ => none
    match r with
    | some (f, args, hand, sop) =>
      let ed' := VaxisModel.Spec.Editor.applyC cl isW s.edc sop
      match apiI cl s.tfc f args with
      | some tf' =>
        let s' := { s with tfc := tf', edc := ed' }
        (s', s!"{tfcCanon s' tf' []}\t{impl}\t{verdictEq "textfield" (dropN impl) (tfcExpect s' ed' [])}")
      | none =>
        let s' := { s with tfc := hand, edc := ed' }
        (s', s!"{noBody}\t{impl}\t{verdictEq "textfield" (dropN impl) (tfcExpect s' ed' [])}")
    | none => (s, "bad-op\tbad-op\tbad-op")

def ticCanon (m : TextInputCl.TIC Nat) : String := s!"v={showClusters m.content} cur={m.cursor}"
def ticExpect (ed : Ed (List Nat)) : String := s!"v={showClusters ed.text} cur={ed.cursor}"

def stepTIC (s : St) (op : List String) (impl : String) : St × String :=
  let isW := s.isWordC
  let cl := s.cl
  if s.dead then (s, s!"dead\t{impl}\t-") else
  let upd (ev : TextInputCl.Ev Nat) (sop : Op (List Nat)) : St × String :=
    let ed' := VaxisModel.Spec.Editor.applyC cl isW s.edc sop
    match tiUpdI cl isW s.tic ev with
    | none => ({ s with dead := true }, s!"panic\t{impl}\t{verdictEq "textinput" impl (ticExpect ed')}")
    | some m' => ({ s with tic := m', edc := ed' }, s!"{ticCanon m'}{segFlag cl m'.content.flatten}\t{impl}\t{verdictEq "textinput" impl (ticExpect ed')}")
  match op with
  | ["upd", m, key, mods, text, _name] =>
    match ids? text with
    | some t =>
      match meaningC? s m t with
      | some sop => upd (.key (hexString key) (bit mods 0) (bit mods 1) (bit mods 2) t) sop
      | none => (s, "bad-op\tbad-op\tbad-op")
    | none => (s, "bad-op\tbad-op\tbad-op")
  | ["rel"] => upd .release .noop
  | ["pkey", t] =>
    match ids? t with
    | some t => upd (.pasteKey t) .noop
    | none => (s, "bad-op\tbad-op\tbad-op")
  | ["mask"] => ({ s with masked := true }, s!"{ticCanon s.tic}\t{impl}\t{verdictEq "textinput" impl (ticExpect s.edc)}")
  | ["pend"] => upd .pasteEnd (.insert (cl s.tic.paste))
  | ["set", t] =>
    match ids? t with
    | some t =>
      let m' := (tiSetI cl isW s.tic t).getD (TextInputCl.setContent cl s.tic t)
      let ed' := VaxisModel.Spec.Editor.applyC cl isW s.edc (.setContent (cl t))
      ({ s with tic := m', edc := ed' }, s!"{ticCanon m'}\t{impl}\t{verdictEq "textinput" impl (ticExpect ed')}")
    | none => (s, "bad-op\tbad-op\tbad-op")
  | ["draw", w, _p] =>
    match w.toNat? with
    | some w =>
      if impl = "skipped-after-hang" then (s, s!"-\t-\t-") else
      let wd : List Nat → Int := fun c => (s.cwidth c : Int)
      let shc : List Nat → String := fun c => "+".intercalate (c.map toString)
      let tw := widthOfC s s.edc.text
      let fits := tw + 4 < w
      let v (got : String) : String :=
        if got = "hang" then "FAIL draw_terminates: textinput.Draw does not return"
        else if got = "panic" then "FAIL draw panics"
        else if fits then verdictEq "cursor_column/cells" got
          s!"col={widthOfC s (s.edc.text.take s.edc.cursor)} row={expectRow shc wd s.masked w [] s.edc.text}"
        else "ok"
      let row := match TextInput.drawCells wd s.masked (TextInputCl.toG s.tic) [] w with
        | some cs => rowStr shc w cs
        | none => "-"
      match TextInput.draw wd (TextInputCl.toG s.tic) [] w with
      | .hang => ({ s with dead := true }, s!"hang\t{impl}\t{v impl}")
      | .early g => ({ s with tic := TextInputCl.ofG g s.tic.paste }, s!"nocursor row={row}\t{impl}\t{v impl}")
      | .shown g c => ({ s with tic := TextInputCl.ofG g s.tic.paste }, s!"col={c} row={row}\t{impl}\t{v impl}")
    | none => (s, "bad-op\tbad-op\tbad-op")
  | _ => (s, "bad-op\tbad-op\tbad-op")

def parseHeader (fs : List String) : St :=
  let get (p : String) : String := ((fs.find? (·.startsWith p)).map fun f => (f.drop p.length).toString).getD "-"
  let kind := match fs with
    | k :: _ => (k.splitOn ":").headD ""
    | [] => ""
  let widths := ((commaNats? (get "w=")).getD []).toArray
  let words := ((get "a=").toList.map (· == '1')).toArray
  let start := (commaNats? (get "s=")).getD []
  let classes := (get "k=").toList.toArray
  let cls : Nat → Char := fun a => classes.getD a 'O'
  let cs := clUax cls start
  let sw := (clusters? (get "W=")).getD []
  { kind := kind, widths := widths, words := words, classes := classes, cw := cs.zip sw,
    tf := TextField.insertString TextField.new start |> fun t => if start.isEmpty then TextField.new else t,
    ti := if start.isEmpty then TextInput.new else TextInput.setContent TextInput.new start,
    ed := ⟨start, start.length⟩,
    tfc := if start.isEmpty then TextFieldCl.new else TextFieldCl.insertString (clUax cls) TextFieldCl.new start,
    tic := if start.isEmpty then TextInputCl.new else TextInputCl.setContent (clUax cls) TextInputCl.new start,
    edc := ⟨cs, cs.length⟩ }

def step (s : St) (line : String) : St × String :=
  let (op, impl) := splitTab line
  let fs := fields op
  match fs with
  | "#case" :: rest => (parseHeader rest, "-\t-\t-")
  | _ =>
    if s.kind = "tf" then stepTF s fs impl
    else if s.kind = "ti" then stepTI s fs impl
    else if s.kind = "tfc" ∨ s.kind = "tic" then
      let wf := fs.find? (·.startsWith "W=")
      let fs := fs.filter (fun f => !f.startsWith "W=")
      let s := learnWidths s wf impl
      if s.kind = "tfc" then stepTFC s fs impl else stepTIC s fs impl
    else (s, "bad-op\tbad-op\tbad-op")

def main : IO Unit := foldLoop ({} : St) step

end VaxisModel.Driver.C17
