import VaxisModel.Driver.Common
import VaxisModel.Model.TextField
import VaxisModel.Model.TextInput
import VaxisModel.Spec.Editor

/-! Driver for C17 (op format: harness/cmd/C17/main.go).  State per case: the widget model, and the
ideal editor `Spec.Editor` run on the *meaning* of every op; the verdict compares the
implementation's observable state with the ideal editor's. -/
namespace VaxisModel.Driver.C17
open VaxisModel.Driver
open VaxisModel.Model
open VaxisModel.Spec.Editor (Ed Op Callback)

structure St where
  kind : String := ""
  widths : Array Nat := #[]
  words : Array Bool := #[]
  tf : TextField.TF Nat := TextField.new
  ti : TextInput.TI Nat := TextInput.new
  ed : Ed Nat := ⟨[], 0⟩
  dead : Bool := false      -- model panicked / hung earlier in this case

def St.w (s : St) (g : Nat) : Nat := s.widths.getD g 1
def St.isWord (s : St) (g : Nat) : Bool := s.words.getD g false

def ids? (s : String) : Option (List Nat) := commaNats? s
def showIds (l : List Nat) : String := joinNats "," l

def widthOf (s : St) (l : List Nat) : Nat := (l.map s.w).foldl (· + ·) 0

def meaning? (m : String) (text : List Nat) : Option (Op Nat) :=
  match m with
  | "insert" => some (.insert text)
  | "home" => some .home
  | "end" => some .toEnd
  | "right" => some .right
  | "left" => some .left
  | "delr" => some .deleteRight
  | "dell" => some .deleteLeft
  | "kill" => some .killToEnd
  | "killstart" => some .killToStart
  | "delword" => some .deleteWordLeft
  | "wordleft" => some .wordLeft
  | "wordright" => some .wordRight
  | "submit" => some .submit
  | "noop" => some .noop
  | _ => none

def showCb : Callback Nat → String
  | .change t => "C" ++ showIds t
  | .submit t => "S" ++ showIds t
def showCall : TextField.Call Nat → String
  | .change t => "C" ++ showIds t
  | .submit t => "S" ++ showIds t
def showLog (l : List String) : String := if l.isEmpty then "-" else ";".intercalate l

def tfCanon (s : St) (tf : TextField.TF Nat) (cbs : List (TextField.Call Nat)) : String :=
  s!"v={showIds tf.value} col={(TextField.drawCursorCol s.w tf).toNat} cb={showLog (cbs.map showCall)}"

/-- What the ideal editor requires of a TextField observation. -/
def tfExpect (s : St) (ed : Ed Nat) (cbs : List (Callback Nat)) : String :=
  s!"v={showIds ed.text} col={widthOf s (ed.text.take ed.cursor)} cb={showLog (cbs.map showCb)}"

def verdictEq (what got want : String) : String :=
  if got = want then "ok" else s!"FAIL {what}: implementation {got} but the ideal editor gives {want}"

def bit (s : String) (i : Nat) : Bool := (s.toList.getD i '0') == '1'

def stepTF (s : St) (op : List String) (impl : String) : St × String :=
  let isW := s.isWord
  match op with
  | ["key", m, rel, bits, text, _name] =>
    match ids? text, meaning? m (match ids? text with | some t => t | none => []) with
    | some t, some sop =>
      let ev : TextField.KeyEv Nat :=
        { release := rel == "1", text := t, home := bit bits 0, toEnd := bit bits 1, right := bit bits 2,
          left := bit bits 3, delRight := bit bits 4, delLeft := bit bits 5, kill := bit bits 6, enter := bit bits 7 }
      let (tf', cbs) := TextField.handleKey s.tf ev
      let ecb := VaxisModel.Spec.Editor.callbacks isW s.ed sop
      let ed' := VaxisModel.Spec.Editor.apply isW s.ed sop
      let s' := { s with tf := tf', ed := ed' }
      (s', s!"{tfCanon s' tf' cbs}\t{impl}\t{verdictEq "textfield" impl (tfExpect s' ed' ecb)}")
    | _, _ => (s, "bad-op\tbad-op\tbad-op")
  | ["draw", w, h] =>
    match w.toNat?, h.toNat? with
    | some w, some h =>
      if w = 0 ∨ h = 0 then (s, s!"nocursor\t{impl}\t{verdictEq "draw" impl "nocursor"}")
      else
        let col := (TextField.drawCursorCol s.w s.tf).toNat
        let want := widthOf s (s.ed.text.take s.ed.cursor)
        (s, s!"col={col}\t{impl}\t{verdictEq "cursor_column" impl s!"col={want}"}")
    | _, _ => (s, "bad-op\tbad-op\tbad-op")
  | _ =>
    -- programmatic API: no callbacks
    let r : Option (TextField.TF Nat × Op Nat) :=
      match op with
      | ["ins", t] => (ids? t).map fun t => (TextField.insertString s.tf t, .insert t)
      | ["cur", i] => i.toNat?.map fun i => ((TextField.cursorTo s.tf i).1, .moveTo i)
      | ["delr"] => some ((TextField.deleteRight s.tf).1, .deleteRight)
      | ["dell"] => some ((TextField.deleteLeft s.tf).1, .deleteLeft)
      | ["kill"] => some ((TextField.killToEnd s.tf).1, .killToEnd)
      | ["reset"] => some (TextField.reset s.tf, .reset)
      | _ => none
    match r with
    | some (tf', sop) =>
      let ed' := VaxisModel.Spec.Editor.apply isW s.ed sop
      let s' := { s with tf := tf', ed := ed' }
      (s', s!"{tfCanon s' tf' []}\t{impl}\t{verdictEq "textfield" impl (tfExpect s' ed' [])}")
    | none => (s, "bad-op\tbad-op\tbad-op")

def tiCanon (m : TextInput.TI Nat) : String := s!"v={showIds m.content} cur={m.cursor}"
def tiExpect (ed : Ed Nat) : String := s!"v={showIds ed.text} cur={ed.cursor}"

def hexString (h : String) : String :=
  match hexBytes? h with
  | some bs => String.ofList (bs.map fun b => Char.ofNat b)   -- key names are ASCII
  | none => ""

def stepTI (s : St) (op : List String) (impl : String) : St × String :=
  let isW := s.isWord
  if s.dead then (s, s!"dead\t{impl}\t-") else
  let upd (ev : TextInput.Ev Nat) (sop : Op Nat) : St × String :=
    match TextInput.update isW s.ti ev with
    | none => ({ s with dead := true }, s!"panic\t{impl}\t{verdictEq "textinput" impl (tiExpect (VaxisModel.Spec.Editor.apply isW s.ed sop))}")
    | some m' =>
      let ed' := VaxisModel.Spec.Editor.apply isW s.ed sop
      ({ s with ti := m', ed := ed' }, s!"{tiCanon m'}\t{impl}\t{verdictEq "textinput" impl (tiExpect ed')}")
  match op with
  | ["upd", m, key, mods, text, _name] =>
    match ids? text with
    | some t =>
      match meaning? m t with
      | some sop => upd (.key (hexString key) (bit mods 0) (bit mods 1) (bit mods 2) t) sop
      | none => (s, "bad-op\tbad-op\tbad-op")
    | none => (s, "bad-op\tbad-op\tbad-op")
  | ["rel"] => upd .release .noop
  | ["pkey", t] =>
    match ids? t with
    | some t => upd (.pasteKey t) .noop
    | none => (s, "bad-op\tbad-op\tbad-op")
  | ["pend"] => upd .pasteEnd (.insert s.ti.paste)
  | ["set", t] =>
    match ids? t with
    | some t =>
      let m' := TextInput.setContent s.ti t
      let ed' := VaxisModel.Spec.Editor.apply isW s.ed (.setContent t)
      ({ s with ti := m', ed := ed' }, s!"{tiCanon m'}\t{impl}\t{verdictEq "textinput" impl (tiExpect ed')}")
    | none => (s, "bad-op\tbad-op\tbad-op")
  | ["draw", w, p] =>
    match w.toNat?, ids? p with
    | some w, some prompt =>
      if impl = "skipped-after-hang" then (s, s!"-\t-\t-") else
      let wd : Nat → Int := fun g => (s.w g : Int)
      -- oracle: Draw terminates; while prompt + text + scrolloff fit in the window, the cursor
      -- column is the width of the prompt plus the text before the cursor
      let pw := widthOf s prompt
      let tw := widthOf s s.ed.text
      let fits := pw + tw + 4 < w
      let v (got : String) : String :=
        if got = "hang" then "FAIL draw_terminates: textinput.Draw does not return"
        else if got = "panic" then "FAIL draw panics"
        else if fits then verdictEq "cursor_column" got s!"col={pw + widthOf s (s.ed.text.take s.ed.cursor)}"
        else "ok"
      match TextInput.draw wd s.ti prompt w with
      | .hang => ({ s with dead := true }, s!"hang\t{impl}\t{v impl}")
      | .early m' => ({ s with ti := m' }, s!"nocursor\t{impl}\t{v impl}")
      | .shown m' c => ({ s with ti := m' }, s!"col={c}\t{impl}\t{v impl}")
    | _, _ => (s, "bad-op\tbad-op\tbad-op")
  | _ => (s, "bad-op\tbad-op\tbad-op")

def parseHeader (fs : List String) : St :=
  let get (p : String) : String := ((fs.find? (·.startsWith p)).map fun f => (f.drop p.length).toString).getD "-"
  let kind := match fs with
    | k :: _ => (k.splitOn ":").headD ""
    | [] => ""
  let widths := ((commaNats? (get "w=")).getD []).toArray
  let words := ((get "a=").toList.map (· == '1')).toArray
  let start := (commaNats? (get "s=")).getD []
  { kind := kind, widths := widths, words := words,
    tf := TextField.insertString TextField.new start |> fun t => if start.isEmpty then TextField.new else t,
    ti := if start.isEmpty then TextInput.new else TextInput.setContent TextInput.new start,
    ed := ⟨start, start.length⟩ }

def step (s : St) (line : String) : St × String :=
  let (op, impl) := splitTab line
  let fs := fields op
  match fs with
  | "#case" :: rest => (parseHeader rest, "-\t-\t-")
  | _ =>
    if s.kind = "tf" then stepTF s fs impl
    else if s.kind = "ti" then stepTI s fs impl
    else (s, "bad-op\tbad-op\tbad-op")

def main : IO Unit := foldLoop ({} : St) step

end VaxisModel.Driver.C17
