import VaxisModel.Driver.Common
import VaxisModel.Model.Sgr
import VaxisModel.Model.SgrBytes
import VaxisModel.Model.SgrLinks
import VaxisModel.Model.SgrReader
import VaxisModel.Model.SgrAgree

/-! Driver for C18 (stateless; one output line per input line).

  `enc <cells|ss|render> <caps> <cell>*\t<tokens the real producer wrote>`
  `dec <cells|ss|emu> <style> <tok>*\t<cells the real parser returned | final pen | panic>`
  `rt  <cells|ss> <cell>*\t<cells after the real round trip>`
  `rtq <cells|ss> <cell>*\tthe same with VAXIS_FORCE_LEGACY_SGR applied (every codec must round-trip its own output in every configuration)`

model-canon = the model's answer in the same text format; impl-canon = the implementation's.
verdict = the property oracle on the implementation's answer:
* enc: folding `Spec.sgr` over the *implementation's* tokens from a reset pen, the terminal shows at every
  grapheme the style of the corresponding cell (`shown` / `shownCaps`), and the pen is reset at the end;
* dec: never `panic`; and when every SGR sequence of the input is in the producers' range, each returned
  cell's style shows what `Spec.sgr` says;
* rt: the cells come back unchanged.
  `encb <cells|ss> <caps> <cell>*\thex of the exact string the real producer wrote` — model = `VaxisModel.Model.SgrBytes.encodeCellsB / ssEncodeB`
  `decb <cells|ss> <style> <hex string> <cluster lengths per rune offset>\tcells` — model = `VaxisModel.Model.SgrBytes.parseStyledB /
   newStyledStringB` on the runes of the string (C02 automaton / own Cut-Split-Atoi), cluster oracle = the table.
  `decbl <style> <hex url> <hex params> <hex string> <table>\tlcells` — `NewStyledString` with the hyperlink fields on the exact string, default
   style carrying the given hyperlink: model = `VaxisModel.Model.SgrLinks.newStyledStringBL` (what `roundtrip_ss_links_full_bytes` is about).
  `agr <body>\t<ParseStyledString's style>|<NewStyledString's style>|<emulator pen>` (round 4) — the three real consumers on `ESC [ body m a` from the
   zero style; model = the three models; oracle: never `panic` (any list), equal styles on producible sequences (the property text); that the three
   real consumers agree exactly on `Model.Sgr.agreeExact` (`Props.C18Agree.consumers_agree_iff`, far beyond the producers' range) is validated through model ≡ implementation of the
   three columns, not demanded by the verdict (a consumer changed outside the producers' range is not a violation of the property).
  `rdf <caps> <table> <cell>*\t<cells ParseStyledString returned>|<cells NewStyledString returned>|<cells of the emulator's sgr()>` (round 4) — the SGR and text bytes of a REAL
   rendered frame fed to the real string parsers; model = `parseStyledB` / `newStyledStringB` on `renderFromB` (cluster oracle = the table);
   oracle: same graphemes, and every style shows what a terminal with these capabilities shows for the cell (`shownCaps`) —
   `Props.C18Quirk.render_frame_read_bytes`.
The string-level code used by `dec` (splitting on `;` / `:`, `strconv.Atoi`, decimal accumulation) is a second,
independent transcription; the byte-level theorems (`Props/C18Bytes.lean`) are about the `SgrBytes` definitions. -/
namespace VaxisModel.Driver.C18
open VaxisModel.Driver VaxisModel.Model.Sgr VaxisModel.Spec

abbrev G := String

def parseStyle? (t : String) : Option Style :=
  match commaNats? t with
  | some [a, b, c, d, e] => some ⟨a, b, c, d, e⟩
  | _ => none

def styleStr (s : Style) : String := s!"{s.fg},{s.bg},{s.ul},{s.ulStyle},{s.attr}"

def parseCell? (t : String) : Option (Cell G) :=
  match t.splitOn ":" with
  | [g, st] => (parseStyle? st).map (fun s => ⟨g, s⟩)
  | _ => none

def cellStr (c : Cell G) : String := s!"{c.g}:{styleStr c.st}"
def cellsStr (cs : List (Cell G)) : String := if cs.isEmpty then "-" else " ".intercalate (cs.map cellStr)

def seqStr (q : Seq) : String :=
  if q.isEmpty then "-" else ";".intercalate (q.map fun p => ":".intercalate (p.map toString))

def tokStr : Tok Seq G → String
  | .sgr q => "S" ++ seqStr q
  | .text g => "T" ++ g

def toksStr (ts : List (Tok Seq G)) : String := if ts.isEmpty then "-" else " ".intercalate (ts.map tokStr)

def isDigits (cs : List Char) : Bool := !cs.isEmpty && cs.all Char.isDigit
def decOf (cs : List Char) : Nat := cs.foldl (fun a c => a * 10 + (c.toNat - 48)) 0

/-- ansi/parser.go `csiDispatch`: parameters split on `;`, sub-parameters on `:`, decimal, empty = 0. -/
def bodyParams (b : String) : Seq :=
  if b = "-" ∨ b = "" then [] else (b.splitOn ";").map fun p => (p.splitOn ":").map fun t => decOf t.toList

/-- The view `NewStyledString` has of one sub-parameter text. -/
def subTokOfString (t : String) : SubTok :=
  let cs := t.toList
  let lab := if isDigits cs && (cs.length == 1 || cs.head? != some '0') then some (decOf cs) else none
  let (neg, ds) := match cs with
    | '+' :: r => (false, r)
    | '-' :: r => (true, r)
    | _ => (false, cs)
  let atoi : Int :=
    if isDigits ds then
      let v : Nat := decOf ds
      if neg then (if v > 2 ^ 63 then -(2 ^ 63 : Int) else -(v : Int))
      else (if v > 2 ^ 63 - 1 then (2 ^ 63 - 1 : Int) else (v : Int))
    else 0
  ⟨lab, atoi⟩

def bodyToks (b : String) : List (List SubTok) :=
  if b = "-" ∨ b = "" then [] else (b.splitOn ";").map fun p => (p.splitOn ":").map subTokOfString

/-- A body that is the canonical printing of its parameter list. -/
def cleanBody (b : String) : Bool := seqStr (bodyParams b) == b

def parseTok? (t : String) : Option (Tok String G) :=
  if t.startsWith "S" then some (.sgr (t.drop 1).toString)
  else if t.startsWith "T" then some (.text (t.drop 1).toString)
  else none

def mapSgr {σ τ γ : Type} (f : σ → τ) : List (Tok σ γ) → List (Tok τ γ)
  | [] => []
  | .sgr s :: r => .sgr (f s) :: mapSgr f r
  | .text g :: r => .text g :: mapSgr f r

def colWfB (c : Nat) : Bool := c == 0 || (2 ^ 24 ≤ c && c < 2 ^ 24 + 256) || (2 ^ 25 ≤ c && c < 2 ^ 25 + 2 ^ 24)
def wfB (s : Style) : Bool :=
  colWfB s.fg && colWfB s.bg && colWfB s.ul && s.ulStyle ≤ 5 && s.attr < 256 && s.attr % 2 == 0

def bit (n k : Nat) : Bool := n / 2 ^ k % 2 == 1

/-! ### enc -/

def modelEnc (which : String) (caps : Nat) (cells : List (Cell G)) : Option (List (Tok Seq G)) :=
  if which = "cells" then some (encodeCells (bit caps 2) cells)
  else if which = "ss" then some (ssEncode (bit caps 2) cells)
  else if which = "render" then some (renderFrame (bit caps 0) (bit caps 1) (bit caps 2) cells)
  else none

def oracleEnc (sh : Style → TStyle) : Nat → TStyle → List (Cell G) → List (Tok Seq G) → String
  | _, pen, [], [] => if pen = TStyle.reset then "ok" else s!"FAIL not reset at the end: terminal pen {pen.toString}"
  | i, _, c :: _, [] => s!"FAIL cell {i} ({c.g}) was not written"
  | i, pen, cells, .sgr q :: r => oracleEnc sh i (Spec.sgr pen q) cells r
  | i, _, [], .text g :: _ => s!"FAIL extra text {g} after cell {i}"
  | i, pen, c :: cs, .text g :: r =>
    if g ≠ c.g then s!"FAIL cell {i}: wrote {g} for {c.g}"
    else if pen ≠ sh c.st then s!"FAIL cell {i}: terminal shows {pen.toString}, the cell's style means {(sh c.st).toString}"
    else oracleEnc sh (i + 1) pen cs r

def stepEnc (which : String) (caps : Nat) (cells : List (Cell G)) (impl : String) : String :=
  match modelEnc which caps cells with
  | none => "bad-op\tbad-op\tbad-op"
  | some mt =>
    let mc := toksStr mt
    let verdict :=
      if !(cells.all fun c => wfB c.st) then "-"
      else
        match (if impl = "-" then some [] else (fields impl).mapM parseTok?) with
        | none => s!"FAIL unparsable output {impl}"
        | some its =>
          if !(its.all fun t => match t with | .sgr b => cleanBody b | _ => true) then "FAIL non-canonical parameters"
          else
            let sh := if which = "render" then shownCaps (bit caps 0) (bit caps 1) else shown
            oracleEnc sh 0 TStyle.reset cells (mapSgr bodyParams its)
    s!"{mc}\t{impl}\t{verdict}"

/-! ### dec -/

def exStr {α : Type} (f : α → String) : Except Panic α → String
  | .ok a => f a
  | .error _ => "panic"

def modelDec (which : String) (dflt : Style) (toks : List (Tok String G)) : String :=
  if which = "cells" then exStr cellsStr (parseStyled (mapSgr bodyParams toks))
  else if which = "emu" then exStr styleStr (penAfter emuSgr dflt (mapSgr bodyParams toks))
  else if which = "ss" then exStr cellsStr (ssParseToks (ssSeqTok dflt) dflt (mapSgr bodyToks toks))
  else "bad-op"

/-- The pens `Spec.sgr` predicts at each text token. -/
def specPens : TStyle → List (Tok Seq G) → List (G × TStyle)
  | _, [] => []
  | pen, .sgr q :: r => specPens (Spec.sgr pen q) r
  | pen, .text g :: r => (g, pen) :: specPens pen r

def specFinal : TStyle → List (Tok Seq G) → TStyle
  | pen, [] => pen
  | pen, .sgr q :: r => specFinal (Spec.sgr pen q) r
  | pen, .text _ :: r => specFinal pen r

def cmpCells : Nat → List (G × TStyle) → List (Cell G) → String
  | _, [], [] => "ok"
  | i, (g, _) :: _, [] => s!"FAIL cell {i} ({g}) missing"
  | i, [], c :: _ => s!"FAIL extra cell {i} ({c.g})"
  | i, (g, pen) :: r, c :: cs =>
    if g ≠ c.g then s!"FAIL cell {i}: grapheme {c.g} for {g}"
    else if shown c.st ≠ pen then s!"FAIL cell {i}: parsed style shows {(shown c.st).toString}, the sequences mean {pen.toString}"
    else cmpCells (i + 1) r cs

def stepDec (which : String) (dflt : Style) (toks : List (Tok String G)) (impl : String) : String :=
  let mc := modelDec which dflt toks
  let verdict :=
    if impl = "panic" then "FAIL panic"
    else
      let clean := toks.all fun t => match t with
        | .sgr b => cleanBody b && emittableLegacy (bodyParams b)
        | .text g => g ≠ "-"
      if !clean || dflt ≠ {} then "ok"
      else
        let nt := mapSgr bodyParams toks
        if which = "emu" then
          match parseStyle? impl with
          | none => s!"FAIL unparsable pen {impl}"
          | some st =>
            let want := specFinal TStyle.reset nt
            if shown st = want then "ok"
            else s!"FAIL pen shows {(shown st).toString}, the sequences mean {want.toString}"
        else
          match (if impl = "-" then some [] else (fields impl).mapM parseCell?) with
          | none => s!"FAIL unparsable cells {impl}"
          | some cs => cmpCells 0 (specPens TStyle.reset nt) cs
  s!"{mc}\t{impl}\t{verdict}"

/-! ### rt -/

def modelRt (legacy : Bool) (which : String) (cells : List (Cell G)) : String :=
  if which = "cells" then exStr cellsStr (parseStyled (encodeCells legacy cells))
  else if which = "ss" then exStr cellsStr (ssParse {} (ssEncode legacy cells))
  else "bad-op"

def stepRt (legacy : Bool) (which : String) (cells : List (Cell G)) (impl : String) : String :=
  let mc := modelRt legacy which cells
  let verdict :=
    if !(cells.all fun c => wfB c.st && c.g ≠ "-") then "-"
    else if impl = cellsStr cells then "ok"
    else s!"FAIL round trip changed the cells: {impl}"
  s!"{mc}\t{impl}\t{verdict}"


/-! ### byte level -/

def runesOfHex? (h : String) : Option (List Nat) :=
  if h = "-" then some [] else
  match hexBytes? h with
  | none => none
  | some bs =>
    match String.fromUTF8? (ByteArray.mk (bs.map (·.toUInt8)).toArray) with
    | some str => some (str.toList.map Char.toNat)
    | none => none

def hexOfRunes (rs : List Nat) : String :=
  if rs.isEmpty then "-" else
  hexOfBytes ((String.ofList (rs.map Char.ofNat)).toUTF8.toList.map (·.toNat))

def cellB? (c : Cell G) : Option (Cell VaxisModel.Model.SgrBytes.Str) := (runesOfHex? c.g).map (fun g => ⟨g, c.st⟩)
def cellOfB (c : Cell VaxisModel.Model.SgrBytes.Str) : Cell G := ⟨hexOfRunes c.g, c.st⟩

def stepEncB (which : String) (caps : Nat) (cells : List (Cell G)) (impl : String) : String :=
  match cells.mapM cellB? with
  | none => "bad-op\tbad-op\tbad-op"
  | some cs =>
    let m := if which = "cells" then hexOfRunes (VaxisModel.Model.SgrBytes.encodeCellsB (bit caps 2) cs)
             else if which = "ss" then hexOfRunes (VaxisModel.Model.SgrBytes.ssEncodeB (bit caps 2) cs)
             else if which = "render" then
               (if cs.isEmpty then "-" else hexOfRunes (VaxisModel.Model.SgrBytes.renderFromB (bit caps 0) (bit caps 1) (bit caps 2) {} cs))
             else "bad-op"
    s!"{m}\t{impl}\t{if impl = "panic" then "FAIL panic" else "ok"}"

/-- ParserIO's oracle is indexed by the byte offset of the rune that starts the cluster: the uniseg table (one entry per rune)
    re-indexed by the UTF-8 offsets of the runes. -/
def clusterAtOf (tb : List Nat) (rs : List Nat) : Nat → Nat :=
  let total := (rs.map (fun r => (VaxisModel.Model.ParserUtf8.encodeRune r).length)).sum
  let rec go : List Nat → List Nat → Nat → Array Nat → Array Nat
    | [], _, _, a => a
    | r :: w, tb, pos, a =>
      go w (tb.drop 1) (pos + (VaxisModel.Model.ParserUtf8.encodeRune r).length) (a.setIfInBounds pos (tb.headD 1))
  let arr := go rs tb 0 (Array.replicate (total + 1) 1)
  fun pos => arr.getD pos 1

def stepDecB (which : String) (dflt : Style) (h : String) (table : String) (impl : String) : String :=
  match runesOfHex? h, (if table = "-" then some [] else commaNats? table) with
  | some rs, some tb =>
    let n := rs.length
    let cl : VaxisModel.Model.SgrBytes.Str → Nat := fun s => tb.getD (n - s.length) 1
    let m := if which = "cells" then exStr (fun cs => cellsStr (cs.map cellOfB)) (VaxisModel.Model.SgrBytes.parseStyledB cl rs)
             else if which = "ss" then exStr (fun cs => cellsStr (cs.map cellOfB)) (VaxisModel.Model.SgrBytes.newStyledStringB cl dflt rs)
             else "bad-op"
    -- the same string through the reader model (ParserIO: bufio fill loop, UTF-8 decoding, print's look-ahead over the buffer; one
    -- read, as ParseStyledString does since the F122 repair): must give what the oracle model gives (`Props.C18Reader.parseStyledIO_eq`)
    let m := if which = "cells" then
               let m2 := match VaxisModel.Model.SgrReader.parseStyledSrc (clusterAtOf tb rs) (VaxisModel.Model.SgrReader.utf8 rs) with
                 | some r => exStr (fun cs => cellsStr (cs.map cellOfB)) r
                 | none => "reader-shape-unknown"
               -- the source-following reader model is the model column; a difference from the oracle model is shown
               if m2 = m then m else s!"{m2}"
             else m
    s!"{m}\t{impl}\t{if impl = "panic" then "FAIL panic" else "ok"}"
  | _, _ => "bad-op\tbad-op\tbad-op"

/-! ### cells with hyperlinks -/

/-- `hex(g)/style/hex(url)/hex(params)` -/
def parseLCell? (t : String) : Option (Cell G × String × String) :=
  match t.splitOn "/" with
  | [g, st, url, ps] => (parseStyle? st).map (fun s => (⟨g, s⟩, url, ps))
  | _ => none

def lcellB? (c : Cell G × String × String) : Option VaxisModel.Model.SgrLinks.LCell :=
  match runesOfHex? c.1.g, runesOfHex? c.2.1, runesOfHex? c.2.2 with
  | some g, some url, some ps => some ⟨⟨g, c.1.st⟩, ⟨url, ps⟩⟩
  | _, _, _ => none

/-- Hyperlinks are not in the model's `Style`: the model predicts graphemes and the modelled style fields (both sides are
    printed without the links); the oracle is on the implementation's cells: `ParseStyledString` must return the same
    graphemes, colours, attributes, underline (it drops hyperlinks, which the property does not list); `NewStyledString`
    must return the cells unchanged, hyperlink and its parameters included. -/
def stepRtl (which : String) (lcells : List (Cell G × String × String)) (impl : String) : String :=
  let cells := lcells.map Prod.fst
  let mc := modelRt false which cells
  let back : Option (List (Cell G × String × String)) := if impl = "-" then some [] else (fields impl).mapM parseLCell?
  let ic := match back with
    | some b => cellsStr (b.map Prod.fst)
    | none => impl
  -- the links are judged only where they can come back (`Props.C18Links.roundtrip_ss_links_full_bytes`: `LinksRestorable`)
  let restorable : Bool := match lcells.mapM lcellB? with
    | some cs => VaxisModel.Model.SgrLinks.restorableB {} cs
    | none => false
  let verdict :=
    if impl = "panic" then "FAIL panic"
    else if !(cells.all fun c => wfB c.st && c.g ≠ "-") then "-"
    else match back with
      | none => s!"FAIL unparsable cells {impl}"
      | some b =>
        if b.map Prod.fst ≠ cells then s!"FAIL round trip with hyperlinks changed graphemes or styles: {ic}"
        else if which = "ss" ∧ b ≠ lcells ∧ restorable then s!"FAIL hyperlinks not restored: {impl}"
        else "ok"
  s!"{mc}\t{ic}\t{verdict}"

def lcellStrB (c : VaxisModel.Model.SgrLinks.LCell) : String :=
  s!"{hexOfRunes c.cell.g}/{styleStr c.cell.st}/{hexOfRunes c.link.url}/{hexOfRunes c.link.params}"

/-- `NewStyledString` with hyperlinks on an exact string (cluster oracle = the uniseg table of that string). -/
def stepDecBL (dflt : Style) (url ps : String) (h : String) (table : String) (impl : String) : String :=
  match runesOfHex? h, (if table = "-" then some [] else commaNats? table), runesOfHex? url, runesOfHex? ps with
  | some rs, some tb, some u, some p =>
    let n := rs.length
    let cl : VaxisModel.Model.SgrBytes.Str → Nat := fun s => tb.getD (n - s.length) 1
    let m := exStr (fun cs => if cs.isEmpty then "-" else " ".intercalate (cs.map lcellStrB))
      (VaxisModel.Model.SgrLinks.newStyledStringBL cl dflt ⟨u, p⟩ rs)
    s!"{m}\t{impl}\t{if impl = "panic" then "FAIL panic" else "ok"}"
  | _, _, _, _ => "bad-op\tbad-op\tbad-op"

def stepEncBL (which : String) (lcells : List (Cell G × String × String)) (impl : String) : String :=
  match lcells.mapM lcellB? with
  | none => "bad-op\tbad-op\tbad-op"
  | some cs =>
    let m := if which = "cells" then hexOfRunes (VaxisModel.Model.SgrLinks.encodeCellsBL false cs)
             else if which = "ss" then hexOfRunes (VaxisModel.Model.SgrLinks.ssEncodeBL false cs) else "bad-op"
    -- oracle on the implementation's string: no hyperlink is left open at its end (the last OSC 8, if any, closes)
    let closed : Bool :=
      match runesOfHex? impl with
      | some rs =>
        let rec lastOsc8 : List Nat → Option (List Nat) → Option (List Nat)
          | [], acc => acc
          | 0x1B :: 0x5D :: 0x38 :: 0x3B :: r, _ => lastOsc8 r (some (r.takeWhile (· ≠ 0x1B)))
          | _ :: r, acc => lastOsc8 r acc
        match lastOsc8 rs none with
        | none => true
        | some p => p == [0x3B]
      | none => true
    s!"{m}\t{impl}\t{if impl = "panic" then "FAIL panic" else if closed then "ok" else "FAIL a hyperlink is left open at the end of the encoded string"}"

/-! ### round 4: consumer agreement beyond the producers' range; rendered frames read back -/

def stepAgr (body : String) (impl : String) : String :=
  let q := bodyParams body
  let sty (r : Except Panic Style) : String := exStr styleStr r
  let m := s!"{sty (parseSGR {} q)}|{sty (ssSeq {} {} q)}|{sty (emuSgr {} q)}"
  let verdict :=
    if (impl.splitOn "|").any (· = "panic") then "FAIL panic"
    else if !cleanBody body || !emittableLegacy q then "ok"
    else
      -- the property text demands agreement only on what the library produces; beyond that (`agreeExact`, `consumers_agree_iff`)
      -- agreement of the real consumers is validated through the correspondence model ≡ implementation of all three columns
      match impl.splitOn "|" with
      | [a, b, c] =>
        if a = b ∧ b = c then "ok"
        else s!"FAIL the consumers disagree on a producible sequence: ParseStyledString {a}, NewStyledString {b}, emulator {c}"
      | _ => s!"FAIL unparsable {impl}"
  s!"{m}\t{impl}\t{verdict}"

def cmpCaps (sh : Style → TStyle) : Nat → List (Cell G) → List (Cell G) → String
  | _, [], [] => "ok"
  | i, c :: _, [] => s!"FAIL cell {i} ({c.g}) missing"
  | i, [], c :: _ => s!"FAIL extra cell {i} ({c.g})"
  | i, c :: r, d :: ds =>
    if c.g ≠ d.g then s!"FAIL cell {i}: grapheme {d.g} for {c.g}"
    else if shown d.st ≠ sh c.st then s!"FAIL cell {i}: parsed style shows {(shown d.st).toString}, the terminal shows {(sh c.st).toString}"
    else cmpCaps sh (i + 1) r ds

/-- The item loop with the embedded terminal's `sgr` as the consumer (the model column of `rdf`'s third part; the theorems use
    `Lemmas.SgrShows.cellsWith emuSgr`, the same loop). -/
def emuCellsD : Style → List VaxisModel.Model.SgrBytes.Item → Except Panic (List (Cell VaxisModel.Model.SgrBytes.Str))
  | _, [] => .ok []
  | s, .text g :: r =>
    match emuCellsD s r with
    | .ok cs => .ok (⟨g, s⟩ :: cs)
    | .error e => .error e
  | s, .seq (.csi _ ps f) :: r =>
    if f = 0x6D then
      match emuSgr s (ps.map (·.map Int.toNat)) with
      | .ok s' => emuCellsD s' r
      | .error e => .error e
    else emuCellsD s r
  | s, .seq _ :: r => emuCellsD s r

def stepRdf (caps : Nat) (table : String) (cells : List (Cell G)) (impl : String) : String :=
  match cells.mapM cellB?, (if table = "-" then some [] else commaNats? table) with
  | some cs, some tb =>
    let rs := VaxisModel.Model.SgrBytes.renderFromB (bit caps 0) (bit caps 1) (bit caps 2) {} cs
    let n := rs.length
    let cl : VaxisModel.Model.SgrBytes.Str → Nat := fun s => tb.getD (n - s.length) 1
    let pr (r : Except Panic (List (Cell VaxisModel.Model.SgrBytes.Str))) : String := exStr (fun cs => cellsStr (cs.map cellOfB)) r
    let m := s!"{pr (VaxisModel.Model.SgrBytes.parseStyledB cl rs)}|{pr (VaxisModel.Model.SgrBytes.newStyledStringB cl {} rs)}|{pr (emuCellsD {} (VaxisModel.Model.SgrBytes.tokenize cl rs))}"
    let verdict :=
      if (impl.splitOn "|").any (· = "panic") then "FAIL panic"
      else if !(cells.all fun c => wfB c.st && c.g ≠ "-") then "-"
      else
        match impl.splitOn "|" with
        | [a, b, c] =>
          let pc (x : String) := if x = "-" then some [] else (fields x).mapM parseCell?
          match pc a, pc b, pc c with
          | some ca, some cb, some cc =>
            let sh := shownCaps (bit caps 0) (bit caps 1)
            let v1 := cmpCaps sh 0 cells ca
            if v1 ≠ "ok" then s!"{v1} (ParseStyledString)"
            else
              let v2 := cmpCaps sh 0 cells cb
              if v2 ≠ "ok" then s!"{v2} (NewStyledString)"
              else
                let v3 := cmpCaps sh 0 cells cc
                if v3 ≠ "ok" then s!"{v3} (embedded terminal)" else "ok"
          | _, _, _ => s!"FAIL unparsable cells {impl}"
        | _ => s!"FAIL unparsable {impl}"
    s!"{m}\t{impl}\t{verdict}"
  | _, _ => "bad-op\tbad-op\tbad-op"

def step (line : String) : String :=
  let (op, impl) := splitTab line
  match fields op with
  | "enc" :: which :: caps :: cells =>
    match caps.toNat?, cells.mapM parseCell? with
    | some caps, some cells => stepEnc which caps cells impl
    | _, _ => "bad-op\tbad-op\tbad-op"
  | "dec" :: which :: dflt :: toks =>
    match parseStyle? dflt, toks.mapM parseTok? with
    | some dflt, some toks => stepDec which dflt toks impl
    | _, _ => "bad-op\tbad-op\tbad-op"
  | "encb" :: which :: caps :: cells =>
    match caps.toNat?, cells.mapM parseCell? with
    | some caps, some cells => stepEncB which caps cells impl
    | _, _ => "bad-op\tbad-op\tbad-op"
  | ["decb", which, dflt, h, table] =>
    match parseStyle? dflt with
    | some dflt => stepDecB which dflt h table impl
    | none => "bad-op\tbad-op\tbad-op"
  | ["decbl", dflt, url, ps, h, table] =>
    match parseStyle? dflt with
    | some dflt => stepDecBL dflt url ps h table impl
    | none => "bad-op\tbad-op\tbad-op"
  | "encbl" :: which :: cells =>
    match cells.mapM parseLCell? with
    | some lcells => stepEncBL which lcells impl
    | none => "bad-op\tbad-op\tbad-op"
  | "rtl" :: which :: cells =>
    match cells.mapM parseLCell? with
    | some lcells => stepRtl which lcells impl
    | none => "bad-op\tbad-op\tbad-op"
  | "rt" :: which :: cells =>
    match cells.mapM parseCell? with
    | some cells => stepRt false which cells impl
    | none => "bad-op\tbad-op\tbad-op"
  | ["agr", body] => stepAgr body impl
  | "rdf" :: caps :: table :: cells =>
    match caps.toNat?, cells.mapM parseCell? with
    | some caps, some cells => stepRdf caps table cells impl
    | _, _ => "bad-op\tbad-op\tbad-op"
  | "rtq" :: which :: cells =>
    match cells.mapM parseCell? with
    | some cells => stepRt true which cells impl
    | none => "bad-op\tbad-op\tbad-op"
  | _ => "bad-op\tbad-op\tbad-op"

def main : IO Unit := lineLoop step

end VaxisModel.Driver.C18
