import VaxisModel.Driver.Common
import VaxisModel.Model.ListGen
import VaxisModel.Model.Pager
import VaxisModel.Model.Scrollbar
import VaxisModel.Model.DynList
import VaxisModel.Gen.ListFacts
import VaxisModel.Model.DynGenBodies
import VaxisModel.Model.WidGenBodies

/-! Driver for C19 (stateful).  One widget per `#case`.  Lines (op<TAB>impl):

* widgets/list:  `sl new n` | `sl down|up|home|end` | `sl pgdn h` | `sl pgup h` | `sl set k`
                 ⇒ impl `idx=I`;   `sl draw h` ⇒ impl `idx=I rows=r0,r1,…` (`3*` = item 3 drawn
                 selected, `-` = blank row, `.` = no rows) or `panic`
* widgets/pager: `pg text tok…` (tok = `hex:width`) ⇒ `-`;  `pg layout` ⇒ `lines=L`;
                 `pg draw w h` ⇒ `off=O lines=L rows=R`;  `pg down|up` / `pg off k` ⇒ `off=O`
                 (L: lines joined by `/`, graphemes (hex) joined by `.`, empty line `_`, no lines `-`;
                  R likewise with `~` for a fill cell)
* widgets/scrollbar: `sb total view top h` ⇒ `rows=r,r,…` or `rows=-`
* vxfw/list Dynamic: `dl new gap drawCursor h0,h1,…` | `dl items h0,h1,…` | `dl setcursor c` | `dl pending k`
                 ⇒ `cursor=C off=O`;  `dl next|prev|wheeldown|wheelup|keyj|keyk` ⇒ `cursor=C off=O cmd=0|1`;
                 `dl draw W H` ⇒ `cursor=C off=O ch=idx@row/h,…` (`ch=-` no children) or `panic`

Output: model-canon <TAB> impl-canon <TAB> verdict, the verdict being the property oracle
(Spec) evaluated on the implementation's answer, independently of the model. -/
namespace VaxisModel.Driver.C19
open VaxisModel.Driver VaxisModel.Model

/-- The index expressions regenerated from the source. -/
def genRhs : SimpleList.Rhs := SimpleList.gen

def flush : Bool := Gen.ListFacts.layoutFlushesLast

/-! ### the widgets' regenerated bodies, run through the interpreter `Model/WidExec.lean` beside the models

A disagreement is appended to the model column (`INTERP!=MODEL …`), i.e. reported as a broken correspondence with the
failing input; it also says whether the interpreter's result, canonicalised like the implementation's, IS the
implementation's (`INTERP==IMPL`: the interpreter follows the changed code, the model does not) or not (`INTERP!=IMPL`). -/

def vsImpl (canon impl : String) : String := if canon = impl then " INTERP==IMPL" else " INTERP!=IMPL"

def slInterp (s : SimpleList.St) (o : SimpleList.Op) (canon : SimpleList.St → List SimpleList.Row → String) (impl : String) : String :=
  let B := WidExec.genB
  let r := match o with
    | .down => WidExec.runList B B.listDown s 0 0
    | .up => WidExec.runList B B.listUp s 0 0
    | .home => WidExec.runList B B.listHome s 0 0
    | .«end» => WidExec.runList B B.listEnd s 0 0
    | .pageDown h => WidExec.runList B B.listPageDown s h 0
    | .pageUp h => WidExec.runList B B.listPageUp s h 0
    | .setItems k => WidExec.runList B B.listSetItems s 0 k
    | .draw h => WidExec.runList B B.listDraw s h 0
  match r, SimpleList.step genRhs s o with
  | some (.ok (s1, r1)), .ok (s2, r2) =>
    if s1 = s2 ∧ r1 = r2 then "" else s!" INTERP!=MODEL idx={s1.index} off={s1.offset} n={s1.n} rows={r1.length}{vsImpl (canon s1 r1) impl}"
  | some (.error _), .error _ => ""
  | some (.error _), .ok _ => s!" INTERP!=MODEL panic{vsImpl "panic" impl}"
  | some (.ok (s1, r1)), .error _ => s!" INTERP!=MODEL no panic{vsImpl (canon s1 r1) impl}"
  | Option.none, _ => " INTERP!=MODEL stuck"

def pgInterp (body : DynExec.Stmt) (s : Pager.St) (w h : Nat) (want : Pager.St) (rows : Option WidExec.Win)
    (canon : Pager.St → WidExec.Win → String) (impl : String) : String :=
  match WidExec.runPager WidExec.genB body [s.text] s w h true with
  | some (s1, win) =>
    if s1 == want && (match rows with | some r => win == r | Option.none => true) then ""
    else s!" INTERP!=MODEL off={s1.offset} lines={s1.lines.length} width={s1.width}{vsImpl (canon s1 win) impl}"
  | Option.none => " INTERP!=MODEL stuck"

def sbInterp (total view top : Int) (h : Nat) (canon : List Nat → String) (impl : String) : String :=
  match WidExec.runBar WidExec.genB.barDraw total view top 1 h (h + 2) true with
  | some rows => if rows = Scrollbar.rows total view top h then "" else s!" INTERP!=MODEL rows={rows}{vsImpl (canon rows) impl}"
  | Option.none => " INTERP!=MODEL stuck"

inductive W where
  | none
  | dead                                   -- after a panic: nothing more is compared
  | sl (s : SimpleList.St) (n : Nat)       -- model state; item count tracked by the oracle
  | pg (s : Pager.St) (lastW : Int) (fresh : Bool) (ioff : Int)   -- oracle: width of last layout, lines fresh, the offset the IMPLEMENTATION reported last
  | dl (cfg : DynList.Cfg) (hs : List Nat) (s : DynList.St) (selChanged scrolled : Bool)
     -- oracle flags: selection changed / scrolled or items replaced since the last Draw

def bad : String := "bad-op\tbad-op\tbad-op"

/-! ### widgets/list -/

def slRowsCanon (rows : List SimpleList.Row) (h : Nat) : String :=
  if h = 0 then "." else
  ",".intercalate ((List.range h).map fun r =>
    match rows.find? (·.row = r) with
    | some x => toString x.item ++ (if x.sel then "*" else "")
    | Option.none => "-")

/-- Parse `idx=I`. -/
def parseIdx (s : String) : Option Int :=
  if s.startsWith "idx=" then (s.drop 4).toString.toInt? else Option.none

def kv (key : String) (fs : List String) : Option String :=
  (fs.find? (·.startsWith (key ++ "="))).map fun f => (f.drop (key.length + 1)).toString

/-- Oracle for a navigation result. -/
def slIdxVerdict (n : Nat) (idx : Int) : String :=
  if n > 0 ∧ ¬ (0 ≤ idx ∧ idx < n) then s!"FAIL index {idx} out of range for {n} items" else "ok"

/-- Oracle for a `Draw` result `rows` (as printed): items shown are consecutive from some offset
    in `0..n`, blank rows only after the last item, and when `n > 0 ∧ h > 0` exactly one row is
    drawn selected and it is item `idx`. -/
def slDrawVerdict (n h : Nat) (idx : Int) (rows : String) : String :=
  if h = 0 then (if rows = "." then slIdxVerdict n idx else "FAIL rows drawn in an empty window") else
  let cells := rows.splitOn ","
  if cells.length ≠ h then s!"FAIL {cells.length} rows reported for height {h}" else
  let parsed : List (Option (Int × Bool)) := cells.map fun c =>
    if c = "-" then Option.none
    else if c.endsWith "*" then ((c.dropEnd 1).toString.toInt?).map (·, true)
    else (c.toInt?).map (·, false)
  let shown := parsed.filterMap id
  let k := shown.length
  -- blanks only at the end
  if (parsed.take k).any (·.isNone) then "FAIL blank row above a drawn item" else
  match shown with
  | [] => if n = 0 then "ok" else s!"FAIL nothing drawn for {n} items"
  | (first, _) :: _ =>
    if first < 0 ∨ first ≥ n then s!"FAIL first drawn item {first} out of range" else
    if shown.map (·.1) ≠ (List.range k).map (fun (i : Nat) => first + (i : Int)) then "FAIL items not consecutive" else
    if first + (k : Int) > n then "FAIL item beyond the end drawn" else
    if k < h ∧ first + (k : Int) ≠ n then "FAIL viewport not filled although items remain" else
    let sel := shown.filter (·.2)
    if sel.length ≠ 1 then s!"FAIL {sel.length} rows drawn selected" else
    if sel.map (·.1) ≠ [idx] then s!"FAIL selected row shows another item than index {idx}" else
    slIdxVerdict n idx

def slStep (s : SimpleList.St) (n : Nat) (op : List String) (impl : String) : W × String :=
  let nav (o : SimpleList.Op) (n' : Nat) : W × String :=
    let s' := SimpleList.nav genRhs s o
    let mc := s!"idx={s'.index}{slInterp s o (fun s1 _ => s!"idx={s1.index}") impl}"
    match parseIdx impl with
    | some i => (.sl s' n', s!"{mc}\t{impl}\t{slIdxVerdict n' i}")
    | Option.none => (.dead, s!"{mc}\t{impl}\tFAIL navigation panicked or unparsable result")
  match op with
  | ["down"] => nav .down n
  | ["up"] => nav .up n
  | ["home"] => nav .home n
  | ["end"] => nav .«end» n
  | ["pgdn", h] => match h.toNat? with | some h => nav (.pageDown h) n | _ => (.dead, bad)
  | ["pgup", h] => match h.toNat? with | some h => nav (.pageUp h) n | _ => (.dead, bad)
  | ["set", k] => match k.toNat? with | some k => nav (.setItems k) k | _ => (.dead, bad)
  | ["draw", h] =>
    match h.toNat? with
    | some h =>
      let (w, mc) : W × String := match SimpleList.draw genRhs s h with
        | .ok (s', rows) => (W.sl s' n, s!"idx={s'.index} rows={slRowsCanon rows h}{slInterp s (.draw h) (fun s1 r1 => s!"idx={s1.index} rows={slRowsCanon r1 h}") impl}")
        | .error _ => (W.dead, s!"panic{slInterp s (.draw h) (fun s1 r1 => s!"idx={s1.index} rows={slRowsCanon r1 h}") impl}")
      if impl = "panic" then (.dead, s!"{mc}\tpanic\tFAIL Draw panicked ({n} items, height {h})")
      else
        let fs := fields impl
        match (kv "idx" fs).bind (·.toInt?), kv "rows" fs with
        | some i, some r => (w, s!"{mc}\t{impl}\t{slDrawVerdict n h i r}")
        | _, _ => (.dead, bad)
    | _ => (.dead, bad)
  | _ => (.dead, bad)

/-! ### widgets/pager -/

def parseTok (t : String) : Option Pager.Ch :=
  match t.splitOn ":" with
  | [h, w] => do
    let b ← hexBytes? h
    let w ← w.toInt?
    pure { bytes := b, width := w }
  | _ => Option.none

def lineCanon (l : List String) : String := if l.isEmpty then "_" else ".".intercalate l
def linesCanon (ls : List (List String)) : String :=
  if ls.isEmpty then "-" else "/".intercalate (ls.map lineCanon)

def pgLines (ls : List Pager.Line) : String :=
  linesCanon (ls.map fun l => l.map fun c => hexOfBytes c.bytes)
def pgRows (rs : List (List (Option Pager.Ch))) : String :=
  linesCanon (rs.map fun r => r.map fun c => match c with | some c => hexOfBytes c.bytes | Option.none => "~")

def parseLines (s : String) : List (List String) :=
  if s = "-" then [] else (s.splitOn "/").map fun l => if l = "_" then [] else l.splitOn "."

/-- Oracle, line breaks ("wraps AT the window width"): walking the text along the reported lines, a line ends only at a
    newline character, at the end of the text, or when its width has reached the window width; an empty line stands for a
    newline met with nothing pending.  `none` = fine. -/
def pgBreaks (width : Int) : List Pager.Ch → List (List String) → Option String
  | [], [] => Option.none
  | _ :: _, [] => some "FAIL text left over after the last line"
  | rest, l :: ls =>
    let cs := rest.take l.length
    let rest' := rest.drop l.length
    if cs.length ≠ l.length ∨ cs.any (·.isNl) then some "FAIL a line runs across a newline or the end of the text"
    else if l.isEmpty then
      match rest' with
      | c :: r => if c.isNl then pgBreaks width r ls else some "FAIL an empty line where the text has no newline"
      | [] => some "FAIL an empty line where the text has no newline"
    else if (cs.map (·.width)).foldl (· + ·) 0 ≥ width then pgBreaks width rest' ls
    else
      match rest' with
      | [] => pgBreaks width [] ls
      | c :: r =>
        if c.isNl then pgBreaks width r ls
        else some s!"FAIL a line is broken before the window width {width} is reached (line of {l.length} characters)"
termination_by _ ls => ls.length

/-- Oracle, completeness: the lines concatenated are the text without the newline characters;
    every line is at most one character or all but its last character are narrower than the width. -/
def pgCompleteVerdict (text : List Pager.Ch) (width : Int) (lines : List (List String)) : String :=
  let want := (text.filter (fun c => !c.isNl)).map fun c => hexOfBytes c.bytes
  if lines.flatten ≠ want then
    s!"FAIL laid-out lines do not reproduce the text: {lines.flatten.length} of {want.length} characters"
  else
    let wOf (h : String) : Int := match text.find? (fun c => hexOfBytes c.bytes = h) with
      | some c => c.width | Option.none => 1
    let tooWide := lines.any fun l => l.length > 1 ∧ (l.dropLast.map wOf).foldl (· + ·) 0 ≥ width
    if tooWide then s!"FAIL a line exceeds the width {width}" else
    match pgBreaks width text lines with
    | some msg => msg
    | Option.none => "ok"

def pgOffVerdict (nlines : Nat) (h : Nat) (off : Int) : String :=
  let mx : Int := if (nlines : Int) - h > 0 then (nlines : Int) - h else 0
  if off < 0 ∨ off > mx then s!"FAIL offset {off} outside 0..{mx} ({nlines} lines, height {h})" else "ok"

/-- Oracle, clamping: `Draw` changes the offset only as far as needed — the offset after the draw is the offset before it
    (what the implementation reported last) moved to the nearest value in `0 … max 0 (lines − h)`, `lines` = the lines the
    implementation reports AFTER the draw (so a re-wrap counts). -/
def pgClampVerdict (before : Int) (nlines : Nat) (h : Nat) (off : Int) : String :=
  let mx : Int := if (nlines : Int) - h > 0 then (nlines : Int) - h else 0
  let lo : Int := if before < 0 then 0 else before
  let want : Int := if lo > mx then mx else lo
  if off = want then "ok" else s!"FAIL offset {before} clamped to 0..{mx} is {want}, Draw left {off} ({nlines} lines, height {h})"

/-- Oracle, rows: row `r` shows line `off + r` (characters at their cumulative columns). -/
def pgRowsVerdict (text : List Pager.Ch) (w h : Nat) (off : Int) (lines rows : List (List String)) : String :=
  let wOf (hx : String) : Int := match text.find? (fun c => hexOfBytes c.bytes = hx) with
    | some c => c.width | Option.none => 1
  let vis := (lines.drop off.toNat).take h
  if rows.length ≠ h then s!"FAIL {rows.length} rows reported for height {h}" else
  if (rows.drop vis.length).any (fun r => r.any (· ≠ "~")) then "FAIL something drawn below the last line" else
  let okRow (l r : List String) : Bool :=
    let placed := (l.foldl (fun (acc : List (Int × String) × Int) hx => (acc.1 ++ [(acc.2, hx)], acc.2 + wOf hx)) ([], 0)).1
    placed.all fun (col, hx) => col < 0 ∨ col ≥ w ∨ r[col.toNat]? = some hx
      ∨ placed.any fun (c2, h2) => c2 = col ∧ h2 ≠ hx   -- overwritten by a zero-width follower
  if (List.zip vis rows).all fun (l, r) => okRow l r then "ok" else "FAIL a visible line is not drawn at its columns"

def combine (vs : List String) : String :=
  match vs.find? (·.startsWith "FAIL") with
  | some v => v
  | Option.none => "ok"

/-- Oracle for ScrollDown / ScrollUp: the offset moves by exactly one line (so that every line can be brought to the
    top by scrolling: "presents every line"); `before` = the offset the implementation reported last. -/
def pgScrollVerdict (before : Int) (delta : Int) (impl : String) : String :=
  match (kv "off" (fields impl)).bind (·.toInt?) with
  | some o => if o = before + delta then "ok" else s!"FAIL scrolling by one line moved the offset from {before} to {o}"
  | Option.none => "FAIL Scroll panicked or unparsable result"

/-- The offset the implementation reports in `impl` (`off=O`), else `dflt`. -/
def implOff (impl : String) (dflt : Int) : Int :=
  match (kv "off" (fields impl)).bind (·.toInt?) with
  | some o => o
  | Option.none => dflt

def pgStep (s : Pager.St) (lastW : Int) (fresh : Bool) (ioff : Int) (op : List String) (impl : String) : W × String :=
  match op with
  | "text" :: toks =>
    match (toks.filter (· ≠ "|")).mapM parseTok with
    | some cs => (.pg (Pager.setText s cs) lastW false ioff, "-\t-\t-")
    | Option.none => (.dead, bad)
  | ["layout"] =>
    let s' := Pager.relayout flush s
    let mc := s!"lines={pgLines s'.lines}{pgInterp WidExec.genB.pagerLayout s 0 0 s' Option.none (fun s1 _ => s!"lines={pgLines s1.lines}") impl}"
    let v := match kv "lines" (fields impl) with
      | some l => pgCompleteVerdict s.text lastW (parseLines l)
      | Option.none => "FAIL Layout panicked or unparsable result"
    (.pg s' lastW true ioff, s!"{mc}\t{impl}\t{v}")
  | ["draw", w, h] =>
    match w.toNat?, h.toNat? with
    | some w, some h =>
      let (s', rows) := Pager.draw flush s w h
      let mc := s!"off={s'.offset} lines={pgLines s'.lines} rows={pgRows rows}{pgInterp WidExec.genB.pagerDraw s w h s' (some rows) (fun s1 win => s!"off={s1.offset} lines={pgLines s1.lines} rows={pgRows win}") impl}"
      let relaid := (w : Int) ≠ lastW
      let fresh' := fresh || relaid
      let fs := fields impl
      let v := match (kv "off" fs).bind (·.toInt?), kv "lines" fs, kv "rows" fs with
        | some o, some l, some r =>
          let ls := parseLines l
          combine [ (if fresh' then pgCompleteVerdict s.text w ls else "ok"),
                    pgOffVerdict ls.length h o,
                    pgClampVerdict ioff ls.length h o,
                    pgRowsVerdict s.text w h o ls (parseLines r) ]
        | _, _, _ => "FAIL Draw panicked or unparsable result"
      (.pg s' w fresh' (implOff impl ioff), s!"{mc}\t{impl}\t{v}")
    | _, _ => (.dead, bad)
  | ["down"] =>
    let s' := Pager.scrollDown s
    (.pg s' lastW fresh (implOff impl (ioff + 1)), s!"off={s'.offset}{pgInterp WidExec.genB.pagerScrollDown s 0 0 s' Option.none (fun s1 _ => s!"off={s1.offset}") impl}\t{impl}\t{pgScrollVerdict ioff 1 impl}")
  | ["up"] =>
    let s' := Pager.scrollUp s
    (.pg s' lastW fresh (implOff impl (ioff - 1)), s!"off={s'.offset}{pgInterp WidExec.genB.pagerScrollUp s 0 0 s' Option.none (fun s1 _ => s!"off={s1.offset}") impl}\t{impl}\t{pgScrollVerdict ioff (-1) impl}")
  | ["off", k] =>
    match k.toInt? with
    | some k => (.pg { s with offset := k } lastW fresh (implOff impl k), s!"off={k}\t{impl}\t-")
    | Option.none => (.dead, bad)
  | _ => (.dead, bad)

/-! ### widgets/scrollbar -/

def sbVerdict (total view top : Int) (h : Nat) (rows : List Nat) : String :=
  -- precondition of the property: a real scroll position in a non-empty track
  if 1 ≤ view ∧ view < total ∧ 0 ≤ top ∧ top ≤ total - view ∧ h ≥ 1 then
    match rows with
    | [] => "FAIL no bar drawn"
    | r0 :: _ =>
      if rows ≠ (List.range rows.length).map (· + r0) then "FAIL bar rows not contiguous"
      else if r0 + rows.length > h then "FAIL bar leaves the track"
      else "ok"
  else if rows.any (· ≥ h) then "FAIL cell outside the window" else "-"

def sbStep (op : List String) (impl : String) : String :=
  match op.mapM (·.toInt?) with
  | some [total, view, top, h] =>
    let mc := s!"rows={joinNats "," (Scrollbar.rows total view top h.toNat)}{sbInterp total view top h.toNat (fun rows => s!"rows={joinNats "," rows}") impl}"
    match kv "rows" (fields impl) with
    | some r =>
      match commaNats? r with
      | some rows => s!"{mc}\t{impl}\t{sbVerdict total view top h.toNat rows}"
      | Option.none => bad
    | Option.none => s!"{mc}\t{impl}\tFAIL scrollbar Draw panicked"
  | _ => bad

/-! ### vxfw/list Dynamic -/

def dlChildren (cs : List DynList.Child) : String :=
  if cs.isEmpty then "-" else ",".intercalate (cs.map fun c => s!"{c.idx}@{c.row}/{c.height}")

def parseChild (t : String) : Option DynList.Child :=
  match t.splitOn "@" with
  | [i, rest] =>
    match rest.splitOn "/" with
    | [r, h] => do
      let i ← i.toNat?; let r ← r.toInt?; let h ← h.toNat?
      pure { idx := i, row := r, height := h }
    | _ => Option.none
  | _ => Option.none

def parseChildren (s : String) : Option (List DynList.Child) :=
  if s = "-" then some [] else (s.splitOn ",").mapM parseChild

/-- Oracle, layout: children in index order, each with its builder height, contiguous with the gap. -/
def dlLayoutVerdict (gap : Int) (hs : List Nat) : List DynList.Child → String
  | [] => "ok"
  | [c] => if hs[c.idx]? = some c.height then "ok" else s!"FAIL child {c.idx} has height {c.height}"
  | c :: d :: rest =>
    if hs[c.idx]? ≠ some c.height then s!"FAIL child {c.idx} has height {c.height}"
    else if d.idx ≠ c.idx + 1 then s!"FAIL child {d.idx} follows child {c.idx}"
    else if d.row ≠ c.row + (c.height : Int) + gap then
      s!"FAIL child {d.idx} at row {d.row} but child {c.idx} at row {c.row} height {c.height} gap {gap}"
    else dlLayoutVerdict gap hs (d :: rest)

/-- Oracle, visibility of the selected item after a selection change followed by a draw. -/
def dlVisibleVerdict (hs : List Nat) (cursor H : Nat) (cs : List DynList.Child) : String :=
  match hs[cursor]? with
  | Option.none => "ok"
  | some hc =>
    if hc = 0 ∨ H = 0 then "ok" else
    match cs.find? (·.idx = cursor) with
    | Option.none => s!"FAIL selected item {cursor} not drawn"
    | some c =>
      if ¬ (c.row < H ∧ c.row + (c.height : Int) > 0) then
        s!"FAIL selected item {cursor} at rows {c.row}..{c.row + (c.height : Int) - 1} outside the viewport of height {H}"
      else if c.height ≤ H ∧ ¬ (0 ≤ c.row ∧ c.row + (c.height : Int) ≤ H) then
        s!"FAIL selected item {cursor} fits but is only partly visible (row {c.row}, height {c.height}, viewport {H})"
      else "ok"

/-- Oracle, size: the surface returned is within the maximum constraint. -/
def dlSizeVerdict (w h : Nat) (sz : Option String) : String :=
  match sz.map (·.splitOn "x") with
  | some [a, b] =>
    match a.toNat?, b.toNat? with
    | some a, some b => if a ≤ w ∧ b ≤ h then "ok" else s!"FAIL surface size {a}x{b} exceeds the constraint {w}x{h}"
    | _, _ => "FAIL unparsable surface size"
  | _ => "FAIL no surface size"

def dlState (s : DynList.St) : String := s!"cursor={s.cursor} off={s.offset}"

def heights? (s : String) : Option (List Nat) := commaNats? s

/-! The same operations run by the interpreter `Model/DynExec.lean` on the REGENERATED method bodies
    (`Gen/DynSkel.lean`); a disagreement with `Model/DynList.lean` is reported in the model column
    (so it shows up as a broken correspondence with the failing input). -/

def interpMoved (r : Except DynExec.Err (DynList.St × Bool)) (m : DynList.St × Bool) : String :=
  match r with
  | .ok x => if x = m then "" else s!" INTERP!=MODEL cursor={x.1.cursor} top={x.1.top} off={x.1.offset} pending={x.1.pending} cmd={x.2}"
  | .error e => s!" INTERP!=MODEL {repr e}"

def interpDraw (cfg : DynList.Cfg) (hs : List Nat) (s : DynList.St) (w h : Nat)
    (m : Except DynList.Panic (DynList.St × List DynList.Child)) : String :=
  match DynExec.runDraw DynExec.genBodies (DynList.builder hs) cfg s w h (DynExec.drawFuel hs s h), m with
  | .ok x, .ok y => if x = y then "" else s!" INTERP!=MODEL top={x.1.top} off={x.1.offset} n={x.2.length}"
  | .error .panic, .error _ => ""
  | .error e, _ => s!" INTERP!=MODEL {repr e}"
  | .ok _, .error _ => " INTERP!=MODEL no panic"

def dlStep (cfg : DynList.Cfg) (hs : List Nat) (s : DynList.St) (sel scr : Bool)
    (op : List String) (impl : String) : W × String :=
  let fs := fields impl
  let implCursor := (kv "cursor" fs).bind (·.toNat?)
  let moved (r : DynList.St × Bool) (isSel : Bool) (ir : Except DynExec.Err (DynList.St × Bool)) : W × String :=
    let (s', cmd) := r
    let mc := s!"{dlState s'} cmd={if cmd then 1 else 0}{interpMoved ir r}"
    let v := match implCursor, kv "cmd" fs with
      | some c, some k =>
        if isSel ∧ k = "1" ∧ hs.length > 0 ∧ c ≥ hs.length then s!"FAIL cursor {c} beyond the {hs.length} items" else "ok"
      | _, _ => "FAIL operation panicked or unparsable result"
    let changed := isSel && (kv "cmd" fs == some "1")
    -- a selection change makes the next draw subject to the visibility oracle, whatever scroll was
    -- requested BEFORE it; only a scroll requested after the selection change suspends the oracle
    (.dl cfg hs s' (sel || changed) (if changed then false else (scr || (!isSel && (kv "cmd" fs == some "1")))), s!"{mc}\t{impl}\t{v}")
  match op with
  | ["items", h] =>
    match heights? h with
    | some hs' => (.dl cfg hs' s sel scr, "-\t-\t-")
    | Option.none => (.dead, bad)
  | ["setcursor", c] =>
    match c.toNat? with
    | some c =>
      let s' := DynList.setCursor s c
      (.dl cfg hs s' true false, s!"{dlState s'}\t{impl}\t{if implCursor = some c then "ok" else "FAIL SetCursor did not set the cursor"}")
    | Option.none => (.dead, bad)
  | ["pending", k] =>
    match k.toInt? with
    | some k => let s' := DynList.setPending s k; (.dl cfg hs s' sel true, s!"{dlState s'}\t{impl}\t-")
    | Option.none => (.dead, bad)
  | ["next"] => moved (DynList.nextItem hs s) true
      (DynExec.runNextItem DynExec.genBodies (DynList.builder hs) s)
  | ["keyj"] => moved (DynList.nextItem hs s) true
      (DynExec.runCaptureEvent DynExec.genBodies (DynList.builder hs) false (DynExec.keyEv ["'j'"]) s)
  | ["prev"] => moved (DynList.prevItem hs s) true
      (DynExec.runPrevItem DynExec.genBodies (DynList.builder hs) s)
  | ["keyk"] => moved (DynList.prevItem hs s) true
      (DynExec.runCaptureEvent DynExec.genBodies (DynList.builder hs) false (DynExec.keyEv ["'k'"]) s)
  | [evk, kind] =>
    if evk = "ev" ∨ evk = "dev" then
      let dis := evk = "dev"
      -- what the event is for the interpreter, whether it goes to CaptureEvent, and what the model does
      let (ev, toCapture, res) : DynExec.Ev × Bool × (DynList.St × Bool) :=
        match kind with
        | "j" => (DynExec.keyEv ["'j'"], true, DynList.nextItem hs s)
        | "down" => (DynExec.keyEv ["vaxis.KeyDown"], true, DynList.nextItem hs s)
        | "k" => (DynExec.keyEv ["'k'"], true, DynList.prevItem hs s)
        | "up" => (DynExec.keyEv ["vaxis.KeyUp"], true, DynList.prevItem hs s)
        | "x" => (DynExec.keyEv [], true, (s, false))
        | "wheeldown" => (DynExec.wheelDownEv, false, DynList.wheelDown s)
        | "wheelup" => (DynExec.wheelUpEv, false, DynList.wheelUp s)
        | "left" => (⟨"vaxis.Mouse", "vaxis.MouseLeftButton", []⟩, false, (s, false))
        | "keytohandle" => (DynExec.keyEv ["'j'"], false, (s, false))
        | "mousetocapture" => (DynExec.wheelDownEv, true, (s, false))
        | _ => (⟨"vaxis.FocusIn", "", []⟩, false, (s, false))
      let res := if dis then (s, false) else res
      let isSel := !dis && (kind = "j" || kind = "down" || kind = "k" || kind = "up")
      moved res isSel
        (if toCapture then DynExec.runCaptureEvent DynExec.genBodies (DynList.builder hs) dis ev s
         else DynExec.runHandleEvent DynExec.genBodies (DynList.builder hs) dis ev s)
    else (.dead, bad)
  | ["wheeldown"] => moved (DynList.wheelDown s) false
      (DynExec.runHandleEvent DynExec.genBodies (DynList.builder hs) false DynExec.wheelDownEv s)
  | ["wheelup"] => moved (DynList.wheelUp s) false
      (DynExec.runHandleEvent DynExec.genBodies (DynList.builder hs) false DynExec.wheelUpEv s)
  | ["draw", w, h] =>
    match w.toNat?, h.toNat? with
    | some w, some h =>
      let mr := DynList.draw DynList.genFacts cfg hs s w h
      let ir := interpDraw cfg hs s w h mr
      let (wst, mc) : W × String := match mr with
        | .ok (s', cs) => (W.dl cfg hs s' false false, s!"{dlState s'} ch={dlChildren cs} sz={w}x{h}{ir}")
        | .error _ => (W.dead, "panic" ++ ir)
      if impl = "panic" then (.dead, s!"{mc}\tpanic\tFAIL Dynamic.Draw panicked")
      else
        match implCursor, (kv "ch" fs).bind parseChildren with
        | some c, some cs =>
          let v := combine [dlLayoutVerdict cfg.gap hs cs,
                            if sel ∧ !scr then dlVisibleVerdict hs c h cs else "ok",
                            dlSizeVerdict w h (kv "sz" fs)]
          (wst, s!"{mc}\t{impl}\t{v}")
        | _, _ => (.dead, bad)
    | _, _ => (.dead, bad)
  | _ => (.dead, bad)

/-! ### dispatch -/

def step (w : W) (line : String) : W × String :=
  let (op, impl) := splitTab line
  if op.startsWith "#case" then (.none, "-\t-\t-") else
  match w, fields op with
  | .dead, _ => (.dead, "-\t-\t-")
  | _, ["sl", "new", n] =>
    match n.toNat? with
    | some n => (.sl (SimpleList.new n) n, s!"idx=0\t{impl}\t{match parseIdx impl with | some i => slIdxVerdict n i | _ => "FAIL"}")
    | Option.none => (.dead, bad)
  | .sl s n, "sl" :: rest => slStep s n rest impl
  | .none, "pg" :: rest => pgStep Pager.init 0 false 0 rest impl
  | .pg s lw fr io, "pg" :: rest => pgStep s lw fr io rest impl
  | w, "sb" :: rest => (w, sbStep rest impl)
  | .none, ["dl", "new", gap, dc, h] =>
    match gap.toInt?, heights? h with
    | some g, some hs =>
      (.dl { gap := g, drawCursor := dc = "1" } hs DynList.init false false, s!"{dlState DynList.init}\t{impl}\t-")
    | _, _ => (.dead, bad)
  | .dl cfg hs s sel scr, "dl" :: rest => dlStep cfg hs s sel scr rest impl
  | _, _ => (.dead, bad)

def main : IO Unit := foldLoop W.none step

end VaxisModel.Driver.C19
