import VaxisModel.Driver.Common
import VaxisModel.Model.ImageFit
import VaxisModel.Spec.Images

/-! Driver for C20.  Lines (`op<TAB>impl` → `model-canon<TAB>impl-canon<TAB>verdict`):

* `dims wPix hPix w h cellW cellH` ⇒ impl `newW newH` | `panic`
  (real `resizeImage` through `VerifResizeDims`); model = `resizeDims` with the native-`Float`
  instance of `FloatOps`; verdict = fit / no-upscale / aspect evaluated on the implementation's
  result, and the float hypothesis `Sound` evaluated on every float value this case uses.
-/
namespace VaxisModel.Driver.C20
open VaxisModel.Driver VaxisModel.Model.ImageFit VaxisModel.Spec.Images

/-- IEEE-754 doubles, the same operations in the same order as the Go code. -/
def floatOps : FloatOps where
  cmp a b c d :=
    let x := Float.ofNat a / Float.ofNat b
    let y := Float.ofNat c / Float.ofNat d
    if x == y then .eq else if x < y then .lt else .gt
  scale a b x := ((Float.ofNat a / Float.ofNat b) * Float.ofNat x).toUInt64.toNat

/-- The `Sound` hypothesis checked on the concrete float values of one case. -/
def floatHypOk (wPix hPix w columns h lines : Nat) : Bool :=
  let F := floatOps
  let okScale (a b x : Nat) : Bool := F.scale a b x * b ≤ a * x && a * x ≤ (F.scale a b x + 1) * b
  (F.cmp w columns h lines == ratCmp w columns h lines) &&
  okScale w columns wPix && okScale w columns hPix && okScale h lines wPix && okScale h lines hPix

def showDims : Except Panic (Nat × Nat) → String
  | .ok (a, b) => s!"{a} {b}"
  | .error _ => "panic"

def dimsVerdict (wPix hPix w h cellW cellH : Nat) (impl : String) : String :=
  if cellW = 0 ∨ cellH = 0 then
    if impl = "panic" then s!"FAIL panic: integer divide by zero for cell geometry {cellW}x{cellH}"
    else "ok"
  else if impl = "panic" then "FAIL panic"
  else match natList? (fields impl) with
  | some [pw, ph] =>
    let columns := ceilDiv wPix cellW
    let lines := ceilDiv hPix cellH
    if !floatHypOk wPix hPix w columns h lines then "FAIL float hypothesis violated"
    else if ¬ FitsBox pw ph w h cellW cellH then
      s!"FAIL result cells {ceilDiv pw cellW}x{ceilDiv ph cellH} exceed box {w}x{h}"
    else if ¬ NoUpscale pw ph wPix hPix then s!"FAIL upscaled {wPix}x{hPix} to {pw}x{ph}"
    else if ¬ AspectKept pw ph wPix hPix then s!"FAIL aspect {wPix}x{hPix} became {pw}x{ph}"
    else "ok"
  | _ => "FAIL unparsable result"

structure St where
  dummy : Unit := ()

def step (s : St) (line : String) : St × String :=
  let (op, impl) := splitTab line
  if op.startsWith "#case" then ({}, "-\t-\t-") else
  match fields op with
  | "dims" :: rest =>
    match natList? rest with
    | some [wPix, hPix, w, h, cellW, cellH] =>
      let m := showDims (resizeDims floatOps wPix hPix w h cellW cellH)
      (s, s!"{m}\t{impl}\t{dimsVerdict wPix hPix w h cellW cellH impl}")
    | _ => (s, "bad-op\tbad-op\tbad-op")
  | _ => (s, "bad-op\tbad-op\tbad-op")

def main : IO Unit := foldLoop ({} : St) step

end VaxisModel.Driver.C20
