import VaxisModel.Driver.Common
import VaxisModel.Model.ImageFit
import VaxisModel.Model.ImageTerm
import VaxisModel.Model.Blocks
import VaxisModel.Model.Placements
import VaxisModel.Model.ImageDraw
import VaxisModel.Model.Scaler
import VaxisModel.Model.KittyTerm
import VaxisModel.Spec.Images

/-! Driver for C20.  Lines (`op<TAB>impl` → `model-canon<TAB>impl-canon<TAB>verdict`), see
harness/cmd/C20/main.go for the ops.

* `dims …`: model = `resizeDims` with the native-`Float` instance of `FloatOps`; verdict = fit /
  no-upscale / aspect on the implementation's result + the float hypothesis `Sound` on every float
  value the case uses.
* `torgb|nrgba|rgba|avg …`: model = `toRGB` / `averageColor`; verdict = opaque-exact,
  translucent-within-one, alpha preserved.
* `half|full …`: model = cell size + the cells the block renderer produces for an unscaled image,
  placed through the window; verdict = the property's pixel clause evaluated on the cells the
  implementation drew (glyph table, colours within one / exact when opaque, default colour when
  transparent enough, nothing outside the window).
* `knew|kimg|kresize|kdraw|simg|sresize|sdraw|kclear|krender|krefresh`: model = `Placements` + `protoCellSize`;
  verdict = the spec's diff against the previous frame (`Spec.Images.mustWrite/mustDelete`) on the
  graphics sequences the implementation wrote.  Round 4: the model's render is `KittyTerm.renderGen` (the placement
  stretch of `render` interpreted in source order) followed by `KittyTerm.emit` (the regenerated `writeTo` body), its
  ordered command list is compared with the implementation's (`Q=`); and the oracle runs the order-sensitive terminal
  model `KittyTerm.Term` on the IMPLEMENTATION's ordered command list: every `a=p` must find the data of the image's
  last successful `Resize` on the terminal, and after every frame the terminal's placement table must hold exactly
  the (image, origin) pairs the application drew (frames with one image twice at one origin in two sizes excepted).
  `half|full…`: the coordinates of the cells come from the regenerated `Draw` loop (`KittyTerm.loopCoords`).
-/
namespace VaxisModel.Driver.C20
open VaxisModel.Driver VaxisModel.Model.ImageFit VaxisModel.Spec.Images
open VaxisModel.Model.Blocks (C16 C8 BCell Img)
open VaxisModel.Model

/-- IEEE-754 doubles, the same operations in the same order as the Go code. -/
def floatOps : FloatOps where
  cmp a b c d :=
    let x := Float.ofNat a / Float.ofNat b
    let y := Float.ofNat c / Float.ofNat d
    if x == y then .eq else if x < y then .lt else .gt
  scale a b x := ((Float.ofNat a / Float.ofNat b) * Float.ofNat x).toUInt64.toNat

/-- The `Sound` hypothesis checked on the concrete float values of one case. -/
def floatHypOk (wPix hPix w columns h lines : Nat) : Bool :=
  let F := floatOps
  let okScale (a b x : Nat) : Bool := F.scale a b x * b ≤ a * x && a * x ≤ (F.scale a b x + 1) * b
  (F.cmp w columns h lines == ratCmp w columns h lines) &&
  okScale w columns wPix && okScale w columns hPix && okScale h lines wPix && okScale h lines hPix

def showDims : Except Panic (Nat × Nat) → String
  | .ok (a, b) => s!"{a} {b}"
  | .error _ => "panic"

def dimsVerdict (wPix hPix w h cellW cellH : Nat) (impl : String) : String :=
  -- a zero cell geometry is outside what resizeImage's callers pass since the F52 repair (`cellPixelSize` ≥ 1,
  -- literals 1×2): model ≡ code only (both panic)
  if cellW = 0 ∨ cellH = 0 then "-"
  else if impl = "panic" then "FAIL panic"
  else match natList? (fields impl) with
  | some [pw, ph] =>
    let columns := ceilDiv wPix cellW
    let lines := ceilDiv hPix cellH
    if !floatHypOk wPix hPix w columns h lines then "FAIL float hypothesis violated"
    else if ¬ FitsBox pw ph w h cellW cellH then
      s!"FAIL result cells {ceilDiv pw cellW}x{ceilDiv ph cellH} exceed box {w}x{h}"
    else if ¬ NoUpscale pw ph wPix hPix then s!"FAIL upscaled {wPix}x{hPix} to {pw}x{ph}"
    else if ¬ AspectKept pw ph wPix hPix then s!"FAIL aspect {wPix}x{hPix} became {pw}x{ph}"
    else "ok"
  | _ => "FAIL unparsable result"

/-! ### pixels -/

def showC8 (c : C8) : String := s!"{c.r} {c.g} {c.b} {c.a}"

def c16of (q : Nat × Nat × Nat × Nat) : C16 := ⟨q.1, q.2.1, q.2.2.1, q.2.2.2⟩

/-- `c' ∈ [c-1, c]`, and `c' = c` when opaque. -/
def near (alpha c c' : Nat) : Bool := if alpha = 255 then c' == c else (c' ≤ c && c ≤ c' + 1)

/-- Oracle for one straight-alpha 8-bit colour: alpha kept, channels exact when opaque, within one
    when translucent; a fully transparent pixel carries no colour. -/
def nrgbaVerdict (r g b a : Nat) (impl : String) : String :=
  match natList? (fields impl) with
  | some [r', g', b', a'] =>
    if a' ≠ a then s!"FAIL alpha {a} became {a'}"
    else if a = 0 then (if r' = 0 ∧ g' = 0 ∧ b' = 0 then "ok" else "FAIL colour from a fully transparent pixel")
    else if near a r r' && near a g g' && near a b b' then "ok"
    else s!"FAIL colour ({r},{g},{b}) alpha {a} became ({r'},{g'},{b'})"
  | _ => "FAIL unparsable result"

/-- Oracle for a premultiplied 8-bit colour (`c ≤ a`): alpha kept; the straight colour `c·255/a`
    within one, exact when opaque. -/
def rgbaVerdict (r g b a : Nat) (impl : String) : String :=
  if r > a ∨ g > a ∨ b > a then "-" else
  match natList? (fields impl) with
  | some [r', g', b', a'] =>
    if a' ≠ a then s!"FAIL alpha {a} became {a'}"
    else if a = 0 then (if r' = 0 ∧ g' = 0 ∧ b' = 0 then "ok" else "FAIL colour from a fully transparent pixel")
    else
      let okc (c c' : Nat) : Bool := c' * a ≤ c * 255 + a && c * 255 ≤ (c' + 1) * a && (a ≠ 255 || c' == c)
      if okc r r' && okc g g' && okc b b' then "ok"
      else s!"FAIL premultiplied ({r},{g},{b},{a}) became ({r'},{g'},{b'})"
  | _ => "FAIL unparsable result"

def quads : List Nat → Option (List C16)
  | [] => some []
  | r :: g :: b :: a :: rest => (quads rest).map (⟨r, g, b, a⟩ :: ·)
  | _ => none

/-! ### block images -/

def screenW : Nat := 16
def screenH : Nat := 8

def utf8Hex (cp : Nat) : String :=
  hexOfBytes ((String.singleton (Char.ofNat cp)).toUTF8.toList.map (·.toNat))

def showBCell (x y : Nat) (c : BCell) : String :=
  let g := if c.glyph = 0 then "-" else utf8Hex c.glyph
  s!"{x},{y}:{g}:{c.fg}:{c.bg}"

/-- `Window().New(col,row,ww,wh)` of the full-screen window: resulting width/height. -/
def childExtent (off want total : Int) : Int :=
  if want < 0 then total - off else if want + off > total then total - off else want

structure Pix8 where
  r : Nat
  g : Nat
  b : Nat
  a : Nat
  deriving Inhabited

def parsePixels (W H : Nat) (hexs : String) : Option (Array Pix8) := do
  let bytes ← hexBytes? hexs
  if bytes.length ≠ 4 * W * H then none
  let rec go : List Nat → Array Pix8 → Array Pix8
    | r :: g :: b :: a :: rest, acc => go rest (acc.push ⟨r, g, b, a⟩)
    | _, acc => acc
  some (go bytes #[])

def pixAt (W H : Nat) (px : Array Pix8) (x y : Nat) : Pix8 :=
  if x < W ∧ y < H then px.getD (y * W + x) ⟨0, 0, 0, 0⟩ else ⟨0, 0, 0, 0⟩

/-- Model side of a `half`/`full` (`*image.NRGBA` source) or `halfp`/`fullp` (`*image.RGBA` source) line: the whole
    path of `Model/Scaler.lean` — fit test, float steps, nearest-neighbour scaling, pixel pairs → cells — then the
    window clipping. -/
def blockModel (half : Bool) (kind : Scaler.Kind) (W H : Nat) (px : Array Pix8) (bw bh : Nat) (col row : Nat) (ww wh : Int) : String :=
  let geom := if half then Gen.ImageConsts.halfBlockGeom else Gen.ImageConsts.fullBlockGeom
  let src : Scaler.Img8 := ⟨kind, W, H, px.map fun p => ⟨p.r, p.g, p.b, p.a⟩⟩
  match Scaler.resizeImg floatOps src bw bh geom.1 geom.2 with
  | .error _ => "panic"
  | .ok img =>
    let size := s!"{img.w} {blockHeight img.h}"
    let view := img.view
    let cells := if half then Blocks.halfCellsGen view else Blocks.fullCells view
    let width := childExtent col ww screenW
    let height := childExtent row wh screenH
    -- `Draw`: the coordinates come from the regenerated loop (round 4), one iteration per stored cell
    let lp := if half then Gen.ImageConsts.halfDrawLoop else Gen.ImageConsts.fullDrawLoop
    let wantForm : Gen.ImageConsts.CellForm := if half then .stored else .spaceOnStoredBg
    let coords := (List.range cells.length).map fun i => KittyTerm.loopCoords lp img.w i
    if !lp.rangeCells || !lp.extra.isEmpty || lp.cell != wantForm || coords.any (·.isNone) then size ++ ";unknown-draw-loop" else
    let placed : List (Int × Int × BCell) := (cells.zip coords).filterMap fun (e, xy) => xy.map fun (x, y) => (x, y, e.2.2)
    let drawn := placed.filter fun (x, y, c) =>
      0 ≤ x && 0 ≤ y && x < width && y < height && col + x < screenW && row + y < screenH &&
      c != (⟨0x20, 0, 0⟩ : BCell)
    -- screen order = row major; the cell list is row major within the image already
    size ++ String.join (drawn.map fun (x, y, c) => ";" ++ showBCell (col + x.toNat) (row + y.toNat) c)

/-- Model side of a block line whose source is of another concrete type (round 4: `*image.YCbCr`), given as what
    `At(x, y).RGBA()` returns per pixel: `Scaler.resizeImgG` (fit test, float steps, the scaler's generic path) then the
    same cell loops, `Draw` loop and window clipping as `blockModel`. -/
def blockModelG (half : Bool) (W H : Nat) (px16 : Array C16) (bw bh : Nat) (col row : Nat) (ww wh : Int) : String :=
  let geom := if half then Gen.ImageConsts.halfBlockGeom else Gen.ImageConsts.fullBlockGeom
  match Scaler.resizeImgG floatOps ⟨W, H, px16⟩ true bw bh geom.1 geom.2 with
  | .error _ => "panic"
  | .ok view =>
    let size := s!"{view.w} {blockHeight view.h}"
    let cells := if half then Blocks.halfCellsGen view else Blocks.fullCells view
    let width := childExtent col ww screenW
    let height := childExtent row wh screenH
    let lp := if half then Gen.ImageConsts.halfDrawLoop else Gen.ImageConsts.fullDrawLoop
    let wantForm : Gen.ImageConsts.CellForm := if half then .stored else .spaceOnStoredBg
    let coords := (List.range cells.length).map fun i => KittyTerm.loopCoords lp view.w i
    if !lp.rangeCells || !lp.extra.isEmpty || lp.cell != wantForm || coords.any (·.isNone) then size ++ ";unknown-draw-loop" else
    let placed : List (Int × Int × BCell) := (cells.zip coords).filterMap fun (e, xy) => xy.map fun (x, y) => (x, y, e.2.2)
    let drawn := placed.filter fun (x, y, c) =>
      0 ≤ x && 0 ≤ y && x < width && y < height && col + x < screenW && row + y < screenH &&
      c != (⟨0x20, 0, 0⟩ : BCell)
    size ++ String.join (drawn.map fun (x, y, c) => ";" ++ showBCell (col + x.toNat) (row + y.toNat) c)

structure ICell where
  x : Nat
  y : Nat
  glyph : String
  fg : Nat
  bg : Nat

def parseICell (s : String) : Option ICell :=
  match s.splitOn ":" with
  | [xy, g, fg, bg] =>
    match xy.splitOn ",", fg.toNat?, bg.toNat? with
    | [x, y], some fg, some bg =>
      match x.toNat?, y.toNat? with
      | some x, some y => some ⟨x, y, g, fg, bg⟩
      | _, _ => none
    | _, _, _ => none
  | _ => none

/-- Is `v` a direct colour whose channels are `near` the given straight colour? -/
def colourNear (alpha r g b v : Nat) : Bool :=
  v / 2 ^ 24 == 2 && near alpha r (v / 65536 % 256) && near alpha g (v / 256 % 256) && near alpha b (v % 256)

/-- The property's pixel clause for one cell of a half-block image. -/
def halfExpected (t b : Pix8) (c : ICell) : Option String :=
  let T := 50
  let bad (why : String) := some s!"cell {c.x},{c.y}: {why}"
  if t.a < T ∧ b.a < T then
    if c.glyph = "20" ∧ c.fg = 0 ∧ c.bg = 0 then none else bad "both pixels transparent but not a default space"
  else if t.a < T then
    if c.glyph ≠ "e29684" then bad "top transparent but glyph is not the lower half block"
    else if c.bg ≠ 0 then bad "top transparent but background is not the default colour"
    else if colourNear b.a b.r b.g b.b c.fg then none else bad s!"foreground {c.fg} is not the bottom pixel ({b.r},{b.g},{b.b})"
  else if b.a < T then
    if c.glyph ≠ "e29680" then bad "bottom transparent but glyph is not the upper half block"
    else if c.bg ≠ 0 then bad "bottom transparent but background is not the default colour"
    else if colourNear t.a t.r t.g t.b c.fg then none else bad s!"foreground {c.fg} is not the top pixel ({t.r},{t.g},{t.b})"
  else
    if c.glyph ≠ "e29680" then bad "glyph is not the upper half block"
    else if !colourNear t.a t.r t.g t.b c.fg then bad s!"foreground {c.fg} is not the top pixel ({t.r},{t.g},{t.b})"
    else if !colourNear b.a b.r b.g b.b c.bg then bad s!"background {c.bg} is not the bottom pixel ({b.r},{b.g},{b.b})"
    else none

/-- Full block: the background is the mean of the two pixels (a fully transparent pixel counts as
    black), within one per channel (exact when both are opaque or fully transparent); default colour
    when the mean alpha is below the threshold. -/
def fullExpected (t b : Pix8) (c : ICell) : Option String :=
  let bad (why : String) := some s!"cell {c.x},{c.y}: {why}"
  if c.glyph ≠ "20" ∨ c.fg ≠ 0 then bad "not a space with default foreground"
  else if (t.a + b.a) / 2 < 50 then (if c.bg = 0 then none else bad "mean alpha below threshold but a colour is set")
  else
    let ch (p : Pix8) (v : Nat) : Nat := if p.a = 0 then 0 else v
    let slack (p : Pix8) : Nat := if p.a = 0 ∨ p.a = 255 then 0 else 1
    let okc (tv bv got : Nat) : Bool :=
      let hi := (ch t tv + ch b bv) / 2
      let lo := (ch t tv + ch b bv - slack t - slack b) / 2
      lo ≤ got && got ≤ hi
    if c.bg / 2 ^ 24 ≠ 2 then bad s!"background {c.bg} is not a direct colour"
    else if okc t.r b.r (c.bg / 65536 % 256) && okc t.g b.g (c.bg / 256 % 256) && okc t.b b.b (c.bg % 256) then none
    else bad s!"background {c.bg} is not the mean of ({t.r},{t.g},{t.b},{t.a}) and ({b.r},{b.g},{b.b},{b.a})"

/-- Oracle side of a `half`/`full` line, evaluated on what the implementation drew. -/
def blockVerdict (half premult : Bool) (W H : Nat) (px : Array Pix8) (bw bh : Nat) (col row : Nat) (ww wh : Int)
    (impl : String) : String :=
  if impl = "panic" then "FAIL panic" else
  match impl.splitOn ";" with
  | [] => "FAIL unparsable result"
  | size :: cellStrs =>
    match natList? (fields size) with
    | some [cw, chh] =>
      if cw > bw ∨ chh > bh then s!"FAIL cell size {cw}x{chh} exceeds box {bw}x{bh}"
      else if cw > W ∨ chh > (H + 1) / 2 then s!"FAIL upscaled to {cw}x{chh} cells"
      else
        let width := childExtent col ww screenW
        let height := childExtent row wh screenH
        let scaled := W > bw ∨ (H + 1) / 2 > bh
        let rec go : List String → Nat → Option String
          | [], _ => none
          | s :: rest, n =>
            match parseICell s with
            | none => some s!"unparsable cell {s}"
            | some c =>
              if ¬ (col ≤ c.x ∧ (c.x : Int) < col + width ∧ row ≤ c.y ∧ (c.y : Int) < row + height) then
                some s!"cell {c.x},{c.y} outside the window"
              else if c.x - col ≥ cw ∨ c.y - row ≥ chh then some s!"cell {c.x},{c.y} outside the image"
              else if scaled then
                -- rescaled image, all-opaque source (independent of the scaler's index formula): each colour shown must
                -- be the colour of a source pixel that lies *under* the cell — source pixel (sx, sy) overlaps the area
                -- that pixel (x, y2) of the resized image covers; the resized pixel height is 2·rows or 2·rows − 1.
                -- Half block: ▀ with fg under (x, 2y), bg under (x, 2y+1) (default colour when there is no such row);
                -- full block: the channel-wise mean of two such pixels (the upper one alone in a last odd row).
                let allOpaque := px.all fun p => p.a == 255
                let under (d s dn q : Nat) : Bool := q * dn < (d + 1) * s && d * s < (q + 1) * dn
                let x := c.x - col
                let y := c.y - row
                let colourOf (p : Pix8) : Nat := 2 ^ 25 + p.r * 65536 + p.g * 256 + p.b
                let srcUnder (ph y2 : Nat) : List Pix8 :=
                  (List.range W).flatMap fun sx => if under x W cw sx then
                    (List.range H).filterMap fun sy => if under y2 H ph sy then some (pixAt W H px sx sy) else none
                  else []
                let okFor (ph : Nat) : Bool :=
                  if half then
                    (srcUnder ph (2 * y)).any (fun p => colourOf p == c.fg) &&
                    (if 2 * y + 1 < ph then (srcUnder ph (2 * y + 1)).any (fun p => colourOf p == c.bg) else c.bg == 0)
                  else
                    (srcUnder ph (2 * y)).any fun t =>
                      if 2 * y + 1 < ph then (srcUnder ph (2 * y + 1)).any fun b =>
                        c.bg == colourOf ⟨(t.r + b.r) / 2, (t.g + b.g) / 2, (t.b + b.b) / 2, 255⟩
                      else c.bg == colourOf t
                -- translucent `*image.NRGBA` sources, half block (round 3; `Props.C20Pixels.translucent_scaled`): the scaler keeps
                -- the alpha exactly, so the glyph follows the thresholds on the alphas of two source pixels under the cell,
                -- and each colour shown is that pixel's colour with every channel lowered by at most 255/a + 1
                let near2 (a c c' : Nat) : Bool := c' ≤ c && (c - c') * a ≤ 255 + a
                let colNear (p : Pix8) (v : Nat) : Bool :=
                  v / 2 ^ 24 == 2 && near2 p.a p.r (v / 65536 % 256) && near2 p.a p.g (v / 256 % 256) && near2 p.a p.b (v % 256)
                let cellOk (t b : Pix8) : Bool :=
                  if t.a < 50 && b.a < 50 then c.glyph == "20" && c.fg == 0 && c.bg == 0
                  else if t.a < 50 then c.glyph == "e29684" && c.bg == 0 && colNear b c.fg
                  else if b.a < 50 then c.glyph == "e29680" && c.bg == 0 && colNear t c.fg
                  else c.glyph == "e29680" && colNear t c.fg && colNear b c.bg
                let okTranslucent (ph : Nat) : Bool :=
                  (srcUnder ph (2 * y)).any fun t =>
                    if 2 * y + 1 < ph then (srcUnder ph (2 * y + 1)).any fun b => cellOk t b
                    else cellOk t ⟨0, 0, 0, 0⟩
                if half && !allOpaque && !premult && W * H > 0 then
                  if okTranslucent (2 * chh) || okTranslucent (2 * chh - 1) then go rest (n + 1)
                  else some s!"cell {c.x},{c.y}: {c.glyph}/{c.fg}/{c.bg} is not what two source pixels under the cell give (alpha kept, channels within 255/a+1)"
                else if allOpaque && !premult && W * H > 0 then
                  if half ∧ c.glyph ≠ "e29680" then some s!"cell {c.x},{c.y}: rescaled opaque image, glyph is not the upper half block"
                  else if ¬ half ∧ (c.glyph ≠ "20" ∨ c.fg ≠ 0) then some s!"cell {c.x},{c.y}: not a space with default foreground"
                  else if !(okFor (2 * chh) || okFor (2 * chh - 1)) then
                    some s!"cell {c.x},{c.y}: colours {c.fg}/{c.bg} are not those of the source pixels under the cell"
                  else go rest (n + 1)
                else go rest (n + 1)
              else
                let t := pixAt W H px (c.x - col) (2 * (c.y - row))
                -- a full-block cell in the last row of an odd height covers one source pixel only: the mean of the
                -- pixels it covers is that pixel (F220)
                let b := if !half && 2 * (c.y - row) + 1 ≥ H then t else pixAt W H px (c.x - col) (2 * (c.y - row) + 1)
                match (if half then halfExpected t b c else fullExpected t b c) with
                | some why => some why
                | none => go rest (n + 1)
        match go cellStrs 0 with
        | some why => "FAIL " ++ why
        | none =>
          if scaled then "ok" else
          -- every cell of the image inside the window that should show a colour must have been drawn
          let missing := (List.range (cw * chh)).filter fun i =>
            let x := i % cw
            let y := i / cw
            let t := pixAt W H px x (2 * y)
            let b := if !half && 2 * y + 1 ≥ H then t else pixAt W H px x (2 * y + 1)
            let visible := if half then ¬ (t.a < 50 ∧ b.a < 50) else ¬ ((t.a + b.a) / 2 < 50)
            let inside := (x : Int) < width && (y : Int) < height && col + x < screenW && row + y < screenH
            visible && inside && !(cellStrs.any fun s => s.startsWith s!"{col + x},{row + y}:")
          if missing.isEmpty then "ok" else s!"FAIL {missing.length} visible cells not drawn"
    | _ => "FAIL unparsable result"

/-! ### placements -/

structure KImg where
  wPix : Nat
  hPix : Nat
  mw : Nat := 0      -- model cell size
  mh : Nat := 0
  iw : Nat := 0      -- cell size reported by the implementation
  ih : Nat := 0
  sixel : Bool := false      -- created with NewSixel (delete is a no-op, data is written with every placement)
  hasData : Bool := false    -- sixel: `s.buf.Len() != 0`
  uploaded : Bool := false   -- `k.uploaded`
  pending : Nat := 0         -- encodings accumulated in `k.buf` (Resize appends, the upload resets)
  need : Bool := false       -- oracle side: the implementation reported a successful encode not yet seen in `U=`
  implPx : String := ""      -- oracle side: pixel size `WxH` of the implementation's last successful encode ("" = none yet)
  opaqueNo : Option Nat := none   -- `kimgo N …`: the harness's pixel formula with alpha 255 (byte i of Pix = 37·i + 11·N + 200 mod 256)

structure St where
  active : Bool := false
  cols : Nat := 0
  rows : Nat := 0
  xpix : Nat := 0
  ypix : Nat := 0
  imgs : List (Nat × KImg) := []        -- key = the op's image number; id = position (1-based)
  ps : Placements.State := Placements.init
  -- spec side: what the application asked for, with the sizes the implementation reported
  cur : List Placement := []
  prev : List Placement := []
  pending : Bool := true
  implNext : Nat := 0                   -- entries of the implementation's next-frame list after the previous op
  -- model side (round 4): `k.buf` / `k.uploaded` of every image (by id), pixel size of every encoding (by serial)
  kb : Nat → KittyTerm.KBuf := fun _ => {}
  encPx : Array String := #[]
  -- oracle side (round 4): the terminal's tables as the implementation's commands leave them; keys ever placed;
  -- whether some frame so far held one image twice at one origin in two sizes (see `Props.C20Term.keyfun_needed`)
  term : KittyTerm.Term := KittyTerm.Term.empty
  seenKeys : List KittyTerm.Key := []
  tainted : Bool := false

def St.img? (s : St) (n : Nat) : Option (Nat × KImg) :=
  match s.imgs.findIdx? (·.1 == n) with
  | some i => (s.imgs[i]?).map fun p => (i + 1, p.2)
  | none => none

def St.setImg (s : St) (n : Nat) (k : KImg) : St :=
  { s with imgs := s.imgs.map fun p => if p.1 == n then (n, k) else p }

def showP (p : Placement) : String := s!"{p.id}@{p.col},{p.row}:{p.w}x{p.h}"
def showPshort (p : Placement) : String := s!"{p.id}@{p.col},{p.row}"
def showList (f : Placement → String) (l : List Placement) : String :=
  if l.isEmpty then "-" else ";".intercalate (l.map f)
def showStrs (l : List String) : String := if l.isEmpty then "-" else ";".intercalate l

def snap (s : Placements.State) : String :=
  s!"N={showList showP s.next} L={showList showP s.last} R={if s.refresh then 1 else 0}"

def sortStrs (l : List String) : List String := l.mergeSort fun a b => !(b < a)

def getField (impl key : String) : Option (List String) :=
  (fields impl).findSome? fun f =>
    if f.startsWith (key ++ "=") then
      let v := (f.drop (key.length + 1)).toString
      some (if v = "-" then [] else v.splitOn ";")
    else none

/-- Spec verdict for one rendered frame on the sequences the implementation wrote. -/
def renderVerdict (isSixel : Nat → Bool) (prev : List Placement) (f : Frame) (impl : String) : String :=
  if impl = "panic" then "FAIL panic" else
  match getField impl "D", getField impl "W" with
  | some d, some w =>
    -- sixel placements are written as raw data at the cursor and have no delete sequence
    let wantD := sortStrs (((mustDelete prev f).filter fun p => !isSixel p.id).map showPshort)
    let wantW := sortStrs ((mustWrite prev f).map fun p =>
      if isSixel p.id then s!"S@{p.col},{p.row}" else showPshort p)
    let gotD := sortStrs d
    let gotW := sortStrs w
    if gotW ≠ wantW then
      match wantW.find? (fun x => ¬ gotW.contains x), gotW.find? (fun x => ¬ wantW.contains x) with
      | some x, _ => s!"FAIL placement {x} not transmitted"
      | _, some x => s!"FAIL placement {x} transmitted although unchanged"
      | _, _ => s!"FAIL transmitted {showStrs gotW} but expected {showStrs wantW}"
    else if gotD ≠ wantD then
      match wantD.find? (fun x => ¬ gotD.contains x), gotD.find? (fun x => ¬ wantD.contains x) with
      | some x, _ => s!"FAIL placement {x} not deleted"
      | _, some x => s!"FAIL placement {x} deleted although still shown"
      | _, _ => s!"FAIL deleted {showStrs gotD} but expected {showStrs wantD}"
    else "ok"
  | _, _ => "FAIL unparsable result"

def bad : String := "bad-op\tbad-op\tbad-op"

/-- `"<id>@<col>,<row>"`. -/
def parseAt (t : String) : Option (Nat × Int × Int) :=
  match t.splitOn "@" with
  | [id, cr] =>
    match id.toNat?, cr.splitOn "," with
    | some id, [c, r] => match c.toInt?, r.toInt? with | some c, some r => some (id, c, r) | _, _ => none
    | _, _ => none
  | _ => none

/-- Image data is identified by the pixel size of the PNG transmitted (`"WxH"`; 0 = undecodable). -/
def dataCode (dims0 : String) : Nat :=
  let dims := (dims0.splitOn "#").headD ""
  match dims.splitOn "x" with
  | [a, b] => match a.toNat?, b.toNat? with | some a, some b => a * 1000003 + b + 1 | _, _ => 0
  | _ => 0

/-- FNV-1a (32 bit) over the (R, G, B) bytes of an opaque stored image, row major — what the harness computes from the
    PNG the implementation transmitted. -/
def fnvPixels (img : Scaler.Img8) : Nat :=
  (List.range (img.w * img.h)).foldl (fun h i =>
    let p := img.px.getD i ⟨0, 0, 0, 0⟩
    [p.r, p.g, p.b].foldl (fun h c => ((h ^^^ c) * 16777619) % 4294967296) h) 2166136261

def hex8 (n : Nat) : String :=
  let ds := (Nat.toDigits 16 n)
  String.ofList (List.replicate (8 - ds.length) '0' ++ ds)

def keyFunB (l : List Placement) : Bool :=
  l.all fun p => l.all fun q => !(KittyTerm.key p == KittyTerm.key q) || p == q

/-- **Order-sensitive terminal oracle** on the implementation's ordered command list of one frame (`Q=`): returns the
    terminal afterwards, the keys placed, and the first complaint about an `a=p` that found stale / no data. -/
def runImplCmds (want : Nat → String) (fitsCells : Nat → Nat → Option String) (t : KittyTerm.Term) (toks : List String) : KittyTerm.Term × List KittyTerm.Key × Option String :=
  toks.foldl (fun (acc : KittyTerm.Term × List KittyTerm.Key × Option String) tok =>
    let (t, keys, why) := acc
    if tok.startsWith "p" then
      match parseAt (tok.drop 1).toString with
      | some (id, c, r) =>
        let w := want id
        let why := why.orElse fun _ =>
          if w ≠ "" ∧ t.data id ≠ some (dataCode w) then
            some s!"image {id} placed at {c},{r} while the terminal holds {match t.data id with | none => "no data" | some _ => "other (older, or not the resized picture's) data"} for it: its last Resize produced {w} px"
          else match t.data id with
            -- (F520) the picture the terminal will show for this placement must not occupy more cells than the image's cell size
            | some code => (fitsCells id code).map fun why => s!"image {id} placed at {c},{r}: {why}"
            | none => none
        (t.apply (.place ⟨id, c, r, 0, 0⟩), (id, c, r) :: keys, why)
      | none => acc
    else if tok.startsWith "d" then
      match parseAt (tok.drop 1).toString with
      | some k => (t.apply (.delete k), keys, why)
      | none => acc
    else if tok.startsWith "t" then
      match (tok.drop 1).toString.splitOn ":" with
      | [id, dims] => match id.toNat? with
        | some id => (t.apply (.transmit id (dataCode dims)), keys, why)
        | none => acc
      | _ => acc
    else acc) (t, [], none)

/-- Spec of the cell pixel size (independent of the model): the reported quotient, at least 1. -/
def specCell (pix cells : Nat) : Nat := if cells = 0 then 1 else max 1 (pix / cells)

/-- The model of `Kitty/Sixel.Resize` for a signed box at the terminal's cell geometry:
    (pixel size of the resized image, cell size, cell geometry). -/
def resizeModel (rs : VaxisModel.Gen.ImageConsts.ResizeShape) (s : Nat × Nat × Nat × Nat) (wPix hPix : Nat) (w h : Int) : Except Panic ((Nat × Nat) × (Nat × Nat) × (Nat × Nat) × Bool) := do
  let gw := ImageTerm.termCellW s.1 s.2.1
  let gh := ImageTerm.termCellH s.2.2.1 s.2.2.2
  let (pw, ph) ← ImageTerm.resizeDimsBox floatOps wPix hPix w h gw gh
  let raw ← ImageTerm.resizeRawBox floatOps wPix hPix w h gw gh
  -- the cell-size arithmetic of this `Resize` method as regenerated from the source
  let cw ← ImageTerm.resizeCells rs rs.quotW rs.roundUpW pw gw
  let chh ← ImageTerm.resizeCells rs rs.quotH rs.roundUpH ph gh
  -- the rectangle `image.Rect(0, 0, nw, nh)` has no pixels iff an extent is 0 (a negative extent is mirrored)
  return ((pw, ph), (cw, chh), (gw, gh), raw.1 = 0 ∨ raw.2 = 0)

def parseWxH (key f : String) : Option (Int × Int) :=
  if f.startsWith (key ++ "=") then
    match ((f.drop (key.length + 1)).toString).splitOn "x" with
    | [a, b] => match a.toInt?, b.toInt? with | some a, some b => some (a, b) | _, _ => none
    | _ => none
  else none

/-- Oracle on what the implementation reports after a `Resize(w, h)`: `cw ch px=<w>x<h> cell=<w>x<h> …`. -/
def resizeVerdict (xpix cols ypix rows wPix hPix : Nat) (w h : Int) (impl : String) : String × Nat × Nat :=
  if impl = "panic" then ("FAIL panic", 0, 0) else
  match fields impl with
  | cw :: ch :: px :: cell :: _ =>
    match cw.toNat?, ch.toNat?, parseWxH "px" px, parseWxH "cell" cell with
    | some cw, some ch, some (pw, ph), some (gw, gh) =>
      let sw := specCell xpix cols
      let sh := specCell ypix rows
      let v :=
        if gw ≠ sw ∨ gh ≠ sh then s!"FAIL cell pixel size {gw}x{gh}, the terminal's report means {sw}x{sh}"
        else if pw < 0 ∨ ph < 0 then "FAIL resizeImage panicked"
        else if cw ≠ ceilDiv pw.toNat sw ∨ ch ≠ ceilDiv ph.toNat sh then
          s!"FAIL cell size {cw}x{ch} is not the {ceilDiv pw.toNat sw}x{ceilDiv ph.toNat sh} cells that {pw}x{ph} px occupy"
        else if (cw : Int) > max 0 w ∨ (ch : Int) > max 0 h then s!"FAIL cell size {cw}x{ch} exceeds box {w}x{h}"
        else if cw > ceilDiv wPix sw ∨ ch > ceilDiv hPix sh then s!"FAIL upscaled to {cw}x{ch} cells"
        else if (fields impl).contains "noencode" ∧ pw > 0 ∧ ph > 0 then
          s!"FAIL image resized to {pw}x{ph} px but no data is pending transmission"
        else if (fields impl).contains "empty" ∧ pw > 0 ∧ ph > 0 then
          s!"FAIL image resized to {pw}x{ph} px but no sixel data was produced"
        else "ok"
      (v, cw, ch)
    | _, _, _, _ => ("FAIL unparsable result", 0, 0)
  | _ => ("FAIL unparsable result", 0, 0)


/-- `vx.Window().New(c, r, ww, wh)` in C11's window model. -/
def targetWin (s : St) (c r : Nat) (ww wh : Int) : VaxisModel.Model.Window.Win :=
  VaxisModel.Model.Window.Win.new (.root 0 0 s.cols s.rows) c r ww wh

def kstep (s : St) (op : List String) (impl : String) : St × String :=
  match op with
  | ["knew", c, r, x, y] =>
    match natList? [c, r, x, y] with
    | some [c, r, x, y] =>
      let s' : St := { active := true, cols := c, rows := r, xpix := x, ypix := y }
      (s', s!"{snap s'.ps}\t{impl}\t-")
    | _ => (s, bad)
  | ["kimg", n, w, h] =>
    match natList? [n, w, h] with
    | some [n, w, h] => ({ s with imgs := s.imgs ++ [(n, { wPix := w, hPix := h })] }, s!"ok\t{impl}\t-")
    | _ => (s, bad)
  | ["kimgo", n, w, h] =>   -- an opaque image: the model computes the digest of the PNG's pixels
    match natList? [n, w, h] with
    | some [n, w, h] => ({ s with imgs := s.imgs ++ [(n, { wPix := w, hPix := h, opaqueNo := some n })] }, s!"ok\t{impl}\t-")
    | _ => (s, bad)
  | ["kimgs", n, w, h] =>   -- the same image as a crop of a larger one (F420): nothing changes
    match natList? [n, w, h] with
    | some [n, w, h] => ({ s with imgs := s.imgs ++ [(n, { wPix := w, hPix := h })] }, s!"ok\t{impl}\t-")
    | _ => (s, bad)
  | ["simg", n, w, h] =>
    match natList? [n, w, h] with
    | some [n, w, h] => ({ s with imgs := s.imgs ++ [(n, { wPix := w, hPix := h, sixel := true })] }, s!"ok\t{impl}\t-")
    | _ => (s, bad)
  | ["sresize", n, w, h] =>
    match n.toNat?, w.toInt?, h.toInt? with
    | some n, some w, some h =>
      match s.img? n with
      | none => (s, bad)
      | some (_, k) =>
        let (mcanon, k1) : String × KImg :=
          match resizeModel VaxisModel.Gen.ImageConsts.sixelResize (s.xpix, s.cols, s.ypix, s.rows) k.wPix k.hPix w h with
          | .ok ((pw, ph), (cw, chh), (gw, gh), noPixels) =>
            if noPixels then (s!"{cw} {chh} px={pw}x{ph} cell={gw}x{gh} empty", { k with mw := cw, mh := chh, hasData := false })
            else (s!"{cw} {chh} px={pw}x{ph} cell={gw}x{gh}", { k with mw := cw, mh := chh, hasData := true })
          | .error _ => ("panic", k)
        let (verdict, cw, chh) := resizeVerdict s.xpix s.cols s.ypix s.rows k.wPix k.hPix w h impl
        (s.setImg n { k1 with iw := cw, ih := chh }, s!"{mcanon}\t{impl}\t{verdict}")
    | _, _, _ => (s, bad)
  | ["sdraw", n, c, r, ww, wh] =>
    match natList? [n, c, r], ww.toInt?, wh.toInt? with
    | some [n, c, r], some ww, some wh =>
      match s.img? n with
      | none => (s, bad)
      | some (id, k) =>
        -- model: `Sixel.Draw`'s gates as regenerated from the source (nothing without data; not drawn if larger than
        -- the window), on the window `Window().New(c, r, ww, wh)` of C11's model
        let win := targetWin s c r ww wh
        let ps := if ImageDraw.drawnWith VaxisModel.Gen.ImageConsts.sixelGates k.hasData false k.mw k.mh win
                  then (Placements.stepGen s.ps (.draw ⟨id, c, r, k.mw, k.mh⟩)).1 else s.ps
        -- oracle side (independent): the frame holds the placement iff the image has data and fits
        let width := childExtent c ww s.cols
        let height := childExtent r wh s.rows
        let cur := if k.hasData ∧ (k.iw : Int) ≤ width ∧ (k.ih : Int) ≤ height
                   then s.cur ++ [⟨id, c, r, k.iw, k.ih⟩] else s.cur
        ({ s with ps := ps, cur := cur }, s!"{snap ps}\t{impl}\t-")
    | _, _, _ => (s, bad)
  | ["kresize", n, w, h] =>
    match n.toNat?, w.toInt?, h.toInt? with
    | some n, some w, some h =>
      match s.img? n with
      | none => (s, bad)
      | some (_, k) =>
        let (mcanon, k1) : String × KImg :=
          match resizeModel VaxisModel.Gen.ImageConsts.kittyResize (s.xpix, s.cols, s.ypix, s.rows) k.wPix k.hPix w h with
          | .ok ((pw, ph), (cw, chh), (gw, gh), noPixels) =>
            if noPixels then (s!"{cw} {chh} px={pw}x{ph} cell={gw}x{gh} noencode", { k with mw := cw, mh := chh })
            else (s!"{cw} {chh} px={pw}x{ph} cell={gw}x{gh}", { k with mw := cw, mh := chh, uploaded := false, pending := k.pending + 1 })
          | .error _ => ("panic", k)
        let (verdict, cw, chh) := resizeVerdict s.xpix s.cols s.ypix s.rows k.wPix k.hPix w h impl
        let encoded := impl ≠ "panic" ∧ !(fields impl).contains "noencode"
        -- model (round 4): a successful encode runs the regenerated upload statements of `Resize` on the image's state
        let modelEncoded := k1.pending > k.pending
        let id := ((s.img? n).map (·.1)).getD 0
        -- the picture the model transmits for an opaque image: the scaler model on the harness's pixels, as a digest
        let gw := ImageTerm.termCellW s.xpix s.cols
        let gh := ImageTerm.termCellH s.ypix s.rows
        -- a negative box (API misuse, modelled): `image.Rect(0, 0, nw, nh)` with negative extents is the rectangle
        -- mirrored to negative coordinates — `Bounds().Max` is (0,0), so the cell size is 0x0, but it has |nw| x |nh|
        -- pixels, which are scaled into, encoded and transmitted
        let negRaw : Option (Nat × Nat) :=
          if w < 0 ∨ h < 0 then
            match ImageTerm.resizeRawBox floatOps k.wPix k.hPix w h gw gh with
            | .ok (rw, rh) => some (rw.natAbs, rh.natAbs)
            | .error _ => none
          else none
        let digest : String :=
          match k.opaqueNo with
          | some no =>
            let src : Scaler.Img8 := ⟨.nrgba, k.wPix, k.hPix,
              Array.ofFn (n := k.wPix * k.hPix) fun i =>
                ⟨(37 * (4 * i.val) + 11 * no + 200) % 256, (37 * (4 * i.val + 1) + 11 * no + 200) % 256,
                 (37 * (4 * i.val + 2) + 11 * no + 200) % 256, 255⟩⟩
            match negRaw with
            | some (rw, rh) => "#" ++ hex8 (fnvPixels (Scaler.scale false src rw rh))
            | none =>
              if w < 0 ∨ h < 0 then "" else
              match Scaler.resizeImg floatOps src w.toNat h.toNat gw gh with
              | .ok img => "#" ++ hex8 (fnvPixels img)
              | .error _ => ""
          | none => ""
        let pxStr : String :=
          match negRaw with
          | some (rw, rh) => s!"{rw}x{rh}"
          | none => (((fields mcanon)[2]?.getD "px=?").drop 3).toString
        let s1 : St := if modelEncoded then
            { s with kb := KittyTerm.update s.kb id (KittyTerm.resizeGen (s.kb id) s.encPx.size),
                     encPx := s.encPx.push (pxStr ++ digest) }
          else s
        -- (whatever the implementation says about pending data: a resize to a non-empty pixel size has new data)
        let implPxNow := (((fields impl)[2]?.getD "px=?").drop 3).toString
        -- (a negative box is API misuse — the picture then lies at negative coordinates and `Bounds().Max` says nothing
        -- about it: no expectation about the data from there on, until the next proper Resize)
        let implPx := if w < 0 ∨ h < 0 then ""
          else if impl ≠ "panic" ∧ dataCode implPxNow ≠ 0 ∧ !implPxNow.startsWith "0x" ∧ !implPxNow.endsWith "x0" then implPxNow else k1.implPx
        (s1.setImg n { k1 with iw := cw, ih := chh, need := k1.need || encoded, implPx := implPx }, s!"{mcanon}\t{impl}\t{verdict}")
    | _, _, _ => (s, bad)
  | "kdraw" :: n :: c :: r :: win =>
    match natList? [n, c, r], (match win with | [] => some ((-1 : Int), (-1 : Int)) | [a, b] => (match a.toInt?, b.toInt? with | some a, some b => some (a, b) | _, _ => none) | _ => none) with
    | some [n, c, r], some (ww, wh) =>
      match s.img? n with
      | none => (s, bad)
      | some (id, k) =>
        -- model: `KittyImage.Draw`'s gates as regenerated from the source (since the F120 repair: not placed if larger
        -- than the window), on the window `Window().New(c, r, ww, wh)` of C11's model
        let win := targetWin s c r ww wh
        let ps := if ImageDraw.drawnWith VaxisModel.Gen.ImageConsts.kittyGates true false k.mw k.mh win
                  then (Placements.stepGen s.ps (.draw ⟨id, c, r, k.mw, k.mh⟩)).1 else s.ps
        -- oracle (independent of the model): a drawn placement must lie inside its window (F120), and the frame
        -- holds the placement iff the image fits
        let width := childExtent c ww s.cols
        let height := childExtent r wh s.rows
        -- (and, since the F520 repair, has cells at all)
        let cur := if (k.iw : Int) ≤ width ∧ (k.ih : Int) ≤ height ∧ k.iw ≠ 0 ∧ k.ih ≠ 0 then s.cur ++ [⟨id, c, r, k.iw, k.ih⟩] else s.cur
        let s' := { s with ps := ps, cur := cur }
        -- drawn = the implementation's next-frame list grew by this op (an older entry with the same id and
        -- origin may still be there when the frame was not cleared)
        let drawn := (getField impl "N").any fun l => l.length > s.implNext
        let verdict :=
          if impl = "panic" then "FAIL panic"
          else if drawn ∧ ((k.iw : Int) > width ∨ (k.ih : Int) > height) then
            s!"FAIL kitty placement {id}@{c},{r} of {k.iw}x{k.ih} cells exceeds its window {width}x{height}"
          else "ok"
        (s', s!"{snap ps}\t{impl}\t{verdict}")
    | _, _ => (s, bad)
  | ["kclear"] =>
    let ps := (Placements.stepGen s.ps .clear).1
    ({ s with ps := ps, cur := [] }, s!"{snap ps}\t{impl}\t-")
  | [k] =>
    if k = "krender" ∨ k = "krefresh" then
      let isRefresh := k = "krefresh"
      let isSixel (id : Nat) : Bool := (s.imgs[id - 1]?).any (·.2.sixel)
      -- model (round 4): the placement stretch of `render` interpreted in SOURCE ORDER, then every event through the
      -- regenerated `writeTo` body of its image: an ordered command list
      let (ps, evs) := KittyTerm.renderGen (if isRefresh then { s.ps with refresh := true } else s.ps)
      let (kb, cmds) := KittyTerm.emit (fun id => !isSixel id) Gen.ImageConsts.kittyWriteBody s.kb evs
      let showCmd : KittyTerm.Cmd → String
        | .transmit id e => s!"t{id}:{s.encPx[e]?.getD "?"}"
        | .place p => "p" ++ showPshort p
        | .delete k => s!"d{k.1}@{k.2.1},{k.2.2}"
        | .sixel p => s!"S@{p.col},{p.row}"
        | .unknown => "unknown-statement"
      let ups := cmds.filterMap fun | .transmit id _ => some (toString id) | _ => none
      let imgs := s.imgs
      let showW (p : Placement) : String := if isSixel p.id then s!"S@{p.col},{p.row}" else showPshort p
      let mcanon := s!"D={showList showPshort ((KittyTerm.evDeletes evs).filter fun p => !isSixel p.id)} W={showList showW (KittyTerm.evWrites evs)} U={showStrs ups} Q={showStrs (cmds.map showCmd)} {snap ps}"
      let frame : Frame := ⟨s.cur, s.pending || isRefresh⟩
      let verdict := renderVerdict isSixel s.prev frame impl
      -- upload oracle (on the implementation's `U=` and `W=`): image data goes out with the first transmitted placement after a
      -- successful encode, and not again while the image is unchanged
      let implU := ((getField impl "U").getD []).filterMap String.toNat?
      let implW := ((getField impl "W").getD []).filterMap fun e => ((e.splitOn "@").head?).bind String.toNat?
      let needOf (id : Nat) : Bool := (s.imgs[id - 1]?).any (·.2.need)
      let upVerdict :=
        match implU.find? (fun id => !needOf id), implW.find? (fun id => needOf id && !implU.contains id) with
        | some id, _ => s!"FAIL image {id} retransmitted although unchanged"
        | _, some id => s!"FAIL image {id} placed but its new data not transmitted"
        | _, _ => "ok"
      let verdict := if verdict = "ok" then upVerdict else verdict
      let imgs := imgs.zipIdx.map fun (p, i) => if implU.contains (i + 1) then (p.1, { p.2 with need := false }) else p
      -- terminal oracle (round 4, independent of the model): the implementation's commands IN THE ORDER WRITTEN on the
      -- order-sensitive terminal tables
      let want (id : Nat) : String := ((s.imgs[id - 1]?).map (·.2.implPx)).getD ""
      -- the picture held for an image (its pixel size is the data code) against the cell size the image reports
      let gw := specCell s.xpix s.cols
      let gh := specCell s.ypix s.rows
      let fitsCells (id code : Nat) : Option String :=
        if code = 0 then none else
        let pw := (code - 1) / 1000003
        let ph := (code - 1) % 1000003
        match s.imgs[id - 1]? with
        | some (_, k) =>
          if ceilDiv pw gw > k.iw ∨ ceilDiv ph gh > k.ih then
            some s!"the terminal's picture of it is {pw}x{ph} px = {ceilDiv pw gw}x{ceilDiv ph gh} cells, its cell size is {k.iw}x{k.ih}"
          else none
        | none => none
      let (term, keys, stale) := runImplCmds want fitsCells s.term ((getField impl "Q").getD [])
      let kcur := s.cur.filter fun p => !isSixel p.id
      let tainted := s.tainted || !keyFunB kcur
      let seen := (keys ++ s.seenKeys).eraseDups
      let tableVerdict : String :=
        match stale with
        | some why => "FAIL " ++ why
        | none =>
          if tainted then "ok" else
          match (seen ++ kcur.map KittyTerm.key).find? fun k => (term.places k).isSome != kcur.any (fun p => KittyTerm.key p == k) with
          | some k =>
            if (term.places k).isSome then s!"FAIL after this frame the terminal still shows image {k.1} at {k.2.1},{k.2.2} although the frame does not hold it"
            else s!"FAIL after this frame the terminal does not show image {k.1} at {k.2.1},{k.2.2} although the frame holds it (removed after it was placed, or never placed)"
          | none => "ok"
      let verdict := if verdict = "ok" then tableVerdict else verdict
      ({ s with ps := ps, imgs := imgs, kb := kb, prev := s.cur, pending := false, term := term, seenKeys := seen, tainted := tainted },
       s!"{mcanon}\t{impl}\t{verdict}")
    else (s, bad)
  | _ => (s, bad)

def step (s : St) (line : String) : St × String :=
  let (op, impl) := splitTab line
  if op.startsWith "#case" then ({}, "-\t-\t-") else
  match fields op with
  | "dims" :: rest =>
    match natList? rest with
    | some [wPix, hPix, w, h, cellW, cellH] =>
      let m := showDims (resizeDims floatOps wPix hPix w h cellW cellH)
      (s, s!"{m}\t{impl}\t{dimsVerdict wPix hPix w h cellW cellH impl}")
    | _ => (s, bad)
  | ["dimsi", wPix, hPix, w, h, cellW, cellH] =>
    match natList? [wPix, hPix, cellW, cellH], w.toInt?, h.toInt? with
    | some [wPix, hPix, cellW, cellH], some w, some h =>
      let m := showDims (ImageTerm.resizeDimsBox floatOps wPix hPix w h cellW cellH)
      let v :=
        if 0 ≤ w ∧ 0 ≤ h then dimsVerdict wPix hPix w.toNat h.toNat cellW cellH impl
        else if impl = "panic" then "FAIL panic on a negative box"
        else match natList? (fields impl) with
          | some [pw, ph] =>
            if ¬ FitsBox pw ph w.toNat h.toNat cellW cellH then
              s!"FAIL result {pw}x{ph} px for the negative box {w}x{h} is not empty"
            else "ok"
          | _ => "FAIL unparsable result"
      (s, s!"{m}\t{impl}\t{v}")
    | _, _, _ => (s, bad)
  | "torgb" :: rest =>
    match natList? rest with
    | some [r, g, b, a] =>
      let m := Blocks.toRGB ⟨r, g, b, a⟩
      let v := if r ≤ a ∧ g ≤ a ∧ b ≤ a ∧ a < 65536 then
                 (if impl = showC8 ⟨if a = 0 then 0 else r * 255 / a, if a = 0 then 0 else g * 255 / a,
                                    if a = 0 then 0 else b * 255 / a, a / 256⟩ then "ok"
                  else "FAIL premultiplied colour not divided out")
               else "-"
      (s, s!"{showC8 m}\t{impl}\t{v}")
    | _ => (s, bad)
  | "nrgba" :: rest =>
    match natList? rest with
    | some [r, g, b, a] =>
      (s, s!"{showC8 (Blocks.toRGB (c16of (nrgbaRGBA r g b a)))}\t{impl}\t{nrgbaVerdict r g b a impl}")
    | _ => (s, bad)
  | "rgba" :: rest =>
    match natList? rest with
    | some [r, g, b, a] =>
      (s, s!"{showC8 (Blocks.toRGB (c16of (rgbaRGBA r g b a)))}\t{impl}\t{rgbaVerdict r g b a impl}")
    | _ => (s, bad)
  | "avg" :: rest =>
    match (natList? rest).bind quads with
    | some (c :: cs) => (s, s!"{showC8 (Blocks.averageColor c cs)}\t{impl}\t-")
    | _ => (s, bad)
  | [kind, W, H, hexs, bw, bh, col, row, ww, wh] =>
    if kind = "halfy" ∨ kind = "fully" ∨ kind = "halfz" ∨ kind = "fullz" ∨ kind = "halfu" ∨ kind = "fullu" ∨ kind = "halfv" ∨ kind = "fullv" ∨ kind = "halfw" ∨ kind = "fullw" then
      -- round 4: `*image.YCbCr` sources (4:4:4 / 4:2:0): the pixel as `color.YCbCr.RGBA()` gives it (16-bit), through
      -- the generic pipeline.  Oracle: the same pixel clause with the 8-bit colour such a pixel has where it is read —
      -- `toRGB` of the 16-bit value for an unscaled image, its high bytes after the scaler's 8-bit storage.
      match natList? [W, H, bw, bh, col, row], ww.toInt?, wh.toInt? with
      | some [W, H, bw, bh, col, row], some ww, some wh =>
        match parsePixels W H hexs with
        | some px0 =>
          let half := kind.startsWith "half"
          -- chroma subsampling: 4:2:0 (z), 4:2:2 (u: horizontally), 4:4:0 (v: vertically); w: an opaque `*image.NRGBA64`
          -- whose 16-bit channel is the op line's byte (high) and that byte xor 0x5a (low)
          let sx := if kind.endsWith "z" ∨ kind.endsWith "u" then 2 else 1
          let sy := if kind.endsWith "z" ∨ kind.endsWith "v" then 2 else 1
          let wide (b : Nat) : Nat := b * 256 + (b ^^^ 0x5a)
          let at16 (x y : Nat) : C16 :=
            let p := pixAt W H px0 x y
            if kind.endsWith "w" then ⟨wide p.r, wide p.g, wide p.b, 0xffff⟩ else
            let c := pixAt W H px0 (x - x % sx) (y - y % sy)
            c16of (ycbcrRGBA p.r c.g c.b)
          let px16 : Array C16 := Array.ofFn (n := W * H) fun i => at16 (i.val % W) (i.val / W)
          let m := blockModelG half W H px16 bw bh col row ww wh
          let scaled := W > bw ∨ (H + 1) / 2 > bh
          let straight : Array Pix8 := px16.map fun c =>
            if scaled then ⟨c.r / 256, c.g / 256, c.b / 256, 255⟩
            else let t := Blocks.toRGB c; ⟨t.r, t.g, t.b, t.a⟩
          (s, s!"{m}\t{impl}\t{blockVerdict half false W H straight bw bh col row ww wh impl}")
        | none => (s, bad)
      | _, _, _ => (s, bad)
    else if kind = "half" ∨ kind = "full" ∨ kind = "halfp" ∨ kind = "fullp" ∨ kind = "halfg" ∨ kind = "fullg" ∨ kind = "halfq" ∨ kind = "fullq"
        ∨ kind = "halfs" ∨ kind = "fulls" then  -- (halfs / fulls: a crop of a larger image, `Bounds().Min` not the origin — the same image, F420)
      match natList? [W, H, bw, bh, col, row], ww.toInt?, wh.toInt? with
      | some [W, H, bw, bh, col, row], some ww, some wh =>
        match parsePixels W H hexs with
        | some px0 =>
          -- round 4: sources of other concrete types, through the hypothesis `Props.C20Pixels.SameAsNRGBA`: an
          -- `*image.Gray` pixel Y is seen by the scaler and the renderers as the NRGBA pixel (Y, Y, Y, 255); a pixel of an
          -- `*image.Paletted` with a `color.NRGBA` palette as that NRGBA colour (checked here on the real code)
          let px := if kind.endsWith "g" then px0.map fun p => ⟨p.r, p.r, p.r, 255⟩ else px0
          let half := kind.startsWith "half"
          let premult := kind.endsWith "p"
          let m := blockModel half (if premult then .rgba else .nrgba) W H px bw bh col row ww wh
          -- the oracles speak about straight colours: a premultiplied source pixel (c ≤ a) stands for c·255/a
          let straight := if premult then px.map fun p =>
              if p.a = 0 then ⟨0, 0, 0, 0⟩ else ⟨p.r * 255 / p.a, p.g * 255 / p.a, p.b * 255 / p.a, p.a⟩
            else px
          (s, s!"{m}\t{impl}\t{blockVerdict half premult W H straight bw bh col row ww wh impl}")
        | none => (s, bad)
      | _, _, _ => (s, bad)
    else (s, bad)
  | op =>
    if op.head?.any (fun o => o.startsWith "k" || o.startsWith "s") then
      let (s', out) := kstep s op impl
      ({ s' with implNext := match getField impl "N" with | some l => l.length | none => s'.implNext }, out)
    else (s, bad)

def main : IO Unit := foldLoop ({} : St) step

end VaxisModel.Driver.C20
