/-
Shared helpers for the `vxdrv` line-protocol driver (core Lean only: this file and
everything it imports must stay Mathlib-free so that the executable links).
-/
namespace VaxisModel.Driver

/-- Split on single spaces, dropping empty fields. -/
def fields (s : String) : List String :=
  (s.splitOn " ").filter (· ≠ "")

/-- Split an input line `op<TAB>impl` into its two halves (impl may be absent). -/
def splitTab (s : String) : String × String :=
  match s.splitOn "\t" with
  | [a] => (a, "")
  | a :: b :: _ => (a, b)
  | [] => ("", "")

def stripNl (s : String) : String :=
  let s := if s.endsWith "\n" then (s.dropEnd 1).toString else s
  if s.endsWith "\r" then (s.dropEnd 1).toString else s

def parseInt? (s : String) : Option Int := s.toInt?
def parseNat? (s : String) : Option Nat := s.toNat?

def natList? (ss : List String) : Option (List Nat) := ss.mapM (·.toNat?)
def intList? (ss : List String) : Option (List Int) := ss.mapM (·.toInt?)

/-- "a,b,c" → [a,b,c]; "" or "-" → []. -/
def commaNats? (s : String) : Option (List Nat) :=
  if s = "" ∨ s = "-" then some [] else (s.splitOn ",").mapM (·.toNat?)
def commaInts? (s : String) : Option (List Int) :=
  if s = "" ∨ s = "-" then some [] else (s.splitOn ",").mapM (·.toInt?)

def joinNats (sep : String) (l : List Nat) : String :=
  if l.isEmpty then "-" else sep.intercalate (l.map toString)
def joinInts (sep : String) (l : List Int) : String :=
  if l.isEmpty then "-" else sep.intercalate (l.map toString)

def hexDigit? (c : Char) : Option Nat :=
  if '0' ≤ c ∧ c ≤ '9' then some (c.toNat - '0'.toNat)
  else if 'a' ≤ c ∧ c ≤ 'f' then some (c.toNat - 'a'.toNat + 10)
  else if 'A' ≤ c ∧ c ≤ 'F' then some (c.toNat - 'A'.toNat + 10)
  else none

/-- Hex string → bytes ("-" or "" is the empty string). -/
def hexBytes? (s : String) : Option (List Nat) :=
  if s = "-" ∨ s = "" then some [] else
  let rec go : List Char → List Nat → Option (List Nat)
    | [], acc => some acc.reverse
    | [_], _ => none
    | a :: b :: rest, acc => do
        let x ← hexDigit? a
        let y ← hexDigit? b
        go rest ((x * 16 + y) :: acc)
  go s.toList []

def hexOfNat2 (n : Nat) : String :=
  let d (k : Nat) : Char := if k < 10 then Char.ofNat (48 + k) else Char.ofNat (87 + k)
  String.ofList [d (n / 16 % 16), d (n % 16)]

def hexOfBytes (l : List Nat) : String :=
  if l.isEmpty then "-" else String.join (l.map hexOfNat2)

/-- Stateless loop: one output line per input line. -/
partial def lineLoop (f : String → String) : IO Unit := do
  let stdin ← IO.getStdin
  let stdout ← IO.getStdout
  let rec loop : IO Unit := do
    let line ← stdin.getLine
    if line.isEmpty then return ()
    stdout.putStrLn (f (stripNl line))
    loop
  loop
  stdout.flush

/-- Stateful loop. -/
partial def foldLoop {σ : Type} (init : σ) (f : σ → String → σ × String) : IO Unit := do
  let stdin ← IO.getStdin
  let stdout ← IO.getStdout
  let rec loop (s : σ) : IO Unit := do
    let line ← stdin.getLine
    if line.isEmpty then return ()
    let (s', out) := f s (stripNl line)
    stdout.putStrLn out
    loop s'
  loop init
  stdout.flush

end VaxisModel.Driver
