/-
Lemmas for the application-level composition (C11 window model → C01 renderer model):
every drawing call is a list of primitive window writes; reading a cell after any list of writes
is a fold of the writes that hit it; predicates on cells and the buffer shape are preserved.
-/
import VaxisModel.Model.App
import VaxisModel.Lemmas.Window
import VaxisModel.Lemmas.WindowText

namespace VaxisModel.Lemmas.App
open VaxisModel.Model.Window VaxisModel.Spec.Window VaxisModel.Lemmas.Window VaxisModel.Model.App

/-- One primitive write: `SetCell` / `SetStyle` on a window at a window-relative position. -/
structure W where
  win : Win
  col : Int
  row : Int
  put : Win.Put

def applyPuts (s : Screen) (ws : List W) : Screen := ws.foldl (fun s w => w.win.put s w.col w.row w.put) s

/-- The write reaches absolute cell `(x,y)`: it addresses origin + offset = `(x,y)` and that cell is
    inside the window, every ancestor and the screen. -/
def hits (s : Screen) (w : W) (x y : Int) : Prop :=
  x = (absOrigin w.win).1 + w.col ∧ y = (absOrigin w.win).2 + w.row ∧ visible w.win s x y

instance (s : Screen) (w : W) (x y : Int) : Decidable (hits s w x y) := by unfold hits; infer_instance

/-- What a cell holds after the writes `ws`, starting from `c0`: each write that hits it applies. -/
def foldHits (s : Screen) (x y : Int) (c0 : Cell) (ws : List W) : Cell :=
  ws.foldl (fun c w => if hits s w x y then w.put.apply c else c) c0

theorem applyPuts_dims (ws : List W) (s : Screen) :
    (applyPuts s ws).cols = s.cols ∧ (applyPuts s ws).rows = s.rows := by
  induction ws generalizing s with
  | nil => exact ⟨rfl, rfl⟩
  | cons w rest ih =>
    simp only [applyPuts, List.foldl_cons]
    have h1 := ih (w.win.put s w.col w.row w.put)
    have h2 := put_dims w.win s w.col w.row w.put
    simp only [applyPuts] at h1
    exact ⟨h1.1.trans h2.1, h1.2.trans h2.2⟩

theorem applyPuts_wf (ws : List W) (s : Screen) (h : s.WF) : (applyPuts s ws).WF := by
  induction ws generalizing s with
  | nil => exact h
  | cons w rest ih =>
    simp only [applyPuts, List.foldl_cons]
    exact ih _ (wf_put w.win s h w.col w.row w.put)

theorem applyPuts_append (s : Screen) (a b : List W) : applyPuts s (a ++ b) = applyPuts (applyPuts s a) b := by
  simp [applyPuts, List.foldl_append]

theorem hits_congr (s s' : Screen) (hc : s'.cols = s.cols) (hr : s'.rows = s.rows) (w : W) (x y : Int) :
    hits s' w x y ↔ hits s w x y := by
  simp only [hits, visible_congr w.win s s' hc hr x y]

theorem foldHits_congr (s s' : Screen) (hc : s'.cols = s.cols) (hr : s'.rows = s.rows) (x y : Int) (ws : List W) :
    ∀ c0, foldHits s' x y c0 ws = foldHits s x y c0 ws := by
  induction ws with
  | nil => intro c0; rfl
  | cons w rest ih =>
    intro c0
    simp only [foldHits, List.foldl_cons] at ih ⊢
    by_cases h : hits s w x y
    · have h' := (hits_congr s s' hc hr w x y).2 h
      simp only [h, h', if_true]; exact ih _
    · have h' : ¬ hits s' w x y := fun h' => h ((hits_congr s s' hc hr w x y).1 h')
      simp only [h, h', if_false]; exact ih _

theorem foldHits_append (s : Screen) (x y : Int) (c0 : Cell) (a b : List W) :
    foldHits s x y c0 (a ++ b) = foldHits s x y (foldHits s x y c0 a) b := by
  simp [foldHits, List.foldl_append]

/-- **Reading after any list of window writes**: the cell is the fold of the writes that hit it. -/
theorem get_applyPuts (ws : List W) (s : Screen) (x y : Int) :
    (applyPuts s ws).get x y = (s.get x y).map (fun c0 => foldHits s x y c0 ws) := by
  induction ws generalizing s with
  | nil => simp [applyPuts, foldHits]
  | cons w rest ih =>
    have hd := put_dims w.win s w.col w.row w.put
    simp only [applyPuts, List.foldl_cons] at ih ⊢
    rw [ih (w.win.put s w.col w.row w.put), get_put]
    simp only [foldHits, List.foldl_cons]
    have hc := foldHits_congr s (w.win.put s w.col w.row w.put) hd.1 hd.2 x y rest
    simp only [foldHits] at hc
    by_cases h : hits s w x y
    · rw [if_pos (show x = (absOrigin w.win).1 + w.col ∧ y = (absOrigin w.win).2 + w.row ∧ visible w.win s x y from h)]
      cases s.get x y with
      | none => rfl
      | some v => simp only [Option.map_some, if_pos h, hc]
    · rw [if_neg (show ¬ (x = (absOrigin w.win).1 + w.col ∧ y = (absOrigin w.win).2 + w.row ∧ visible w.win s x y) from h)]
      cases s.get x y with
      | none => rfl
      | some v => simp only [Option.map_some, if_neg h, hc]

/-- A predicate on cells that every written cell has and that does not depend on the style holds of
    the result. -/
theorem foldHits_pred (P : Cell → Prop) (hst : ∀ c st, P c → P { c with st := st }) (s : Screen) (x y : Int)
    (ws : List W) (hws : ∀ w ∈ ws, ∀ c, w.put = .cell c → P c) : ∀ c0, P c0 → P (foldHits s x y c0 ws) := by
  induction ws with
  | nil => intro c0 h; exact h
  | cons w rest ih =>
    intro c0 h0
    simp only [foldHits, List.foldl_cons]
    apply ih (fun w' hw' => hws w' (List.mem_cons_of_mem _ hw'))
    split
    · cases hp : w.put with
      | cell c => exact hws w List.mem_cons_self c hp
      | style st => exact hst c0 st h0
    · exact h0

def toW (win : Win) (o : Op) : W := ⟨win, o.col, o.row, .cell o.cell⟩

theorem applyOps_eq (win : Win) (s : Screen) (ops : List Op) :
    applyOps win s ops = applyPuts s (ops.map (toW win)) := by
  simp only [applyOps, applyPuts, List.foldl_map, toW, Win.setCell]

/-- The primitive writes the model performs for one drawing call. -/
def modelWrites (lib : Lib) (rm : Bool) : DrawOp → List W
  | .setCell win col row c => [⟨win, col, row, .cell c⟩]
  | .setStyle win col row st => [⟨win, col, row, .style st⟩]
  | .fill win c => (fillOps win c).map (toW win)
  | .clear win => (fillOps win clearCell).map (toW win)
  | .print win segs => (printOps lib rm win segs).1.map (toW win)
  | .printTruncate win row segs => (printTruncateOps lib rm win row segs).map (toW win)
  | .println win row segs => (printlnOps lib rm win row segs).map (toW win)
  | .wrap win segs => (wrapOps lib rm win segs).1.map (toW win)
  | .showCursor .. => []
  | .hideCursor => []
  | .mouseShape _ => []

/-- Every drawing call is its list of primitive writes. -/
theorem draw_scr (lib : Lib) (rm : Bool) (v : Vx) (d : DrawOp) :
    (draw lib rm v d).scr = applyPuts v.scr (modelWrites lib rm d) := by
  cases d <;> simp only [draw, modelWrites, fill, clear, print, printTruncate, println, wrap, applyOps_eq] <;>
    first | rfl | simp [applyPuts, Win.setCell, Win.setStyle]

/-! ### buffer cells and `get` -/

theorem mem_buf_get (s : Screen) (r : List Cell) (hr : r ∈ s.buf) (c : Cell) (hc : c ∈ r) :
    ∃ x y : Int, s.get x y = some c := by
  obtain ⟨i, hi⟩ := List.mem_iff_getElem?.1 hr
  obtain ⟨j, hj⟩ := List.mem_iff_getElem?.1 hc
  refine ⟨(j : Int), (i : Int), ?_⟩
  unfold Screen.get
  have : ¬ ((j : Int) < 0 ∨ (i : Int) < 0) := by omega
  simp only [this, if_false, Int.toNat_natCast, hi, hj]

end VaxisModel.Lemmas.App
