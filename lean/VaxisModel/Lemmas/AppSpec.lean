/-
"What the application last set in each cell", in the terms of `Spec.Window` (clip region, absolute
origin, reading-order layouts) rather than of the window model: `specWrites` lists, for each
drawing call, the primitive writes the *property text* ascribes to it; a cell holds the fold of the
writes that hit it (`foldHits`), a never-hit cell the zero cell.  The model's buffer agrees
(`draws_read`): the calls the helpers drop (`row > height`) are outside the window anyway.
-/
import VaxisModel.Lemmas.App

namespace VaxisModel.Lemmas.AppSpec
open VaxisModel.Model.Window VaxisModel.Spec.Window VaxisModel.Lemmas.Window VaxisModel.Model.App
open VaxisModel.Lemmas.App VaxisModel.Lemmas.WindowText

/-- The writes the property ascribes to a drawing call: `Fill`/`Clear` address every offset of the
    window's size; the text helpers write the reading-order layout of their clusters. -/
def specWrites (lib : Lib) (rm : Bool) : DrawOp → List W
  | .setCell win col row c => [⟨win, col, row, .cell c⟩]
  | .setStyle win col row st => [⟨win, col, row, .style st⟩]
  | .fill win c => (fillOps win c).map (toW win)
  | .clear win => (fillOps win clearCell).map (toW win)
  | .print win segs => (layout win.width (printItems lib rm (flatten segs)) 0 0).1.map (toW win)
  | .printTruncate win row segs => (layoutTrunc win.width row (lineItems lib rm (flatten segs)) 0).map (toW win)
  | .println win row segs => (layoutLine win.width row (lineItems lib rm (flatten segs)) 0).map (toW win)
  | .wrap win segs => (layoutWrap win.width (wrapAllItems lib rm segs) 0 0).1.map (toW win)
  | .showCursor .. => []
  | .hideCursor => []
  | .mouseShape _ => []

theorem foldHits_nohit (s : Screen) (x y : Int) (ws : List W) (h : ∀ w ∈ ws, ¬ hits s w x y) :
    ∀ c0, foldHits s x y c0 ws = c0 := by
  induction ws with
  | nil => intro c0; rfl
  | cons w rest ih =>
    intro c0
    simp only [foldHits, List.foldl_cons, if_neg (h w List.mem_cons_self)]
    exact ih (fun w' hw' => h w' (List.mem_cons_of_mem _ hw')) c0

/-- A write at a row at or below the window's height hits nothing. -/
theorem nohit_below (s : Screen) (win : Win) (o : Op) (x y : Int) (h : win.height ≤ o.row) : ¬ hits s (toW win o) x y := by
  intro hh
  obtain ⟨_, hy, hv⟩ := hh
  have := covers_own win x y hv.1
  unfold inOwnRect at this
  simp only [toW] at hy
  omega

theorem layoutLine_row (cols row : Int) (l : List Item) : ∀ (col : Int), ∀ o ∈ layoutLine cols row l col, o.row = row := by
  induction l with
  | nil => intro col o ho; simp [layoutLine] at ho
  | cons it rest ih =>
    intro col o ho
    simp only [layoutLine] at ho
    split at ho
    · cases ho
    · rcases List.mem_cons.1 ho with rfl | ho
      · rfl
      · exact ih _ o ho

theorem layoutTrunc_row (cols row : Int) (l : List Item) : ∀ (col : Int), ∀ o ∈ layoutTrunc cols row l col, o.row = row := by
  induction l with
  | nil => intro col o ho; simp [layoutTrunc] at ho
  | cons it rest ih =>
    intro col o ho
    simp only [layoutTrunc] at ho
    split at ho
    · simp only [List.mem_singleton] at ho; subst ho; rfl
    · rcases List.mem_cons.1 ho with rfl | ho
      · rfl
      · exact ih _ o ho

/-- For every drawing call the model's writes and the spec's writes leave the same cell. -/
theorem model_eq_spec (lib : Lib) (rm : Bool) (s : Screen) (x y : Int) (d : DrawOp) (c0 : Cell) :
    foldHits s x y c0 (modelWrites lib rm d) = foldHits s x y c0 (specWrites lib rm d) := by
  cases d with
  | print win segs =>
    obtain ⟨dropped, hd, hrow⟩ := printGo_layout lib rm win.width win.height (flatten segs) 0 0
    simp only [modelWrites, specWrites, printOps, hd, List.map_append, foldHits_append]
    rw [foldHits_nohit s x y (dropped.map (toW win))]
    intro w hw
    obtain ⟨o, ho, rfl⟩ := List.mem_map.1 hw
    exact nohit_below s win o x y (by have := hrow o ho; omega)
  | wrap win segs =>
    have hstored : wrapRemeasured = true := by decide
    obtain ⟨dropped, hd, hrow⟩ := wrapGo_layout lib rm win.width win.height segs 0 0
    simp only [modelWrites, specWrites, wrapOps, hstored, hd, List.map_append, foldHits_append]
    rw [foldHits_nohit s x y (dropped.map (toW win))]
    intro w hw
    obtain ⟨o, ho, rfl⟩ := List.mem_map.1 hw
    exact nohit_below s win o x y (hrow o ho)
  | println win row segs =>
    simp only [modelWrites, specWrites, printlnOps]
    split
    · rename_i h
      simp only [List.map_nil]
      refine (foldHits_nohit s x y _ ?_ c0).symm
      intro w hw
      obtain ⟨o, ho, rfl⟩ := List.mem_map.1 hw
      exact nohit_below s win o x y (by rw [layoutLine_row _ _ _ _ o ho]; omega)
    · rw [lnGo_layout]
  | printTruncate win row segs =>
    simp only [modelWrites, specWrites, printTruncateOps]
    split
    · rename_i h
      simp only [List.map_nil]
      refine (foldHits_nohit s x y _ ?_ c0).symm
      intro w hw
      obtain ⟨o, ho, rfl⟩ := List.mem_map.1 hw
      exact nohit_below s win o x y (by rw [layoutTrunc_row _ _ _ _ o ho]; omega)
    · rw [truncGo_layout]
  | setCell win col row c => rfl
  | setStyle win col row st => rfl
  | fill win c => rfl
  | clear win => rfl
  | showCursor win col row st => rfl
  | hideCursor => rfl
  | mouseShape sh => rfl

def runDraws (lib : Lib) (rm : Bool) (v : Vx) (ds : List DrawOp) : Vx := ds.foldl (draw lib rm) v

theorem runDraws_scr (lib : Lib) (rm : Bool) (ds : List DrawOp) : ∀ (v : Vx),
    (runDraws lib rm v ds).scr = applyPuts v.scr (ds.flatMap (modelWrites lib rm)) := by
  induction ds with
  | nil => intro v; rfl
  | cons d rest ih =>
    intro v
    simp only [runDraws, List.foldl_cons, List.flatMap_cons, applyPuts_append] at ih ⊢
    rw [ih, draw_scr]

theorem foldHits_flatMap (lib : Lib) (rm : Bool) (s : Screen) (x y : Int) (ds : List DrawOp) : ∀ (c0 : Cell),
    foldHits s x y c0 (ds.flatMap (modelWrites lib rm)) = foldHits s x y c0 (ds.flatMap (specWrites lib rm)) := by
  induction ds with
  | nil => intro c0; rfl
  | cons d rest ih =>
    intro c0
    simp only [List.flatMap_cons, foldHits_append, model_eq_spec, ih]

/-- **The buffer after any sequence of drawing calls**: each cell is the fold, over the writes the
    property ascribes to the calls (in call order), of those that hit it. -/
theorem draws_read (lib : Lib) (rm : Bool) (v : Vx) (ds : List DrawOp) (x y : Int) :
    (runDraws lib rm v ds).scr.get x y =
      (v.scr.get x y).map (fun c0 => foldHits v.scr x y c0 (ds.flatMap (specWrites lib rm))) := by
  rw [runDraws_scr, get_applyPuts]
  cases v.scr.get x y with
  | none => rfl
  | some c0 => simp only [Option.map_some, foldHits_flatMap]

end VaxisModel.Lemmas.AppSpec
