/-
The closed system "application → Vaxis → reference terminal" and its invariant.

`Sys` = the Vaxis fields (`Model.App.Vx`) + the reference terminal that has received every byte.
`SysOp` = one drawing call, or `Render`, `Refresh`, or a size change of the terminal followed by the
`Render` that notices it (the terminal then shows *anything* well formed, `g`).
`OpOk` = what is genuinely the application's (or the terminal's) responsibility.
`Inv` = what every step re-establishes; `sys_step` = one step; `Shows` = "the terminal shows the
application's screen".
-/
import VaxisModel.Lemmas.App
import VaxisModel.Lemmas.AppText
import VaxisModel.Props.C01Clip
import VaxisModel.Lemmas.RenderSixel
import VaxisModel.Lemmas.RenderCursor

namespace VaxisModel.Lemmas.AppSys
open VaxisModel.Model.Window VaxisModel.Model.Render VaxisModel.Model.App
open VaxisModel.Spec VaxisModel.Spec.Display VaxisModel.Spec.Window
open VaxisModel.Lemmas.Window VaxisModel.Lemmas.App VaxisModel.Lemmas.AppText VaxisModel.Lemmas.RenderDisplay
open VaxisModel.Props.C01 VaxisModel.Props.C01Display VaxisModel.Props.C01Clip

/-- Everything fixed during a run: `characterWidth`, the capability set, the names of graphemes and
    styles, the string functions window.go calls, and whether the text helpers re-measure. -/
structure Ctx where
  cw : String → Nat
  caps : Caps
  I : Interp
  lib : Lib
  rm : Bool

/-- Coherence of the two models' parameters (not restrictions on the application): a space has
    width 1; the reserved names mean "", " ", "…", `Style{}`; `Lib.cw` is `characterWidth`. -/
structure Ctx.Ok (X : Ctx) : Prop where
  space : X.cw "20" = 1
  std : X.I.Std
  coh : ∀ n, X.lib.cw n = (X.cw (X.I.gOf n) : Int)

structure Sys where
  v : Vx
  t : Term

inductive SysOp where
  | draw (d : DrawOp)
  | render
  | refresh
  | resize (cols rows : Nat) (g : List (List DCell))

/-- The terminal after a size change: new dimensions, showing `g`; pen, modes, flags as before. -/
def resizedTerm (t : Term) (cols rows : Nat) (g : List (List DCell)) : Term :=
  { t with rows := rows, cols := cols, grid := g, row := 0, col := 0, pw := false }

def sysStep (X : Ctx) (s : Sys) : SysOp → Sys
  | .draw d => { s with v := draw X.lib X.rm s.v d }
  | .render => { v := (endFrame X.cw X.caps X.I s.v .render).1, t := run X.cw s.t (endFrame X.cw X.caps X.I s.v .render).2 }
  | .refresh => { v := (endFrame X.cw X.caps X.I s.v .refresh).1, t := run X.cw s.t (endFrame X.cw X.caps X.I s.v .refresh).2 }
  | .resize cols rows g =>
      { v := (endFrame X.cw X.caps X.I s.v (.resize cols rows)).1,
        t := run X.cw (if sameSize s.v cols rows then s.t else resizedTerm s.t cols rows g)
               (endFrame X.cw X.caps X.I s.v (.resize cols rows)).2 }

def sysRun (X : Ctx) (s : Sys) (ops : List SysOp) : Sys := ops.foldl (sysStep X) s

/-- Does the op write a frame?  (`Render` with a pending resize to a new size only reallocates.) -/
def isFrame (s : Sys) : SysOp → Bool
  | .draw _ => false
  | .render => true
  | .refresh => true
  | .resize cols rows _ => sameSize s.v cols rows

/-- A cell the application hands to `SetCell`/`Fill`: width not negative; an explicit width is the
    terminal's width of the grapheme, or > 1 with OSC 66. -/
def CellOk (X : Ctx) (c : VaxisModel.Model.Window.Cell) : Prop := 0 ≤ c.w ∧ WidthOk X.cw X.caps (X.I.cell c)

def TextOk (X : Ctx) (segs : List (Nat × List Raw)) : Prop := ∀ seg ∈ segs, ∀ r ∈ seg.2, RawOk X.lib X.rm r
def WrapTextOk (X : Ctx) (segs : List (Nat × List (List Raw))) : Prop :=
  ∀ sg ∈ segs, ∀ seg ∈ sg.2, ∀ r ∈ seg, RawOk X.lib X.rm r

/-- A visible cursor is requested inside the screen. -/
def CursorIn (v : Vx) : Prop :=
  v.cursorNext.visible = true →
    (0 ≤ v.cursorNext.row ∧ v.cursorNext.row < v.scr.rows) ∧ (0 ≤ v.cursorNext.col ∧ v.cursorNext.col < v.scr.cols)

/-- What is left to the application (cells, texts, cursor) and to the terminal (after a size change
    it shows a well-formed grid of the new size — whatever it is). -/
def OpOk (X : Ctx) (s : Sys) : SysOp → Prop
  | .draw (.setCell _ _ _ c) => CellOk X c
  | .draw (.fill _ c) => CellOk X c
  | .draw (.print _ segs) => TextOk X segs
  | .draw (.println _ _ segs) => TextOk X segs
  | .draw (.printTruncate _ _ segs) => TextOk X segs ∧ X.cw "e280a6" = 1
  | .draw (.wrap _ segs) => WrapTextOk X segs
  | .draw _ => True
  | .render => CursorIn s.v
  | .refresh => CursorIn s.v
  | .resize cols rows g =>
      if sameSize s.v cols rows then CursorIn s.v
      else g.length = rows ∧ ∀ r ∈ g, r.length = cols ∧ WFRow 0 r

/-- The terminal shows exactly the application's screen and nothing terminal-specific was relied on. -/
def Shows (X : Ctx) (s : Sys) : Prop :=
  s.t.grid = Expected.expectedC X.cw X.caps (X.I.grid s.v.scr.buf) ∧ s.t.bad = none

structure Inv (X : Ctx) (s : Sys) : Prop where
  wf : s.v.scr.WF
  ready : Ready s.t s.v.last s.v.scr.rows.toNat s.v.scr.cols.toNat
  agree : s.v.refresh = false → Agree X.cw X.caps s.t s.v.last
  cells : ∀ x y c, s.v.scr.get x y = some c → CellOk X c

/-! ### cells -/

theorem cellOk_style (X : Ctx) (c : VaxisModel.Model.Window.Cell) (st : Nat) (h : CellOk X c) : CellOk X { c with st := st } := by
  unfold CellOk WidthOk Interp.cell at *
  exact h

theorem cellOk_default (X : Ctx) : CellOk X (default : VaxisModel.Model.Window.Cell) := ⟨by decide, Or.inl rfl⟩

theorem cellOk_of_meas (X : Ctx) (hX : X.Ok) (c : VaxisModel.Model.Window.Cell) (h : Meas X.lib c) : CellOk X c := by
  unfold Meas at h
  rw [hX.coh] at h
  refine ⟨by rw [h]; omega, Or.inr (Or.inl ?_)⟩
  simp only [Interp.cell]; exact h

theorem cellOk_clear (X : Ctx) (hX : X.Ok) : CellOk X clearCell := by
  apply cellOk_of_meas X hX
  unfold Meas clearCell
  rw [hX.coh, hX.std.space, hX.space]; rfl

theorem lib_space (X : Ctx) (hX : X.Ok) : X.lib.cw gSpace = 1 := by
  rw [hX.coh, hX.std.space, hX.space]; rfl

/-- Every cell a drawing call writes is admissible. -/
theorem modelWrites_ok (X : Ctx) (hX : X.Ok) (s : Sys) (d : DrawOp) (hok : OpOk X s (.draw d)) :
    ∀ w ∈ modelWrites X.lib X.rm d, ∀ c, w.put = .cell c → CellOk X c := by
  have hsp := lib_space X hX
  have viaMeas : ∀ (win : Win) (ops : List Op), (∀ o ∈ ops, Meas X.lib o.cell) →
      ∀ w ∈ ops.map (toW win), ∀ c, w.put = .cell c → CellOk X c := by
    intro win ops h w hw c hc
    obtain ⟨o, ho, rfl⟩ := List.mem_map.1 hw
    simp only [toW, Win.Put.cell.injEq] at hc
    subst hc
    exact cellOk_of_meas X hX _ (h o ho)
  have viaConst : ∀ (win : Win) (c0 : VaxisModel.Model.Window.Cell), CellOk X c0 →
      ∀ w ∈ (fillOps win c0).map (toW win), ∀ c, w.put = .cell c → CellOk X c := by
    intro win c0 h0 w hw c hc
    obtain ⟨o, ho, rfl⟩ := List.mem_map.1 hw
    simp only [toW, Win.Put.cell.injEq] at hc
    subst hc
    simp only [fillOps, List.mem_flatMap, List.mem_map] at ho
    obtain ⟨_, _, _, _, rfl⟩ := ho
    exact h0
  cases d with
  | setCell win col row c0 =>
    intro w hw c hc
    simp only [modelWrites, List.mem_singleton] at hw
    subst hw
    simp only [Win.Put.cell.injEq] at hc
    subst hc; exact hok
  | setStyle win col row st =>
    intro w hw c hc
    simp only [modelWrites, List.mem_singleton] at hw
    subst hw
    cases hc
  | fill win c0 => exact viaConst win c0 hok
  | clear win => exact viaConst win clearCell (cellOk_clear X hX)
  | print win segs =>
    exact viaMeas win _ (fun o ho => printGo_meas X.lib X.rm _ _ _ (flatten_ok X.lib X.rm hsp segs hok) _ _ o ho)
  | printTruncate win row segs =>
    have hell : X.lib.cw gEllipsis = 1 := by rw [hX.coh, hX.std.ellipsis, hok.2]; rfl
    refine viaMeas win _ (fun o ho => ?_)
    simp only [printTruncateOps] at ho
    split at ho
    · cases ho
    · exact truncGo_meas X.lib X.rm hell _ _ _ (flatten_ok X.lib X.rm hsp segs hok.1) _ o ho
  | println win row segs =>
    refine viaMeas win _ (fun o ho => ?_)
    simp only [printlnOps] at ho
    split at ho
    · cases ho
    · exact lnGo_meas X.lib X.rm _ _ _ (flatten_ok X.lib X.rm hsp segs hok) _ o ho
  | wrap win segs =>
    refine viaMeas win _ (fun o ho => ?_)
    have hstored : wrapRemeasured = true := by decide
    simp only [wrapOps, hstored] at ho
    exact wrapGo_meas X.lib X.rm hsp _ _ segs hok _ _ o ho
  | showCursor win col row st => intro w hw; simp [modelWrites] at hw
  | hideCursor => intro w hw; simp [modelWrites] at hw
  | mouseShape sh => intro w hw; simp [modelWrites] at hw

/-! ### the grid handed to the renderer -/

theorem grid_length (I : Interp) (buf : List (List VaxisModel.Model.Window.Cell)) : (I.grid buf).length = buf.length := by
  simp [Interp.grid]

theorem grid_rows (I : Interp) (buf : List (List VaxisModel.Model.Window.Cell)) (C : Nat) (h : ∀ l ∈ buf, l.length = C) :
    ∀ r ∈ I.grid buf, r.length = C := by
  intro r hr
  obtain ⟨l, hl, rfl⟩ := List.mem_map.1 hr
  simp [h l hl]

theorem grid_cells (X : Ctx) (s : Screen) (h : ∀ x y c, s.get x y = some c → CellOk X c) :
    ∀ r ∈ X.I.grid s.buf, ∀ c ∈ r, c.sixel = false ∧ 0 ≤ c.w ∧ WidthOk X.cw X.caps c := by
  intro r hr c hc
  obtain ⟨l, hl, rfl⟩ := List.mem_map.1 hr
  obtain ⟨c0, h0, rfl⟩ := List.mem_map.1 hc
  obtain ⟨x, y, hg⟩ := mem_buf_get s l hl c0 h0
  exact ⟨rfl, (h x y c0 hg).1, (h x y c0 hg).2⟩

/-! ### one step -/

theorem frameInOk (X : Ctx) (s : Sys) (hi : Inv X s) (hcur : CursorIn s.v) (refresh : Bool) :
    FrameInOkC X.cw X.caps s.v.scr.rows.toNat s.v.scr.cols.toNat
      ⟨refresh, X.I.grid s.v.scr.buf, s.v.cursorNext, s.v.shapeNext⟩ := by
  obtain ⟨hc, hr, hlen, hrows⟩ := hi.wf
  refine ⟨by rw [grid_length]; exact hlen, grid_rows X.I _ _ hrows, grid_cells X s.v.scr hi.cells, ?_⟩
  intro hv
  have := hcur hv
  simp only [Int.toNat_of_nonneg hc, Int.toNat_of_nonneg hr]
  exact this

/-- The buffer the drawing calls fill has no sixel-flagged cell, so `Render()` is `renderFrameC`. -/
theorem doRender_eq (cw : String → Nat) (caps : Caps) (I : Interp) (v : Vx) :
    doRender cw caps I v =
      ({ v with last := (renderFrameC cw (frameOf caps I v)).1, cursorLast := v.cursorNext, shapeLast := v.shapeNext, refresh := false },
       (renderFrameC cw (frameOf caps I v)).2) := by
  have h : ∀ r ∈ (frameOf caps I v).next, ∀ c ∈ r, c.sixel = false := by
    intro r hr c hc
    obtain ⟨l, _, rfl⟩ := List.mem_map.1 hr
    obtain ⟨c0, _, rfl⟩ := List.mem_map.1 hc
    rfl
  simp only [doRender, VaxisModel.Lemmas.RenderSixel.renderFrameS_eq cw _ h]

/-- `Render()` (with `refresh` as given) from a state satisfying the invariant. -/
theorem render_step (X : Ctx) (hX : X.Ok) (s : Sys) (hi : Inv X s) (hcur : CursorIn s.v) :
    let s' : Sys := { v := (doRender X.cw X.caps X.I s.v).1, t := run X.cw s.t (doRender X.cw X.caps X.I s.v).2 }
    Inv X s' ∧ Shows X s' := by
  intro s'
  have hstep := frame_step_clip X.cw X.caps hX.space s.v.scr.rows.toNat s.v.scr.cols.toNat
    ⟨s.t, s.v.last, s.v.cursorLast, s.v.shapeLast⟩ ⟨s.v.refresh, X.I.grid s.v.scr.buf, s.v.cursorNext, s.v.shapeNext⟩
    hi.ready hi.agree (frameInOk X s hi hcur s.v.refresh)
  obtain ⟨h1, h2, h3, h4⟩ := hstep
  have e := doRender_eq X.cw X.caps X.I s.v
  have e1 : s'.v = (doRender X.cw X.caps X.I s.v).1 := rfl
  have e2 : s'.t = run X.cw s.t (doRender X.cw X.caps X.I s.v).2 := rfl
  refine ⟨⟨?_, ?_, ?_, ?_⟩, ?_, ?_⟩
  · rw [e1, e]; exact hi.wf
  · rw [e2, e1, e]; exact h1
  · intro _; rw [e2, e1, e]; exact h2
  · rw [e1, e]; exact hi.cells
  · rw [e2, e1, e]; exact h3
  · rw [e2, e]; exact h4

theorem draw_step (X : Ctx) (hX : X.Ok) (s : Sys) (hi : Inv X s) (d : DrawOp) (hok : OpOk X s (.draw d)) :
    Inv X (sysStep X s (.draw d)) := by
  have hscr := draw_scr X.lib X.rm s.v d
  have hd := applyPuts_dims (modelWrites X.lib X.rm d) s.v.scr
  have hrest : (draw X.lib X.rm s.v d).last = s.v.last ∧ (draw X.lib X.rm s.v d).refresh = s.v.refresh := by
    cases d <;> exact ⟨rfl, rfl⟩
  refine ⟨?_, ?_, ?_, ?_⟩
  · show (draw X.lib X.rm s.v d).scr.WF
    rw [hscr]; exact applyPuts_wf _ _ hi.wf
  · show Ready s.t (draw X.lib X.rm s.v d).last (draw X.lib X.rm s.v d).scr.rows.toNat (draw X.lib X.rm s.v d).scr.cols.toNat
    rw [hscr, hd.1, hd.2, hrest.1]; exact hi.ready
  · show (draw X.lib X.rm s.v d).refresh = false → Agree X.cw X.caps s.t (draw X.lib X.rm s.v d).last
    rw [hrest.1, hrest.2]; exact hi.agree
  · show ∀ x y c, (draw X.lib X.rm s.v d).scr.get x y = some c → CellOk X c
    intro x y c hg
    rw [hscr, get_applyPuts] at hg
    cases h0 : s.v.scr.get x y with
    | none => simp [h0] at hg
    | some c0 =>
      simp only [h0, Option.map_some, Option.some.injEq] at hg
      subst hg
      exact foldHits_pred (CellOk X) (cellOk_style X) s.v.scr x y _ (modelWrites_ok X hX s d hok) c0 (hi.cells x y c0 h0)

theorem get_resize (cols rows : Int) (x y : Int) (c : VaxisModel.Model.Window.Cell) (h : (Screen.resize cols rows).get x y = some c) :
    c = default := by
  unfold Screen.get Screen.resize at h
  split at h
  · cases h
  · simp only at h
    split at h
    · rename_i l hl
      have hm : l ∈ List.replicate rows.toNat (List.replicate cols.toNat (default : VaxisModel.Model.Window.Cell)) := List.mem_iff_getElem?.2 ⟨_, hl⟩
      rw [(List.mem_replicate.1 hm).2] at h
      have hc : c ∈ List.replicate cols.toNat (default : VaxisModel.Model.Window.Cell) := List.mem_iff_getElem?.2 ⟨_, h⟩
      exact (List.mem_replicate.1 hc).2
    · cases h

theorem resize_step (X : Ctx) (s : Sys) (hi : Inv X s) (cols rows : Nat) (g : List (List DCell))
    (hg : g.length = rows ∧ ∀ r ∈ g, r.length = cols ∧ WFRow 0 r) :
    Inv X { v := { s.v with scr := Screen.resize cols rows, last := blankGrid cols rows, refresh := true },
            t := resizedTerm s.t cols rows g } := by
  refine ⟨wf_resize _ _ (by omega) (by omega), ?_, fun h => absurd h (by simp), ?_⟩
  · show Ready (resizedTerm s.t cols rows g) (blankGrid cols rows) (Screen.resize cols rows).rows.toNat (Screen.resize cols rows).cols.toNat
    simp only [Screen.resize, Int.toNat_natCast]
    refine ⟨hi.ready.rest, hi.ready.bad, hi.ready.lp, rfl, rfl, hg.1, by simp [blankGrid], fun r hr => (hg.2 r hr).1, ?_,
      fun r hr => (hg.2 r hr).2⟩
    intro r hr
    simp only [blankGrid, List.mem_replicate] at hr
    rw [hr.2]; simp
  · intro x y c hc
    rw [get_resize _ _ x y c hc]
    exact cellOk_default X

/-- **One step of the closed system**: the invariant is re-established, and if the step wrote a
    frame the terminal now shows the application's screen. -/
theorem sys_step (X : Ctx) (hX : X.Ok) (s : Sys) (hi : Inv X s) (op : SysOp) (hok : OpOk X s op) :
    Inv X (sysStep X s op) ∧ (isFrame s op = true → Shows X (sysStep X s op)) := by
  cases op with
  | draw d => exact ⟨draw_step X hX s hi d hok, fun h => by simp [isFrame] at h⟩
  | render =>
    have := render_step X hX s hi hok
    exact ⟨this.1, fun _ => this.2⟩
  | refresh =>
    have hi' : Inv X { s with v := { s.v with refresh := true } } :=
      ⟨hi.wf, hi.ready, fun h => absurd h (by simp), hi.cells⟩
    have := render_step X hX { s with v := { s.v with refresh := true } } hi' hok
    exact ⟨this.1, fun _ => this.2⟩
  | resize cols rows g =>
    by_cases hs : sameSize s.v cols rows = true
    · simp only [OpOk, hs, if_true] at hok
      have := render_step X hX s hi hok
      simp only [sysStep, endFrame, hs, if_true, isFrame]
      exact ⟨this.1, fun _ => this.2⟩
    · simp only [OpOk, hs, if_false] at hok
      have := resize_step X s hi cols rows g hok
      simp only [sysStep, endFrame, hs, isFrame, run]
      exact ⟨this, fun h => absurd h (by simp)⟩

/-! ### runs -/

/-- Every op of the run is admissible in the state it is issued in. -/
def RunOk (X : Ctx) : Sys → List SysOp → Prop
  | _, [] => True
  | s, op :: rest => OpOk X s op ∧ RunOk X (sysStep X s op) rest

theorem runOk_append (X : Ctx) (a b : List SysOp) : ∀ (s : Sys),
    RunOk X s (a ++ b) ↔ RunOk X s a ∧ RunOk X (sysRun X s a) b := by
  induction a with
  | nil => intro s; simp [RunOk, sysRun]
  | cons op rest ih =>
    intro s
    simp only [List.cons_append, RunOk, sysRun, List.foldl_cons]
    have := ih (sysStep X s op)
    simp only [sysRun] at this
    rw [this, and_assoc]

theorem run_inv (X : Ctx) (hX : X.Ok) (ops : List SysOp) : ∀ (s : Sys), Inv X s → RunOk X s ops → Inv X (sysRun X s ops) := by
  induction ops with
  | nil => intro s hi _; exact hi
  | cons op rest ih =>
    intro s hi hok
    simp only [sysRun, List.foldl_cons]
    exact ih _ (sys_step X hX s hi op hok.1).1 hok.2

/-- After a start-up resize to `cols × rows`: blank buffers, a refresh pending, the terminal blank
    with the cursor hidden. -/
def Sys.init (cols rows : Nat) : Sys := ⟨Vx.init cols rows, { Term.init cols rows with cursorVisible := false }⟩

theorem init_inv (X : Ctx) (cols rows : Nat) : Inv X (Sys.init cols rows) := by
  refine ⟨wf_resize _ _ (by omega) (by omega), ?_, fun h => absurd h (by simp [Sys.init, Vx.init]), ?_⟩
  · show Ready _ (blankGrid cols rows) (Screen.resize cols rows).rows.toNat (Screen.resize cols rows).cols.toNat
    simp only [Screen.resize, Int.toNat_natCast]
    refine ⟨⟨rfl, rfl, rfl⟩, rfl, rfl, rfl, rfl, by simp [Sys.init, Term.init], by simp [Sys.init, Vx.init, blankGrid], ?_, ?_, init_wf cols rows⟩
    · intro r hr; simp only [Sys.init, Term.init, List.mem_replicate] at hr; rw [hr.2]; simp
    · intro r hr; simp only [Sys.init, Vx.init, blankGrid, List.mem_replicate] at hr; rw [hr.2]; simp
  · intro x y c hc
    rw [get_resize _ _ x y c hc]
    exact cellOk_default X

/-! ### the cursor -/

/-- The op changes the size of the screen. -/
def sizeChange (s : Sys) : SysOp → Bool
  | .resize cols rows _ => !sameSize s.v cols rows
  | _ => false

theorem render_cursor (X : Ctx) (s : Sys) (hi : Inv X s) (hcur : CursorIn s.v) (hc : CursorAs s.t s.v.cursorLast) :
    CursorAs (run X.cw s.t (doRender X.cw X.caps X.I s.v).2) (doRender X.cw X.caps X.I s.v).1.cursorLast := by
  obtain ⟨hcn, hrn, _, _⟩ := hi.wf
  rw [doRender_eq]
  simp only [VaxisModel.Lemmas.RenderClip.renderFrameC_eq]
  apply cursor_as_requested X.cw X.cw { frameOf X.caps X.I s.v with next := clipGrid X.cw (frameOf X.caps X.I s.v).next } s.t
  · intro hv
    have := hcur hv
    rw [hi.ready.trows, hi.ready.tcols]
    simp only [Int.toNat_of_nonneg hcn, Int.toNat_of_nonneg hrn]
    exact this
  · exact hc

/-- The hardware cursor stays as last rendered through every step that does not change the size,
    and after every frame it is as last requested. -/
theorem cursor_step (X : Ctx) (s : Sys) (hi : Inv X s) (hc : CursorAs s.t s.v.cursorLast) (op : SysOp)
    (hok : OpOk X s op) (hns : sizeChange s op = false) :
    CursorAs (sysStep X s op).t (sysStep X s op).v.cursorLast := by
  cases op with
  | draw d =>
    have : (draw X.lib X.rm s.v d).cursorLast = s.v.cursorLast := by cases d <;> rfl
    simp only [sysStep, this]; exact hc
  | render => exact render_cursor X s hi hok hc
  | refresh =>
    have hi' : Inv X { s with v := { s.v with refresh := true } } :=
      ⟨hi.wf, hi.ready, fun h => absurd h (by simp), hi.cells⟩
    exact render_cursor X { s with v := { s.v with refresh := true } } hi' hok hc
  | resize cols rows g =>
    have hs : sameSize s.v cols rows = true := by simpa [sizeChange] using hns
    simp only [OpOk, hs, if_true] at hok
    simp only [sysStep, endFrame, hs, if_true]
    exact render_cursor X s hi hok hc

/-! ### the cursor through size changes -/

/-- Either the terminal shows the cursor as last rendered, or — after a size change, when the
    terminal may have moved it — a refresh is pending and the cursor's *visibility* is still as last
    rendered. -/
def CurInv (s : Sys) : Prop :=
  CursorAs s.t s.v.cursorLast ∨
  (s.v.refresh = true ∧ (s.v.cursorLast.visible = false → s.t.cursorVisible = false))

theorem cursorAs_hidden (t : Term) (c : CursorState) (h : CursorAs t c) (hv : c.visible = false) : t.cursorVisible = false := by
  simpa [CursorAs, hv] using h

/-- The refresh of a non-empty screen puts the cursor right whatever its position was. -/
theorem render_cursor_fresh (X : Ctx) (s : Sys) (hi : Inv X s) (hcur : CursorIn s.v) (hr : s.v.refresh = true)
    (hc1 : 1 ≤ s.v.scr.cols) (hr1 : 1 ≤ s.v.scr.rows) (hvis : s.v.cursorLast.visible = false → s.t.cursorVisible = false) :
    CursorAs (run X.cw s.t (doRender X.cw X.caps X.I s.v).2) (doRender X.cw X.caps X.I s.v).1.cursorLast := by
  obtain ⟨hcn, hrn, hlen, hrows⟩ := hi.wf
  rw [doRender_eq]
  simp only [VaxisModel.Lemmas.RenderClip.renderFrameC_eq]
  apply VaxisModel.Lemmas.RenderCursor.cursor_nonempty X.cw X.cw
    { frameOf X.caps X.I s.v with next := clipGrid X.cw (frameOf X.caps X.I s.v).next } s.t
  · intro hv
    have := hcur hv
    rw [hi.ready.trows, hi.ready.tcols]
    simp only [Int.toNat_of_nonneg hcn, Int.toNat_of_nonneg hrn]
    exact this
  · -- the body is not empty
    cases hbuf : s.v.scr.buf with
    | nil => rw [hbuf] at hlen; simp at hlen; omega
    | cons r0 rest =>
      have hr0 : r0.length = s.v.scr.cols.toNat := hrows r0 (by rw [hbuf]; simp)
      cases hrow : r0 with
      | nil => rw [hrow] at hr0; simp at hr0; omega
      | cons c0 cs0 =>
        have hll := hi.ready.llen
        cases hlast : s.v.last with
        | nil => rw [hlast] at hll; simp at hll; omega
        | cons l0r lrest =>
          have hl0 : l0r.length = s.v.scr.cols.toNat := hi.ready.lcols l0r (by rw [hlast]; simp)
          cases hl0r : l0r with
          | nil => rw [hl0r] at hl0; simp at hl0; omega
          | cons l0 ls0 =>
            apply VaxisModel.Lemmas.RenderCursor.renderBody_nonempty X.cw _ hr
              (clipCell X.cw (cs0.length + 1) (X.I.cell c0)) (clipRow X.cw (cs0.map X.I.cell))
              (clipGrid X.cw (X.I.grid rest)) l0 ls0 lrest
            · simp [frameOf, Interp.grid, clipGrid, clipRow, hbuf, hrow]
            · simp [frameOf, hlast, hl0r]
            · rw [VaxisModel.Lemmas.RenderClip.clipCell_sixel]; rfl
  · exact hvis

/-- On an empty screen (no columns or no rows) a visible cursor cannot be inside the screen, so the
    application's obligation `CursorIn` means "hidden"; the frame leaves the cursor hidden. -/
theorem render_cursor_empty (X : Ctx) (s : Sys) (hi : Inv X s) (hcur : CursorIn s.v)
    (hemp : s.v.scr.cols < 1 ∨ s.v.scr.rows < 1) (hvis : s.v.cursorLast.visible = false → s.t.cursorVisible = false) :
    CursorAs (run X.cw s.t (doRender X.cw X.caps X.I s.v).2) (doRender X.cw X.caps X.I s.v).1.cursorLast := by
  have hv : s.v.cursorNext.visible = false := by
    by_cases h : s.v.cursorNext.visible = true
    · have := hcur h; omega
    · simpa using h
  rw [doRender_eq]
  simp only [VaxisModel.Lemmas.RenderClip.renderFrameC_eq]
  exact VaxisModel.Lemmas.RenderCursor.cursor_hidden X.cw X.cw
    { frameOf X.caps X.I s.v with next := clipGrid X.cw (frameOf X.caps X.I s.v).next } s.t hv hvis

/-- **The cursor clause through every step**, size changes included — to any size, an empty screen
    (0 columns or 0 rows) too. -/
theorem cursor_step_all (X : Ctx) (s : Sys) (hi : Inv X s) (hc : CurInv s) (op : SysOp) (hok : OpOk X s op) :
    CurInv (sysStep X s op) ∧
    (isFrame s op = true → CursorAs (sysStep X s op).t (sysStep X s op).v.cursorLast) := by
  have hrender : ∀ (s : Sys), Inv X s → CurInv s → CursorIn s.v →
      CursorAs (run X.cw s.t (doRender X.cw X.caps X.I s.v).2) (doRender X.cw X.caps X.I s.v).1.cursorLast := by
    intro s hi hc hcur
    rcases hc with hc | ⟨h1, h4⟩
    · exact render_cursor X s hi hcur hc
    · by_cases hne : 1 ≤ s.v.scr.cols ∧ 1 ≤ s.v.scr.rows
      · exact render_cursor_fresh X s hi hcur h1 hne.1 hne.2 h4
      · exact render_cursor_empty X s hi hcur (by omega) h4
  cases op with
  | draw d =>
    have h1 : (draw X.lib X.rm s.v d).cursorLast = s.v.cursorLast := by cases d <;> rfl
    have h2 : (draw X.lib X.rm s.v d).refresh = s.v.refresh := by cases d <;> rfl
    refine ⟨?_, fun h => absurd h (by simp [isFrame])⟩
    simp only [CurInv, sysStep, h1, h2]
    exact hc
  | render =>
    have := hrender s hi hc hok
    exact ⟨Or.inl this, fun _ => this⟩
  | refresh =>
    have hi' : Inv X { s with v := { s.v with refresh := true } } :=
      ⟨hi.wf, hi.ready, fun h => absurd h (by simp), hi.cells⟩
    have := hrender { s with v := { s.v with refresh := true } } hi'
      (by rcases hc with hc | ⟨h1, h4⟩
          · exact Or.inl hc
          · exact Or.inr ⟨rfl, h4⟩) hok
    exact ⟨Or.inl this, fun _ => this⟩
  | resize cols rows g =>
    by_cases hs : sameSize s.v cols rows = true
    · simp only [OpOk, hs, if_true] at hok
      have := hrender s hi hc hok
      simp only [sysStep, endFrame, hs, if_true, isFrame]
      exact ⟨Or.inl this, fun _ => this⟩
    · simp only [sysStep, endFrame, hs, if_false, isFrame, run, List.foldl_nil]
      refine ⟨Or.inr ⟨rfl, ?_⟩, fun h => absurd h (by simp)⟩
      intro hv
      show (resizedTerm s.t cols rows g).cursorVisible = false
      simp only [resizedTerm]
      rcases hc with hc | ⟨_, h4⟩
      · exact cursorAs_hidden s.t _ hc hv
      · exact h4 hv

end VaxisModel.Lemmas.AppSys
