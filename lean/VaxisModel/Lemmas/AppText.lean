/-
The cells the text helpers of window.go write carry the width `characterWidth` gives their grapheme
(`Meas`), provided the clusters handed in by uniseg carry that width whenever the helper does not
re-measure (`RawOk`), a space has width 1 (TAB expansion) and — for `PrintTruncate` — the ellipsis
has width 1.
-/
import VaxisModel.Model.Window
import VaxisModel.Lemmas.WindowText

namespace VaxisModel.Lemmas.AppText
open VaxisModel.Model.Window VaxisModel.Lemmas.WindowText

/-- The cell's explicit width is what `characterWidth` says about its grapheme. -/
def Meas (lib : Lib) (c : Cell) : Prop := c.w = lib.cw c.g

/-- uniseg's width agrees with `characterWidth` when the helper does not re-measure (both
    `unicodeCore` and `explicitWidth` detected: then `characterWidth` = `gwidth(unicodeStd)`). -/
def RawOk (lib : Lib) (rm : Bool) (r : Raw) : Prop := rm = false → r.uw = lib.cw r.g

def ChOk (lib : Lib) (rm : Bool) (ch : Chr) : Prop := rm = false → ch.w = lib.cw ch.g

theorem characters_ok (lib : Lib) (rm : Bool) (hsp : lib.cw gSpace = 1) (raws : List Raw)
    (h : ∀ r ∈ raws, RawOk lib rm r) : ∀ ch ∈ characters raws, ChOk lib rm ch := by
  induction raws with
  | nil => intro ch hc; simp [characters] at hc
  | cons r rest ih =>
    intro ch hc
    simp only [characters] at hc
    have ih' := ih (fun r' hr' => h r' (List.mem_cons_of_mem _ hr'))
    split at hc
    · rcases List.mem_append.1 hc with hc | hc
      · rw [List.mem_replicate] at hc
        rw [hc.2]; intro _; exact hsp.symm
      · exact ih' ch hc
    · rcases List.mem_cons.1 hc with rfl | hc
      · exact h r List.mem_cons_self
      · exact ih' ch hc

theorem measured_w (lib : Lib) (rm : Bool) (ch : Chr) (h : ChOk lib rm ch) :
    (measured lib rm ch).w = lib.cw (measured lib rm ch).g := by
  unfold measured
  cases rm with
  | true => simp
  | false => simpa using h rfl

theorem flatten_ok (lib : Lib) (rm : Bool) (hsp : lib.cw gSpace = 1) (segs : List (Nat × List Raw))
    (h : ∀ seg ∈ segs, ∀ r ∈ seg.2, RawOk lib rm r) : ∀ sc ∈ flatten segs, ChOk lib rm sc.2 := by
  intro sc hsc
  simp only [flatten, List.mem_flatMap, List.mem_map] at hsc
  obtain ⟨seg, hseg, ch, hch, rfl⟩ := hsc
  exact characters_ok lib rm hsp seg.2 (h seg hseg) ch hch

theorem printGo_meas (lib : Lib) (rm : Bool) (cols rows : Int) (l : List Styled)
    (h : ∀ sc ∈ l, ChOk lib rm sc.2) : ∀ (col row : Int), ∀ o ∈ (printGo lib rm cols rows l col row).1, Meas lib o.cell := by
  induction l with
  | nil => intro col row o ho; simp [printGo] at ho
  | cons sc rest ih =>
    obtain ⟨st, ch⟩ := sc
    have ih' := ih (fun sc' h' => h sc' (List.mem_cons_of_mem _ h'))
    intro col row o ho
    simp only [printGo] at ho
    split at ho
    · exact ih' _ _ o ho
    · split at ho
      · simp at ho
      · split at ho
        · exact ih' _ _ o ho
        · rcases List.mem_cons.1 ho with rfl | ho
          · exact measured_w lib rm ch (h (st, ch) List.mem_cons_self)
          · split at ho <;> split at ho <;> exact ih' _ _ o ho

theorem truncGo_meas (lib : Lib) (rm : Bool) (hell : lib.cw gEllipsis = 1) (cols row : Int) (l : List Styled)
    (h : ∀ sc ∈ l, ChOk lib rm sc.2) : ∀ (col : Int), ∀ o ∈ truncGo lib rm cols row l col, Meas lib o.cell := by
  induction l with
  | nil => intro col o ho; simp [truncGo] at ho
  | cons sc rest ih =>
    obtain ⟨st, ch⟩ := sc
    have ih' := ih (fun sc' h' => h sc' (List.mem_cons_of_mem _ h'))
    intro col o ho
    simp only [truncGo] at ho
    split at ho
    · simp only [List.mem_singleton] at ho
      subst ho; exact hell.symm
    · rcases List.mem_cons.1 ho with rfl | ho
      · exact measured_w lib rm ch (h (st, ch) List.mem_cons_self)
      · exact ih' _ o ho

theorem lnGo_meas (lib : Lib) (rm : Bool) (cols row : Int) (l : List Styled)
    (h : ∀ sc ∈ l, ChOk lib rm sc.2) : ∀ (col : Int), ∀ o ∈ lnGo lib rm cols row l col, Meas lib o.cell := by
  induction l with
  | nil => intro col o ho; simp [lnGo] at ho
  | cons sc rest ih =>
    obtain ⟨st, ch⟩ := sc
    have ih' := ih (fun sc' h' => h sc' (List.mem_cons_of_mem _ h'))
    intro col o ho
    simp only [lnGo] at ho
    split at ho
    · simp at ho
    · rcases List.mem_cons.1 ho with rfl | ho
      · exact measured_w lib rm ch (h (st, ch) List.mem_cons_self)
      · exact ih' _ o ho

theorem wrapChars_meas (lib : Lib) (cols : Int) (st : Nat) (l : List Chr)
    (h : ∀ ch ∈ l, ch.w = lib.cw ch.g) : ∀ (col row : Int), ∀ o ∈ (wrapChars lib cols st l col row).1, Meas lib o.cell := by
  induction l with
  | nil => intro col row o ho; simp [wrapChars] at ho
  | cons ch rest ih =>
    have ih' := ih (fun c' h' => h c' (List.mem_cons_of_mem _ h'))
    intro col row o ho
    simp only [wrapChars] at ho
    split at ho
    · exact ih' _ _ o ho
    · split at ho
      · exact ih' _ _ o ho
      · rcases List.mem_cons.1 ho with rfl | ho
        · exact h ch List.mem_cons_self
        · split at ho <;> split at ho <;> exact ih' _ _ o ho

theorem wrapSegs_meas (lib : Lib) (rm : Bool) (hsp : lib.cw gSpace = 1) (cols rows : Int) (st : Nat) (l : List (List Raw))
    (h : ∀ seg ∈ l, ∀ r ∈ seg, RawOk lib rm r) :
    ∀ (col row : Int), ∀ o ∈ (wrapSegs lib rm true cols rows st l col row).1, Meas lib o.cell := by
  induction l with
  | nil => intro col row o ho; simp [wrapSegs] at ho
  | cons seg rest ih =>
    have ih' := ih (fun s' h' => h s' (List.mem_cons_of_mem _ h'))
    intro col row o ho
    simp only [wrapSegs] at ho
    split at ho
    · simp at ho
    · simp only [if_true] at ho
      rcases List.mem_append.1 ho with ho | ho
      · refine wrapChars_meas lib cols st _ ?_ _ _ o ho
        intro ch hch
        obtain ⟨ch0, h0, rfl⟩ := List.mem_map.1 hch
        exact measured_w lib rm ch0 (characters_ok lib rm hsp seg (h seg List.mem_cons_self) ch0 h0)
      · exact ih' _ _ o ho

theorem wrapGo_meas (lib : Lib) (rm : Bool) (hsp : lib.cw gSpace = 1) (cols rows : Int) (l : List (Nat × List (List Raw)))
    (h : ∀ sg ∈ l, ∀ seg ∈ sg.2, ∀ r ∈ seg, RawOk lib rm r) :
    ∀ (col row : Int), ∀ o ∈ (wrapGo lib rm true cols rows l col row).1, Meas lib o.cell := by
  induction l with
  | nil => intro col row o ho; simp [wrapGo] at ho
  | cons sg rest ih =>
    obtain ⟨st, lsegs⟩ := sg
    have ih' := ih (fun s' h' => h s' (List.mem_cons_of_mem _ h'))
    intro col row o ho
    simp only [wrapGo] at ho
    rcases List.mem_append.1 ho with ho | ho
    · exact wrapSegs_meas lib rm hsp cols rows st lsegs (h (st, lsegs) List.mem_cons_self) _ _ o ho
    · exact ih' _ _ o ho

end VaxisModel.Lemmas.AppText
