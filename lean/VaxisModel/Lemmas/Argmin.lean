import VaxisModel.Model.Color

namespace VaxisModel.Lemmas
open VaxisModel.Model.Color

/-- What it means for `(i, s)` to be a minimiser of `f` over `l`. -/
def IsArgmin (f : Nat → Nat) (l : List Nat) (i s : Nat) : Prop :=
  (∃ v, l[i]? = some v ∧ s = f v) ∧ ∀ v' ∈ l, s ≤ f v'

theorem argminFrom_some (f : Nat → Nat) :
    ∀ (vs pre : List Nat) (bi bs : Nat), IsArgmin f pre bi bs →
      ∃ i s, argminFrom f vs pre.length (some (bi, bs)) = some (i, s) ∧ IsArgmin f (pre ++ vs) i s := by
  intro vs
  induction vs with
  | nil =>
    intro pre bi bs h
    exact ⟨bi, bs, by simp [argminFrom], by simpa using h⟩
  | cons v vs ih =>
    intro pre bi bs h
    obtain ⟨⟨v0, hv0, hs0⟩, hmin⟩ := h
    have hbi : bi < pre.length := by
      rcases Nat.lt_or_ge bi pre.length with h | h
      · exact h
      · rw [List.getElem?_eq_none h] at hv0; cases hv0
    unfold argminFrom
    split
    · -- new best
      rename_i hlt
      have h' : IsArgmin f (pre ++ [v]) pre.length (f v) := by
        refine ⟨⟨v, by simp, rfl⟩, ?_⟩
        intro v' hv'
        rw [List.mem_append] at hv'
        rcases hv' with hv' | hv'
        · exact Nat.le_trans (Nat.le_of_lt hlt) (hmin v' hv')
        · simp at hv'; subst hv'; exact Nat.le_refl _
      have := ih (pre ++ [v]) pre.length (f v) h'
      simpa [List.length_append, List.append_assoc] using this
    · rename_i hge
      have h' : IsArgmin f (pre ++ [v]) bi bs := by
        refine ⟨⟨v0, ?_, hs0⟩, ?_⟩
        · rw [List.getElem?_append_left hbi]; exact hv0
        · intro v' hv'
          rw [List.mem_append] at hv'
          rcases hv' with hv' | hv'
          · exact hmin v' hv'
          · simp at hv'; subst hv'; exact Nat.le_of_not_lt hge
      have := ih (pre ++ [v]) bi bs h'
      simpa [List.length_append, List.append_assoc] using this

theorem argmin_spec (f : Nat → Nat) (l : List Nat) (hne : l ≠ []) :
    ∃ i s, argmin f l = some (i, s) ∧ IsArgmin f l i s := by
  cases l with
  | nil => exact absurd rfl hne
  | cons v vs =>
    have h0 : IsArgmin f [v] 0 (f v) := ⟨⟨v, by simp, rfl⟩, by intro v' hv'; simp at hv'; subst hv'; exact Nat.le_refl _⟩
    have := argminFrom_some f vs [v] 0 (f v) h0
    simpa [argmin, argminFrom] using this

theorem argmin_index_lt (f : Nat → Nat) (l : List Nat) (i s : Nat) (h : IsArgmin f l i s) : i < l.length := by
  obtain ⟨⟨v, hv, _⟩, _⟩ := h
  rcases Nat.lt_or_ge i l.length with h | h
  · exact h
  · rw [List.getElem?_eq_none h] at hv; cases hv

end VaxisModel.Lemmas
