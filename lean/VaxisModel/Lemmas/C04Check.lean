/-
The guard variables of Gen/Modes.lean and their 2^9 assignments (`envOf m`), shared by the C04 checkers
(`Lemmas/C04SymCheck.lean`, where the run-time values are symbolic) and C07's gating checkers
(`Lemmas/C07Gate.lean`, which evaluate at the representative values below).
-/
import VaxisModel.Model.Lifecycle
import VaxisModel.Spec.ModeTerm

namespace VaxisModel.Lemmas.C04Check
open VaxisModel.Model.Lifecycle VaxisModel.Model.Render VaxisModel.Spec.ModeTerm

/-- The guard variables (capabilities / options) that occur in the start-up and shutdown functions. -/
def vars : List String :=
  ["caps.kittyKeyboard", "caps.sixels", "caps.unicodeCore", "caps.explicitWidth", "caps.colorThemeUpdates",
   "caps.inBandResize", "caps.osc176", "caps.synchronizedUpdate", "disableMouse"]

def numEnvs : Nat := 2 ^ vars.length

/-- Assignment number `m`: bit `i` of `m` is the value of `vars[i]`; every other variable is false. -/
def envOf (m : Nat) : Env :=
  { v := fun n => match vars.idxOf? n with | some i => (m / 2 ^ i) % 2 == 1 | none => false
    kittyFlags := 1, userCursorStyle := 3, appId := "app" }

/-- The terminal before Vaxis starts: it implements exactly the optional modes it advertises. -/
def t0Of (e : Env) : MTerm :=
  { supported := (if e.v "caps.synchronizedUpdate" then [2026] else []) ++ (if e.v "caps.unicodeCore" then [2027] else []) ++
      (if e.v "caps.colorThemeUpdates" then [2031] else []) ++ (if e.v "caps.inBandResize" then [2048] else []) ++
      (if e.v "caps.sixels" then [8452] else [])
    kittySupported := e.v "caps.kittyKeyboard"
    appIdSupported := e.v "caps.osc176"
    appId := "617070"
    cursorShape := e.userCursorStyle }

end VaxisModel.Lemmas.C04Check
