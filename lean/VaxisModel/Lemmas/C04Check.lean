/-
Executable checkers for C04 (evaluated by `decide +kernel` over all assignments of the guard
variables that occur in Gen/Modes.lean; chunked over several modules so they build in parallel).
-/
import VaxisModel.Model.Lifecycle
import VaxisModel.Spec.ModeTerm

namespace VaxisModel.Lemmas.C04Check
open VaxisModel.Model.Lifecycle VaxisModel.Model.Render VaxisModel.Spec.ModeTerm

/-- The guard variables (capabilities / options) that occur in the start-up and shutdown functions. -/
def vars : List String :=
  ["caps.kittyKeyboard", "caps.sixels", "caps.unicodeCore", "caps.explicitWidth", "caps.colorThemeUpdates",
   "caps.inBandResize", "caps.osc176", "caps.synchronizedUpdate", "disableMouse"]

def numEnvs : Nat := 2 ^ vars.length

/-- Assignment number `m`: bit `i` of `m` is the value of `vars[i]`; every other variable is false. -/
def envOf (m : Nat) : Env :=
  { v := fun n => match vars.idxOf? n with | some i => (m / 2 ^ i) % 2 == 1 | none => false
    kittyFlags := 1, userCursorStyle := 3, appId := "app" }

/-- The terminal before Vaxis starts: it implements exactly the optional modes it advertises. -/
def t0Of (e : Env) : MTerm :=
  { supported := (if e.v "caps.synchronizedUpdate" then [2026] else []) ++ (if e.v "caps.unicodeCore" then [2027] else []) ++
      (if e.v "caps.colorThemeUpdates" then [2031] else []) ++ (if e.v "caps.inBandResize" then [2048] else []) ++
      (if e.v "caps.sixels" then [8452] else [])
    kittySupported := e.v "caps.kittyKeyboard"
    appIdSupported := e.v "caps.osc176"
    appId := "617070"
    cursorShape := e.userCursorStyle }

/-- What frames may have left behind when shutdown starts: a pointer shape, a cursor shape, the
    cursor shown or hidden as last rendered. -/
def midToks (clv : Bool) : List Tok :=
  [.pointer "78", .cursorStyle 5, if clv then .decset 25 else .decrst 25]

def appCursor (vis : Bool) : CursorState := { row := 1, col := 1, style := 5, visible := vis }

/-- start-up · (some frames) · Close restores everything, for assignment `m` and the cursor flags. -/
def balancedB (m : Nat) (cnv clv : Bool) : Bool :=
  let e := envOf m
  let w1 := startupW e
  let w2 := closeW e false { w1 with wire := [], cn := appCursor cnv, cl := appCursor clv }
  restored (t0Of e) (run (t0Of e) (w1.wire ++ midToks clv ++ w2.wire))

/-- start-up · Suspend restores everything; Resume then re-establishes exactly the start-up state. -/
def resumeB (m : Nat) (cnv clv : Bool) : Bool :=
  let e := envOf m
  let t0 := t0Of e
  let w1 := startupW e
  let t1 := run t0 w1.wire
  let w2 := suspendW e { w1 with wire := [], cn := appCursor cnv, cl := appCursor clv }
  let t2 := run (run t1 (midToks clv)) w2.wire
  let w3 := resumeW e { w2 with wire := [] }
  let t3 := run t2 w3.wire
  restored t0 t2 && (t3.modes.all fun (n, v) => modeVal t1 n == v) && (t1.modes.all fun (n, v) => modeVal t3 n == v) &&
  t3.alt == t1.alt && t3.kitty == t1.kitty && t3.keypadApp == t1.keypadApp && t3.cursorVisible == t1.cursorVisible

def chunkB (f : Nat → Bool → Bool → Bool) (lo hi : Nat) : Bool :=
  (List.range (hi - lo)).all fun k => f (lo + k) false false && f (lo + k) false true && f (lo + k) true false && f (lo + k) true true

end VaxisModel.Lemmas.C04Check
