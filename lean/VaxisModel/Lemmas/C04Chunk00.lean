/- Chunk 0 of the exhaustive C04 check: guard assignments 0 ≤ m < 32, all four cursor-flag
   combinations, evaluated by the kernel (`decide +kernel`) on the lists regenerated from vaxis.go. -/
import VaxisModel.Lemmas.C04Check

namespace VaxisModel.Lemmas.C04Check

set_option maxRecDepth 100000 in
theorem balanced_chunk00 : chunkB balancedB 0 32 = true := by decide +kernel

set_option maxRecDepth 100000 in
theorem resume_chunk00 : chunkB resumeB 0 32 = true := by decide +kernel

end VaxisModel.Lemmas.C04Check
