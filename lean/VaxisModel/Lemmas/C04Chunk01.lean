/- Chunk 1 of the exhaustive C04 check: guard assignments 32 ≤ m < 64, all four cursor-flag
   combinations, evaluated by the kernel (`decide +kernel`) on the lists regenerated from vaxis.go. -/
import VaxisModel.Lemmas.C04Check

namespace VaxisModel.Lemmas.C04Check

set_option maxRecDepth 100000 in
theorem balanced_chunk01 : chunkB balancedB 32 64 = true := by decide +kernel

set_option maxRecDepth 100000 in
theorem resume_chunk01 : chunkB resumeB 32 64 = true := by decide +kernel

end VaxisModel.Lemmas.C04Check
