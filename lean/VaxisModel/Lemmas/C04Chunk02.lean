/- Chunk 2 of the exhaustive C04 check: guard assignments 64 ≤ m < 96, all four cursor-flag
   combinations, evaluated by the kernel (`decide +kernel`) on the lists regenerated from vaxis.go. -/
import VaxisModel.Lemmas.C04Check

namespace VaxisModel.Lemmas.C04Check

set_option maxRecDepth 100000 in
theorem balanced_chunk02 : chunkB balancedB 64 96 = true := by decide +kernel

set_option maxRecDepth 100000 in
theorem resume_chunk02 : chunkB resumeB 64 96 = true := by decide +kernel

end VaxisModel.Lemmas.C04Check
