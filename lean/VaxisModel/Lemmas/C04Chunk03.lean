/- Chunk 3 of the exhaustive C04 check: guard assignments 96 ≤ m < 128, all four cursor-flag
   combinations, evaluated by the kernel (`decide +kernel`) on the lists regenerated from vaxis.go. -/
import VaxisModel.Lemmas.C04Check

namespace VaxisModel.Lemmas.C04Check

set_option maxRecDepth 100000 in
theorem balanced_chunk03 : chunkB balancedB 96 128 = true := by decide +kernel

set_option maxRecDepth 100000 in
theorem resume_chunk03 : chunkB resumeB 96 128 = true := by decide +kernel

end VaxisModel.Lemmas.C04Check
