/- Chunk 4 of the exhaustive C04 check: guard assignments 128 ≤ m < 160, all four cursor-flag
   combinations, evaluated by the kernel (`decide +kernel`) on the lists regenerated from vaxis.go. -/
import VaxisModel.Lemmas.C04Check

namespace VaxisModel.Lemmas.C04Check

set_option maxRecDepth 100000 in
theorem balanced_chunk04 : chunkB balancedB 128 160 = true := by decide +kernel

set_option maxRecDepth 100000 in
theorem resume_chunk04 : chunkB resumeB 128 160 = true := by decide +kernel

end VaxisModel.Lemmas.C04Check
