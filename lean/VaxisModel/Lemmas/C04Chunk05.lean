/- Chunk 5 of the exhaustive C04 check: guard assignments 160 ≤ m < 192, all four cursor-flag
   combinations, evaluated by the kernel (`decide +kernel`) on the lists regenerated from vaxis.go. -/
import VaxisModel.Lemmas.C04Check

namespace VaxisModel.Lemmas.C04Check

set_option maxRecDepth 100000 in
theorem balanced_chunk05 : chunkB balancedB 160 192 = true := by decide +kernel

set_option maxRecDepth 100000 in
theorem resume_chunk05 : chunkB resumeB 160 192 = true := by decide +kernel

end VaxisModel.Lemmas.C04Check
