/- Chunk 6 of the exhaustive C04 check: guard assignments 192 ≤ m < 224, all four cursor-flag
   combinations, evaluated by the kernel (`decide +kernel`) on the lists regenerated from vaxis.go. -/
import VaxisModel.Lemmas.C04Check

namespace VaxisModel.Lemmas.C04Check

set_option maxRecDepth 100000 in
theorem balanced_chunk06 : chunkB balancedB 192 224 = true := by decide +kernel

set_option maxRecDepth 100000 in
theorem resume_chunk06 : chunkB resumeB 192 224 = true := by decide +kernel

end VaxisModel.Lemmas.C04Check
