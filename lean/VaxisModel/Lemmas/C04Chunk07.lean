/- Chunk 7 of the exhaustive C04 check: guard assignments 224 ≤ m < 256, all four cursor-flag
   combinations, evaluated by the kernel (`decide +kernel`) on the lists regenerated from vaxis.go. -/
import VaxisModel.Lemmas.C04Check

namespace VaxisModel.Lemmas.C04Check

set_option maxRecDepth 100000 in
theorem balanced_chunk07 : chunkB balancedB 224 256 = true := by decide +kernel

set_option maxRecDepth 100000 in
theorem resume_chunk07 : chunkB resumeB 224 256 = true := by decide +kernel

end VaxisModel.Lemmas.C04Check
