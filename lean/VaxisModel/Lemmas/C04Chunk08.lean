/- Chunk 8 of the exhaustive C04 check: guard assignments 256 ≤ m < 288, all four visibility-flag
   combinations of the two cursor records, evaluated by the kernel (`decide +kernel`) on the *symbolic*
   lifecycle (run-time values are holes) interpreted from the lists regenerated from vaxis.go. -/
import VaxisModel.Lemmas.C04SymCheck

namespace VaxisModel.Lemmas.C04SymCheck

set_option maxRecDepth 100000 in
theorem sym_chunk08 : chunkB 256 288 = true := by decide +kernel

end VaxisModel.Lemmas.C04SymCheck
