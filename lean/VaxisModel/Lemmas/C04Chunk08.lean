/- Chunk 8 of the exhaustive C04 check: guard assignments 256 ≤ m < 288, all four cursor-flag
   combinations, evaluated by the kernel (`decide +kernel`) on the lists regenerated from vaxis.go. -/
import VaxisModel.Lemmas.C04Check

namespace VaxisModel.Lemmas.C04Check

set_option maxRecDepth 100000 in
theorem balanced_chunk08 : chunkB balancedB 256 288 = true := by decide +kernel

set_option maxRecDepth 100000 in
theorem resume_chunk08 : chunkB resumeB 256 288 = true := by decide +kernel

end VaxisModel.Lemmas.C04Check
