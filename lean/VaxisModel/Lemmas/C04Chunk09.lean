/- Chunk 9 of the exhaustive C04 check: guard assignments 288 ≤ m < 320, all four cursor-flag
   combinations, evaluated by the kernel (`decide +kernel`) on the lists regenerated from vaxis.go. -/
import VaxisModel.Lemmas.C04Check

namespace VaxisModel.Lemmas.C04Check

set_option maxRecDepth 100000 in
theorem balanced_chunk09 : chunkB balancedB 288 320 = true := by decide +kernel

set_option maxRecDepth 100000 in
theorem resume_chunk09 : chunkB resumeB 288 320 = true := by decide +kernel

end VaxisModel.Lemmas.C04Check
