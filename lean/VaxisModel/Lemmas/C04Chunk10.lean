/- Chunk 10 of the exhaustive C04 check: guard assignments 320 ≤ m < 352, all four cursor-flag
   combinations, evaluated by the kernel (`decide +kernel`) on the lists regenerated from vaxis.go. -/
import VaxisModel.Lemmas.C04Check

namespace VaxisModel.Lemmas.C04Check

set_option maxRecDepth 100000 in
theorem balanced_chunk10 : chunkB balancedB 320 352 = true := by decide +kernel

set_option maxRecDepth 100000 in
theorem resume_chunk10 : chunkB resumeB 320 352 = true := by decide +kernel

end VaxisModel.Lemmas.C04Check
