/- Chunk 11 of the exhaustive C04 check: guard assignments 352 ≤ m < 384, all four cursor-flag
   combinations, evaluated by the kernel (`decide +kernel`) on the lists regenerated from vaxis.go. -/
import VaxisModel.Lemmas.C04Check

namespace VaxisModel.Lemmas.C04Check

set_option maxRecDepth 100000 in
theorem balanced_chunk11 : chunkB balancedB 352 384 = true := by decide +kernel

set_option maxRecDepth 100000 in
theorem resume_chunk11 : chunkB resumeB 352 384 = true := by decide +kernel

end VaxisModel.Lemmas.C04Check
