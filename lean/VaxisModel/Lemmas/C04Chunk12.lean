/- Chunk 12 of the exhaustive C04 check: guard assignments 384 ≤ m < 416, all four cursor-flag
   combinations, evaluated by the kernel (`decide +kernel`) on the lists regenerated from vaxis.go. -/
import VaxisModel.Lemmas.C04Check

namespace VaxisModel.Lemmas.C04Check

set_option maxRecDepth 100000 in
theorem balanced_chunk12 : chunkB balancedB 384 416 = true := by decide +kernel

set_option maxRecDepth 100000 in
theorem resume_chunk12 : chunkB resumeB 384 416 = true := by decide +kernel

end VaxisModel.Lemmas.C04Check
