/- Chunk 13 of the exhaustive C04 check: guard assignments 416 ≤ m < 448, all four cursor-flag
   combinations, evaluated by the kernel (`decide +kernel`) on the lists regenerated from vaxis.go. -/
import VaxisModel.Lemmas.C04Check

namespace VaxisModel.Lemmas.C04Check

set_option maxRecDepth 100000 in
theorem balanced_chunk13 : chunkB balancedB 416 448 = true := by decide +kernel

set_option maxRecDepth 100000 in
theorem resume_chunk13 : chunkB resumeB 416 448 = true := by decide +kernel

end VaxisModel.Lemmas.C04Check
