/- Chunk 14 of the exhaustive C04 check: guard assignments 448 ≤ m < 480, all four cursor-flag
   combinations, evaluated by the kernel (`decide +kernel`) on the lists regenerated from vaxis.go. -/
import VaxisModel.Lemmas.C04Check

namespace VaxisModel.Lemmas.C04Check

set_option maxRecDepth 100000 in
theorem balanced_chunk14 : chunkB balancedB 448 480 = true := by decide +kernel

set_option maxRecDepth 100000 in
theorem resume_chunk14 : chunkB resumeB 448 480 = true := by decide +kernel

end VaxisModel.Lemmas.C04Check
