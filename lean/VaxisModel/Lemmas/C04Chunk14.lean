/- Chunk 14 of the exhaustive C04 check: guard assignments 448 ≤ m < 480, all four visibility-flag
   combinations of the two cursor records, evaluated by the kernel (`decide +kernel`) on the *symbolic*
   lifecycle (run-time values are holes) interpreted from the lists regenerated from vaxis.go. -/
import VaxisModel.Lemmas.C04SymCheck

namespace VaxisModel.Lemmas.C04SymCheck

set_option maxRecDepth 100000 in
theorem sym_chunk14 : chunkB 448 480 = true := by decide +kernel

end VaxisModel.Lemmas.C04SymCheck
