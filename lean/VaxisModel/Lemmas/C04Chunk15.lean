/- Chunk 15 of the exhaustive C04 check: guard assignments 480 ≤ m < 512, all four cursor-flag
   combinations, evaluated by the kernel (`decide +kernel`) on the lists regenerated from vaxis.go. -/
import VaxisModel.Lemmas.C04Check

namespace VaxisModel.Lemmas.C04Check

set_option maxRecDepth 100000 in
theorem balanced_chunk15 : chunkB balancedB 480 512 = true := by decide +kernel

set_option maxRecDepth 100000 in
theorem resume_chunk15 : chunkB resumeB 480 512 = true := by decide +kernel

end VaxisModel.Lemmas.C04Check
