/- Chunk 4 of the failed-start-up check of C04: guard assignments 256 ≤ m < 320; `New` failing at the
   error exit of reportWinsize (regenerated `Gen.Modes.newSequence`) leaves the symbolic mode terminal restored. -/
import VaxisModel.Lemmas.C04StartFail

namespace VaxisModel.Lemmas.C04SymCheck

set_option maxRecDepth 100000 in
theorem fail_chunk4 : failChunkB 256 320 = true := by decide +kernel

end VaxisModel.Lemmas.C04SymCheck
