/-
C04 — the guard assignments `m < 512` of the chunk proofs are exactly the Boolean functions on the
nine guard variables: every `v : String → Bool` that is false outside `C04Check.vars` equals
`vOf (mOf v)`.  So the statements over `m` are statements over all capability / option sets.
-/
import VaxisModel.Lemmas.C04SymCheck

namespace VaxisModel.Lemmas.C04Guards
open VaxisModel.Lemmas.C04Check VaxisModel.Lemmas.C04SymCheck

def wt (b : Bool) (k : Nat) : Nat := if b then k else 0

theorem wt_le (b : Bool) (k : Nat) : wt b k ≤ k := by unfold wt; split <;> omega

/-- The number of the assignment `v` (bit `i` = value of `vars[i]`). -/
def mOf (v : String → Bool) : Nat :=
  wt (v "caps.kittyKeyboard") 1 + wt (v "caps.sixels") 2 + wt (v "caps.unicodeCore") 4 + wt (v "caps.explicitWidth") 8 +
  wt (v "caps.colorThemeUpdates") 16 + wt (v "caps.inBandResize") 32 + wt (v "caps.osc176") 64 +
  wt (v "caps.synchronizedUpdate") 128 + wt (v "disableMouse") 256

theorem mOf_lt (v : String → Bool) : mOf v < 512 := by
  unfold mOf
  have h0 := wt_le (v "caps.kittyKeyboard") 1
  have h1 := wt_le (v "caps.sixels") 2
  have h2 := wt_le (v "caps.unicodeCore") 4
  have h3 := wt_le (v "caps.explicitWidth") 8
  have h4 := wt_le (v "caps.colorThemeUpdates") 16
  have h5 := wt_le (v "caps.inBandResize") 32
  have h6 := wt_le (v "caps.osc176") 64
  have h7 := wt_le (v "caps.synchronizedUpdate") 128
  have h8 := wt_le (v "disableMouse") 256
  omega

private theorem bits (b0 b1 b2 b3 b4 b5 b6 b7 b8 : Bool) :
    let m := wt b0 1 + wt b1 2 + wt b2 4 + wt b3 8 + wt b4 16 + wt b5 32 + wt b6 64 + wt b7 128 + wt b8 256
    ((m / 2 ^ 0) % 2 == 1) = b0 ∧ ((m / 2 ^ 1) % 2 == 1) = b1 ∧ ((m / 2 ^ 2) % 2 == 1) = b2 ∧ ((m / 2 ^ 3) % 2 == 1) = b3 ∧
    ((m / 2 ^ 4) % 2 == 1) = b4 ∧ ((m / 2 ^ 5) % 2 == 1) = b5 ∧ ((m / 2 ^ 6) % 2 == 1) = b6 ∧ ((m / 2 ^ 7) % 2 == 1) = b7 ∧
    ((m / 2 ^ 8) % 2 == 1) = b8 := by
  revert b0 b1 b2 b3 b4 b5 b6 b7 b8
  decide

/-- Every guard function that is false outside the nine guard variables is one of the 512 assignments. -/
theorem v_eq (v : String → Bool) (hv : ∀ n, n ∉ vars → v n = false) : v = vOf (mOf v) := by
  funext n
  by_cases hn : n ∈ vars
  · have hb := bits (v "caps.kittyKeyboard") (v "caps.sixels") (v "caps.unicodeCore") (v "caps.explicitWidth")
      (v "caps.colorThemeUpdates") (v "caps.inBandResize") (v "caps.osc176") (v "caps.synchronizedUpdate") (v "disableMouse")
    simp only at hb
    obtain ⟨a0, a1, a2, a3, a4, a5, a6, a7, a8⟩ := hb
    simp only [vars, List.mem_cons, List.mem_nil_iff, or_false] at hn
    rcases hn with rfl | rfl | rfl | rfl | rfl | rfl | rfl | rfl | rfl
    · show _ = (match vars.idxOf? "caps.kittyKeyboard" with | some i => (mOf v / 2 ^ i) % 2 == 1 | none => false)
      rw [show vars.idxOf? "caps.kittyKeyboard" = some 0 by decide]; exact a0.symm
    · show _ = (match vars.idxOf? "caps.sixels" with | some i => (mOf v / 2 ^ i) % 2 == 1 | none => false)
      rw [show vars.idxOf? "caps.sixels" = some 1 by decide]; exact a1.symm
    · show _ = (match vars.idxOf? "caps.unicodeCore" with | some i => (mOf v / 2 ^ i) % 2 == 1 | none => false)
      rw [show vars.idxOf? "caps.unicodeCore" = some 2 by decide]; exact a2.symm
    · show _ = (match vars.idxOf? "caps.explicitWidth" with | some i => (mOf v / 2 ^ i) % 2 == 1 | none => false)
      rw [show vars.idxOf? "caps.explicitWidth" = some 3 by decide]; exact a3.symm
    · show _ = (match vars.idxOf? "caps.colorThemeUpdates" with | some i => (mOf v / 2 ^ i) % 2 == 1 | none => false)
      rw [show vars.idxOf? "caps.colorThemeUpdates" = some 4 by decide]; exact a4.symm
    · show _ = (match vars.idxOf? "caps.inBandResize" with | some i => (mOf v / 2 ^ i) % 2 == 1 | none => false)
      rw [show vars.idxOf? "caps.inBandResize" = some 5 by decide]; exact a5.symm
    · show _ = (match vars.idxOf? "caps.osc176" with | some i => (mOf v / 2 ^ i) % 2 == 1 | none => false)
      rw [show vars.idxOf? "caps.osc176" = some 6 by decide]; exact a6.symm
    · show _ = (match vars.idxOf? "caps.synchronizedUpdate" with | some i => (mOf v / 2 ^ i) % 2 == 1 | none => false)
      rw [show vars.idxOf? "caps.synchronizedUpdate" = some 7 by decide]; exact a7.symm
    · show _ = (match vars.idxOf? "disableMouse" with | some i => (mOf v / 2 ^ i) % 2 == 1 | none => false)
      rw [show vars.idxOf? "disableMouse" = some 8 by decide]; exact a8.symm
  · rw [hv n hn]
    show false = (match vars.idxOf? n with | some i => (mOf v / 2 ^ i) % 2 == 1 | none => false)
    rw [List.idxOf?_eq_none_iff.mpr hn]

end VaxisModel.Lemmas.C04Guards
