/-
C04 — small unfolding lemmas about the lifecycle interpreter on an arbitrary writer state
(early returns, calls without output), used for the statements that hold for every state
(`close_idempotent`, Suspend while suspended).
-/
import VaxisModel.Model.Lifecycle

namespace VaxisModel.Lemmas.C04Interp
open VaxisModel.Model.Lifecycle VaxisModel.Model.Render VaxisModel.Gen.Modes

/-- A `return` under a true guard ends the function. -/
theorem interpS_return (v : String → Bool) (fuel : Nat) (g : G) (src : String) (rest : List S) (w : SSt)
    (hs : src.startsWith "return" = true) (hg : evalV (guardEnv v w) g = true) :
    interpS v (fuel + 1) (.other g src :: rest) w = w := by
  rw [interpS]
  simp only [hs, hg, Bool.and_self, if_true]

/-- A call of something that writes nothing (locks, parser, console) is skipped. -/
theorem interpS_call_none (v : String → Bool) (fuel : Nat) (g : G) (f : String) (rest : List S) (w : SSt)
    (hf : (f = "HideCursor") = False) (ht : table f = none) :
    interpS v (fuel + 1) (.call g f :: rest) w = interpS v fuel rest w := by
  rw [interpS]
  simp only [hf, ht, if_false, Bool.false_eq_true]
  split <;> rfl

theorem guard_closed (v : String → Bool) (w : SSt) : evalV (guardEnv v w) (.v "closed") = w.closed := by
  simp [evalV, guardEnv]

theorem guard_suspended (v : String → Bool) (w : SSt) : evalV (guardEnv v w) (.v "suspended") = w.suspended := by
  simp [evalV, guardEnv]

theorem inst_tok (e : Env) (cn cl : CursorState) (l : List Tok) : (l.map Item.tok).flatMap (inst e cn cl) = l := by
  induction l with
  | nil => rfl
  | cons a rest ih => simp [List.flatMap_cons, inst, ih]

/-- Nothing is written by an interpreter run that returns its input state. -/
theorem concW_absW (e : Env) (w : WSt) : (concW e w (absW w)).wire = w.wire ∧ (concW e w (absW w)).buf = w.buf := by
  simp [concW, absW, inst_tok]

/-- A call of one of the interpreted functions runs its body. -/
theorem interpS_call_table (v : String → Bool) (fuel : Nat) (f : String) (body rest : List S) (w : SSt)
    (hf : (f = "HideCursor") = False) (ht : table f = some body) :
    interpS v (fuel + 1) (.call .tt f :: rest) w = interpS v fuel rest (interpS v fuel body w) := by
  rw [interpS]
  simp only [hf, ht, evalV, if_false, Bool.false_eq_true, Bool.not_true]

/-- `panic(err)` writes nothing. -/
theorem interpS_panic (v : String → Bool) (fuel : Nat) (rest : List S) (w : SSt) :
    interpS v (fuel + 1) (.other .tt "panic(err)" :: rest) w = interpS v fuel rest w := by
  have h : "panic(err)".startsWith "return" = false := by decide +kernel
  rw [interpS]
  simp [h]

/-- The kill-signal arm `vx.Close(); return` is `Close`. -/
theorem signal_arm_close (v : String → Bool) (l : List S) (w : SSt) (hl : l = [.call .tt "Close", .other .tt "return"]) :
    interpS v 65 l w = interpS v 64 close w := by
  subst hl
  rw [interpS_call_table v 64 "Close" close _ w (by decide) (by decide +kernel)]
  exact interpS_return v 63 _ _ _ _ (by decide +kernel) rfl

/-- The recover handler `vx.Close(); panic(err)` is `Close` as far as the terminal is concerned. -/
theorem recover_close (v : String → Bool) (l : List S) (w : SSt) (hl : l = [.call .tt "Close", .other .tt "panic(err)"]) :
    interpS v 65 l w = interpS v 64 close w := by
  subst hl
  rw [interpS_call_table v 64 "Close" close _ w (by decide) (by decide +kernel)]
  rw [interpS_panic]
  rfl

/-- **Suspend while suspended** takes the early return: nothing is written, no state changes. -/
theorem suspend_suspended (v : String → Bool) (w : SSt) (h : w.suspended = true) : interpS v 64 suspend w = w := by
  unfold suspend
  exact interpS_return v 63 _ _ _ w (by decide +kernel) (by rw [guard_suspended]; exact h)

/-- **Close when closed** takes the early return (after taking and releasing the lock). -/
theorem close_closed (v : String → Bool) (w : SSt) (h : w.closed = true) : interpS v 64 close w = w := by
  unfold close
  rw [interpS_call_none v 63 _ _ _ w (by decide) (by decide +kernel)]
  rw [interpS_call_none v 62 _ _ _ w (by decide) (by decide +kernel)]
  exact interpS_return v 61 _ _ _ w (by decide +kernel) (by rw [guard_closed]; exact h)

end VaxisModel.Lemmas.C04Interp
