/-
C04 — small unfolding lemmas about the lifecycle interpreter on an arbitrary writer state
(early returns, calls without output), used for the statements that hold for every state
(`close_idempotent`, Suspend while suspended).
-/
import VaxisModel.Model.Lifecycle

namespace VaxisModel.Lemmas.C04Interp
open VaxisModel.Model.Lifecycle VaxisModel.Model.Render VaxisModel.Gen.Modes

/-- A `return` under a true guard ends the function. -/
theorem interpS_return (v : String → Bool) (fuel : Nat) (g : G) (src : String) (rest : List S) (w : SSt)
    (hs : src.startsWith "return" = true) (hg : evalV (guardEnv v w) g = true) :
    interpS v (fuel + 1) (.other g src :: rest) w = w := by
  rw [interpS]
  simp only [hs, hg, Bool.and_self, if_true]

/-- A call of something that writes nothing (locks, parser, console) is skipped. -/
theorem interpS_call_none (v : String → Bool) (fuel : Nat) (g : G) (f : String) (rest : List S) (w : SSt)
    (hf : (f = "HideCursor") = False) (ht : table f = none) :
    interpS v (fuel + 1) (.call g f :: rest) w = interpS v fuel rest w := by
  rw [interpS]
  simp only [hf, ht, if_false, Bool.false_eq_true]
  split <;> rfl

theorem guard_closed (v : String → Bool) (w : SSt) : evalV (guardEnv v w) (.v "closed") = w.closed := by
  simp [evalV, guardEnv]

theorem guard_suspended (v : String → Bool) (w : SSt) : evalV (guardEnv v w) (.v "suspended") = w.suspended := by
  simp [evalV, guardEnv]

theorem inst_tok (e : Env) (cn cl : CursorState) (l : List Tok) : (l.map Item.tok).flatMap (inst e cn cl) = l := by
  induction l with
  | nil => rfl
  | cons a rest ih => simp [List.flatMap_cons, inst, ih]

/-- Nothing is written by an interpreter run that returns its input state. -/
theorem concW_absW (e : Env) (w : WSt) : (concW e w (absW w)).wire = w.wire ∧ (concW e w (absW w)).buf = w.buf := by
  simp [concW, absW, inst_tok]

/-- A call of one of the interpreted functions runs its body. -/
theorem interpS_call_table (v : String → Bool) (fuel : Nat) (f : String) (body rest : List S) (w : SSt)
    (hf : (f = "HideCursor") = False) (ht : table f = some body) :
    interpS v (fuel + 1) (.call .tt f :: rest) w = interpS v fuel rest (interpS v fuel body w) := by
  rw [interpS]
  simp only [hf, ht, evalV, if_false, Bool.false_eq_true, Bool.not_true]

/-- `panic(err)` writes nothing. -/
theorem interpS_panic (v : String → Bool) (fuel : Nat) (rest : List S) (w : SSt) :
    interpS v (fuel + 1) (.other .tt "panic(err)" :: rest) w = interpS v fuel rest w := by
  have h : "panic(err)".startsWith "return" = false := by decide +kernel
  rw [interpS]
  simp [h]

/-- The kill-signal arm `vx.Close(); return` is `Close`. -/
theorem signal_arm_close (v : String → Bool) (l : List S) (w : SSt) (hl : l = [.call .tt "Close", .other .tt "return"]) :
    interpS v 65 l w = interpS v 64 close w := by
  subst hl
  rw [interpS_call_table v 64 "Close" close _ w (by decide) (by decide +kernel)]
  exact interpS_return v 63 _ _ _ _ (by decide +kernel) rfl

/-- The recover handler `vx.Close(); panic(err)` is `Close` as far as the terminal is concerned. -/
theorem recover_close (v : String → Bool) (l : List S) (w : SSt) (hl : l = [.call .tt "Close", .other .tt "panic(err)"]) :
    interpS v 65 l w = interpS v 64 close w := by
  subst hl
  rw [interpS_call_table v 64 "Close" close _ w (by decide) (by decide +kernel)]
  rw [interpS_panic]
  rfl

/-- `.other` statements the interpreter gives no effect. -/
def neutralOther (src : String) : Bool :=
  !src.startsWith "return" && decide (src ≠ "_, col := vx.CursorPosition()") &&
  decide (src ≠ "vx.cursorLast.style = vx.userCursorStyle") && decide (src ≠ "err := vx.openTty(tgts)") &&
  decide (src ≠ "vx.suspended = true") && decide (src ≠ "vx.suspended = false") && decide (src ≠ "vx.closed = true")

/-- The statement list starts — after statements without effect on the writer (locks, hooks, logging,
    calls of functions that write nothing, defers) — with a `return` guarded by exactly the flag `flag`. -/
def returnsEarly (flag : String) : List S → Bool
  | [] => false
  | .other g src :: rest =>
      if src.startsWith "return" then g == .v flag else neutralOther src && returnsEarly flag rest
  | .call _ f :: rest => decide (f ≠ "HideCursor") && (table f).isNone && returnsEarly flag rest
  | .deferCall _ :: rest => returnsEarly flag rest
  | _ => false

/-- A function whose skeleton `returnsEarly flag` does nothing at all when the flag is set. -/
theorem interpS_returnsEarly (v : String → Bool) (flag : String) (w : SSt) (hw : guardEnv v w flag = true) :
    ∀ (l : List S) (fuel : Nat), returnsEarly flag l = true → l.length ≤ fuel → interpS v fuel l w = w := by
  intro l
  induction l with
  | nil => intro fuel h; simp [returnsEarly] at h
  | cons s rest ih =>
    intro fuel h hlen
    cases fuel with
    | zero => simp at hlen
    | succ n =>
      have hlen' : rest.length ≤ n := by simpa using hlen
      cases s with
      | other g src =>
        simp only [returnsEarly] at h
        by_cases hr : src.startsWith "return" = true
        · simp only [hr, if_true, beq_iff_eq] at h
          subst h
          exact interpS_return v n _ _ _ w hr (by simpa [evalV] using hw)
        · simp only [hr, Bool.false_eq_true, if_false, Bool.and_eq_true] at h
          obtain ⟨hn, hrest⟩ := h
          simp only [neutralOther, Bool.and_eq_true, Bool.not_eq_true', decide_eq_true_eq] at hn
          obtain ⟨⟨⟨⟨⟨⟨h0, h1⟩, h2⟩, h3⟩, h4⟩, h5⟩, h6⟩ := hn
          rw [interpS]
          simp only [h0, Bool.false_and, Bool.false_eq_true, if_false, h1, h2, h3, h4, h5, h6, ite_self]
          exact ih n hrest hlen'
      | call g f =>
        simp only [returnsEarly, Bool.and_eq_true, decide_eq_true_eq, Option.isNone_iff_eq_none] at h
        obtain ⟨⟨hf, ht⟩, hrest⟩ := h
        rw [interpS]
        simp only [Bool.false_eq_true, if_false, hf, ht]
        have : (if (!evalV (guardEnv v w) g) = true then w else w) = w := by split <;> rfl
        rw [this]
        exact ih n hrest hlen'
      | deferCall f =>
        simp only [returnsEarly] at h
        rw [interpS]
        simp only [Bool.false_eq_true, if_false]
        exact ih n h hlen'
      | write g x => simp [returnsEarly] at h
      | writeF g x => simp [returnsEarly] at h
      | direct g x => simp [returnsEarly] at h
      | flush g => simp [returnsEarly] at h

/-- **Suspend while suspended** takes the early return: nothing is written, no state changes
    (the skeleton of the regenerated `Suspend` is checked by kernel evaluation). -/
theorem suspend_suspended (v : String → Bool) (w : SSt) (h : w.suspended = true) : interpS v 64 suspend w = w :=
  interpS_returnsEarly v "suspended" w (by simpa [guardEnv] using h) suspend 64 (by decide +kernel) (by decide +kernel)

/-- **Close when closed** takes the early return (after taking and releasing the lock). -/
theorem close_closed (v : String → Bool) (w : SSt) (h : w.closed = true) : interpS v 64 close w = w :=
  interpS_returnsEarly v "closed" w (by simpa [guardEnv] using h) close 64 (by decide +kernel) (by decide +kernel)

/-! ### A function that returns on an I/O error before it writes anything (round 4: `Resume`) -/

/-- Up to its `return` under the guard `expr:err != nil`, the statement list has no statement with output
    or with an effect on Vaxis's flags: locks, defers, statements without effect, `err := vx.openTty(tgts)`
    (which at most installs a new writer), calls of functions that write nothing; earlier returns under
    other guards may or may not be taken. -/
def quietUntilErr : List S → Bool
  | [] => false
  | .other g src :: rest =>
      if src.startsWith "return" then (g == .v "expr:err != nil") || quietUntilErr rest
      else (neutralOther src || src == "err := vx.openTty(tgts)") && quietUntilErr rest
  | .call _ f :: rest => decide (f ≠ "HideCursor") && (table f).isNone && quietUntilErr rest
  | .deferCall _ :: rest => quietUntilErr rest
  | _ => false

/-- What such a prefix leaves alone. -/
def Quiet (w w' : SSt) : Prop := w'.wire = w.wire ∧ w'.buf = w.buf ∧ w'.suspended = w.suspended ∧ w'.closed = w.closed

theorem guardEnv_err (v : String → Bool) (w : SSt) : guardEnv v w "expr:err != nil" = v "expr:err != nil" := by
  have h1 : ("expr:err != nil" = "closed") = False := by decide
  have h2 : ("expr:err != nil" = "suspended") = False := by decide
  simp only [guardEnv, h1, h2, if_false]

theorem interpS_quietUntilErr (v : String → Bool) (w : SSt) (herr : v "expr:err != nil" = true) :
    ∀ (l : List S) (fuel : Nat), quietUntilErr l = true → l.length ≤ fuel → Quiet w (interpS v fuel l w) := by
  intro l
  induction l generalizing w with
  | nil => intro fuel h; simp [quietUntilErr] at h
  | cons s rest ih =>
    intro fuel h hlen
    cases fuel with
    | zero => simp at hlen
    | succ n =>
      have hlen' : rest.length ≤ n := by simpa using hlen
      cases s with
      | other g src =>
        simp only [quietUntilErr] at h
        by_cases hr : src.startsWith "return" = true
        · simp only [hr, if_true, Bool.or_eq_true, beq_iff_eq] at h
          by_cases hg : evalV (guardEnv v w) g = true
          · rw [interpS_return v n g src rest w hr hg]; exact ⟨rfl, rfl, rfl, rfl⟩
          · rcases h with h | h
            · subst h
              exact absurd (by simp [evalV, guardEnv_err, herr]) hg
            · rw [interpS]
              have hg' : evalV (guardEnv v w) g = false := by simpa using hg
              simp only [hr, hg', Bool.and_false, Bool.false_eq_true, if_false, Bool.not_false, if_true]
              exact ih w n h hlen'
        · simp only [hr, Bool.false_eq_true, if_false, Bool.and_eq_true, Bool.or_eq_true, beq_iff_eq] at h
          obtain ⟨hn, hrest⟩ := h
          have hr' : src.startsWith "return" = false := by simpa using hr
          rcases hn with hn | hn
          · simp only [neutralOther, Bool.and_eq_true, Bool.not_eq_true', decide_eq_true_eq] at hn
            obtain ⟨⟨⟨⟨⟨⟨h0, h1⟩, h2⟩, h3⟩, h4⟩, h5⟩, h6⟩ := hn
            rw [interpS]
            simp only [h0, Bool.false_and, Bool.false_eq_true, if_false, h1, h2, h3, h4, h5, h6, ite_self]
            exact ih w n hrest hlen'
          · subst hn
            rw [interpS]
            simp only [hr', Bool.false_and, Bool.false_eq_true, if_false]
            have e1 : ("err := vx.openTty(tgts)" = "_, col := vx.CursorPosition()") = False := by decide
            have e2 : ("err := vx.openTty(tgts)" = "vx.cursorLast.style = vx.userCursorStyle") = False := by decide
            simp only [e1, e2, if_false, if_true]
            split
            · exact ih w n hrest hlen'
            · have := ih { w with fresh := true } n hrest hlen'
              exact ⟨this.1, this.2.1, this.2.2.1, this.2.2.2⟩
      | call g f =>
        simp only [quietUntilErr, Bool.and_eq_true, decide_eq_true_eq, Option.isNone_iff_eq_none] at h
        obtain ⟨⟨hf, ht⟩, hrest⟩ := h
        rw [interpS]
        simp only [Bool.false_eq_true, if_false, hf, ht]
        have : (if (!evalV (guardEnv v w) g) = true then w else w) = w := by split <;> rfl
        rw [this]
        exact ih w n hrest hlen'
      | deferCall f =>
        simp only [quietUntilErr] at h
        rw [interpS]
        simp only [Bool.false_eq_true, if_false]
        exact ih w n h hlen'
      | write g x => simp [quietUntilErr] at h
      | writeF g x => simp [quietUntilErr] at h
      | direct g x => simp [quietUntilErr] at h
      | flush g => simp [quietUntilErr] at h

end VaxisModel.Lemmas.C04Interp
