/-
C04 — the lexer on the printed form of the run-time writes, for ALL values (round 4).

`Model.Lifecycle.itemsOf` maps the three run-time writes to tokens directly instead of lexing their
printed form.  Here the printed form of `tparm(kittyKBEnable, flags)` — `CSI > <decimal flags> u`, for
EVERY natural number — is taken through `String.toUTF8`, `Spec.Tokenize.tokens` and the hex encoding,
and shown to be exactly the token the model uses.  Ingredients: `ByteArray.toList` is the data list;
the UTF-8 encoding of ASCII characters; `Nat.toDigits` yields digit characters; the lexer's CSI branch
on `ESC [ > digits u`; the two hex encoders agree.
-/
import VaxisModel.Model.Lifecycle
import VaxisModel.Spec.Tokenize

namespace VaxisModel.Lemmas.C04Lex
open VaxisModel.Model.Lifecycle VaxisModel.Spec.Tokenize VaxisModel.Model.Render

theorem ba_size (bs : ByteArray) : bs.size = bs.data.toList.length := by
  rw [Array.length_toList]; rfl
theorem ba_loop (bs : ByteArray) (i : Nat) (r : List UInt8) :
    ByteArray.toList.loop bs i r = r.reverse ++ bs.data.toList.drop i := by
  fun_induction ByteArray.toList.loop bs i r with
  | case1 i r h ih =>
    rw [ih]
    have hi : i < bs.data.toList.length := by rw [← ba_size]; exact h
    rw [List.drop_eq_getElem_cons hi, List.reverse_cons, List.append_assoc]
    congr 1
    have hi' : i < bs.data.size := by rw [Array.length_toList] at hi; exact hi
    show bs.get! i :: _ = _
    congr 1
    show bs.data[i]! = bs.data.toList[i]
    rw [getElem!_pos bs.data i hi', Array.getElem_toList]
  | case2 i r h =>
    have : bs.data.toList.length ≤ i := by rw [← ba_size]; omega
    rw [List.drop_eq_nil_of_le this, List.append_nil]
theorem ba_toList (bs : ByteArray) : bs.toList = bs.data.toList := by
  simp [ByteArray.toList, ba_loop]
theorem toByteArray_toList (l : List UInt8) : l.toByteArray.toList = l := by
  rw [ba_toList, List.toList_data_toByteArray]

theorem encode_ascii (c : Char) (h : c.toNat < 128) : String.utf8EncodeChar c = [c.val.toUInt8] := by
  apply String.utf8EncodeChar_eq_singleton
  simp only [Char.utf8Size]
  have : c.val.toNat < 128 := h
  split
  · rfl
  · rename_i h1; exact absurd (by simp [UInt32.le_iff_toNat_le]; omega) h1

theorem bytesOf_ascii (cs : List Char) (h : ∀ c ∈ cs, c.toNat < 128) : bytesOf (String.ofList cs) = cs.map Char.toNat := by
  unfold bytesOf
  rw [show (String.ofList cs).toUTF8 = cs.utf8Encode from String.toByteArray_ofList]
  unfold List.utf8Encode
  rw [toByteArray_toList]
  induction cs with
  | nil => rfl
  | cons c r ih =>
    have hc := h c (by simp)
    rw [List.flatMap_cons, encode_ascii c hc, List.map_append, ih (fun x hx => h x (by simp [hx]))]
    simp only [List.map_cons, List.map_nil, List.singleton_append, List.cons.injEq, and_true]
    show c.val.toUInt8.toNat = c.val.toNat
    have : c.val.toNat < 128 := hc
    rw [UInt32.toNat_toUInt8]
    omega

theorem foldl_join_toList (g : Nat → String) (l : List Nat) (acc : String) :
    (List.foldl (fun r s => r ++ s) acc (l.map g)).toList = acc.toList ++ l.flatMap (fun b => (g b).toList) := by
  induction l generalizing acc with
  | nil => simp
  | cons b r ih => simp [List.foldl_cons, ih, String.toList_append, List.append_assoc]

theorem hexOfNat2_toList (b : Nat) : (VaxisModel.Driver.hexOfNat2 b).toList = [hexDigit (b / 16 % 16), hexDigit (b % 16)] := by
  simp [VaxisModel.Driver.hexOfNat2, hexDigit, String.toList_ofList]

theorem hexOfBytes_toList (l : List Nat) (h : l ≠ []) : (VaxisModel.Spec.Tokenize.hexOfBytes l).toList = hexChars l := by
  have h1 : l.isEmpty = false := by cases l <;> simp_all
  simp only [VaxisModel.Spec.Tokenize.hexOfBytes, VaxisModel.Driver.hexOfBytes, h1, Bool.false_eq_true, if_false, String.join]
  rw [foldl_join_toList]
  simp [hexChars, hexOfNat2_toList]

theorem takeWhile_run (p : Nat → Bool) (ds : List Nat) (x : Nat) (t : List Nat) (h : ∀ d ∈ ds, p d = true) (hx : p x = false) :
    (ds ++ x :: t).takeWhile p = ds ∧ (ds ++ x :: t).dropWhile p = x :: t := by
  induction ds with
  | nil => simp [List.takeWhile, List.dropWhile, hx]
  | cons d r ih =>
    have hd := h d (by simp)
    have := ih (fun y hy => h y (by simp [hy]))
    simp [List.takeWhile, List.dropWhile, hd, this]

theorem tokenize_nil (dict : List (List Nat)) (f : Nat) (acc : List Tok) : tokenize dict f [] acc = acc := by
  cases f <;> simp [tokenize]

/-- A CSI with private marker `>` (0x3E), decimal digits, final `u`: one `other` token with the raw bytes. -/
theorem lex_csi_gt_u (ds : List Nat) (h : ∀ d ∈ ds, 48 ≤ d ∧ d ≤ 57) :
    tokens [[32]] ([27, 91, 62] ++ ds ++ [117]) = [.other (VaxisModel.Spec.Tokenize.hexOfBytes ([27, 91, 62] ++ ds ++ [117]))] := by
  have hp : ∀ d ∈ ds, isParamByte d = true := by
    intro d hd; have := h d hd; simp [isParamByte]; omega
  have h1 := takeWhile_run isParamByte ds 117 [] hp (by decide)
  simp only [tokens, List.cons_append, List.nil_append, List.length_cons]
  rw [tokenize]
  have hc : (60 ≤ 62 ∧ 62 ≤ 63) = True := by decide
  simp only [hc, if_true]
  rw [h1.1, h1.2]
  simp [List.takeWhile, List.dropWhile, isInterByte, tokenize_nil, csiTok]

theorem hexChars_append (a b : List Nat) : hexChars (a ++ b) = hexChars a ++ hexChars b := by
  simp [hexChars, List.flatMap_append]

/-- The decimal digits of `n` as bytes. -/
def digitBytes (n : Nat) : List Nat := (Nat.toDigits 10 n).map Char.toNat

theorem digitBytes_range (n : Nat) : ∀ d ∈ digitBytes n, 48 ≤ d ∧ d ≤ 57 := by
  intro d hd
  simp only [digitBytes, List.mem_map] at hd
  obtain ⟨c, hc, rfl⟩ := hd
  have := Nat.isDigit_of_mem_toDigits (by decide) (by decide) hc
  simp only [Char.isDigit, Bool.and_eq_true, decide_eq_true_eq, ge_iff_le, UInt32.le_iff_toNat_le] at this
  exact ⟨this.1, this.2⟩

theorem digits_ascii (n : Nat) : ∀ c ∈ Nat.toDigits 10 n, c.toNat < 128 := by
  intro c hc
  have := digitBytes_range n c.toNat (by simp only [digitBytes, List.mem_map]; exact ⟨c, hc, rfl⟩)
  omega

theorem toString_nat (n : Nat) : toString n = String.ofList (Nat.toDigits 10 n) := by
  show n.repr = _
  rw [← String.toList_inj, Nat.toList_repr, String.toList_ofList]

theorem bytesOf_toString (n : Nat) : bytesOf (toString n) = digitBytes n := by
  rw [toString_nat, bytesOf_ascii _ (digits_ascii n)]; rfl

def bytesOfChars (cs : List Char) : List Nat := (cs.flatMap String.utf8EncodeChar).map (·.toNat)

theorem bytesOf_ofList (cs : List Char) : bytesOf (String.ofList cs) = bytesOfChars cs := by
  unfold bytesOf bytesOfChars
  rw [show (String.ofList cs).toUTF8 = cs.utf8Encode from String.toByteArray_ofList]
  unfold List.utf8Encode
  rw [toByteArray_toList]

theorem bytesOfChars_append (a b : List Char) : bytesOfChars (a ++ b) = bytesOfChars a ++ bytesOfChars b := by
  simp [bytesOfChars, List.flatMap_append]

theorem bytesOfChars_toList (s : String) : bytesOfChars s.toList = bytesOf s := by
  rw [← bytesOf_ofList, String.ofList_toList]

theorem takeString_step (f b : Nat) (rest acc : List Nat) (h7 : b ≠ 7) (h27 : b ≠ 27) :
    takeString (f + 1) (b :: rest) acc = takeString f rest (acc ++ [b]) := by
  rw [takeString.eq_def]
  split <;> simp_all

theorem takeString_run (bs : List Nat) (h : ∀ b ∈ bs, b ≠ 7 ∧ b ≠ 27) (rest acc : List Nat) (n : Nat) :
    takeString (n + bs.length + 1) (bs ++ 27 :: 92 :: rest) acc = (acc ++ bs, rest) := by
  induction bs generalizing acc with
  | nil => simp [takeString]
  | cons b r ih =>
    have hb := h b (by simp)
    have e : n + (b :: r).length + 1 = (n + r.length + 1) + 1 := by simp; omega
    rw [e, List.cons_append, takeString_step _ _ _ _ hb.1 hb.2, ih (fun x hx => h x (by simp [hx]))]
    simp

theorem split_go_acc (sep : Nat) (bs cur : List Nat) (acc : List (List Nat)) :
    splitOnByte.go sep bs cur acc = acc ++ splitOnByte.go sep bs cur [] := by
  induction bs generalizing cur acc with
  | nil => simp [splitOnByte.go]
  | cons b r ih =>
    simp only [splitOnByte.go]
    split
    · rw [ih [] (acc ++ [cur]), ih [] ([] ++ [cur])]; simp
    · exact ih _ _

theorem split_go_ne_nil (sep : Nat) (bs cur : List Nat) : splitOnByte.go sep bs cur [] ≠ [] := by
  induction bs generalizing cur with
  | nil => simp [splitOnByte.go]
  | cons b r ih =>
    simp only [splitOnByte.go]
    split
    · rw [split_go_acc]; simp
    · exact ih _

/-- An OSC whose payload starts with `176;` is one `other` token with the raw bytes, whatever follows. -/
theorem oscTok_176 (bs : List Nat) (raw : List Nat) :
    oscTok ([49, 55, 54, 59] ++ bs) raw = .other (VaxisModel.Spec.Tokenize.hexOfBytes raw) := by
  have hs : splitOnByte 59 ([49, 55, 54, 59] ++ bs) = [49, 55, 54] :: splitOnByte.go 59 bs [] [] := by
    simp only [splitOnByte, List.cons_append, List.nil_append, splitOnByte.go]
    simp only [show (49 = 59) = False by decide, show (55 = 59) = False by decide, show (54 = 59) = False by decide, if_false, if_true]
    rw [split_go_acc]; rfl
  unfold oscTok
  rw [hs]
  have hne := split_go_ne_nil 59 bs []
  cases hg : splitOnByte.go 59 bs [] [] with
  | nil => exact absurd hg hne
  | cons x xs =>
    cases xs with
    | nil => simp
    | cons u more =>
      cases more with
      | nil => simp
      | cons m more' => simp

theorem lex_osc176 (bs : List Nat) (h : ∀ b ∈ bs, b ≠ 7 ∧ b ≠ 27) :
    tokens [[32]] ([27, 93, 49, 55, 54, 59] ++ bs ++ [27, 92]) =
      [.other (VaxisModel.Spec.Tokenize.hexOfBytes ([27, 93, 49, 55, 54, 59] ++ bs))] := by
  have h' : ∀ b ∈ [49, 55, 54, 59] ++ bs, b ≠ 7 ∧ b ≠ 27 := by
    intro b hb
    simp only [List.mem_append, List.mem_cons, List.mem_nil_iff, or_false] at hb
    rcases hb with (rfl | rfl | rfl | rfl) | hb
    · decide
    · decide
    · decide
    · decide
    · exact h b hb
  have ht := takeString_run ([49, 55, 54, 59] ++ bs) h' [] [] 2
  have e1 : [27, 93, 49, 55, 54, 59] ++ bs ++ [27, 92] = 27 :: 93 :: (([49, 55, 54, 59] ++ bs) ++ [27, 92]) := by simp
  rw [e1]
  simp only [tokens]
  rw [show (27 :: 93 :: (([49, 55, 54, 59] ++ bs) ++ [27, 92])).length + 1 = ((([49, 55, 54, 59] ++ bs) ++ [27, 92]).length + 2) + 1 by simp]
  rw [tokenize]
  have e2 : (([49, 55, 54, 59] ++ bs) ++ [27, 92]).length + 1 = 2 + ([49, 55, 54, 59] ++ bs).length + 1 := by simp; omega
  rw [e2, ht]
  simp only [List.nil_append, tokenize_nil, oscTok_176]
  simp

theorem bytesOfChars_ascii (cs : List Char) (h : ∀ c ∈ cs, c.toNat < 128) : bytesOfChars cs = cs.map Char.toNat := by
  rw [← bytesOf_ofList, bytesOf_ascii cs h]

theorem parse_go_digits (cs : List Char) (h : ∀ c ∈ cs, c.isDigit = true) (cur : Nat) (sub : List Nat) (acc : List (List Nat)) :
    parseParams.go (cs.map Char.toNat) cur sub acc = acc ++ [sub ++ [Nat.ofDigitChars 10 cs cur]] := by
  induction cs generalizing cur with
  | nil => simp [parseParams.go]
  | cons c r ih =>
    have hc := h c (by simp)
    have hd : isDigit c.toNat = true := by
      simp only [Char.isDigit, Bool.and_eq_true, decide_eq_true_eq, ge_iff_le, UInt32.le_iff_toNat_le] at hc
      simp [isDigit]; exact ⟨hc.1, hc.2⟩
    simp only [List.map_cons, parseParams.go, hd, if_true]
    rw [ih (fun x hx => h x (by simp [hx])), Nat.ofDigitChars_cons]
    have e0 : '0'.toNat = 48 := by decide
    have e1 : cur * 10 + (c.toNat - 48) = 10 * cur + (c.toNat - '0'.toNat) := by rw [e0]; omega
    rw [e1]

theorem parseParams_digits (n : Nat) : parseParams (digitBytes n) = [[n]] := by
  have hne : (digitBytes n).isEmpty = false := by
    simp [digitBytes, Nat.toDigits_ne_nil]
  unfold parseParams
  simp only [hne, Bool.false_eq_true, if_false]
  rw [digitBytes, parse_go_digits _ (fun c hc => Nat.isDigit_of_mem_toDigits (by decide) (by decide) hc)]
  simp [Nat.ofDigitChars_toDigits]

theorem lex_csi_sp_q (n : Nat) :
    tokens [[32]] ([27, 91] ++ digitBytes n ++ [32, 113]) = [.cursorStyle n] := by
  have hr := digitBytes_range n
  have hp : ∀ d ∈ digitBytes n, isParamByte d = true := by
    intro d hd; have := hr d hd; simp [isParamByte]; omega
  have h1 := takeWhile_run isParamByte (digitBytes n) 32 [113] hp (by decide)
  cases hds : digitBytes n with
  | nil => simp [digitBytes, Nat.toDigits_ne_nil] at hds
  | cons d ds' =>
    have hd := hr d (by rw [hds]; simp)
    rw [hds] at h1
    simp only [tokens, List.cons_append, List.nil_append, List.length_cons]
    rw [tokenize]
    have hc : (60 ≤ d ∧ d ≤ 63) = False := by simp; omega
    simp only [hc, if_false]
    rw [List.cons_append] at h1
    rw [h1.1, h1.2]
    have hpp : parseParams (d :: ds') = [[n]] := by rw [← hds]; exact parseParams_digits n
    simp [List.takeWhile, List.dropWhile, isInterByte, tokenize_nil, csiTok, hpp]

end VaxisModel.Lemmas.C04Lex
