/-
C04 — the prior MODE TABLE of the terminal is arbitrary (round 4).

The session theorems of `C04Session` start from a terminal whose mode table is empty (every private
mode reset).  A real terminal may have any mode set before Vaxis starts (the user's shell, a
multiplexer).  `withPrior P t` is the terminal `t` with the entries of an arbitrary prior table `P`
behind its own entries (an entry of `P` is visible exactly for the modes `t`'s table does not
mention).  Every token commutes with it (`step_withPrior`), hence whole sessions do
(`runOps_withPrior`, `shutdown_withPrior`): the session on the terminal with prior table `P` is the
session on the terminal with the empty table, with `P` shining through for every mode the session
never wrote.  So: a mode Vaxis wrote at any time ends RESET (whatever it was before), a mode Vaxis never
wrote keeps its prior value — `modeVal_withPrior`.
-/
import VaxisModel.Lemmas.C04Session
import VaxisModel.Lemmas.C04PriorCheck

namespace VaxisModel.Lemmas.C04Prior
open VaxisModel.Model.Lifecycle VaxisModel.Model.Render VaxisModel.Spec.ModeTerm
open VaxisModel.Lemmas.C04Sym VaxisModel.Lemmas.C04SymCheck VaxisModel.Lemmas.C04Session

/-- The table mentions mode `n`. -/
def hasKey (ms : List (Nat × Bool)) (n : Nat) : Bool := ms.any (fun x => x.1 == n)

/-- The entries of the prior table `P` for modes the table `ms` does not mention. -/
def rest (P ms : List (Nat × Bool)) : List (Nat × Bool) := P.filter (fun x => !hasKey ms x.1)

/-- `t` with the prior table `P` behind its own table. -/
def withPrior (P : List (Nat × Bool)) (t : MTerm) : MTerm := { t with modes := t.modes ++ rest P t.modes }

theorem rest_nil (P : List (Nat × Bool)) : rest P [] = P := by
  simp [rest, hasKey]

/-- A terminal is its own empty-table version with its table as prior. -/
theorem withPrior_self (t : MTerm) : withPrior t.modes { t with modes := [] } = t := by
  simp [withPrior, rest_nil]

theorem hasKey_setMode (ms : List (Nat × Bool)) (n : Nat) (v : Bool) (k : Nat) :
    hasKey (setMode ms n v) k = (k == n || hasKey ms k) := by
  simp only [hasKey, setMode, List.any_cons, List.any_filter]
  by_cases hk : k = n
  · subst hk; simp
  · have h1 : (n == k) = false := by simp; omega
    have h2 : (k == n) = false := by simp [hk]
    rw [h1, h2, Bool.false_or, Bool.false_or]
    congr 1
    funext x
    by_cases hx : x.1 = k
    · simp [hx, hk]
    · simp [hx]

theorem setMode_withPrior (P A : List (Nat × Bool)) (n : Nat) (v : Bool) :
    setMode (A ++ rest P A) n v = setMode A n v ++ rest P (setMode A n v) := by
  simp only [setMode, List.filter_append, List.cons_append, List.cons.injEq, true_and, List.append_cancel_left_eq]
  show List.filter _ (rest P A) = rest P (setMode A n v)
  simp only [rest, List.filter_filter]
  apply List.filter_congr
  intro x _
  rw [hasKey_setMode]
  by_cases hx : x.1 = n
  · simp [hx]
  · simp [hx]

theorem decMode_withPrior (P : List (Nat × Bool)) (t : MTerm) (n : Nat) (v : Bool) :
    decMode (withPrior P t) n v = withPrior P (decMode t n v) := by
  by_cases h1 : n = 25
  · simp [decMode, h1, withPrior]
  by_cases h2 : n = 1049
  · simp [decMode, h2, withPrior]
  by_cases h3 : n = 2026
  · by_cases hs : 2026 ∈ t.supported <;> simp [decMode, h3, withPrior, hs]
  by_cases h4 : baseline.contains n = true ∨ t.supported.contains n = true
  · have : decMode t n v = { t with modes := setMode t.modes n v } := by simp only [decMode, h1, h2, h3, h4, if_false, if_true]
    rw [this]
    have : decMode (withPrior P t) n v = { withPrior P t with modes := setMode (withPrior P t).modes n v } := by
      have h4' : baseline.contains n = true ∨ (withPrior P t).supported.contains n = true := h4
      simp only [decMode, h1, h2, h3, h4', if_false, if_true]
    rw [this]
    simp only [withPrior]
    rw [setMode_withPrior]
  · have : decMode t n v = t := by simp only [decMode, h1, h2, h3, h4, if_false]
    rw [this]
    have h4' : ¬ (baseline.contains n = true ∨ (withPrior P t).supported.contains n = true) := h4
    simp only [decMode, h1, h2, h3, h4', if_false]

theorem other_keeps_modes (t : MTerm) (raw : String) : (other t raw).modes = t.modes := by
  unfold other
  repeat' split
  all_goals rfl

theorem other_setModes (t : MTerm) (M : List (Nat × Bool)) (raw : String) :
    other { t with modes := M } raw = { other t raw with modes := M } := by
  unfold other
  dsimp only
  repeat' split
  all_goals rfl

theorem other_withPrior (P : List (Nat × Bool)) (t : MTerm) (raw : String) :
    other (withPrior P t) raw = withPrior P (other t raw) := by
  unfold withPrior
  rw [other_setModes, other_keeps_modes]

/-- **Every token commutes with the prior table.** -/
theorem step_withPrior (P : List (Nat × Bool)) (t : MTerm) (k : Tok) :
    step (withPrior P t) k = withPrior P (step t k) := by
  cases k with
  | decset n => exact decMode_withPrior P t n true
  | decrst n => exact decMode_withPrior P t n false
  | other raw => exact other_withPrior P t raw
  | _ => rfl

theorem run_withPrior (P : List (Nat × Bool)) (toks : List Tok) (t : MTerm) :
    run (withPrior P t) toks = withPrior P (run t toks) := by
  induction toks generalizing t with
  | nil => rfl
  | cons k ks ih =>
    simp only [run, List.foldl_cons] at ih ⊢
    rw [step_withPrior]; exact ih _

/-- A session state on the terminal with prior table `P`. -/
def sessPrior (P : List (Nat × Bool)) (s : Sess) : Sess := { w := s.w, t := withPrior P s.t }

theorem applyOp_withPrior (e : Env) (P : List (Nat × Bool)) (s : Sess) (op : Op) :
    applyOp e (sessPrior P s) op = sessPrior P (applyOp e s op) := by
  cases op with
  | frame toks => by_cases hs : s.w.suspended = true <;> simp [applyOp, sessPrior, hs, run_withPrior]
  | cursor cn cl => by_cases hs : s.w.suspended = true <;> simp [applyOp, sessPrior, hs]
  | setAppId id => by_cases hs : s.w.suspended = true <;> simp [applyOp, sessPrior, hs, step_withPrior]
  | suspend => simp only [applyOp, sessPrior, run_withPrior]
  | resume => by_cases hs : s.w.suspended = true <;> simp [applyOp, sessPrior, hs, run_withPrior]

/-- **Whole sessions commute with the prior table.** -/
theorem runOps_withPrior (e : Env) (P : List (Nat × Bool)) (ops : List Op) (s : Sess) :
    runOps e (sessPrior P s) ops = sessPrior P (runOps e s ops) := by
  induction ops generalizing s with
  | nil => rfl
  | cons op rest ih =>
    simp only [runOps, List.foldl_cons] at ih ⊢
    rw [applyOp_withPrior]; exact ih _

theorem start_withPrior (e : Env) (P : List (Nat × Bool)) (t : MTerm) :
    start e (withPrior P t) = sessPrior P (start e t) := by
  simp only [start, sessPrior, run_withPrior]

theorem shutdown_withPrior (e : Env) (P : List (Nat × Bool)) (s : Sess) :
    shutdown e (sessPrior P s) = sessPrior P (shutdown e s) := by
  simp only [shutdown, sessPrior, run_withPrior]

private theorem find?_congr' {α : Type} (l : List α) (p q : α → Bool) (h : ∀ x ∈ l, p x = q x) : l.find? p = l.find? q := by
  induction l with
  | nil => rfl
  | cons a rest ih =>
    simp only [List.find?_cons, h a (by simp)]
    rw [ih (fun x hx => h x (by simp [hx]))]

/-- **What a mode reads on the terminal with a prior table**: the session's own entry where the
    session wrote the mode, the prior value otherwise. -/
theorem modeVal_withPrior (P : List (Nat × Bool)) (t : MTerm) (n : Nat) :
    modeVal (withPrior P t) n = if hasKey t.modes n then modeVal t n else modeVal { t with modes := P } n := by
  unfold modeVal withPrior
  simp only [List.find?_append]
  by_cases hk : hasKey t.modes n = true
  · rw [if_pos hk]
    simp only [hasKey, List.any_eq_true] at hk
    obtain ⟨x, hx, hxn⟩ := hk
    have : (t.modes.find? (fun x => x.1 == n)).isSome = true := by
      rw [List.find?_isSome]; exact ⟨x, hx, hxn⟩
    cases hf : t.modes.find? (fun x => x.1 == n) with
    | none => rw [hf] at this; cases this
    | some y => simp
  · rw [if_neg hk]
    have hk' : hasKey t.modes n = false := by simpa using hk
    have hnone : t.modes.find? (fun x => x.1 == n) = none := by
      rw [List.find?_eq_none]
      intro x hx hxn
      have : hasKey t.modes n = true := by
        simp only [hasKey, List.any_eq_true]; exact ⟨x, hx, hxn⟩
      rw [hk'] at this; cases this
    rw [hnone, Option.none_or]
    have : (rest P t.modes).find? (fun x => x.1 == n) = P.find? (fun x => x.1 == n) := by
      simp only [rest, List.find?_filter]
      apply find?_congr'
      intro x _
      by_cases hxn : x.1 = n
      · simp [hxn, hk']
      · simp [hxn]
    rw [this]

/-- An all-false table reads false everywhere. -/
theorem modeVal_of_all_false (t : MTerm) (h : (t.modes.all fun (_, v) => v == false) = true) (n : Nat) : modeVal t n = false := by
  unfold modeVal
  cases hf : t.modes.find? (fun x => x.1 == n) with
  | none => rfl
  | some y =>
    have hy := List.mem_of_find?_eq_some hf
    rw [List.all_eq_true] at h
    have := h y hy
    obtain ⟨a, b⟩ := y
    simpa using this

/-! ### Start-up from an unknown prior state (scalars), for the session induction -/

/-- What is assumed of the terminal before Vaxis starts — and nothing else: it implements what it
    advertises, answers the two queries with its current cursor style and application id, its kitty
    keyboard stack has some depth `k0`, no hyperlink is open, and a terminal that does not implement
    synchronized-update has no such flag set.  The mode table, cursor visibility, active screen,
    keypad mode, pointer shape and pen are ARBITRARY. -/
structure PriorOK (m : Nat) (e : Env) (k0 : Nat) (p : MTerm) : Prop where
  supported : p.supported = (sT0 m).supported
  kittySupported : p.kittySupported = (sT0 m).kittySupported
  appIdSupported : p.appIdSupported = (sT0 m).appIdSupported
  kitty : p.kitty = k0
  appId : p.appId = appIdHex e.appId
  shape : p.cursorShape = e.userCursorStyle
  link : p.linkOpen = false
  sync : (sT0 m).supported.contains 2026 = false → p.sync = false

variable {e : Env} {cn : CursorState} {k0 : Nat}

theorem rel_prior {m : Nat} {p : MTerm} (hp : PriorOK m e k0 p) (hm : p.modes = []) :
    Rel e cn k0 (sT0U m p.alt p.keypadApp) p := by
  constructor
  · exact hp.supported
  · rw [hm]; rfl
  · intro b hb; simp [sT0U] at hb
  · rfl
  · exact hp.kittySupported
  · rw [hp.kitty]; simp [sT0U, sT0]
  · rfl
  · exact hp.shape
  · exact hp.appIdSupported
  · exact hp.appId
  · simp [sT0U]
  · intro b hb; simp [sT0U] at hb
  · intro b hb; simp [sT0U, sT0] at hb; rw [hb]; exact hp.link
  · intro b hb
    simp only [sT0U] at hb
    split at hb
    · cases hb
    · rename_i hs
      cases hb
      exact hp.sync (by simpa using hs)

theorem priorB_le {m : Nat} (h : priorB m = true) (a k : Bool) :
    leS (runS (sT0U m a k) (startupS (vOf m)).wire) (G m) = true := by
  simp only [priorB, List.all_cons, List.all_nil, Bool.and_true, Bool.and_eq_true] at h
  obtain ⟨h1, h2, h3, h4⟩ := h
  cases a <;> cases k <;> assumption

/-- **Start-up from any prior state (empty mode table) establishes the session invariant.** -/
theorem start_inv_prior {m : Nat} (F : Facts m) (hv : e.v = vOf m) (hq : SettableId e.appId) (hB : priorB m = true)
    {p : MTerm} (hp : PriorOK m e k0 p) (hm : p.modes = []) : Inv m e k0 (start e p) := by
  left
  have f := F.start
  simp only [start, startupW, concW, hv]
  refine ⟨f.sus, f.closed, ?_, f.fresh, ?_⟩
  · rw [f.buf]; rfl
  · intro cn
    have hle := priorB_le hB p.alt p.keypadApp
    have hpo : (runS (sT0U m p.alt p.keypadApp) (startupS (vOf m)).wire).poison = false := by
      have := hle; simp only [leS, Bool.and_eq_true, Bool.not_eq_true'] at this
      exact this.1.1.1.1.1.1.1.1.1.1.1.1
    have h := runS_sound (e := e) (cn := ({} : WSt).cn) (k0 := k0) ({} : WSt).cl hq (startupS (vOf m)).wire
      (rel_prior hp hm) hpo
    exact rel_cn (by simp [G, gen]) (rel_le hle h)

end VaxisModel.Lemmas.C04Prior
