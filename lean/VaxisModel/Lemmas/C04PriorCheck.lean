/-
C04 — arbitrary PRIOR values of the terminal (round 4).

`C04SymCheck.sT0 m` is the terminal before Vaxis starts with everything at its reset value.  Here the
prior state is *unknown*: cursor visibility, pointer shape, pen and (where the terminal implements
it) synchronized-update are symbols "nothing known", and the two remaining Boolean fields (alternate
screen active, keypad application mode) take both values.  `priorB m` — evaluated by the kernel for
every guard assignment — says that start-up from every such prior state establishes the SAME running
invariant `G m` that the session induction of `C04Session` uses: so everything proved about sessions
(`balanced`, `resume_reestablishes`, …) holds from every prior state.  The prior MODE TABLE is
handled separately and for every table by the lifting of `C04Prior` (`withPrior`).
-/
import VaxisModel.Lemmas.C04SymCheck

namespace VaxisModel.Lemmas.C04SymCheck
open VaxisModel.Model.Lifecycle VaxisModel.Model.Render VaxisModel.Spec.ModeTerm VaxisModel.Lemmas.C04Check VaxisModel.Lemmas.C04Sym

/-- The terminal before Vaxis starts with UNKNOWN prior values: alternate screen `a`, keypad
    application mode `k`; cursor visibility, pointer shape and pen unknown; synchronized-update unknown
    where the terminal implements it (a terminal that does not implement mode 2026 has no such flag);
    no hyperlink open.  Cursor shape / application id / kitty keyboard stack are the symbols `user` /
    `prior` / depth 0 above `k0`, as in `sT0`. -/
def sT0U (m : Nat) (a k : Bool) : STerm :=
  { sT0 m with cursorVisible := none, alt := a, keypadApp := k, pointer := .any, penClean := none,
               sync := if (sT0 m).supported.contains 2026 then none else some false }

/-- Start-up from every unknown prior state establishes (at least) the running invariant `G m`. -/
def priorB (m : Nat) : Bool :=
  [(false, false), (false, true), (true, false), (true, true)].all fun ak =>
    leS (runS (sT0U m ak.1 ak.2) (startupS (vOf m)).wire) (G m)

def priorChunkB (lo hi : Nat) : Bool := (List.range (hi - lo)).all fun k => priorB (lo + k)

theorem priorChunk_sound (lo hi : Nat) (h : priorChunkB lo hi = true) : ∀ m, lo ≤ m → m < hi → priorB m = true := by
  intro m h1 h2
  unfold priorChunkB at h
  rw [List.all_eq_true] at h
  have := h (m - lo) (by simp; omega)
  have e : lo + (m - lo) = m := by omega
  rwa [e] at this

end VaxisModel.Lemmas.C04SymCheck
