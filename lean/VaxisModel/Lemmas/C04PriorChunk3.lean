/- Chunk 3 of the prior-value check of C04: guard assignments 192 ≤ m < 256; start-up from every UNKNOWN
   prior state of the terminal (alternate screen / keypad mode both values; cursor visibility, pointer,
   pen, synchronized-update unknown) establishes the running invariant `G m` (kernel evaluation on the
   symbolic lifecycle interpreted from the lists regenerated from vaxis.go). -/
import VaxisModel.Lemmas.C04PriorCheck

namespace VaxisModel.Lemmas.C04SymCheck

set_option maxRecDepth 100000 in
theorem prior_chunk3 : priorChunkB 192 256 = true := by decide +kernel

end VaxisModel.Lemmas.C04SymCheck
