/- Chunk 7 of the prior-value check of C04: guard assignments 448 ≤ m < 512; start-up from every UNKNOWN
   prior state of the terminal (alternate screen / keypad mode both values; cursor visibility, pointer,
   pen, synchronized-update unknown) establishes the running invariant `G m` (kernel evaluation on the
   symbolic lifecycle interpreted from the lists regenerated from vaxis.go). -/
import VaxisModel.Lemmas.C04PriorCheck

namespace VaxisModel.Lemmas.C04SymCheck

set_option maxRecDepth 100000 in
theorem prior_chunk7 : priorChunkB 448 512 = true := by decide +kernel

end VaxisModel.Lemmas.C04SymCheck
