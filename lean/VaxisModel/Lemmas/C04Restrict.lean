/-
C04 — the lifecycle interpreter depends on the guard function only through the nine guard variables,
Vaxis's two flags, and the I/O-error guard of `Resume` (round 4).

`restrict v` forgets every other variable.  A statement is *effective* when it can change the writer
state (writes, flushes, calls of interpreted functions, `return`s, the six assignments the interpreter
knows); every other statement is skipped whatever its guard says.  `safeList` (a Bool, evaluated by the
kernel on the regenerated lists) says that the guards of all effective statements — in the list and in
every function it calls — mention only the nine variables and the two flags, or are conjunctions with
the I/O-error guard `expr:err != nil`.  Then, when no I/O error occurs, interpreting with `v` and with
`restrict v` is the same thing (`interpS_restrict`).
-/
import VaxisModel.Lemmas.C04Interp
import VaxisModel.Lemmas.C04Check

namespace VaxisModel.Lemmas.C04Restrict
open VaxisModel.Model.Lifecycle VaxisModel.Model.Render VaxisModel.Gen.Modes VaxisModel.Lemmas.C04Check VaxisModel.Lemmas.C04Interp

def errName : String := "expr:err != nil"

/-- Forget everything but the nine guard variables. -/
def restrict (v : String → Bool) : String → Bool := fun n => if vars.contains n then v n else false

def namesOK : G → Bool
  | .tt => true
  | .v n => vars.contains n || n == "closed" || n == "suspended"
  | .not g => namesOK g
  | .and a b => namesOK a && namesOK b
  | .or a b => namesOK a && namesOK b

/-- a conjunction one of whose conjuncts is the I/O-error guard -/
def hasErrConjunct : G → Bool
  | .v n => n == errName
  | .and a b => hasErrConjunct a || hasErrConjunct b
  | _ => false

def safeG (g : G) : Bool := namesOK g || hasErrConjunct g

theorem guardEnv_restrict (v : String → Bool) (w : SSt) (n : String)
    (h : (vars.contains n || n == "closed" || n == "suspended") = true) : guardEnv (restrict v) w n = guardEnv v w n := by
  simp only [guardEnv]
  split
  · rfl
  split
  · rfl
  · rename_i h1 h2
    simp only [Bool.or_eq_true, beq_iff_eq] at h
    rcases h with (h | h) | h
    · show (if vars.contains n = true then v n else false) = v n
      rw [if_pos h]
    · exact absurd h h1
    · exact absurd h h2

theorem evalV_namesOK (v : String → Bool) (w : SSt) (g : G) (h : namesOK g = true) :
    evalV (guardEnv (restrict v) w) g = evalV (guardEnv v w) g := by
  induction g with
  | tt => rfl
  | v n => simp only [evalV]; exact guardEnv_restrict v w n h
  | not g ih => simp only [evalV, ih h]
  | and a b iha ihb =>
    simp only [namesOK, Bool.and_eq_true] at h
    simp only [evalV, iha h.1, ihb h.2]
  | or a b iha ihb =>
    simp only [namesOK, Bool.and_eq_true] at h
    simp only [evalV, iha h.1, ihb h.2]

theorem evalV_errConjunct (u : String → Bool) (g : G) (h : hasErrConjunct g = true) (hu : u errName = false) : evalV u g = false := by
  induction g with
  | tt => simp [hasErrConjunct] at h
  | v n => simp only [hasErrConjunct, beq_iff_eq] at h; subst h; simpa [evalV] using hu
  | not g _ => simp [hasErrConjunct] at h
  | and a b iha ihb =>
    simp only [hasErrConjunct, Bool.or_eq_true] at h
    rcases h with h | h
    · simp [evalV, iha h]
    · simp [evalV, ihb h]
  | or a b _ _ => simp [hasErrConjunct] at h

theorem guardEnv_errName (v : String → Bool) (w : SSt) : guardEnv v w errName = v errName := guardEnv_err v w

theorem restrict_errName (v : String → Bool) : restrict v errName = false := by
  have : vars.contains errName = false := by decide
  show (if vars.contains errName = true then v errName else false) = false
  rw [this]; rfl

/-- The guard of an effective statement evaluates the same under `v` and `restrict v` when no I/O error occurs. -/
theorem evalV_safe (v : String → Bool) (w : SSt) (g : G) (h : safeG g = true) (herr : v errName = false) :
    evalV (guardEnv (restrict v) w) g = evalV (guardEnv v w) g := by
  simp only [safeG, Bool.or_eq_true] at h
  rcases h with h | h
  · exact evalV_namesOK v w g h
  · rw [evalV_errConjunct _ g h (by rw [guardEnv_errName]; exact restrict_errName v),
        evalV_errConjunct _ g h (by rw [guardEnv_errName]; exact herr)]

/-- The statement can change the writer state when its guard is true. -/
def effective : S → Bool
  | .write _ _ | .writeF _ _ | .direct _ _ | .flush _ => true
  | .call _ f => f == "HideCursor" || (table f).isSome
  | .deferCall _ => false
  | .other _ src => !neutralOther src

/-- Every effective statement of the list — and of the functions it calls, `fuel` levels down — has a safe guard. -/
def safeList : Nat → List S → Bool
  | 0, _ => true
  | _ + 1, [] => true
  | fuel + 1, s :: rest =>
    (match s with
     | .write g _ | .writeF g _ | .direct g _ | .flush g => safeG g
     | .call g f => if f == "HideCursor" then safeG g else (match table f with | some body => safeG g && safeList fuel body | none => true)
     | .deferCall _ => true
     | .other g src => neutralOther src || safeG g) && safeList fuel rest

/-- One statement of `interpS`, as a function (copied from its definition; `interpS_cons` ties them). -/
def retTest (v0 : String → Bool) (s : S) (w : SSt) : Bool :=
  match s with
  | .other g src => src.startsWith "return" && evalV (guardEnv v0 w) g
  | _ => false

def stepOne (v0 : String → Bool) (fuel : Nat) (s : S) (w : SSt) : SSt :=
  let v : String → Bool := guardEnv v0 w
  match s with
  | .write g x => if evalV v g then { w with buf := w.buf ++ itemsOf x } else w
  | .writeF g x => if evalV v g then { w with buf := w.buf ++ itemsOf x } else w
  | .direct g x => if evalV v g then { w with wire := w.wire ++ itemsOf x } else w
  | .flush g => if evalV v g then doFlushS (v "caps.synchronizedUpdate") w else w
  | .call g f =>
      if !evalV v g then w
      else if f = "HideCursor" then { w with cnv := false }
      else match table f with
        | some body => interpS v0 fuel body w
        | none => w
  | .deferCall _ => w
  | .other g src =>
      if !evalV v g then w
      else if src = "_, col := vx.CursorPosition()" then { w with wire := w.wire ++ (toksOf "\x1b[6n").map .tok }
      else if src = "vx.cursorLast.style = vx.userCursorStyle" then { w with clUser := true }
      else if src = "err := vx.openTty(tgts)" then { w with fresh := true }
      else if src = "vx.suspended = true" then { w with suspended := true }
      else if src = "vx.suspended = false" then { w with suspended := false }
      else if src = "vx.closed = true" then { w with closed := true }
      else w

theorem interpS_cons (v0 : String → Bool) (fuel : Nat) (s : S) (rest : List S) (w : SSt) :
    interpS v0 (fuel + 1) (s :: rest) w = if retTest v0 s w then w else interpS v0 fuel rest (stepOne v0 fuel s w) := by
  rw [interpS.eq_def]
  rfl

theorem neutral_not_return (src : String) (h : neutralOther src = true) : src.startsWith "return" = false := by
  simp only [neutralOther, Bool.and_eq_true, Bool.not_eq_true'] at h
  exact h.1.1.1.1.1.1

theorem stepOne_neutral (v0 : String → Bool) (fuel : Nat) (g : G) (src : String) (w : SSt) (h : neutralOther src = true) :
    stepOne v0 fuel (.other g src) w = w := by
  simp only [neutralOther, Bool.and_eq_true, Bool.not_eq_true', decide_eq_true_eq] at h
  obtain ⟨⟨⟨⟨⟨⟨_, h1⟩, h2⟩, h3⟩, h4⟩, h5⟩, h6⟩ := h
  simp only [stepOne, h1, h2, h3, h4, h5, h6, if_false, ite_self]

/-- **No I/O error ⇒ the interpreter sees `v` only through `restrict v`.** -/
theorem interpS_restrict (v : String → Bool) (herr : v errName = false) :
    ∀ (fuel : Nat) (l : List S) (w : SSt), safeList fuel l = true → interpS (restrict v) fuel l w = interpS v fuel l w := by
  intro fuel
  induction fuel with
  | zero => intro l w _; simp [interpS]
  | succ n ih =>
    intro l w hs
    cases l with
    | nil => simp [interpS]
    | cons s rest =>
      rw [interpS_cons, interpS_cons]
      simp only [safeList, Bool.and_eq_true] at hs
      obtain ⟨hs1, hrest⟩ := hs
      have hsync : guardEnv (restrict v) w "caps.synchronizedUpdate" = guardEnv v w "caps.synchronizedUpdate" :=
        guardEnv_restrict v w _ (by decide)
      have key : retTest (restrict v) s w = retTest v s w ∧ stepOne (restrict v) n s w = stepOne v n s w := by
        cases s with
        | write g x => exact ⟨rfl, by simp only [stepOne, evalV_safe v w g hs1 herr]⟩
        | writeF g x => exact ⟨rfl, by simp only [stepOne, evalV_safe v w g hs1 herr]⟩
        | direct g x => exact ⟨rfl, by simp only [stepOne, evalV_safe v w g hs1 herr]⟩
        | flush g => exact ⟨rfl, by simp only [stepOne, evalV_safe v w g hs1 herr, hsync]⟩
        | deferCall f => exact ⟨rfl, rfl⟩
        | call g f =>
          refine ⟨rfl, ?_⟩
          by_cases hf : f = "HideCursor"
          · subst hf
            simp only [beq_self_eq_true, if_true] at hs1
            simp only [stepOne, evalV_safe v w g hs1 herr, if_true]
          · have hf' : (f == "HideCursor") = false := by simpa using hf
            simp only [hf', Bool.false_eq_true, if_false] at hs1
            cases ht : table f with
            | none =>
              have e1 : ∀ u : String → Bool, stepOne u n (.call g f) w = w := by
                intro u; simp only [stepOne, ht, hf, if_false]; split <;> rfl
              rw [e1, e1]
            | some body =>
              simp only [ht, Bool.and_eq_true] at hs1
              simp only [stepOne, ht, hf, if_false, evalV_safe v w g hs1.1 herr, ih body w hs1.2]
        | other g src =>
          simp only [Bool.or_eq_true] at hs1
          rcases hs1 with hn | hg
          · exact ⟨by simp only [retTest, neutral_not_return src hn, Bool.false_and], by rw [stepOne_neutral _ _ _ _ _ hn, stepOne_neutral _ _ _ _ _ hn]⟩
          · exact ⟨by simp only [retTest, evalV_safe v w g hg herr], by simp only [stepOne, evalV_safe v w g hg herr]⟩
      rw [key.1, key.2]
      split
      · rfl
      · exact ih rest _ hrest

end VaxisModel.Lemmas.C04Restrict
