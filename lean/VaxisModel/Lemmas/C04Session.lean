/-
C04 — whole sessions, by induction.

A session is start-up followed by any list of operations (frames, cursor requests, SetAppID,
Suspend, Resume); shutdown (Close — also from the signal arm or the panic handler of the input
goroutine, which are `Close` by `Gen.Modes.inputLoopSignalArm` / `inputLoopRecover`) may come after
any prefix.  The invariant is stated on the mode terminal through the symbolic terminal of
`C04Sym`: while running the terminal is some instance of `G m` (what start-up established, minus
what frames may change); while suspended it is an instance of the state Suspend produced, which the
kernel-evaluated checker `cycleB` showed restored.  The per-step facts come from `cycleB` /
`startB` (kernel evaluation over all guard assignments) and are lifted to every value by
`runS_sound`.
-/
import VaxisModel.Lemmas.C04SymCheck
import VaxisModel.Lemmas.C04Interp

namespace VaxisModel.Lemmas.C04Session
open VaxisModel.Model.Lifecycle VaxisModel.Model.Render VaxisModel.Spec.ModeTerm VaxisModel.Lemmas.C04Check
open VaxisModel.Lemmas.C04Sym VaxisModel.Lemmas.C04SymCheck
open VaxisModel.Gen.Modes (suspend resume close)

/-- Guard assignment `m`, arbitrary run-time values. -/
def envV (m kittyFlags userCursorStyle : Nat) (appId : String) : Env :=
  { v := vOf m, kittyFlags := kittyFlags, userCursorStyle := userCursorStyle, appId := appId }

/-- The terminal before Vaxis starts: implements what it advertises; kitty keyboard stack depth `k0`;
    application id and cursor style are the ones it reports when queried; every mode reset. -/
def t0V (m : Nat) (e : Env) (k0 : Nat) : MTerm :=
  { supported := (sT0 m).supported, kittySupported := (sT0 m).kittySupported, appIdSupported := (sT0 m).appIdSupported,
    kitty := k0, appId := appIdHex e.appId, cursorShape := e.userCursorStyle }

variable {e : Env} {cn cn' : CursorState} {k0 : Nat}

theorem rel_t0 (m : Nat) : Rel e cn k0 (sT0 m) (t0V m e k0) := by
  constructor <;> simp [sT0, t0V]

theorem rel_cn {s : STerm} {t : MTerm} (hs : s.cursorShape ≠ .app) (h : Rel e cn k0 s t) : Rel e cn' k0 s t := by
  refine { h with cursorShape := ?_ }
  have := h.cursorShape
  revert this hs
  cases s.cursorShape <;> simp

theorem restored_of {m : Nat} {s : STerm} {t : MTerm} (hs : restoredS m s = true) (h : Rel e cn k0 s t) :
    restored (t0V m e k0) t = true := by
  simp only [restoredS, Bool.and_eq_true, Bool.not_eq_true', beq_iff_eq] at hs
  obtain ⟨⟨⟨⟨⟨⟨⟨⟨⟨⟨⟨⟨_, _⟩, h3⟩, h4⟩, h5⟩, h6⟩, h7⟩, h8⟩, h9⟩, h10⟩, h11⟩, h12⟩, h13⟩ := hs
  have a1 := h.modes
  have a2 := h.cursorVisible true h4
  have a3 := h.alt
  have a4 := h.kitty
  have a5 := h.keypadApp
  have a6 := h.cursorShape
  have a7 := h.appId
  have a8 := h.pointer
  have a9 := h.penClean true h11
  have a10 := h.linkOpen false h12
  have a11 := h.sync false h13
  rw [h8] at a6; rw [h9] at a7; rw [h10] at a8
  simp only at a6 a7 a8
  simp only [restored, Bool.and_eq_true, Bool.not_eq_true', beq_iff_eq, t0V]
  refine ⟨⟨⟨⟨⟨⟨⟨⟨⟨⟨?_, a2⟩, ?_⟩, ?_⟩, ?_⟩, a6⟩, a7⟩, a8⟩, a9⟩, a10⟩, a11⟩
  · rw [a1]; exact h3
  · rw [a3]; exact h5
  · rw [a4, h6]; rfl
  · rw [a5]; exact h7

theorem rel_le {a b : STerm} {t : MTerm} (hab : leS a b = true) (h : Rel e cn k0 a t) : Rel e cn k0 b t := by
  simp only [leS, sameStatic, Bool.and_eq_true, Bool.or_eq_true, Bool.not_eq_true', beq_iff_eq] at hab
  obtain ⟨hab, h13⟩ := hab
  obtain ⟨hab, h12⟩ := hab
  obtain ⟨hab, h11⟩ := hab
  obtain ⟨hab, h10⟩ := hab
  obtain ⟨hab, h9⟩ := hab
  obtain ⟨hab, h8⟩ := hab
  obtain ⟨hab, h7⟩ := hab
  obtain ⟨hab, h6⟩ := hab
  obtain ⟨hab, h5⟩ := hab
  obtain ⟨hab, h4⟩ := hab
  obtain ⟨hab, h3⟩ := hab
  obtain ⟨_, ⟨⟨s1, s2⟩, s3⟩⟩ := hab
  constructor
  · rw [← s1]; exact h.supported
  · rw [← h3]; exact h.modes
  · intro x hx
    rcases h4 with h4 | h4
    · rw [h4] at hx; cases hx
    · exact h.cursorVisible x (h4 ▸ hx)
  · rw [← h5]; exact h.alt
  · rw [← s2]; exact h.kittySupported
  · rw [← h6]; exact h.kitty
  · rw [← h7]; exact h.keypadApp
  · rcases h8 with h8 | h8
    · rw [h8]; trivial
    · rw [← h8]; exact h.cursorShape
  · rw [← s3]; exact h.appIdSupported
  · rcases h9 with h9 | h9
    · rw [h9]; trivial
    · rw [← h9]; exact h.appId
  · rcases h10 with h10 | h10
    · rw [h10]; trivial
    · rw [← h10]; exact h.pointer
  · intro x hx
    rcases h11 with h11 | h11
    · rw [h11] at hx; cases hx
    · exact h.penClean x (h11 ▸ hx)
  · intro x hx
    rcases h12 with h12 | h12
    · rw [h12] at hx; cases hx
    · exact h.linkOpen x (h12 ▸ hx)
  · intro x hx
    rcases h13 with h13 | h13
    · rw [h13] at hx; cases hx
    · exact h.sync x (h13 ▸ hx)

theorem rel_gen {s : STerm} {t : MTerm} (h : Rel e cn k0 s t) : Rel e cn' k0 (gen s) t := by
  constructor
  · exact h.supported
  · exact h.modes
  · intro x hx; simp [gen] at hx
  · exact h.alt
  · exact h.kittySupported
  · exact h.kitty
  · exact h.keypadApp
  · simp [gen]
  · exact h.appIdSupported
  · by_cases hsup : s.appIdSupported = true
    · simp [gen, hsup]
    · simp only [gen, hsup]; exact h.appId
  · simp [gen]
  · intro x hx; simp [gen] at hx
  · exact h.linkOpen
  · intro x hx
    simp only [gen] at hx
    split at hx
    · cases hx
    · exact h.sync x hx

/-! ### What the application may do between lifecycle calls -/

/-- `Tok.other` sequences the mode terminal does not react to (titles, bell, clipboard, notifications,
    graphics, queries …): anything but the keypad modes, kitty keyboard push/pop and OSC 176. -/
def otherNeutral (raw : String) : Bool :=
  decide (raw.toList ≠ "1b3d".toList) && decide (raw.toList ≠ "1b3e".toList) && decide (raw.toList ≠ "1b5b3c75".toList) &&
  !(startsWith raw "1b5b3e" && endsWith raw "75") && !startsWith raw "1b5d3137363b"

/-- Tokens a frame — or any other application output between lifecycle calls (SetTitle, Bell,
    ClipboardPush, Notify, graphics) — may contain as far as the mode terminal is concerned: everything the renderer
    writes (`C07.render_gated`: cursor visibility and synchronized-update brackets are the only private modes) and
    neutral `other` sequences. -/
def frameTok : Tok → Bool
  | .decset n => n == 25 || n == 2026
  | .decrst n => n == 25 || n == 2026
  | .other raw => otherNeutral raw
  | _ => true

theorem other_neutral (t : MTerm) (raw : String) (h : otherNeutral raw = true) : VaxisModel.Spec.ModeTerm.other t raw = t := by
  simp only [otherNeutral, Bool.and_eq_true, decide_eq_true_eq, Bool.not_eq_true', Bool.and_eq_false_iff] at h
  obtain ⟨⟨⟨⟨h1, h2⟩, h3⟩, h4⟩, h5⟩ := h
  unfold VaxisModel.Spec.ModeTerm.other
  rw [if_neg h1, if_neg h2, if_neg h3, if_neg (by intro ⟨a, b⟩; rcases h4 with h4 | h4 <;> simp_all), if_neg (by simp [h5])]

/-- What a frame token cannot change. -/
structure Keeps (t t' : MTerm) : Prop where
  supported : t'.supported = t.supported
  modes : t'.modes = t.modes
  alt : t'.alt = t.alt
  kittySupported : t'.kittySupported = t.kittySupported
  kitty : t'.kitty = t.kitty
  keypadApp : t'.keypadApp = t.keypadApp
  appIdSupported : t'.appIdSupported = t.appIdSupported
  appId : t'.appId = t.appId
  sync : t.supported.contains 2026 = false → t'.sync = t.sync

theorem keeps_refl (t : MTerm) : Keeps t t := by constructor <;> intros <;> rfl

theorem keeps_step (t : MTerm) (k : Tok) (hk : frameTok k = true) : Keeps t (step t k) := by
  cases k with
  | other r =>
    simp only [frameTok] at hk
    simp only [step, other_neutral t r hk]; exact keeps_refl t
  | decset n =>
    simp only [frameTok, Bool.or_eq_true, beq_iff_eq] at hk
    rcases hk with rfl | rfl
    · simp only [step, decMode]; constructor <;> intros <;> rfl
    · simp only [step, decMode, show ¬ ((2026 : Nat) = 25) by decide, show ¬ ((2026 : Nat) = 1049) by decide, if_false, if_true]
      split
      · constructor <;> intros <;> first | rfl | simp_all
      · exact keeps_refl t
  | decrst n =>
    simp only [frameTok, Bool.or_eq_true, beq_iff_eq] at hk
    rcases hk with rfl | rfl
    · simp only [step, decMode]; constructor <;> intros <;> rfl
    · simp only [step, decMode, show ¬ ((2026 : Nat) = 25) by decide, show ¬ ((2026 : Nat) = 1049) by decide, if_false, if_true]
      split
      · constructor <;> intros <;> first | rfl | simp_all
      · exact keeps_refl t
  | _ => simp only [step]; constructor <;> intros <;> rfl

theorem keeps_trans {a b c : MTerm} (h1 : Keeps a b) (h2 : Keeps b c) : Keeps a c := by
  constructor
  · rw [h2.supported, h1.supported]
  · rw [h2.modes, h1.modes]
  · rw [h2.alt, h1.alt]
  · rw [h2.kittySupported, h1.kittySupported]
  · rw [h2.kitty, h1.kitty]
  · rw [h2.keypadApp, h1.keypadApp]
  · rw [h2.appIdSupported, h1.appIdSupported]
  · rw [h2.appId, h1.appId]
  · intro h; rw [h2.sync (by rw [h1.supported]; exact h), h1.sync h]

theorem keeps_run (t : MTerm) (toks : List Tok) (h : ∀ k ∈ toks, frameTok k = true) : Keeps t (run t toks) := by
  induction toks generalizing t with
  | nil => exact keeps_refl t
  | cons k ks ih =>
    simp only [run, List.foldl_cons]
    exact keeps_trans (keeps_step t k (h k (by simp))) (ih (step t k) (fun k' hk' => h k' (by simp [hk'])))

/-- The running invariant survives anything that keeps the core and leaves no hyperlink open. -/
theorem rel_gen_keeps {s : STerm} {t t' : MTerm} (hl : s.linkOpen = some false) (h : Rel e cn k0 (gen s) t)
    (hk : Keeps t t') (hlink : t'.linkOpen = false) : Rel e cn' k0 (gen s) t' := by
  constructor
  · rw [hk.supported]; exact h.supported
  · rw [hk.modes]; exact h.modes
  · intro x hx; simp [gen] at hx
  · rw [hk.alt]; exact h.alt
  · rw [hk.kittySupported]; exact h.kittySupported
  · rw [hk.kitty]; exact h.kitty
  · rw [hk.keypadApp]; exact h.keypadApp
  · simp [gen]
  · rw [hk.appIdSupported]; exact h.appIdSupported
  · have := h.appId
    by_cases hsup : s.appIdSupported = true
    · simp [gen, hsup]
    · simp only [gen, hsup] at this ⊢; rw [hk.appId]; exact this
  · simp [gen]
  · intro x hx; simp [gen] at hx
  · intro x hx
    simp only [gen] at hx
    rw [hl] at hx
    cases hx; exact hlink
  · intro x hx
    have hs := h.sync x hx
    simp only [gen] at hx
    split at hx
    · cases hx
    · rename_i hsup
      have : t.supported.contains 2026 = false := by
        rw [h.supported]; simpa [gen] using hsup
      rw [hk.sync this]; exact hs

/-- `SetAppID` (any id) keeps the running invariant. -/
theorem rel_gen_setAppId {s : STerm} {t : MTerm} (id : String) (h : Rel e cn k0 (gen s) t) :
    Rel e cn' k0 (gen s) (step t (.other (appIdSetRaw id))) := by
  rw [appIdSet_step_gen]
  have hc : Rel e cn' k0 (gen s) t := rel_cn (by simp [gen]) h
  split
  · rename_i hsup
    have hsup' : s.appIdSupported = true := by
      have := h.appIdSupported; simp only [gen] at this; rw [← this]; exact hsup.1
    constructor
    · exact hc.supported
    · exact hc.modes
    · exact hc.cursorVisible
    · exact hc.alt
    · exact hc.kittySupported
    · exact hc.kitty
    · exact hc.keypadApp
    · exact hc.cursorShape
    · exact hc.appIdSupported
    · simp [gen, hsup']
    · exact hc.pointer
    · exact hc.penClean
    · exact hc.linkOpen
    · exact hc.sync
  · exact hc

/-! ### Sessions -/

inductive Op where
  | frame (toks : List Tok)            -- one `Render()` (or SetTitle / Bell / ClipboardPush / Notify / graphics): what it wrote
  | cursor (cn cl : CursorState)       -- ShowCursor / HideCursor / the renderer's bookkeeping: any cursor records
  | setAppId (id : String)             -- `SetAppID(id)`: written directly
  | suspend
  | resume

/-- A frame writes renderer vocabulary only and leaves no hyperlink open (`Props.C04.renderFrame_ok`:
    every frame of the renderer model qualifies). Other operations are unconstrained. -/
def Op.ok : Op → Prop
  | .frame toks => (∀ k ∈ toks, frameTok k = true) ∧ ∀ t, t.linkOpen = false → (run t toks).linkOpen = false
  | _ => True

structure Sess where
  w : WSt
  t : MTerm

def clearWire (w : WSt) : WSt := { w with wire := [] }

/-- One operation.  While suspended the application only resumes or shuts down (rendering into a
    suspended Vaxis, or resuming one that runs, is outside the API's contract and skipped here). -/
def applyOp (e : Env) (s : Sess) : Op → Sess
  | .frame toks => if s.w.suspended then s else { s with t := run s.t toks }
  | .cursor cn cl => if s.w.suspended then s else { s with w := { s.w with cn := cn, cl := cl } }
  | .setAppId id => if s.w.suspended then s else { s with t := step s.t (.other (appIdSetRaw id)) }
  | .suspend => let w' := suspendW e (clearWire s.w); { w := w', t := run s.t w'.wire }
  | .resume =>
      if s.w.suspended then (let w' := resumeW e (clearWire s.w); { w := w', t := run s.t w'.wire }) else s

def runOps (e : Env) (s : Sess) (ops : List Op) : Sess := ops.foldl (applyOp e) s

/-- `New`: everything start-up writes, on the terminal `t0`. -/
def start (e : Env) (t0 : MTerm) : Sess := let w := startupW e; { w := w, t := run t0 w.wire }

/-- `Close` (from the application, the signal arm or the panic handler). -/
def shutdown (e : Env) (s : Sess) : Sess :=
  let w' := closeW e false (clearWire s.w); { w := w', t := run s.t w'.wire }

/-- The session invariant. -/
def Inv (m : Nat) (e : Env) (k0 : Nat) (s : Sess) : Prop :=
  (s.w.suspended = false ∧ s.w.closed = false ∧ s.w.buf = [] ∧ s.w.fresh = false ∧ ∀ cn, Rel e cn k0 (G m) s.t)
  ∨ (∃ cnv clv, s.w.suspended = true ∧ s.w.closed = false ∧ s.w.buf = [] ∧ s.w.fresh = false ∧
        s.w.cn.visible = (interpS (vOf m) 64 suspend (Wrun cnv clv)).cnv ∧
        s.w.cl.visible = (interpS (vOf m) 64 suspend (Wrun cnv clv)).clv ∧
        ∀ cn, Rel e cn k0 (runS (G m) (interpS (vOf m) 64 suspend (Wrun cnv clv)).wire) s.t)

/-- The facts `cycleB` checks, as propositions. -/
structure CycleFacts (m : Nat) (cnv clv : Bool) : Prop where
  s2buf : (interpS (vOf m) 64 suspend (Wrun cnv clv)).buf = []
  s2sus : (interpS (vOf m) 64 suspend (Wrun cnv clv)).suspended = true
  s2closed : (interpS (vOf m) 64 suspend (Wrun cnv clv)).closed = false
  s2fresh : (interpS (vOf m) 64 suspend (Wrun cnv clv)).fresh = false
  r2 : restoredS m (runS (G m) (interpS (vOf m) 64 suspend (Wrun cnv clv)).wire) = true
  s3buf : (interpS (vOf m) 64 resume { interpS (vOf m) 64 suspend (Wrun cnv clv) with wire := [], clUser := false }).buf = []
  s3sus : (interpS (vOf m) 64 resume { interpS (vOf m) 64 suspend (Wrun cnv clv) with wire := [], clUser := false }).suspended = false
  s3closed : (interpS (vOf m) 64 resume { interpS (vOf m) 64 suspend (Wrun cnv clv) with wire := [], clUser := false }).closed = false
  s3fresh : (interpS (vOf m) 64 resume { interpS (vOf m) 64 suspend (Wrun cnv clv) with wire := [], clUser := false }).fresh = false
  r3 : leS (runS (runS (G m) (interpS (vOf m) 64 suspend (Wrun cnv clv)).wire)
          (interpS (vOf m) 64 resume { interpS (vOf m) 64 suspend (Wrun cnv clv) with wire := [], clUser := false }).wire) (G m) = true
  s4wire : (interpS (vOf m) 64 close (Wrun cnv clv)).wire = (interpS (vOf m) 64 suspend (Wrun cnv clv)).wire
  s4buf : (interpS (vOf m) 64 close (Wrun cnv clv)).buf = []
  s4sus : (interpS (vOf m) 64 close (Wrun cnv clv)).suspended = true
  s4closed : (interpS (vOf m) 64 close (Wrun cnv clv)).closed = true
  s5wire : (interpS (vOf m) 64 close { interpS (vOf m) 64 suspend (Wrun cnv clv) with wire := [], clUser := false }).wire = []
  s5closed : (interpS (vOf m) 64 close { interpS (vOf m) 64 suspend (Wrun cnv clv) with wire := [], clUser := false }).closed = true

theorem cycleFacts {m : Nat} {cnv clv : Bool} (h : cycleB m cnv clv = true) : CycleFacts m cnv clv := by
  simp only [cycleB, Bool.and_eq_true, Bool.not_eq_true', beq_iff_eq, List.isEmpty_iff] at h
  obtain ⟨⟨⟨⟨⟨⟨⟨⟨⟨⟨⟨⟨⟨⟨⟨⟨⟨⟨⟨⟨a1, a2⟩, a3⟩, a4⟩, a5⟩, a6⟩, a7⟩, a8⟩, a9⟩, a10⟩, a11⟩, a12⟩, a13⟩, a14⟩, _⟩, _⟩, _⟩, a18⟩, _⟩, _⟩, a21⟩ := h
  exact ⟨a1, a2, a3, a4, a5, a6, a7, a8, a9, a10, a11, a12, a13, a14, a18, a21⟩

structure StartFacts (m : Nat) : Prop where
  buf : (startupS (vOf m)).buf = []
  sus : (startupS (vOf m)).suspended = false
  closed : (startupS (vOf m)).closed = false
  fresh : (startupS (vOf m)).fresh = false
  poison : (established m).poison = false
  link : (established m).linkOpen = some false

theorem startFacts {m : Nat} (h : startB m = true) : StartFacts m := by
  simp only [startB, Bool.and_eq_true, Bool.not_eq_true', beq_iff_eq, List.isEmpty_iff] at h
  obtain ⟨⟨⟨⟨⟨⟨a1, a2⟩, a3⟩, a4⟩, a5⟩, a6⟩, _⟩ := h
  exact ⟨a1, a2, a3, a4, a5, a6⟩

/-- Everything the kernel established for assignment `m`. -/
structure Facts (m : Nat) : Prop where
  start : StartFacts m
  cycle : ∀ cnv clv, CycleFacts m cnv clv

theorem facts_of {m : Nat} (h : allB m = true) : Facts m := by
  simp only [allB, Bool.and_eq_true] at h
  obtain ⟨⟨⟨⟨h0, h1⟩, h2⟩, h3⟩, h4⟩ := h
  refine ⟨startFacts h0, ?_⟩
  intro cnv clv
  cases cnv <;> cases clv
  · exact cycleFacts h1
  · exact cycleFacts h2
  · exact cycleFacts h3
  · exact cycleFacts h4

theorem gen_linkOpen (s : STerm) : (gen s).linkOpen = s.linkOpen := rfl

/-! ### The concrete calls, through the symbolic interpreter -/

theorem absW_running (w : WSt) (h1 : w.suspended = false) (h2 : w.closed = false) (h3 : w.buf = []) (h4 : w.fresh = false) :
    absW (clearWire w) = Wrun w.cn.visible w.cl.visible := by
  simp [absW, clearWire, Wrun, h1, h2, h3, h4]

theorem absW_suspended {m : Nat} {cnv clv : Bool} (f : CycleFacts m cnv clv) (w : WSt)
    (h1 : w.suspended = true) (h2 : w.closed = false) (h3 : w.buf = []) (h4 : w.fresh = false)
    (h5 : w.cn.visible = (interpS (vOf m) 64 suspend (Wrun cnv clv)).cnv)
    (h6 : w.cl.visible = (interpS (vOf m) 64 suspend (Wrun cnv clv)).clv) :
    absW (clearWire w) = { interpS (vOf m) 64 suspend (Wrun cnv clv) with wire := [], clUser := false } := by
  have a1 := f.s2buf; have a2 := f.s2sus; have a3 := f.s2closed; have a4 := f.s2fresh
  revert a1 a2 a3 a4 h5 h6
  generalize interpS (vOf m) 64 suspend (Wrun cnv clv) = s2
  intro h5 h6 a1 a2 a3 a4
  cases s2
  simp_all [absW, clearWire]


/-! ### Induction -/

section induction
variable {m : Nat} (F : Facts m) (hv : e.v = vOf m) (hq : SettableId e.appId)
include F hv hq

theorem start_inv : Inv m e k0 (start e (t0V m e k0)) := by
  left
  have f := F.start
  simp only [start, startupW, concW, hv]
  refine ⟨f.sus, f.closed, ?_, f.fresh, ?_⟩
  · rw [f.buf]; rfl
  · intro cn
    have h := runS_sound (e := e) (cn := ({} : WSt).cn) (k0 := k0) ({} : WSt).cl hq (startupS (vOf m)).wire (rel_t0 m) f.poison
    exact rel_gen h

theorem suspend_running (w : WSt) (t : MTerm)
    (h1 : w.suspended = false) (h2 : w.closed = false) (h3 : w.buf = []) (h4 : w.fresh = false)
    (hr : ∀ cn, Rel e cn k0 (G m) t) :
    let w' := suspendW e (clearWire w)
    w'.suspended = true ∧ w'.closed = false ∧ w'.buf = [] ∧ w'.fresh = false ∧
      w'.cn.visible = (interpS (vOf m) 64 suspend (Wrun w.cn.visible w.cl.visible)).cnv ∧
      w'.cl.visible = (interpS (vOf m) 64 suspend (Wrun w.cn.visible w.cl.visible)).clv ∧
      ∀ cn, Rel e cn k0 (runS (G m) (interpS (vOf m) 64 suspend (Wrun w.cn.visible w.cl.visible)).wire) (run t w'.wire) := by
  have f := F.cycle w.cn.visible w.cl.visible
  simp only [suspendW, interp, concW, hv, absW_running w h1 h2 h3 h4]
  refine ⟨f.s2sus, f.s2closed, ?_, f.s2fresh, trivial, trivial, ?_⟩
  · rw [f.s2buf]; rfl
  · intro cn
    have hp : (runS (G m) (interpS (vOf m) 64 suspend (Wrun w.cn.visible w.cl.visible)).wire).poison = false := by
      have := f.r2; simp only [restoredS, Bool.and_eq_true, Bool.not_eq_true'] at this
      exact this.1.1.1.1.1.1.1.1.1.1.1.1
    have hsh : (runS (G m) (interpS (vOf m) 64 suspend (Wrun w.cn.visible w.cl.visible)).wire).cursorShape = .user := by
      have := f.r2; simp only [restoredS, Bool.and_eq_true, beq_iff_eq] at this
      exact this.1.1.1.1.1.2
    have h := runS_sound (e := e) (cn := (clearWire w).cn) (k0 := k0) (clearWire w).cl hq
      (interpS (vOf m) 64 suspend (Wrun w.cn.visible w.cl.visible)).wire (hr _) hp
    exact rel_cn (by rw [hsh]; simp) h

theorem close_running (w : WSt) (t : MTerm)
    (h1 : w.suspended = false) (h2 : w.closed = false) (h3 : w.buf = []) (h4 : w.fresh = false)
    (hr : ∀ cn, Rel e cn k0 (G m) t) :
    let w' := closeW e false (clearWire w)
    w'.closed = true ∧ restored (t0V m e k0) (run t w'.wire) = true := by
  have f := F.cycle w.cn.visible w.cl.visible
  have habs : absW { clearWire w with closed := (clearWire w).closed || false } = Wrun w.cn.visible w.cl.visible := by
    simp [absW, clearWire, Wrun, h1, h2, h3, h4]
  simp only [closeW, interp, concW, hv, habs]
  refine ⟨f.s4closed, ?_⟩
  rw [f.s4wire]
  have hp : (runS (G m) (interpS (vOf m) 64 suspend (Wrun w.cn.visible w.cl.visible)).wire).poison = false := by
    have := f.r2; simp only [restoredS, Bool.and_eq_true, Bool.not_eq_true'] at this
    exact this.1.1.1.1.1.1.1.1.1.1.1.1
  have h := runS_sound (e := e) (cn := (clearWire w).cn) (k0 := k0) (clearWire w).cl hq
    (interpS (vOf m) 64 suspend (Wrun w.cn.visible w.cl.visible)).wire (hr _) hp
  exact restored_of f.r2 h

theorem step_inv (s : Sess) (op : Op) (hok : op.ok) (h : Inv m e k0 s) : Inv m e k0 (applyOp e s op) := by
  rcases h with ⟨h1, h2, h3, h4, hr⟩ | ⟨cnv, clv, h1, h2, h3, h4, h5, h6, hr⟩
  · -- running
    cases op with
    | frame toks =>
      simp only [applyOp, h1, Bool.false_eq_true, if_false]
      left
      refine ⟨h1, h2, h3, h4, ?_⟩
      intro cn
      exact rel_gen_keeps F.start.link (hr cn) (keeps_run s.t toks hok.1)
        (hok.2 s.t ((hr cn).linkOpen false (by rw [G, gen_linkOpen]; exact F.start.link)))
    | cursor cn cl =>
      simp only [applyOp, h1, Bool.false_eq_true, if_false]
      left
      exact ⟨rfl, h2, h3, h4, hr⟩
    | setAppId id =>
      simp only [applyOp, h1, Bool.false_eq_true, if_false]
      left
      refine ⟨h1, h2, h3, h4, ?_⟩
      intro cn
      exact rel_gen_setAppId id (hr cn)
    | suspend =>
      right
      have := suspend_running F hv hq s.w s.t h1 h2 h3 h4 hr
      exact ⟨s.w.cn.visible, s.w.cl.visible, this⟩
    | resume =>
      simp only [applyOp, h1, Bool.false_eq_true, if_false]
      left
      exact ⟨h1, h2, h3, h4, hr⟩
  · -- suspended
    have f := F.cycle cnv clv
    cases op with
    | frame toks =>
      simp only [applyOp, h1, if_true]
      right; exact ⟨cnv, clv, h1, h2, h3, h4, h5, h6, hr⟩
    | cursor cn cl =>
      simp only [applyOp, h1, if_true]
      right; exact ⟨cnv, clv, h1, h2, h3, h4, h5, h6, hr⟩
    | setAppId id =>
      simp only [applyOp, h1, if_true]
      right; exact ⟨cnv, clv, h1, h2, h3, h4, h5, h6, hr⟩
    | suspend =>
      -- Suspend while suspended: the early return is taken, nothing is written
      right
      refine ⟨cnv, clv, ?_⟩
      have hs : interpS (vOf m) 64 suspend (absW (clearWire s.w)) = absW (clearWire s.w) := by
        have : (absW (clearWire s.w)).suspended = true := by simp [absW, clearWire, h1]
        exact C04Interp.suspend_suspended _ _ this
      simp only [applyOp, suspendW, interp, hv, hs]
      simp only [concW, absW, clearWire, List.map_nil, List.flatMap_nil, run, List.foldl_nil, h3]
      refine ⟨h1, h2, ?_, h4, h5, h6, hr⟩
      simp
    | resume =>
      simp only [applyOp, h1, if_true]
      left
      have habs := absW_suspended f s.w h1 h2 h3 h4 h5 h6
      simp only [resumeW, interp, concW, hv, habs]
      refine ⟨f.s3sus, f.s3closed, ?_, f.s3fresh, ?_⟩
      · rw [f.s3buf]; rfl
      · intro cn
        have hp : (runS (runS (G m) (interpS (vOf m) 64 suspend (Wrun cnv clv)).wire)
            (interpS (vOf m) 64 resume { interpS (vOf m) 64 suspend (Wrun cnv clv) with wire := [], clUser := false }).wire).poison = false := by
          have := f.r3; simp only [leS, Bool.and_eq_true, Bool.not_eq_true'] at this
          exact this.1.1.1.1.1.1.1.1.1.1.1.1
        have h := runS_sound (e := e) (cn := (clearWire s.w).cn) (k0 := k0) (clearWire s.w).cl hq
          (interpS (vOf m) 64 resume { interpS (vOf m) 64 suspend (Wrun cnv clv) with wire := [], clUser := false }).wire (hr _) hp
        exact rel_cn (by simp [G, gen]) (rel_le f.r3 h)

theorem ops_inv (s : Sess) (ops : List Op) (hok : ∀ op ∈ ops, op.ok) (h : Inv m e k0 s) : Inv m e k0 (runOps e s ops) := by
  induction ops generalizing s with
  | nil => exact h
  | cons op rest ih =>
    simp only [runOps, List.foldl_cons]
    exact ih _ (fun o ho => hok o (by simp [ho])) (step_inv F hv hq s op (hok op (by simp)) h)

/-- Shutdown from any state the invariant allows restores the terminal and marks Vaxis closed. -/
theorem shutdown_restores (s : Sess) (h : Inv m e k0 s) :
    (shutdown e s).w.closed = true ∧ restored (t0V m e k0) (shutdown e s).t = true := by
  rcases h with ⟨h1, h2, h3, h4, hr⟩ | ⟨cnv, clv, h1, h2, h3, h4, h5, h6, hr⟩
  · exact close_running F hv hq s.w s.t h1 h2 h3 h4 hr
  · have f := F.cycle cnv clv
    have habs0 := absW_suspended f s.w h1 h2 h3 h4 h5 h6
    have habs : absW { clearWire s.w with closed := (clearWire s.w).closed || false } =
        { interpS (vOf m) 64 suspend (Wrun cnv clv) with wire := [], clUser := false } := by
      rw [← habs0]; simp [absW, clearWire]
    simp only [shutdown, closeW, interp, concW, hv, habs, f.s5wire, f.s5closed, List.flatMap_nil, run, List.foldl_nil, true_and]
    exact restored_of f.r2 (hr s.w.cn)

/-- While running, the modes, screen selector, kitty keyboard stack and keypad mode are exactly the
    ones start-up established (whatever happened in between, including Suspend/Resume cycles). -/
theorem running_core (s : Sess) (h : Inv m e k0 s) (hrun : s.w.suspended = false) :
    s.t.modes = (start e (t0V m e k0)).t.modes ∧ s.t.alt = (start e (t0V m e k0)).t.alt ∧
    s.t.kitty = (start e (t0V m e k0)).t.kitty ∧ s.t.keypadApp = (start e (t0V m e k0)).t.keypadApp := by
  have h0 := start_inv (k0 := k0) F hv hq
  rcases h0 with ⟨_, _, _, _, hr0⟩ | ⟨_, _, h1, _⟩
  · rcases h with ⟨_, _, _, _, hr⟩ | ⟨_, _, h1, _⟩
    · have a := hr s.w.cn; have b := hr0 s.w.cn
      exact ⟨by rw [a.modes, b.modes], by rw [a.alt, b.alt], by rw [a.kitty, b.kitty], by rw [a.keypadApp, b.keypadApp]⟩
    · rw [hrun] at h1; cases h1
  · have f := F.start
    simp only [start, startupW, concW, hv, f.sus] at h1
    cases h1

/-- While suspended, everything is restored. -/
theorem suspended_restored (s : Sess) (h : Inv m e k0 s) (hsus : s.w.suspended = true) :
    restored (t0V m e k0) s.t = true := by
  rcases h with ⟨h1, _⟩ | ⟨cnv, clv, _, _, _, _, _, _, hr⟩
  · rw [hsus] at h1; cases h1
  · exact restored_of (F.cycle cnv clv).r2 (hr s.w.cn)

/-- Close while suspended writes nothing. -/
theorem shutdown_suspended_silent (s : Sess) (h : Inv m e k0 s) (hsus : s.w.suspended = true) :
    (shutdown e s).w.wire = [] := by
  rcases h with ⟨h1, _⟩ | ⟨cnv, clv, h1, h2, h3, h4, h5, h6, hr⟩
  · rw [hsus] at h1; cases h1
  · have f := F.cycle cnv clv
    have habs0 := absW_suspended f s.w h1 h2 h3 h4 h5 h6
    have habs : absW { clearWire s.w with closed := (clearWire s.w).closed || false } =
        { interpS (vOf m) 64 suspend (Wrun cnv clv) with wire := [], clUser := false } := by
      rw [← habs0]; simp [absW, clearWire]
    simp only [shutdown, closeW, interp, concW, hv, habs, f.s5wire, List.flatMap_nil]

end induction

end VaxisModel.Lemmas.C04Session
