/-
C04 — `New` failing half-way (round 4): the error exits of `New` are regenerated with the lifecycle
calls made before each `return nil, err` (`Gen.Modes.newSequence`); `Lifecycle.startupFailS` runs
start-up up to a chosen exit.  `failB m` — evaluated by the kernel for every guard assignment — says
that the exit taken when the window size cannot be read (the one exit after the terminal has been
set up) leaves the symbolic mode terminal restored, the buffer empty and Vaxis marked closed.
-/
import VaxisModel.Lemmas.C04SymCheck

namespace VaxisModel.Lemmas.C04SymCheck
open VaxisModel.Model.Lifecycle VaxisModel.Lemmas.C04Sym VaxisModel.Gen.Modes

def failB (m : Nat) : Bool :=
  let s := startupFailS (vOf m) "vx.reportWinsize" newSequence {}
  s.buf.isEmpty && s.closed && restoredS m (runS (sT0 m) s.wire)

def failChunkB (lo hi : Nat) : Bool := (List.range (hi - lo)).all fun k => failB (lo + k)

theorem failChunk_sound (lo hi : Nat) (h : failChunkB lo hi = true) : ∀ m, lo ≤ m → m < hi → failB m = true := by
  intro m h1 h2
  unfold failChunkB at h
  rw [List.all_eq_true] at h
  have := h (m - lo) (by simp; omega)
  have e : lo + (m - lo) = m := by omega
  rwa [e] at this

end VaxisModel.Lemmas.C04SymCheck
