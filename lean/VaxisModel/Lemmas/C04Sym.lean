/-
C04 — the mode terminal on *items* (tokens with named holes for run-time values).

`STerm` is `Spec.ModeTerm.MTerm` with the value-carrying fields replaced by symbols (`user` = the
queried user cursor style, `app` = the style the application asked for, `prior` = the application id
the terminal reported, `any` = nothing known).  `stepS` mirrors `ModeTerm.step`; `Rel` says which
concrete terminals a symbolic one stands for; `runS_sound` is the simulation: running the items
symbolically and filling the holes afterwards describes the concrete run *for every value*.  Equal
symbols give equal values whatever the values are, so a verdict computed on symbols by the kernel
holds for all kitty flags, cursor styles, positions, application ids and pointer shapes — in
particular when some of them coincide (the symbols stay distinct; only the values coincide).
-/
import VaxisModel.Model.Lifecycle
import VaxisModel.Spec.ModeTerm

namespace VaxisModel.Lemmas.C04Sym
open VaxisModel.Model.Lifecycle VaxisModel.Model.Render VaxisModel.Spec.ModeTerm

inductive SShape where
  | known (n : Nat) | user | app | any
  deriving DecidableEq, Repr, Inhabited

inductive SAppId where
  | known (s : String) | prior | any
  deriving DecidableEq, Repr, Inhabited

inductive SPtr where
  | known (s : String) | any
  deriving DecidableEq, Repr, Inhabited

structure STerm where
  supported : List Nat := []
  modes : List (Nat × Bool) := []
  cursorVisible : Option Bool := some true
  alt : Bool := false
  kittySupported : Bool := false
  kitty : Nat := 0                       -- entries pushed above the prior stack depth
  keypadApp : Bool := false
  cursorShape : SShape := .user
  appIdSupported : Bool := false
  appId : SAppId := .prior
  pointer : SPtr := .known "74657874"
  penClean : Option Bool := some true
  linkOpen : Option Bool := some false
  sync : Option Bool := some false
  poison : Bool := false                 -- something happened whose effect depends on values: nothing is claimed any more
  deriving DecidableEq, Repr, Inhabited

def decModeS (t : STerm) (n : Nat) (v : Bool) : STerm :=
  if n = 25 then { t with cursorVisible := some v }
  else if n = 1049 then { t with alt := v }
  else if n = 2026 then
    (if t.supported.contains 2026 then { t with sync := some v } else t)
  else if baseline.contains n ∨ t.supported.contains n then { t with modes := setMode t.modes n v }
  else t

def otherS (t : STerm) (raw : String) : STerm :=
  if raw.toList = "1b3d".toList then { t with keypadApp := true }
  else if raw.toList = "1b3e".toList then { t with keypadApp := false }
  else if raw.toList = "1b5b3c75".toList then
    (if t.kittySupported then (if t.kitty = 0 then { t with poison := true } else { t with kitty := t.kitty - 1 }) else t)
  else if startsWith raw "1b5b3e" ∧ endsWith raw "75" then
    (if t.kittySupported then { t with kitty := t.kitty + 1 } else t)
  else if startsWith raw "1b5d3137363b" then
    (if t.appIdSupported ∧ raw.toList ≠ "1b5d3137363b3f".toList then { t with appId := .known (String.ofList (raw.toList.drop 12)) } else t)
  else t

def stepTokS (t : STerm) : Tok → STerm
  | .decset n => decModeS t n true
  | .decrst n => decModeS t n false
  | .cursorStyle n => { t with cursorShape := .known n }
  | .pointer s => { t with pointer := .known s }
  | .sgr ps => { t with penClean := some (decide (ps.isEmpty ∨ ps = [[0]])) }
  | .osc8 _ u => { t with linkOpen := some (decide (u ≠ "")) }
  | .other raw => otherS t raw
  | _ => t

def stepS (t : STerm) : Item → STerm
  | .tok k => stepTokS t k
  | .kittyPush => if t.kittySupported then { t with kitty := t.kitty + 1 } else t
  | .userStyle => { t with cursorShape := .user }
  | .appIdRestore => if t.appIdSupported then { t with appId := .prior } else t
  | .showCursor => { t with cursorShape := .app, cursorVisible := some true }
  | .cursorOnly _ => { t with poison := true }
  | .opaqueW _ => { t with poison := true }

def runS (t : STerm) (items : List Item) : STerm := items.foldl stepS t

/-- Hex form of the application id as the mode terminal stores it. -/
def appIdHex (id : String) : String := String.ofList (hexChars (bytesOf id))

/-- The concrete terminals a symbolic terminal stands for, given the run-time values: `e` (kitty
    flags, user cursor style, application id), the application's cursor `cn`, the prior kitty
    keyboard stack depth `k0`. -/
structure Rel (e : Env) (cn : CursorState) (k0 : Nat) (s : STerm) (t : MTerm) : Prop where
  supported : t.supported = s.supported
  modes : t.modes = s.modes
  cursorVisible : ∀ b, s.cursorVisible = some b → t.cursorVisible = b
  alt : t.alt = s.alt
  kittySupported : t.kittySupported = s.kittySupported
  kitty : t.kitty = k0 + s.kitty
  keypadApp : t.keypadApp = s.keypadApp
  cursorShape : match s.cursorShape with
    | .known n => t.cursorShape = n
    | .user => t.cursorShape = e.userCursorStyle
    | .app => t.cursorShape = cn.style
    | .any => True
  appIdSupported : t.appIdSupported = s.appIdSupported
  appId : match s.appId with
    | .known x => t.appId = x
    | .prior => t.appId = appIdHex e.appId
    | .any => True
  pointer : match s.pointer with
    | .known x => t.pointer = x
    | .any => True
  penClean : ∀ b, s.penClean = some b → t.penClean = b
  linkOpen : ∀ b, s.linkOpen = some b → t.linkOpen = b
  sync : ∀ b, s.sync = some b → t.sync = b

/-! ### Simulation, token by token -/

variable {e : Env} {cn : CursorState} {k0 : Nat}

/-- Close the fields of a `Rel` goal that are those of `h` (or trivially equal). -/
local macro "rel_fields " h:ident : tactic =>
  `(tactic| (constructor <;> first
      | exact ($h).supported | exact ($h).modes | exact ($h).cursorVisible | exact ($h).alt
      | exact ($h).kittySupported | exact ($h).kitty | exact ($h).keypadApp | exact ($h).cursorShape
      | exact ($h).appIdSupported | exact ($h).appId | exact ($h).pointer | exact ($h).penClean
      | exact ($h).linkOpen | exact ($h).sync | rfl | skip))

private theorem decMode_sound {s : STerm} {t : MTerm} (h : Rel e cn k0 s t) (n : Nat) (v : Bool) :
    Rel e cn k0 (decModeS s n v) (decMode t n v) := by
  unfold decModeS decMode
  rw [← h.supported]
  split
  · rel_fields h
    intro b hb; simp at hb; simpa using hb
  split
  · rel_fields h
  split
  · split
    · rel_fields h
      intro b hb; simp at hb; simpa using hb
    · rel_fields h
  split
  · rel_fields h
    show setMode t.modes n v = setMode s.modes n v
    rw [h.modes]
  · rel_fields h

private theorem other_sound {s : STerm} {t : MTerm} (h : Rel e cn k0 s t) (raw : String)
    (hp : (otherS s raw).poison = false) : Rel e cn k0 (otherS s raw) (other t raw) := by
  unfold otherS other at *
  rw [← h.kittySupported, ← h.appIdSupported] at *
  split
  · rel_fields h
  split
  · rel_fields h
  split
  · split
    · split
      · rename_i h0 h1 h2 h3 h4; simp [h2, h3, h4] at hp
      · rel_fields h
        show t.kitty - 1 = k0 + (s.kitty - 1); rw [h.kitty]; omega
    · rel_fields h
  split
  · split
    · rel_fields h
      show t.kitty + 1 = k0 + (s.kitty + 1); rw [h.kitty]; omega
    · rel_fields h
  split
  · split
    · rel_fields h
    · rel_fields h
  · rel_fields h

private theorem poison_mono_tok (s : STerm) (k : Tok) (hp : (stepTokS s k).poison = false) : s.poison = false := by
  cases k <;> simp only [stepTokS] at hp <;> try exact hp
  all_goals first
    | (unfold decModeS at hp; repeat' split at hp) <;> simpa using hp
    | (unfold otherS at hp; repeat' split at hp) <;> simp_all

theorem poison_mono (s : STerm) (it : Item) (hp : (stepS s it).poison = false) : s.poison = false := by
  cases it <;> simp only [stepS] at hp
  · exact poison_mono_tok s _ hp
  · split at hp <;> simpa using hp
  · simpa using hp
  · split at hp <;> simpa using hp
  · simpa using hp
  · simp at hp
  · simp at hp

theorem poison_mono_run (s : STerm) (items : List Item) (hp : (runS s items).poison = false) : s.poison = false := by
  induction items generalizing s with
  | nil => exact hp
  | cons it rest ih => exact poison_mono s it (ih (stepS s it) hp)

private theorem tok_sound {s : STerm} {t : MTerm} (h : Rel e cn k0 s t) (k : Tok)
    (hp : (stepTokS s k).poison = false) : Rel e cn k0 (stepTokS s k) (step t k) := by
  cases k with
  | decset n => exact decMode_sound h n true
  | decrst n => exact decMode_sound h n false
  | cursorStyle n => simp only [stepTokS, step]; rel_fields h
  | pointer p => simp only [stepTokS, step]; rel_fields h
  | sgr ps =>
    simp only [stepTokS, step]; rel_fields h
    intro b hb; simp at hb; simp [← hb]
  | osc8 p u =>
    simp only [stepTokS, step]; rel_fields h
    intro b hb; simp at hb; simp [← hb]
  | other raw => exact other_sound h raw hp
  | cup _ _ => exact h
  | text _ => exact h
  | textW _ _ => exact h

/-! ### The value-carrying sequences, for every value -/

theorem kittyPush_step (t : MTerm) (flags : Nat) :
    step t (.other (kittyPushRaw flags)) = if t.kittySupported then { t with kitty := t.kitty + 1 } else t := by
  simp only [step, other, kittyPushRaw, String.toList_ofList, startsWith, endsWith]
  generalize hexChars (bytesOf (toString flags)) = mid
  have h1 : ¬ (['1', 'b', '5', 'b', '3', 'e'] ++ mid ++ ['7', '5'] = "1b3d".toList) := by
    intro h; have := congrArg (fun l => l.take 3) h; simp at this
  have h2 : ¬ (['1', 'b', '5', 'b', '3', 'e'] ++ mid ++ ['7', '5'] = "1b3e".toList) := by
    intro h; have := congrArg (fun l => l.take 3) h; simp at this
  have h3 : ¬ (['1', 'b', '5', 'b', '3', 'e'] ++ mid ++ ['7', '5'] = "1b5b3c75".toList) := by
    intro h; have := congrArg (fun l => l.take 6) h; simp at this
  have h4 : "1b5b3e".toList.isPrefixOf (['1', 'b', '5', 'b', '3', 'e'] ++ mid ++ ['7', '5']) = true := by
    rw [List.isPrefixOf_iff_prefix]
    exact ⟨mid ++ ['7', '5'], by simp⟩
  have h5 : "75".toList.isSuffixOf (['1', 'b', '5', 'b', '3', 'e'] ++ mid ++ ['7', '5']) = true := by
    rw [List.isSuffixOf_iff_suffix]
    exact ⟨['1', 'b', '5', 'b', '3', 'e'] ++ mid, by simp⟩
  simp only [h1, h2, h3, h4, h5, if_false, and_self, if_true]

/-- The sequence that sets application id `id` is not the *query* `OSC 176 ; ? ST` (true unless the
    id is the single character `?`, which OSC 176 cannot set). -/
def SettableId (id : String) : Prop := appIdSetRaw id ≠ "1b5d3137363b3f"

/-- `OSC 176 ; id ST` on the mode terminal, for every id: sets the application id where the terminal
    implements it — unless the sequence is the query. -/
theorem appIdSet_step_gen (t : MTerm) (id : String) :
    step t (.other (appIdSetRaw id)) =
      if t.appIdSupported ∧ (appIdSetRaw id).toList ≠ "1b5d3137363b3f".toList then { t with appId := appIdHex id } else t := by
  simp only [step, other, startsWith, endsWith]
  simp only [appIdSetRaw, String.toList_ofList, appIdHex]
  generalize hexChars (bytesOf id) = mid
  have h1 : ¬ (['1', 'b', '5', 'd', '3', '1', '3', '7', '3', '6', '3', 'b'] ++ mid = "1b3d".toList) := by
    intro h; have := congrArg (fun l => l.take 3) h; simp at this
  have h2 : ¬ (['1', 'b', '5', 'd', '3', '1', '3', '7', '3', '6', '3', 'b'] ++ mid = "1b3e".toList) := by
    intro h; have := congrArg (fun l => l.take 3) h; simp at this
  have h3 : ¬ (['1', 'b', '5', 'd', '3', '1', '3', '7', '3', '6', '3', 'b'] ++ mid = "1b5b3c75".toList) := by
    intro h; have := congrArg (fun l => l.take 4) h; simp at this
  have h4 : "1b5b3e".toList.isPrefixOf (['1', 'b', '5', 'd', '3', '1', '3', '7', '3', '6', '3', 'b'] ++ mid) = false := by
    rw [Bool.eq_false_iff]; intro h
    rw [List.isPrefixOf_iff_prefix] at h
    obtain ⟨r, hr⟩ := h
    have := congrArg (fun l => l.take 4) hr; simp at this
  have h5 : "1b5d3137363b".toList.isPrefixOf (['1', 'b', '5', 'd', '3', '1', '3', '7', '3', '6', '3', 'b'] ++ mid) = true := by
    rw [List.isPrefixOf_iff_prefix]
    exact ⟨mid, by simp⟩
  have h6 : List.drop 12 (['1', 'b', '5', 'd', '3', '1', '3', '7', '3', '6', '3', 'b'] ++ mid) = mid := by
    simp
  simp only [h1, h2, h3, h4, h5, h6, if_false, if_true, Bool.false_eq_true, false_and]

theorem appIdSet_step (t : MTerm) (id : String) (hq : SettableId id) :
    step t (.other (appIdSetRaw id)) = if t.appIdSupported then { t with appId := appIdHex id } else t := by
  have hq' : (appIdSetRaw id).toList ≠ "1b5d3137363b3f".toList := by
    intro h; exact hq (String.toList_inj.mp h)
  rw [appIdSet_step_gen]
  simp only [hq', ne_eq, not_false_eq_true, and_true]

theorem item_sound {s : STerm} {t : MTerm} (cl : CursorState) (hq : SettableId e.appId) (h : Rel e cn k0 s t) (it : Item)
    (hp : (stepS s it).poison = false) : Rel e cn k0 (stepS s it) (run t (inst e cn cl it)) := by
  cases it with
  | tok k => simpa [inst, run, stepS] using tok_sound h k hp
  | kittyPush =>
    simp only [inst, run, List.foldl_cons, List.foldl_nil, kittyPush_step, stepS, ← h.kittySupported]
    split
    · rel_fields h
      show t.kitty + 1 = k0 + (s.kitty + 1); rw [h.kitty]; omega
    · rel_fields h
  | userStyle =>
    simp only [inst, run, List.foldl_cons, List.foldl_nil, step, stepS]; rel_fields h
  | appIdRestore =>
    simp only [inst, run, List.foldl_cons, List.foldl_nil, appIdSet_step _ _ hq, stepS, ← h.appIdSupported]
    split
    · rel_fields h
    · rel_fields h
  | showCursor =>
    simp only [inst, run, showCursorToks, List.foldl_cons, List.foldl_nil, step, decMode, stepS]
    rel_fields h
    intro b hb; simp at hb; simpa using hb
  | cursorOnly b => simp [stepS] at hp
  | opaqueW w => simp [stepS] at hp

theorem run_append (t : MTerm) (a b : List Tok) : run t (a ++ b) = run (run t a) b := by
  simp [run, List.foldl_append]

/-- **Simulation.** Running items symbolically, then reading the result at any values, describes the
    concrete run of the instantiated tokens. -/
theorem runS_sound (cl : CursorState) (hq : SettableId e.appId) (items : List Item) {s : STerm} {t : MTerm}
    (h : Rel e cn k0 s t) (hp : (runS s items).poison = false) :
    Rel e cn k0 (runS s items) (run t (items.flatMap (inst e cn cl))) := by
  induction items generalizing s t with
  | nil => simpa [runS, run] using h
  | cons it rest ih =>
    simp only [List.flatMap_cons, run_append]
    have hp1 : (stepS s it).poison = false := poison_mono_run _ rest hp
    exact ih (item_sound cl hq h it hp1) hp

end VaxisModel.Lemmas.C04Sym
