/-
C04 — executable checkers on the *symbolic* lifecycle (items with holes for run-time values) and the
symbolic mode terminal.  Evaluated by `decide +kernel` for every assignment of the guard variables
and both visibility flags of the cursor records (chunk modules), then lifted to all run-time values
by `C04Sym.runS_sound` and to all sessions by induction (`C04Session`).
-/
import VaxisModel.Lemmas.C04Check
import VaxisModel.Lemmas.C04Sym

namespace VaxisModel.Lemmas.C04SymCheck
open VaxisModel.Model.Lifecycle VaxisModel.Model.Render VaxisModel.Spec.ModeTerm VaxisModel.Lemmas.C04Check VaxisModel.Lemmas.C04Sym
open VaxisModel.Gen.Modes (suspend resume close)

/-- Values of the guard variables under assignment `m` (bit `i` = `vars[i]`). -/
def vOf (m : Nat) : String → Bool := (envOf m).v

/-- The terminal before Vaxis starts, symbolically: it implements exactly the optional modes it
    advertises; cursor shape = the style it will report as the user's, application id = the one it
    will report, everything else at its reset value. -/
def sT0 (m : Nat) : STerm :=
  { supported := (t0Of (envOf m)).supported, kittySupported := vOf m "caps.kittyKeyboard", appIdSupported := vOf m "caps.osc176" }

/-- Forget everything frames and application calls may change: cursor visibility and shape, pointer
    shape, pen, and — where the terminal implements them — the synchronized-update flag and the application id. -/
def gen (s : STerm) : STerm :=
  { s with cursorVisible := none, cursorShape := .any, pointer := .any, penClean := none,
           sync := if s.supported.contains 2026 then none else s.sync,
           appId := if s.appIdSupported then .any else s.appId }

/-- The state start-up establishes. -/
def established (m : Nat) : STerm := runS (sT0 m) (startupS (vOf m)).wire

/-- The running invariant: what start-up established, minus what frames may change. -/
def G (m : Nat) : STerm := gen (established m)

/-- Writer state between calls while running / while suspended. -/
def Wrun (cnv clv : Bool) : SSt := { cnv := cnv, clv := clv, fresh := false }
def Wsus (cnv clv : Bool) : SSt := { cnv := cnv, clv := clv, fresh := false, suspended := true }

def sameStatic (a b : STerm) : Bool :=
  a.supported == b.supported && a.kittySupported == b.kittySupported && a.appIdSupported == b.appIdSupported

/-- Everything C04 lists is back at its prior value (symbolic counterpart of `ModeTerm.restored`). -/
def restoredS (m : Nat) (s : STerm) : Bool :=
  !s.poison && sameStatic s (sT0 m) && s.modes.all (fun x => x.2 == false) && s.cursorVisible == some true && !s.alt &&
  s.kitty == 0 && !s.keypadApp && s.cursorShape == .user && s.appId == .prior && s.pointer == .known "74657874" &&
  s.penClean == some true && s.linkOpen == some false && s.sync == some false

/-- `a` claims everything `b` claims. -/
def leS (a b : STerm) : Bool :=
  !a.poison && sameStatic a b && a.modes == b.modes && (b.cursorVisible == none || a.cursorVisible == b.cursorVisible) &&
  a.alt == b.alt && a.kitty == b.kitty && a.keypadApp == b.keypadApp && (b.cursorShape == .any || a.cursorShape == b.cursorShape) &&
  (b.appId == .any || a.appId == b.appId) && (b.pointer == .any || a.pointer == b.pointer) &&
  (b.penClean == none || a.penClean == b.penClean) && (b.linkOpen == none || a.linkOpen == b.linkOpen) &&
  (b.sync == none || a.sync == b.sync)

/-- Start-up (assignment `m`): ends with an empty buffer, a used writer, flags clear; the terminal
    state is known (no value-dependent step), no hyperlink open. -/
def startB (m : Nat) : Bool :=
  let s1 := startupS (vOf m)
  let t1 := established m
  s1.buf.isEmpty && !s1.suspended && !s1.closed && !s1.fresh && !t1.poison && t1.linkOpen == some false && sameStatic t1 (sT0 m)

/-- Suspend / Resume / Close from *any* running state (assignment `m`, visibility flags of
    `cursorNext` / `cursorLast`; every other field of the running state is a symbol or unknown). -/
def cycleB (m : Nat) (cnv clv : Bool) : Bool :=
  let v := vOf m
  let s2 := interpS v 64 suspend (Wrun cnv clv)
  let r2 := runS (G m) s2.wire
  let s3 := interpS v 64 resume { s2 with wire := [], clUser := false }
  let r3 := runS r2 s3.wire
  let s4 := interpS v 64 close (Wrun cnv clv)
  let s5 := interpS v 64 close { s2 with wire := [], clUser := false }
  -- Suspend restores everything
  s2.buf.isEmpty && s2.suspended && !s2.closed && !s2.fresh && restoredS m r2 &&
  -- Resume re-establishes the running invariant, and exactly the modes start-up established
  s3.buf.isEmpty && !s3.suspended && !s3.closed && !s3.fresh && leS r3 (G m) &&
  -- Close writes what Suspend writes
  s4.wire == s2.wire && s4.buf.isEmpty && s4.suspended && s4.closed && s4.cnv == s2.cnv && s4.clv == s2.clv && !s4.fresh &&
  -- Close while suspended writes nothing
  s5.wire.isEmpty && s5.buf.isEmpty && s5.suspended && s5.closed

def allB (m : Nat) : Bool :=
  startB m && cycleB m false false && cycleB m false true && cycleB m true false && cycleB m true true

def chunkB (lo hi : Nat) : Bool := (List.range (hi - lo)).all fun k => allB (lo + k)

theorem chunk_sound (lo hi : Nat) (h : chunkB lo hi = true) : ∀ m, lo ≤ m → m < hi → allB m = true := by
  intro m h1 h2
  unfold chunkB at h
  rw [List.all_eq_true] at h
  have := h (m - lo) (by simp; omega)
  have e : lo + (m - lo) = m := by omega
  rwa [e] at this

end VaxisModel.Lemmas.C04SymCheck
