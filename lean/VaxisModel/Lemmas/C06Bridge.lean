/-
C06 bridge — the two reference terminals agree on their common vocabulary.

`Spec.Display` (the renderer-side reference: CUP, SGR, OSC 8, text, modes, DECSCUSR; everything
terminal specific sets `bad`) and `Spec.Term` (the C06 reference: `step : T → Tok → Res`, wide-glyph
halves by `healRow`) were written independently.  Here: for every token of the common vocabulary
that the Display processes without `bad`, `Spec.Term.step` returns exactly one state
(`.accept [t']`, never `unconstrained`), and that state shows what the Display shows (`Rel`: same
size, cursor, pending wrap, pen, link, cursor visibility/shape; cells equal up to `TCell.norm`, with
`cont ↦ cont`, `poison ↦ poison`).

Structure
* `healRow_get`: `healRow` is local — cell `i` of the healed row depends on cells `i-1, i, i+1`.
* `WF`: the invariant of the Display's rows (glyph widths 1 or 2; a cell is `cont` iff its left
  neighbour is a width-2 glyph).  Under `WF`: `writeRow_get`/`writeRow_cases` (pointwise description
  of `writeRow`), `writeRow_wf` (preservation).
* `row_bridge`: `writeRow` on a `WF` row and "set the cells, then `healRow`" on a related row give
  related rows.
* `step_bridge`, `run_bridge`, `init_rel`: states, token lists, power-on states.
Core Lean only.
-/
import VaxisModel.Spec.Display
import VaxisModel.Spec.Term
namespace VaxisModel.Lemmas.C06Bridge
open VaxisModel VaxisModel.Spec VaxisModel.Spec.Term
open VaxisModel.Spec.Display (DCell ownerOf glyphWidthAt poisonPartial writeRow)

def isWideD : DCell → Bool
  | DCell.glyph _ w _ _ _ => decide (2 ≤ w)
  | _ => false
def wideT : TCell → Bool
  | TCell.glyph _ w _ _ => decide (2 ≤ w)
  | _ => false

def mapCell (dec : String → List Nat) : DCell → TCell
  | DCell.glyph g w st _ lk => TCell.glyph (dec g) w st (dec lk)
  | DCell.cont => TCell.cont
  | DCell.poison => TCell.poison

def CellEq (dec : String → List Nat) (d : DCell) (t : TCell) : Prop := (mapCell dec d).norm = t.norm

theorem cellEq_cont (dec : String → List Nat) (d : DCell) (t : TCell) (h : CellEq dec d t) :
    (t = TCell.cont ↔ d = DCell.cont) := by
  unfold CellEq at h
  cases d <;> cases t <;> simp [mapCell, TCell.norm] at h ⊢ <;> (try split at h) <;> simp_all

theorem cellEq_poison (dec : String → List Nat) (d : DCell) (t : TCell) (h : CellEq dec d t) :
    (t = TCell.poison ↔ d = DCell.poison) := by
  unfold CellEq at h
  cases d <;> cases t <;> simp [mapCell, TCell.norm] at h ⊢ <;> (try split at h) <;> simp_all

theorem cellEq_wide (dec : String → List Nat) (d : DCell) (t : TCell) (h : CellEq dec d t) :
    wideT t = isWideD d := by
  unfold CellEq at h
  cases d <;> cases t <;> simp [mapCell, TCell.norm, wideT, isWideD] at h ⊢ <;> (try split at h) <;> (try split at h) <;> simp_all <;> omega

/-! ### healRow, pointwise -/

/-- What `healRow` does to one cell, given whether the previous cell is a wide glyph and the next cell. -/
def healCell (prevWide : Bool) (cur : TCell) (next : Option TCell) : TCell :=
  if cur = .cont then (if prevWide then .cont else .poison)
  else if wideT cur then (if next = some .cont then cur else .poison)
  else cur

def wideAt (r : TRow) (k : Nat) : Bool := (r[k]?).any wideT

theorem healCell_noncont (b b' : Bool) (x : TCell) (n : Option TCell) (h : x ≠ .cont) :
    healCell b x n = healCell b' x n := by
  simp only [healCell, h, if_false]

theorem healGo_get (r : TRow) : ∀ (b : Bool) (i : Nat),
    (healGo b r)[i]? = (r[i]?).map fun c =>
      healCell (match i with | 0 => b | k + 1 => wideAt r k) c r[i + 1]? := by
  induction r with
  | nil => intro b i; simp [healGo]
  | cons c rest ih =>
    intro b i
    cases i with
    | zero =>
      cases c with
      | cont => simp [healGo, healCell]
      | blank bg => simp [healGo, healCell, wideT]
      | poison => simp [healGo, healCell, wideT]
      | glyph g w st l =>
        simp only [healGo]
        split
        · split
          · simp [healCell, wideT, *]
          · rename_i h
            have : rest[0]? ≠ some .cont := by
              cases rest with
              | nil => simp
              | cons x xs => intro hx; simp at hx; exact (h xs (by rw [hx])).elim
            simp [healCell, wideT, *]
        · simp [healCell, wideT, *]
    | succ i =>
      have key : ∀ b', (b' = wideT c ∨ (rest[0]? ≠ some .cont)) →
          (healGo b' rest)[i]? = (rest[i]?).map fun x =>
            healCell (wideAt (c :: rest) i) x rest[i + 1]? := by
        intro b' hb'
        rw [ih b' i]
        cases i with
        | zero =>
          cases hx : rest[0]? with
          | none => simp
          | some x =>
            simp only [Option.map_some, wideAt, List.getElem?_cons_zero, Option.any_some]
            rcases hb' with h | h
            · rw [h]
            · rw [healCell_noncont b' (wideT c) x _ (by intro hc; rw [hc] at hx; exact h hx)]
        | succ k => simp [wideAt]
      cases c with
      | cont => simpa [healGo] using key false (Or.inl rfl)
      | blank bg => simpa [healGo] using key false (Or.inl rfl)
      | poison => simpa [healGo] using key false (Or.inl rfl)
      | glyph g w st l =>
        simp only [healGo]
        split
        · split
          · simpa using key true (Or.inl (by simp [wideT, *]))
          · rename_i h
            have : rest[0]? ≠ some .cont := by
              cases rest with
              | nil => simp
              | cons x xs => intro hx; simp at hx; exact (h xs (by rw [hx])).elim
            simpa using key false (Or.inr this)
        · simpa using key false (Or.inl (by simp [wideT]; omega))

/-- Is the cell before column `i` the left half of a wide glyph? -/
def prevWide (r : TRow) : Nat → Bool
  | 0 => false
  | k + 1 => wideAt r k

theorem healRow_get (r : TRow) (i : Nat) :
    (healRow r)[i]? = (r[i]?).map fun c => healCell (prevWide r i) c r[i + 1]? := by
  unfold healRow
  rw [healGo_get r false i]
  cases i <;> rfl

/-! ### the Display row edit, pointwise -/

def wideD (r : List DCell) (k : Nat) : Bool := (r[k]?).any isWideD

structure WF (r : List DCell) : Prop where
  width : ∀ (i : Nat) g w st lp lk, r[i]? = some (DCell.glyph g w st lp lk) → w = 1 ∨ w = 2
  contL : ∀ i : Nat, r[i]? = some .cont → 0 < i ∧ wideD r (i - 1) = true
  contR : ∀ i : Nat, wideD r i = true → r[i + 1]? = some .cont

theorem zipRange_get {α β : Type} (f : Nat → α → β) (r : List α) (j : Nat) :
    ((List.range r.length).zipWith f r)[j]? = (r[j]?).map (f j) := by
  rw [List.getElem?_zipWith]
  by_cases h : j < r.length
  · rw [List.getElem?_range h, List.getElem?_eq_getElem h]; rfl
  · have : r[j]? = none := by simp; omega
    rw [this]; simp

theorem ownerOf_of_ne (r : List DCell) (i : Nat) (h : r[i]? ≠ some .cont) : ownerOf r i = i := by
  cases i with
  | zero => rfl
  | succ i =>
    unfold ownerOf
    split
    · rename_i h'; exact (h h').elim
    · rfl

theorem wideD_not_cont (r : List DCell) (i : Nat) (h : wideD r i = true) : r[i]? ≠ some .cont := by
  intro hc; simp [wideD, hc, isWideD] at h

theorem ownerOf_cont (r : List DCell) (hwf : WF r) (i : Nat) (h : r[i]? = some .cont) : ownerOf r i = i - 1 := by
  obtain ⟨hpos, hw⟩ := hwf.contL i h
  cases i with
  | zero => omega
  | succ i =>
    unfold ownerOf
    rw [h]
    exact ownerOf_of_ne r i (wideD_not_cont r i hw)

/-- start column of the glyph covering column `i` of a well-formed row -/
def own (r : List DCell) (i : Nat) : Nat := if r[i]? = some .cont then i - 1 else i

theorem ownerOf_wf (r : List DCell) (hwf : WF r) (i : Nat) : ownerOf r i = own r i := by
  unfold own
  split
  · exact ownerOf_cont r hwf i ‹_›
  · exact ownerOf_of_ne r i ‹_›

theorem glyphWidthAt_wide (r : List DCell) (hwf : WF r) (o : Nat) (h : wideD r o = true) : glyphWidthAt r o = 2 := by
  unfold glyphWidthAt
  cases hx : r[o]? with
  | none => simp [wideD, hx] at h
  | some x =>
    cases x with
    | glyph g w st lp lk =>
      have := hwf.width o g w st lp lk hx
      simp [wideD, hx, isWideD] at h
      simp; omega
    | cont => simp [wideD, hx, isWideD] at h
    | poison => simp [wideD, hx, isWideD] at h

theorem glyphWidthAt_not_wide (r : List DCell) (o : Nat) (h : wideD r o = false) : glyphWidthAt r o ≤ 1 := by
  unfold glyphWidthAt
  cases hx : r[o]? with
  | none => simp
  | some x =>
    cases x with
    | glyph g w st lp lk =>
      simp [wideD, hx, isWideD] at h
      simp; omega
    | cont => simp
    | poison => simp

theorem pp_get (r : List DCell) (hwf : WF r) (lo hi i j : Nat) :
    (poisonPartial r lo hi i)[j]? = (r[j]?).map fun x =>
      if wideD r (own r i) = true ∧ ¬(lo ≤ own r i ∧ own r i + 2 ≤ hi) ∧ own r i ≤ j ∧ j < own r i + 2
      then DCell.poison else x := by
  unfold poisonPartial
  simp only [ownerOf_wf r hwf]
  cases hw : wideD r (own r i) with
  | false =>
    have := glyphWidthAt_not_wide r _ hw
    simp [this]
  | true =>
    have h2 := glyphWidthAt_wide r hwf _ hw
    simp only [h2, show ¬ (2 ≤ 1) by omega, if_false]
    split
    · rename_i h; simp [h]
    · rename_i h
      rw [zipRange_get]
      simp [h]

theorem pp_wf (r : List DCell) (hwf : WF r) (lo hi i : Nat) : WF (poisonPartial r lo hi i) := by
  have hg := pp_get r hwf lo hi i
  generalize poisonPartial r lo hi i = r1 at hg ⊢
  generalize own r i = o at hg
  -- the cells of `r1` that are not poison are those of `r`
  have hsame : ∀ j x, r1[j]? = some x → x ≠ DCell.poison →
      r[j]? = some x ∧ ¬(wideD r o = true ∧ ¬(lo ≤ o ∧ o + 2 ≤ hi) ∧ o ≤ j ∧ j < o + 2) := by
    intro j x h hx
    rw [hg j] at h
    cases hy : r[j]? with
    | none => simp [hy] at h
    | some y =>
      simp only [hy, Option.map_some, Option.some.injEq] at h
      split at h
      · exact (hx h.symm).elim
      · exact ⟨by rw [h], ‹_›⟩
  have hkeep : ∀ j, ¬(wideD r o = true ∧ ¬(lo ≤ o ∧ o + 2 ≤ hi) ∧ o ≤ j ∧ j < o + 2) → r1[j]? = r[j]? := by
    intro j h
    rw [hg j]
    cases hy : r[j]? with
    | none => rfl
    | some y => simp only [Option.map_some, if_neg h]
  have hwd : ∀ j, wideD r1 j = true → wideD r j = true ∧
      ¬(wideD r o = true ∧ ¬(lo ≤ o ∧ o + 2 ≤ hi) ∧ o ≤ j ∧ j < o + 2) := by
    intro j h
    cases hx : r1[j]? with
    | none => simp [wideD, hx] at h
    | some x =>
      have hne : x ≠ DCell.poison := by
        intro hp; simp [wideD, hx, hp, isWideD] at h
      obtain ⟨h1, h2⟩ := hsame j x hx hne
      refine ⟨?_, h2⟩
      simpa [wideD, hx, h1] using h
  refine ⟨?_, ?_, ?_⟩
  · intro j g w st lp lk h
    exact hwf.width j g w st lp lk (hsame j _ h (by simp)).1
  · intro j h
    obtain ⟨h1, h2⟩ := hsame j _ h (by simp)
    obtain ⟨hpos, hw⟩ := hwf.contL j h1
    refine ⟨hpos, ?_⟩
    have : r1[j - 1]? = r[j - 1]? := by
      apply hkeep
      rintro ⟨a, b, c, d⟩
      by_cases hjo : j - 1 = o
      · exact h2 ⟨a, b, by omega, by omega⟩
      · have : j - 1 = o + 1 := by omega
        have hc := hwf.contR o a
        rw [← this] at hc
        exact wideD_not_cont r _ hw hc
    simpa [wideD, this] using hw
  · intro j h
    obtain ⟨h1, h2⟩ := hwd j h
    have hc := hwf.contR j h1
    rw [← hc]
    apply hkeep
    rintro ⟨a, b, c, d⟩
    by_cases hjo : j + 1 = o
    · rw [hjo] at hc; exact wideD_not_cont r _ a hc
    · exact h2 ⟨a, b, by omega, by omega⟩

theorem pp_noop (r : List DCell) (hwf : WF r) (lo hi i : Nat)
    (h : wideD r (own r i) = false ∨ (lo ≤ own r i ∧ own r i + 2 ≤ hi)) : poisonPartial r lo hi i = r := by
  apply List.ext_getElem?
  intro j
  rw [pp_get r hwf]
  cases hy : r[j]? with
  | none => rfl
  | some y =>
    simp only [Option.map_some]
    rw [if_neg]
    rintro ⟨a, b, _, _⟩
    rcases h with h | h
    · rw [h] at a; cases a
    · exact b h

theorem pp_hit (r : List DCell) (hwf : WF r) (lo hi i o : Nat) (ho : own r i = o)
    (hw : wideD r o = true) (hout : ¬(lo ≤ o ∧ o + 2 ≤ hi)) (j : Nat) :
    (poisonPartial r lo hi i)[j]? = if j = o ∨ j = o + 1 then (r[j]?).map (fun _ => DCell.poison) else r[j]? := by
  rw [pp_get r hwf, ho]
  cases hy : r[j]? with
  | none => simp
  | some y =>
    simp only [Option.map_some, hw, hout, true_and, not_false_eq_true]
    by_cases h : j = o ∨ j = o + 1
    · rw [if_pos h, if_pos (by omega)]
    · rw [if_neg h, if_neg (by omega)]

def writeSpec (r : List DCell) (c w : Nat) (cell : DCell) (j : Nat) : Option DCell :=
  (r[j]?).map fun old =>
    if j = c then cell else if c < j ∧ j < c + w then DCell.cont
    else if j + 1 = c ∧ r[c]? = some DCell.cont then DCell.poison
    else if j = c + w ∧ r[c + w]? = some DCell.cont then DCell.poison else old

theorem writeRow_get0 (r : List DCell) (c w : Nat) (cell : DCell) (j : Nat) :
    (writeRow r c w cell)[j]? =
      ((poisonPartial (poisonPartial r c (c + w) c) c (c + w) (c + w - 1))[j]?).map fun old =>
        if j = c then cell else if c < j ∧ j < c + w then DCell.cont else old := by
  unfold writeRow
  exact zipRange_get _ _ j

theorem pp_hit_eq (r : List DCell) (hwf : WF r) (lo hi i o : Nat) (ho : own r i = o)
    (hw : wideD r o = true) (hout : ¬(lo ≤ o ∧ o + 2 ≤ hi)) :
    poisonPartial r lo hi i = (r.set o DCell.poison).set (o + 1) DCell.poison := by
  apply List.ext_getElem?
  intro j
  rw [pp_hit r hwf lo hi i o ho hw hout j]
  grind

theorem cont_succ_iff (r : List DCell) (hwf : WF r) (c : Nat) : r[c + 1]? = some DCell.cont ↔ wideD r c = true := by
  constructor
  · intro h; exact (hwf.contL (c + 1) h).2
  · exact hwf.contR c

theorem writeRow_get (r : List DCell) (hwf : WF r) (c w : Nat) (hw : w = 1 ∨ w = 2) (hfit : c + w ≤ r.length)
    (cell : DCell) (j : Nat) : (writeRow r c w cell)[j]? = writeSpec r c w cell j := by
  rw [writeRow_get0]
  have hc1 := cont_succ_iff r hwf c
  have hc2 := cont_succ_iff r hwf (c + 1)
  have hnc := wideD_not_cont r c
  have hnc1 := wideD_not_cont r (c + 1)
  by_cases hA : r[c]? = some DCell.cont
  · obtain ⟨hpos, hwp⟩ := hwf.contL c hA
    have ho : own r c = c - 1 := by simp [own, hA]
    have h1 : poisonPartial r c (c + w) c = (r.set (c - 1) DCell.poison).set c DCell.poison := by
      have := pp_hit_eq r hwf c (c + w) c (c - 1) ho hwp (by omega)
      rwa [show c - 1 + 1 = c by omega] at this
    have hwf1 := pp_wf r hwf c (c + w) c
    rw [h1] at hwf1 ⊢
    have hWc : wideD r c = false := by simp [wideD, hA, isWideD]
    rcases hw with rfl | rfl
    · rw [pp_noop _ hwf1 _ _ _ (Or.inl (by simp [own, wideD, List.getElem?_set]; grind [isWideD]))]
      unfold writeSpec; grind
    · by_cases hW : wideD r (c + 1) = true
      · rw [pp_hit_eq _ hwf1 c (c + 2) (c + 2 - 1) (c + 1) (by simp [own]; grind)
          (by simp [wideD] at hW ⊢; grind) (by omega)]
        unfold writeSpec; grind
      · rw [pp_noop _ hwf1 _ _ _ (Or.inl (by simp [own, wideD, List.getElem?_set] at hW ⊢; grind))]
        unfold writeSpec; grind
  · have ho : own r c = c := by simp [own, hA]
    have hwf1 := pp_wf r hwf c (c + w) c
    by_cases hB : wideD r c = true
    · have hc1' := hc1.2 hB
      have hW1 : wideD r (c + 1) = false := by simp [wideD, hc1', isWideD]
      rcases hw with rfl | rfl
      · have h1 := pp_hit_eq r hwf c (c + 1) c c ho hB (by omega)
        rw [h1] at hwf1 ⊢
        rw [pp_noop _ hwf1 _ _ _ (Or.inl (by simp [own, wideD]; grind [isWideD]))]
        unfold writeSpec; grind
      · have h1 := pp_noop r hwf c (c + 2) c (Or.inr (by omega))
        rw [h1]
        rw [pp_noop r hwf _ _ _ (Or.inr (by simp [own, hc1']))]
        unfold writeSpec; grind
    · have hB' : wideD r c = false := by simpa using hB
      have h1 := pp_noop r hwf c (c + w) c (Or.inl (by rw [ho]; exact hB'))
      rw [h1]
      have hc1' : r[c + 1]? ≠ some DCell.cont := fun h => hB (hc1.1 h)
      rcases hw with rfl | rfl
      · rw [pp_noop r hwf _ _ _ (Or.inl (by simp [own, hA, hB']))]
        unfold writeSpec; grind
      · have ho2 : own r (c + 2 - 1) = c + 1 := by simp [own, hc1']
        by_cases hW : wideD r (c + 1) = true
        · rw [pp_hit_eq r hwf c (c + 2) (c + 2 - 1) (c + 1) ho2 hW (by omega)]
          unfold writeSpec; grind
        · rw [pp_noop r hwf _ _ _ (Or.inl (by rw [ho2]; simpa using hW))]
          unfold writeSpec; grind


theorem writeRow_length (r : List DCell) (c w : Nat) (cell : DCell) : (writeRow r c w cell).length = r.length := by
  have h1 : ∀ (r : List DCell) lo hi i, (poisonPartial r lo hi i).length = r.length := by
    intro r lo hi i
    unfold poisonPartial
    simp only
    split
    · rfl
    · split
      · rfl
      · simp
  unfold writeRow
  simp [h1]

/-- The five kinds of columns of an edited row. -/
theorem writeRow_cases (r : List DCell) (hwf : WF r) (c w : Nat) (hw : w = 1 ∨ w = 2) (hfit : c + w ≤ r.length)
    (cell : DCell) (j : Nat) :
    (j = c ∧ (writeRow r c w cell)[j]? = some cell) ∨
    (w = 2 ∧ j = c + 1 ∧ (writeRow r c w cell)[j]? = some DCell.cont) ∨
    (j + 1 = c ∧ r[c]? = some DCell.cont ∧ (writeRow r c w cell)[j]? = some DCell.poison) ∨
    (j = c + w ∧ r[j]? = some DCell.cont ∧ (writeRow r c w cell)[j]? = some DCell.poison) ∨
    (j ≠ c ∧ ¬(w = 2 ∧ j = c + 1) ∧ ¬(j + 1 = c ∧ r[c]? = some DCell.cont) ∧
      ¬(j = c + w ∧ r[j]? = some DCell.cont) ∧ (writeRow r c w cell)[j]? = r[j]?) := by
  rw [writeRow_get r hwf c w hw hfit cell j]
  unfold writeSpec
  by_cases h1 : j = c
  · left
    have : j < r.length := by omega
    simp [h1, List.getElem?_eq_getElem (show c < r.length by omega)]
  · by_cases h2 : w = 2 ∧ j = c + 1
    · right; left
      simp [h2.1, h2.2, List.getElem?_eq_getElem (show c + 1 < r.length by omega)]
    · have h2' : ¬(c < j ∧ j < c + w) := by omega
      by_cases h3 : j + 1 = c ∧ r[c]? = some DCell.cont
      · right; right; left
        refine ⟨h3.1, h3.2, ?_⟩
        simp [h1, h2', h3, List.getElem?_eq_getElem (show j < r.length by omega)]
      · by_cases h4 : j = c + w ∧ r[j]? = some DCell.cont
        · right; right; right; left
          refine ⟨h4.1, h4.2, ?_⟩
          have h4' : r[c + w]? = some DCell.cont := by rw [← h4.1]; exact h4.2
          simp [h1, h3, h4.2, ← h4.1]
        · right; right; right; right
          refine ⟨h1, h2, h3, h4, ?_⟩
          have h4' : ¬(j = c + w ∧ r[c + w]? = some DCell.cont) := by
            rintro ⟨a, b⟩; exact h4 ⟨a, by rw [a]; exact b⟩
          cases hx : r[j]? with
          | none => rfl
          | some x => simp [h1, h2', h3, h4']

theorem wideD_congr (r r' : List DCell) (j : Nat) (h : r'[j]? = r[j]?) : wideD r' j = wideD r j := by
  unfold wideD; rw [h]

theorem writeRow_wf (r : List DCell) (hwf : WF r) (c w : Nat) (hw : w = 1 ∨ w = 2) (hfit : c + w ≤ r.length)
    (g : String) (st : TStyle) (lp lk : String) : WF (writeRow r c w (DCell.glyph g w st lp lk)) := by
  have hcs := writeRow_cases r hwf c w hw hfit (DCell.glyph g w st lp lk)
  generalize writeRow r c w (DCell.glyph g w st lp lk) = r' at hcs
  have hc1 := cont_succ_iff r hwf
  have hnc := wideD_not_cont r
  refine ⟨?_, ?_, ?_⟩
  · intro j g' w' st' lp' lk' h
    rcases hcs j with ⟨_, h1⟩ | ⟨_, _, h1⟩ | ⟨_, _, h1⟩ | ⟨_, _, h1⟩ | ⟨_, _, _, _, h1⟩
    · rw [h1] at h; cases h; exact hw
    · rw [h1] at h; cases h
    · rw [h1] at h; cases h
    · rw [h1] at h; cases h
    · rw [h1] at h; exact hwf.width j g' w' st' lp' lk' h
  · intro j h
    rcases hcs j with ⟨_, h1⟩ | ⟨hw2, hj, h1⟩ | ⟨_, _, h1⟩ | ⟨_, _, h1⟩ | ⟨n1, n2, n3, n4, h1⟩
    · rw [h1] at h; cases h
    · refine ⟨by omega, ?_⟩
      rcases hcs c with ⟨_, h2⟩ | ⟨_, _, _⟩ | ⟨_, _, _⟩ | ⟨_, _, _⟩ | ⟨_, _, _, _, _⟩ <;> try omega
      rw [show j - 1 = c by omega]
      simp [wideD, h2, isWideD, hw2]
    · rw [h1] at h; cases h
    · rw [h1] at h; cases h
    · rw [h1] at h
      obtain ⟨hpos, hwd⟩ := hwf.contL j h
      refine ⟨hpos, ?_⟩
      have hnc' := hnc _ hwd
      rcases hcs (j - 1) with ⟨_, _⟩ | ⟨_, _, _⟩ | ⟨_, _, _⟩ | ⟨_, h2, _⟩ | ⟨_, _, _, _, h2⟩
      · exfalso
        rcases hw with hw | hw
        · exact n4 ⟨by omega, h⟩
        · exact n2 ⟨hw, by omega⟩
      · exfalso; exact n4 ⟨by omega, h⟩
      · exfalso; omega
      · exact (hnc' h2).elim
      · rw [wideD_congr r r' _ h2]; exact hwd
  · intro j h
    rcases hcs j with ⟨hj, h1⟩ | ⟨_, _, h1⟩ | ⟨_, _, h1⟩ | ⟨_, _, h1⟩ | ⟨n1, n2, n3, n4, h1⟩
    · have hw2 : w = 2 := by
        simp [wideD, h1, isWideD] at h; omega
      rcases hcs (c + 1) with ⟨_, _⟩ | ⟨_, _, h2⟩ | ⟨_, _, _⟩ | ⟨_, _, _⟩ | ⟨_, _, _, _, _⟩ <;> try omega
      · rw [hj]; exact h2
    · simp [wideD, h1, isWideD] at h
    · simp [wideD, h1, isWideD] at h
    · simp [wideD, h1, isWideD] at h
    · rw [wideD_congr r r' _ h1] at h
      have hc := hwf.contR j h
      have hnc' := hnc _ h
      rcases hcs (j + 1) with ⟨hj, _⟩ | ⟨_, hj, _⟩ | ⟨_, _, _⟩ | ⟨_, h2, _⟩ | ⟨_, _, _, _, h2⟩
      · exfalso; exact n3 ⟨hj, by rw [← hj]; exact hc⟩
      · exfalso; omega
      · exfalso
        have : r[j + 1 + 1]? = some DCell.cont := by rename_i a b c; rw [a]; exact b
        exact hnc (j + 1) ((hc1 (j + 1)).1 this) hc
      · exfalso
        rename_i hj _
        rcases hw with hw | hw
        · exact n1 (by omega)
        · exact n2 ⟨hw, by omega⟩
      · rw [h2]; exact hc

/-! ### rows of the two terminals -/

/-- Same length, and the cells agree up to `TCell.norm`. -/
structure RowRel (dec : String → List Nat) (dr : List DCell) (tr : TRow) : Prop where
  len : dr.length = tr.length
  cell : ∀ (j : Nat) d t, dr[j]? = some d → tr[j]? = some t → CellEq dec d t

theorem RowRel.getD {dec : String → List Nat} {dr : List DCell} {tr : TRow} (h : RowRel dec dr tr) {j : Nat} {d : DCell}
    (hd : dr[j]? = some d) : ∃ t, tr[j]? = some t ∧ CellEq dec d t := by
  have hj : j < tr.length := by
    rw [← h.len]
    exact (List.getElem?_eq_some_iff.1 hd).1
  exact ⟨tr[j], List.getElem?_eq_getElem hj, h.cell j d _ hd (List.getElem?_eq_getElem hj)⟩

theorem RowRel.getT {dec : String → List Nat} {dr : List DCell} {tr : TRow} (h : RowRel dec dr tr) {j : Nat} {t : TCell}
    (ht : tr[j]? = some t) : ∃ d, dr[j]? = some d ∧ CellEq dec d t := by
  have hj : j < dr.length := by
    rw [h.len]
    exact (List.getElem?_eq_some_iff.1 ht).1
  exact ⟨dr[j], List.getElem?_eq_getElem hj, h.cell j _ t (List.getElem?_eq_getElem hj) ht⟩

theorem RowRel.cont {dec : String → List Nat} {dr : List DCell} {tr : TRow} (h : RowRel dec dr tr) (j : Nat) :
    tr[j]? = some TCell.cont ↔ dr[j]? = some DCell.cont := by
  constructor
  · intro ht
    obtain ⟨d, hd, hc⟩ := h.getT ht
    rw [hd, (cellEq_cont dec d _ hc).1 rfl]
  · intro hd
    obtain ⟨t, ht, hc⟩ := h.getD hd
    rw [ht, (cellEq_cont dec _ t hc).2 rfl]

theorem RowRel.wide {dec : String → List Nat} {dr : List DCell} {tr : TRow} (h : RowRel dec dr tr) (j : Nat) :
    wideAt tr j = wideD dr j := by
  unfold wideAt wideD
  cases hd : dr[j]? with
  | some d =>
    obtain ⟨t, ht, hc⟩ := h.getD hd
    rw [ht]
    exact cellEq_wide dec d t hc
  | none =>
    cases ht : tr[j]? with
    | none => rfl
    | some t =>
      obtain ⟨d, hd', _⟩ := h.getT ht
      rw [hd] at hd'; cases hd'

theorem healCell_cont (b : Bool) (n : Option TCell) :
    healCell b TCell.cont n = if b then TCell.cont else TCell.poison := by
  simp [healCell]

theorem wideT_not_cont (t : TCell) (h : wideT t = true) : t ≠ TCell.cont := by
  intro hc; rw [hc] at h; simp [wideT] at h

theorem healCell_wide (b : Bool) (t : TCell) (n : Option TCell) (h : wideT t = true) :
    healCell b t n = if n = some TCell.cont then t else TCell.poison := by
  simp [healCell, wideT_not_cont t h, h]

theorem healCell_other (b : Bool) (t : TCell) (n : Option TCell) (h1 : t ≠ TCell.cont) (h2 : wideT t = false) :
    healCell b t n = t := by
  simp [healCell, h1, h2]

theorem healGo_length (r : TRow) : ∀ b, (healGo b r).length = r.length := by
  induction r with
  | nil => intro b; rfl
  | cons c rest ih =>
    intro b
    cases c <;> simp only [healGo, List.length_cons, ih]
    split
    · split <;> simp only [List.length_cons, ih]
    · simp only [List.length_cons, ih]

theorem healRow_length (r : TRow) : (healRow r).length = r.length := healGo_length r false

/-- The row lemma: the Display's `writeRow` and Spec.Term's "set the cells, then heal the row" agree.
    `e` is the Term row after setting the cells (`E1`–`E3` say what it is). -/
theorem row_bridge (dec : String → List Nat) (dr : List DCell) (tr e : TRow) (hwf : WF dr) (hrel : RowRel dec dr tr)
    (c w : Nat) (hw : w = 1 ∨ w = 2) (hfit : c + w ≤ dr.length)
    (g : String) (st : TStyle) (lp lk : String)
    (E0 : e.length = tr.length)
    (E1 : e[c]? = some (TCell.glyph (dec g) w st (dec lk)))
    (E2 : w = 2 → e[c + 1]? = some TCell.cont)
    (E3 : ∀ j, j ≠ c → ¬(w = 2 ∧ j = c + 1) → e[j]? = tr[j]?) :
    RowRel dec (writeRow dr c w (DCell.glyph g w st lp lk)) (healRow e) := by
  refine ⟨by rw [writeRow_length, healRow_length, E0, hrel.len], ?_⟩
  intro j d' t' hd' ht'
  rw [healRow_get] at ht'
  have hxw : wideT (TCell.glyph (dec g) w st (dec lk)) = decide (2 ≤ w) := rfl
  rcases writeRow_cases dr hwf c w hw hfit (DCell.glyph g w st lp lk) j with
    ⟨hj, h1⟩ | ⟨hw2, hj, h1⟩ | ⟨hj, hc, h1⟩ | ⟨hj, hc, h1⟩ | ⟨n1, n2, n3, n4, h1⟩
  · -- the written glyph
    rw [h1] at hd'; cases hd'
    rw [hj, E1] at ht'
    simp only [Option.map_some, Option.some.injEq] at ht'
    rcases hw with hw | hw
    · rw [healCell_other _ _ _ (by simp) (by rw [hxw]; simp [hw])] at ht'
      rw [← ht']; rfl
    · rw [healCell_wide _ _ _ (by rw [hxw]; simp [hw]), E2 hw, if_pos rfl] at ht'
      rw [← ht']; rfl
  · -- its continuation cell
    rw [h1] at hd'; cases hd'
    rw [hj, E2 hw2] at ht'
    simp only [Option.map_some, Option.some.injEq, healCell_cont, prevWide, wideAt, E1, Option.any_some, hxw] at ht'
    rw [if_pos (by simp [hw2])] at ht'
    rw [← ht']; rfl
  · -- the left half of a wide glyph whose right half is overwritten
    rw [h1] at hd'; cases hd'
    obtain ⟨_, hwd⟩ := hwf.contL c hc
    rw [show c - 1 = j by omega, ← hrel.wide] at hwd
    rw [E3 j (by omega) (by omega)] at ht'
    cases htj : tr[j]? with
    | none => rw [htj] at ht'; cases ht'
    | some t =>
      rw [htj] at ht'
      have : wideT t = true := by simpa [wideAt, htj] using hwd
      simp only [Option.map_some, Option.some.injEq, healCell_wide _ _ _ this, hj, E1] at ht'
      rw [if_neg (by simp)] at ht'
      rw [← ht']; rfl
  · -- the right half of a wide glyph whose left half is overwritten
    rw [h1] at hd'; cases hd'
    rw [E3 j (by omega) (by omega), (hrel.cont j).2 hc] at ht'
    have hpw : wideAt e (c + w - 1) = false := by
      rcases hw with hw | hw
      · rw [show c + w - 1 = c by omega]; simp [wideAt, E1, wideT, hw]
      · rw [show c + w - 1 = c + 1 by omega]; simp [wideAt, E2 hw, wideT]
    have hjs : j = (c + w - 1) + 1 := by omega
    rw [hjs] at ht'
    simp only [Option.map_some, Option.some.injEq, healCell_cont, prevWide, hpw] at ht'
    rw [← ht']; rfl
  · -- untouched cells
    rw [h1] at hd'
    rw [E3 j n1 n2] at ht'
    obtain ⟨t, htj, hceq⟩ := hrel.getD hd'
    rw [htj] at ht'
    simp only [Option.map_some, Option.some.injEq] at ht'
    suffices hs : healCell (prevWide e j) t e[j + 1]? = t by
      rw [hs] at ht'; rw [← ht']; exact hceq
    by_cases htc : t = TCell.cont
    · have hdc : d' = DCell.cont := (cellEq_cont dec d' t hceq).1 htc
      rw [hdc] at hd'
      obtain ⟨hpos, hwd⟩ := hwf.contL j hd'
      obtain ⟨k, rfl⟩ : ∃ k, j = k + 1 := ⟨j - 1, by omega⟩
      have hk : e[k]? = tr[k]? := by
        apply E3
        · intro hk
          rcases hw with hw | hw
          · exact n4 ⟨by omega, hd'⟩
          · exact n2 ⟨hw, by omega⟩
        · rintro ⟨hw, hk⟩; exact n4 ⟨by omega, hd'⟩
      have : wideAt e k = true := by
        rw [← hrel.wide] at hwd
        simpa [wideAt, hk] using hwd
      rw [htc, healCell_cont]
      simp [prevWide, this]
    · by_cases htw : wideT t = true
      · have hdw : wideD dr j = true := by
          rw [← hrel.wide]; simp [wideAt, htj, htw]
        have hc := hwf.contR j hdw
        have hk : e[j + 1]? = tr[j + 1]? := by
          apply E3
          · intro hk; exact n3 ⟨hk, by rw [← hk]; exact hc⟩
          · rintro ⟨_, hk⟩; omega
        rw [healCell_wide _ _ _ htw, hk, (hrel.cont (j + 1)).2 hc, if_pos rfl]
      · exact healCell_other _ _ _ htc (by simpa using htw)

/-! ### states -/

/-- the renderer's tokens -/
abbrev RTok := VaxisModel.Model.Render.Tok

/-- What is assumed of the decoder of the hex strings of the Display model. -/
structure DecOk (dec : String → List Nat) : Prop where
  empty : dec "" = []
  empty_inj : ∀ s, dec s = [] → s = ""
  space : dec "20" = [32]
  space_inj : ∀ s, dec s = [32] → s = "20"

/-- The renderer's tokens in Spec.Term's vocabulary (`none`: outside it). -/
def tokT (dec : String → List Nat) (tw : String → Nat) : RTok → Option Spec.Term.Tok
  | .cup r c => some (.cup r.toNat c.toNat)
  | .sgr ps => some (.sgr ps)
  | .osc8 p u => some (.osc8 (dec p) (dec u))
  | .text g => some (.print (dec g) (tw g))
  | .decset n => if n = 25 then some (.showCursor true) else none
  | .decrst n => if n = 25 then some (.showCursor false) else none
  | .cursorStyle n => some (.cursorShape n)
  | _ => none

/-- The common vocabulary: CUP, SGR, OSC 8, text of width ≤ 2, DECTCEM, DECSCUSR. -/
def Common (tw : String → Nat) : RTok → Prop
  | .cup _ _ => True
  | .sgr _ => True
  | .osc8 _ _ => True
  | .text g => tw g ≤ 2
  | .decset n => n = 25
  | .decrst n => n = 25
  | .cursorStyle _ => True
  | _ => False

instance (tw : String → Nat) (k : RTok) : Decidable (Common tw k) := by
  cases k <;> unfold Common <;> infer_instance

theorem common_iff (dec : String → List Nat) (tw : String → Nat) (k : RTok) :
    Common tw k ↔ (tokT dec tw k ≠ none ∧ ∀ g, k = .text g → tw g ≤ 2) := by
  cases k <;> simp [Common, tokT]

/-- Every step must return exactly one state. -/
def runExact : T → List Spec.Term.Tok → Option T
  | t, [] => some t
  | t, k :: ks =>
    match Spec.Term.step t k with
    | .accept [t'] => runExact t' ks
    | _ => none

structure GridRel (dec : String → List Nat) (rows cols : Nat) (dg : List (List DCell)) (tg : TGrid) : Prop where
  dlen : dg.length = rows
  tlen : tg.length = rows
  row : ∀ (i : Nat) dr, dg[i]? = some dr →
    ∃ tr, tg[i]? = some tr ∧ dr.length = cols ∧ WF dr ∧ RowRel dec dr tr

/-- The two terminals show the same. -/
structure Rel (dec : String → List Nat) (d : Display.Term) (t : T) : Prop where
  rows : t.rows = d.rows
  cols : t.cols = d.cols
  onAlt : t.onAlt = false
  row : t.row = d.row
  col : t.col = d.col
  pw : t.pw = d.pw
  pen : t.pen = d.pen
  link : t.link = dec d.link
  cursorVisible : t.cursorVisible = d.cursorVisible
  cursorShape : t.cursorShape = d.cursorShape
  rowLt : d.row < d.rows
  colLt : d.col < d.cols
  top : t.top = 0
  bottom : t.bottom = t.rows - 1
  bad : d.bad = none
  grid : GridRel dec d.rows d.cols d.grid t.primary

/-! #### `bad` is sticky (as in Lemmas/C12Sim.lean) -/

open VaxisModel.Spec.Display (markBad putGlyph) in
theorem step_bad_some (tw : String → Nat) (t : Display.Term) (k : RTok) (w : String) (h : t.bad = some w) :
    (Display.step tw t k).bad = some w := by
  have hm : ∀ (t : Display.Term) (why : String), t.bad = some w → (markBad t why).bad = some w := by
    intro t why h; simp [markBad, h]
  have hp : ∀ (t : Display.Term) g n, t.bad = some w → (putGlyph t g n).bad = some w := by
    intro t g n h
    unfold putGlyph
    repeat' split
    all_goals first | exact hm _ _ h | exact h
  cases k with
  | cup r c => simp only [Display.step]; split; exact hm _ _ h; exact h
  | sgr ps => exact h
  | osc8 p u => simp only [Display.step]; split <;> exact h
  | text g => exact hp _ _ _ h
  | textW n g => simp only [Display.step]; split; exact hm _ _ h; exact hp _ _ _ h
  | decset n => simp only [Display.step]; split; exact h; split <;> exact h
  | decrst n => simp only [Display.step]; split; exact h; split <;> exact h
  | cursorStyle n => exact h
  | pointer s => exact h
  | other r => exact h

theorem step_bad_none (tw : String → Nat) (t : Display.Term) (k : RTok) (h : (Display.step tw t k).bad = none) :
    t.bad = none := by
  cases hb : t.bad with
  | none => rfl
  | some w => rw [step_bad_some tw t k w hb] at h; cases h

theorem run_bad_none (tw : String → Nat) (toks : List RTok) :
    ∀ (t : Display.Term), (Display.run tw t toks).bad = none → t.bad = none := by
  induction toks with
  | nil => intro t h; exact h
  | cons k ks ih => intro t h; exact step_bad_none tw t k (ih _ h)

open VaxisModel.Spec.Display (markBad putGlyph) in
/-- What the bad-flag says about a print that did not set it. -/
theorem putGlyph_good (t : Display.Term) (g : String) (w : Nat) (hd : t.bad = none) (hb : (putGlyph t g w).bad = none) :
    w ≠ 0 ∧ t.pw = false ∧ t.col + w ≤ t.cols := by
  unfold putGlyph at hb
  split at hb
  · simp [markBad, hd] at hb
  · split at hb
    · simp [markBad, hd] at hb
    · split at hb
      · simp [markBad, hd] at hb
      · rename_i h1 h2 h3
        exact ⟨h1, by simpa using h2, by omega⟩

open VaxisModel.Spec.Display (putGlyph) in
theorem putGlyph_eq (t : Display.Term) (g : String) (w : Nat) (r : List DCell)
    (h1 : w ≠ 0) (h2 : t.pw = false) (h3 : t.col + w ≤ t.cols) (hr : t.grid[t.row]? = some r) :
    putGlyph t g w =
      if t.col + w = t.cols then
        { t with grid := t.grid.set t.row (writeRow r t.col w (DCell.glyph g w t.pen t.linkParams t.link)),
                 col := t.cols - 1, pw := true }
      else
        { t with grid := t.grid.set t.row (writeRow r t.col w (DCell.glyph g w t.pen t.linkParams t.link)),
                 col := t.col + w } := by
  unfold putGlyph
  rw [if_neg h1, h2, if_neg (by simp), if_neg (by omega), hr]

theorem modRow_primary (t : T) (h : t.onAlt = false) (r : Nat) (f : TRow → TRow) :
    t.modRow r f = { t with primary := t.primary.modify r (fun row => healRow (f row)) } := by
  simp [T.modRow, T.setGrid, T.grid, h]

theorem gridRel_update (dec : String → List Nat) (rows cols : Nat) (dg : List (List DCell)) (tg : TGrid)
    (h : GridRel dec rows cols dg tg) (i : Nat) (dr' : List DCell) (f : TRow → TRow)
    (hnew : ∀ tr, tg[i]? = some tr → dr'.length = cols ∧ WF dr' ∧ RowRel dec dr' (f tr)) :
    GridRel dec rows cols (dg.set i dr') (tg.modify i f) := by
  refine ⟨by rw [List.length_set]; exact h.dlen, by rw [List.length_modify]; exact h.tlen, ?_⟩
  intro k dr hk
  rw [List.getElem?_set] at hk
  rw [List.getElem?_modify]
  by_cases hik : i = k
  · rw [if_pos hik] at hk
    split at hk
    · cases hk
      rename_i hlt
      obtain ⟨tr, htr, _⟩ := h.row i _ (List.getElem?_eq_getElem hlt)
      rw [← hik, htr]
      exact ⟨f tr, by simp, hnew tr htr⟩
    · cases hk
  · rw [if_neg hik] at hk
    obtain ⟨tr, htr, hrest⟩ := h.row k dr hk
    exact ⟨tr, by simp [htr, hik], hrest⟩

/-! #### one step -/

theorem markBad_bad (d : Display.Term) (why : String) (hd : d.bad = none) : (Display.markBad d why).bad ≠ none := by
  simp [Display.markBad, hd]

theorem step_cup (dec : String → List Nat) (tw : String → Nat) (d : Display.Term) (t : T) (h : Rel dec d t) (r c : Int)
    (hb : (Display.step tw d (.cup r c)).bad = none) :
    ∃ t', Spec.Term.step t (.cup r.toNat c.toNat) = .accept [t'] ∧ Rel dec (Display.step tw d (.cup r c)) t' := by
  simp only [Display.step] at hb ⊢
  split at hb
  · exact (markBad_bad d _ h.bad hb).elim
  · rename_i hcond
    rw [if_neg hcond]
    refine ⟨_, rfl, ?_⟩
    have hr := h.rows; have hc := h.cols
    exact { rows := h.rows, cols := h.cols, onAlt := h.onAlt,
            row := by simp only [absPos, d1]; split <;> omega,
            col := by simp only [absPos, d1]; split <;> omega,
            pw := rfl, pen := h.pen, link := h.link, cursorVisible := h.cursorVisible,
            cursorShape := h.cursorShape,
            rowLt := by show (r - 1).toNat < d.rows; omega,
            colLt := by show (c - 1).toNat < d.cols; omega,
            top := h.top, bottom := h.bottom, bad := h.bad, grid := h.grid }

theorem writeNarrow_eq (t : T) (g : G) (hpw : t.pw = false) (halt : t.onAlt = false) :
    t.writeNarrow g =
      if t.col + 1 = t.cols then
        { t with primary := t.primary.modify t.row (fun row => healRow (row.set t.col (.glyph g 1 t.pen t.link))),
                 pw := true }
      else
        { t with primary := t.primary.modify t.row (fun row => healRow (row.set t.col (.glyph g 1 t.pen t.link))),
                 col := t.col + 1 } := by
  unfold T.writeNarrow
  simp only [hpw, Bool.false_eq_true, if_false]
  rw [modRow_primary t halt]
  simp only [hpw]

theorem writeWide_eq (t : T) (g : G) (hpw : t.pw = false) (hcol : t.col + 1 ≠ t.cols) (halt : t.onAlt = false) :
    t.writeWide g =
      if t.col + 2 = t.cols then
        { t with primary := t.primary.modify t.row
                   (fun row => healRow ((row.set t.col (.glyph g 2 t.pen t.link)).set (t.col + 1) .cont)),
                 col := t.col + 1, pw := true }
      else
        { t with primary := t.primary.modify t.row
                   (fun row => healRow ((row.set t.col (.glyph g 2 t.pen t.link)).set (t.col + 1) .cont)),
                 col := t.col + 2 } := by
  unfold T.writeWide
  simp only [hpw, hcol, Bool.false_eq_true, false_or, if_false]
  rw [modRow_primary t halt]
  simp only [hpw]

theorem step_text (dec : String → List Nat) (tw : String → Nat) (d : Display.Term) (t : T) (h : Rel dec d t) (g : String)
    (hw : tw g ≤ 2) (hb : (Display.step tw d (.text g)).bad = none) :
    ∃ t', Spec.Term.step t (.print (dec g) (tw g)) = .accept [t'] ∧ Rel dec (Display.step tw d (.text g)) t' := by
  have hstep : Display.step tw d (.text g) = Display.putGlyph d g (tw g) := rfl
  rw [hstep] at hb ⊢
  obtain ⟨hw0, hpw, hfit⟩ := putGlyph_good d g (tw g) h.bad hb
  have hrow : d.row < d.grid.length := by rw [h.grid.dlen]; exact h.rowLt
  have hdr : d.grid[d.row]? = some d.grid[d.row] := List.getElem?_eq_getElem hrow
  obtain ⟨tr, htr, hlen, hwf, hrr⟩ := h.grid.row _ _ hdr
  rw [putGlyph_eq d g (tw g) _ hw0 hpw hfit hdr]
  generalize d.grid[d.row] = dr at hdr hlen hwf hrr ⊢
  have htlen : tr.length = d.cols := by rw [← hrr.len, hlen]
  have hwcases : tw g = 1 ∨ tw g = 2 := by omega
  have htpw : t.pw = false := by rw [h.pw]; exact hpw
  -- the new grids are related
  have hgrid : ∀ (e : TRow → TRow),
      (∀ tr, tr.length = d.cols →
        (e tr).length = tr.length ∧ (e tr)[d.col]? = some (TCell.glyph (dec g) (tw g) d.pen (dec d.link)) ∧
        (tw g = 2 → (e tr)[d.col + 1]? = some TCell.cont) ∧
        (∀ j, j ≠ d.col → ¬(tw g = 2 ∧ j = d.col + 1) → (e tr)[j]? = tr[j]?)) →
      GridRel dec d.rows d.cols
        (d.grid.set d.row (writeRow dr d.col (tw g) (DCell.glyph g (tw g) d.pen d.linkParams d.link)))
        (t.primary.modify d.row (fun row => healRow (e row))) := by
    intro e he
    apply gridRel_update dec d.rows d.cols d.grid t.primary h.grid
    intro tr' htr'
    rw [htr] at htr'; cases htr'
    obtain ⟨E0, E1, E2, E3⟩ := he tr htlen
    refine ⟨by rw [writeRow_length]; exact hlen, writeRow_wf dr hwf _ _ hwcases (by omega) _ _ _ _, ?_⟩
    exact row_bridge dec dr tr (e tr) hwf hrr d.col (tw g) hwcases (by omega) g d.pen d.linkParams d.link E0 E1 E2 E3
  rcases hwcases with hw1 | hw2
  · -- narrow
    simp only [Spec.Term.step, hw1, if_true, one]
    rw [writeNarrow_eq t (dec g) htpw h.onAlt]
    have hg := hgrid (fun row => row.set d.col (TCell.glyph (dec g) (tw g) d.pen (dec d.link))) (by
      intro tr htl
      refine ⟨by simp, by simp [List.getElem?_set]; omega, by omega, ?_⟩
      intro j hj _
      simp [List.getElem?_set]; omega)
    rw [hw1] at hg
    have hg' : GridRel dec d.rows d.cols
        (d.grid.set d.row (writeRow dr d.col 1 (DCell.glyph g 1 d.pen d.linkParams d.link)))
        (t.primary.modify t.row (fun row => healRow (row.set t.col (TCell.glyph (dec g) 1 t.pen t.link)))) := by
      rw [h.row, h.col, h.pen, h.link]; exact hg
    have hc := h.col; have hcs := h.cols
    by_cases hend : d.col + 1 = d.cols
    · rw [if_pos hend, if_pos (show t.col + 1 = t.cols by omega)]
      refine ⟨_, rfl, ?_⟩
      exact { h with pw := rfl, col := by show t.col = d.cols - 1; omega,
                     colLt := by show d.cols - 1 < d.cols; omega, grid := hg' }
    · rw [if_neg hend, if_neg (show ¬ t.col + 1 = t.cols by omega)]
      refine ⟨_, rfl, ?_⟩
      exact { h with col := by show t.col + 1 = d.col + 1; omega,
                     colLt := by show d.col + 1 < d.cols; omega, grid := hg', pw := h.pw }
  · -- wide
    have hc := h.col; have hcs := h.cols
    simp only [Spec.Term.step, hw2, show ¬ (2 = 1) by omega, if_false, if_true, one]
    rw [if_pos (show t.cols ≥ 2 by omega)]
    rw [writeWide_eq t (dec g) htpw (by omega) h.onAlt]
    have hg := hgrid (fun row => (row.set d.col (TCell.glyph (dec g) (tw g) d.pen (dec d.link))).set (d.col + 1) TCell.cont) (by
      intro tr htl
      refine ⟨by simp, by simp [List.getElem?_set]; omega, by intro _; simp [List.getElem?_set]; omega, ?_⟩
      intro j hj hj2
      show ((tr.set d.col _).set (d.col + 1) _)[j]? = tr[j]?
      rw [List.getElem?_set, if_neg (by omega), List.getElem?_set, if_neg (by omega)])
    rw [hw2] at hg
    have hg' : GridRel dec d.rows d.cols
        (d.grid.set d.row (writeRow dr d.col 2 (DCell.glyph g 2 d.pen d.linkParams d.link)))
        (t.primary.modify t.row (fun row => healRow ((row.set t.col (TCell.glyph (dec g) 2 t.pen t.link)).set (t.col + 1) TCell.cont))) := by
      rw [h.row, h.col, h.pen, h.link]; exact hg
    by_cases hend : d.col + 2 = d.cols
    · rw [if_pos hend, if_pos (show t.col + 2 = t.cols by omega)]
      refine ⟨_, rfl, ?_⟩
      exact { h with pw := rfl, col := by show t.col + 1 = d.cols - 1; omega,
                     colLt := by show d.cols - 1 < d.cols; omega, grid := hg' }
    · rw [if_neg hend, if_neg (show ¬ t.col + 2 = t.cols by omega)]
      refine ⟨_, rfl, ?_⟩
      exact { h with col := by show t.col + 2 = d.col + 2; omega,
                     colLt := by show d.col + 2 < d.cols; omega, grid := hg', pw := h.pw }

/-- One token of the common vocabulary that the Display processes without `bad`: Spec.Term returns
    exactly one state, and it is related to the Display's. -/
theorem step_bridge (dec : String → List Nat) (tw : String → Nat) (d : Display.Term) (t : T) (h : Rel dec d t) (k : RTok)
    (hk : Common tw k) (hb : (Display.step tw d k).bad = none) :
    ∃ tok t', tokT dec tw k = some tok ∧ Spec.Term.step t tok = .accept [t'] ∧ Rel dec (Display.step tw d k) t' := by
  cases k with
  | cup r c =>
    obtain ⟨t', h1, h2⟩ := step_cup dec tw d t h r c hb
    exact ⟨_, t', rfl, h1, h2⟩
  | sgr ps =>
    refine ⟨_, _, rfl, rfl, ?_⟩
    exact { h with pen := by show Spec.sgr t.pen ps = Spec.sgr d.pen ps; rw [h.pen] }
  | osc8 p u =>
    refine ⟨_, _, rfl, rfl, ?_⟩
    simp only [Display.step]
    split
    · rename_i hu
      exact { h with link := by show dec u = dec ""; rw [hu] }
    · exact { h with link := rfl }
  | text g =>
    obtain ⟨t', h1, h2⟩ := step_text dec tw d t h g hk hb
    exact ⟨_, t', rfl, h1, h2⟩
  | decset n =>
    have hn : n = 25 := hk
    subst hn
    refine ⟨_, _, rfl, rfl, ?_⟩
    exact { h with cursorVisible := rfl }
  | decrst n =>
    have hn : n = 25 := hk
    subst hn
    refine ⟨_, _, rfl, rfl, ?_⟩
    exact { h with cursorVisible := rfl }
  | cursorStyle n =>
    refine ⟨_, _, rfl, rfl, ?_⟩
    exact { h with cursorShape := rfl }
  | textW _ _ => cases hk
  | pointer _ => cases hk
  | other _ => cases hk

theorem run_bridge (dec : String → List Nat) (tw : String → Nat) (toks : List RTok) :
    ∀ (d : Display.Term) (t : T), Rel dec d t → (∀ k ∈ toks, Common tw k) → (Display.run tw d toks).bad = none →
    ∃ t', runExact t (toks.filterMap (tokT dec tw)) = some t' ∧ Rel dec (Display.run tw d toks) t' := by
  induction toks with
  | nil => intro d t h _ _; exact ⟨t, rfl, h⟩
  | cons k ks ih =>
    intro d t h hv hb
    have hb1 : (Display.step tw d k).bad = none := run_bad_none tw ks _ hb
    obtain ⟨tok, t1, htok, hstep, hrel⟩ := step_bridge dec tw d t h k (hv k (by simp)) hb1
    obtain ⟨t2, hrun, hrel2⟩ := ih (Display.step tw d k) t1 hrel (fun k' hk' => hv k' (by simp [hk'])) hb
    refine ⟨t2, ?_, hrel2⟩
    rw [List.filterMap_cons, htok]
    simp only [runExact, hstep]
    exact hrun

/-! #### the initial states -/

theorem wf_blank (cols : Nat) : WF (List.replicate cols DCell.blank) := by
  refine ⟨?_, ?_, ?_⟩
  · intro i g w st lp lk h
    rw [List.getElem?_replicate] at h
    split at h
    · simp [DCell.blank] at h; omega
    · cases h
  · intro i h
    rw [List.getElem?_replicate] at h
    split at h
    · simp [DCell.blank] at h
    · cases h
  · intro i h
    unfold wideD at h
    rw [List.getElem?_replicate] at h
    split at h
    · simp [DCell.blank, isWideD] at h
    · simp at h

theorem cellEq_blank (dec : String → List Nat) (hdec : DecOk dec) : CellEq dec DCell.blank (TCell.blank .default) := by
  simp [CellEq, DCell.blank, mapCell, TCell.norm, hdec.empty, hdec.space]

theorem init_rel (dec : String → List Nat) (hdec : DecOk dec) (rows cols : Nat) (hr : 1 ≤ rows) (hc : 1 ≤ cols) :
    Rel dec (Display.Term.init cols rows) (T.init rows cols) := by
  refine { rows := rfl, cols := rfl, onAlt := rfl, row := rfl, col := rfl, pw := rfl, pen := rfl,
           link := hdec.empty.symm, cursorVisible := rfl, cursorShape := rfl,
           rowLt := by show 0 < rows; omega, colLt := by show 0 < cols; omega,
           top := rfl, bottom := rfl, bad := rfl, grid := ?_ }
  show GridRel dec rows cols (List.replicate rows (List.replicate cols DCell.blank)) (blankGrid rows cols)
  refine ⟨by simp, by simp [blankGrid], ?_⟩
  intro i dr hi
  rw [List.getElem?_replicate] at hi
  split at hi
  · cases hi
    refine ⟨List.replicate cols (TCell.blank .default), by simp [blankGrid, *], by simp, wf_blank cols, ?_⟩
    refine ⟨by simp, ?_⟩
    intro j d' t' hd' ht'
    rw [List.getElem?_replicate] at hd' ht'
    split at hd'
    · rw [if_pos ‹_›] at ht'
      cases hd'; cases ht'
      exact cellEq_blank dec hdec
    · cases hd'
  · cases hi

end VaxisModel.Lemmas.C06Bridge
