/-
C07: the start-up (after the device-attributes reply), Suspend and Resume sequences use only
baseline vocabulary plus what the capability set allows — checked by kernel evaluation over all
2^9 assignments of the guard variables of Gen/Modes.lean.
-/
import VaxisModel.Lemmas.C04Check

namespace VaxisModel.Lemmas.C07Gate
open VaxisModel.Model.Lifecycle VaxisModel.Model.Render VaxisModel.Lemmas.C04Check

/-- DEC private modes of the baseline xterm vocabulary. -/
def baselineModes : List Nat := [1, 25, 1002, 1003, 1004, 1006, 1049, 2004]

def modeAllowed (e : Env) (n : Nat) : Bool :=
  baselineModes.contains n ||
  (n == 2026 && e.v "caps.synchronizedUpdate") ||
  (n == 2027 && e.v "caps.unicodeCore" && !e.v "caps.explicitWidth") ||
  (n == 2031 && e.v "caps.colorThemeUpdates") ||
  (n == 2048 && e.v "caps.inBandResize") ||
  (n == 8452 && e.v "caps.sixels")

/-- Gated vocabulary outside the renderer: optional DEC modes, kitty keyboard push/pop,
    colour-scheme DSR, application-id set. Everything else these functions write is baseline
    (keypad modes, SGR reset, clear, cursor style/visibility, pointer shape, DA1). -/
def allowedLife (e : Env) : Tok → Bool
  | .decset n => modeAllowed e n
  | .decrst n => modeAllowed e n
  | .other raw =>
      if raw.startsWith "1b5b3e" && raw.endsWith "75" then e.v "caps.kittyKeyboard"        -- CSI > flags u
      else if raw == "1b5b3c75" then e.v "caps.kittyKeyboard"                                 -- CSI < u
      else if raw == "1b5b3f3939366e" then e.v "caps.colorThemeUpdates"                       -- CSI ? 996 n
      else if raw.startsWith "1b5d3137363b" then e.v "caps.osc176"                            -- OSC 176 ; …
      else true
  | .textW _ _ => false
  | _ => true

def gatedB (m : Nat) : Bool :=
  let e := envOf m
  let w1 := interp e 64 Gen.Modes.enableModes (interp e 64 Gen.Modes.enterAltScreen { fresh := false })
  let w2 := suspendW e { w1 with wire := [] }
  let w3 := resumeW e { w2 with wire := [] }
  (w1.wire ++ w2.wire ++ w3.wire).all (allowedLife e)

def gateRange (lo n : Nat) : Bool := (List.range n).all fun k => gatedB (lo + k)

end VaxisModel.Lemmas.C07Gate
