/- Chunk 0 of the exhaustive C07 lifecycle-gating check (assignments 0 … 63). -/
import VaxisModel.Lemmas.C07Gate

namespace VaxisModel.Lemmas.C07Gate

set_option maxRecDepth 100000 in
theorem gate_chunk0 : gateRange 0 64 = true := by decide +kernel

end VaxisModel.Lemmas.C07Gate
