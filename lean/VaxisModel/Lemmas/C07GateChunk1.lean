/- Chunk 1 of the exhaustive C07 lifecycle-gating check (assignments 64 … 127). -/
import VaxisModel.Lemmas.C07Gate

namespace VaxisModel.Lemmas.C07Gate

set_option maxRecDepth 100000 in
theorem gate_chunk1 : gateRange 64 64 = true := by decide +kernel

end VaxisModel.Lemmas.C07Gate
