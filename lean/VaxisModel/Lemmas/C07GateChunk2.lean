/- Chunk 2 of the exhaustive C07 lifecycle-gating check (assignments 128 … 191). -/
import VaxisModel.Lemmas.C07Gate

namespace VaxisModel.Lemmas.C07Gate

set_option maxRecDepth 100000 in
theorem gate_chunk2 : gateRange 128 64 = true := by decide +kernel

end VaxisModel.Lemmas.C07Gate
