/- Chunk 3 of the exhaustive C07 lifecycle-gating check (assignments 192 … 255). -/
import VaxisModel.Lemmas.C07Gate

namespace VaxisModel.Lemmas.C07Gate

set_option maxRecDepth 100000 in
theorem gate_chunk3 : gateRange 192 64 = true := by decide +kernel

end VaxisModel.Lemmas.C07Gate
