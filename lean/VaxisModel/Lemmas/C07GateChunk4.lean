/- Chunk 4 of the exhaustive C07 lifecycle-gating check (assignments 256 … 319). -/
import VaxisModel.Lemmas.C07Gate

namespace VaxisModel.Lemmas.C07Gate

set_option maxRecDepth 100000 in
theorem gate_chunk4 : gateRange 256 64 = true := by decide +kernel

end VaxisModel.Lemmas.C07Gate
