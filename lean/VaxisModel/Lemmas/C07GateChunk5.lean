/- Chunk 5 of the exhaustive C07 lifecycle-gating check (assignments 320 … 383). -/
import VaxisModel.Lemmas.C07Gate

namespace VaxisModel.Lemmas.C07Gate

set_option maxRecDepth 100000 in
theorem gate_chunk5 : gateRange 320 64 = true := by decide +kernel

end VaxisModel.Lemmas.C07Gate
