/- Chunk 6 of the exhaustive C07 lifecycle-gating check (assignments 384 … 447). -/
import VaxisModel.Lemmas.C07Gate

namespace VaxisModel.Lemmas.C07Gate

set_option maxRecDepth 100000 in
theorem gate_chunk6 : gateRange 384 64 = true := by decide +kernel

end VaxisModel.Lemmas.C07Gate
