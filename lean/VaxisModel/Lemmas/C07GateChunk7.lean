/- Chunk 7 of the exhaustive C07 lifecycle-gating check (assignments 448 … 511). -/
import VaxisModel.Lemmas.C07Gate

namespace VaxisModel.Lemmas.C07Gate

set_option maxRecDepth 100000 in
theorem gate_chunk7 : gateRange 448 64 = true := by decide +kernel

end VaxisModel.Lemmas.C07Gate
