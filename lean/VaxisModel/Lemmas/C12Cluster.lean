/-
C12 composition, grapheme clustering: if no two graphemes a frame writes merge when concatenated,
the parser's re-segmentation of consecutive text (`clusterToks`) changes nothing, and every text
token of a frame is the grapheme of one of its cells (or the blank).
-/
import VaxisModel.Model.C12Compose
import VaxisModel.Lemmas.RenderDisplay
import VaxisModel.Spec.DisplayCluster

namespace VaxisModel.Lemmas.C12Cluster
open VaxisModel.Model.Render VaxisModel.Model.C12Compose VaxisModel.Lemmas.RenderToks

/-- No two text tokens of the list merge. -/
def NoMerge (merges : String → String → Bool) (toks : List Tok) : Prop :=
  ∀ a b, Tok.text a ∈ toks → Tok.text b ∈ toks → merges a b = false

theorem clusterGo_id (merges : String → String → Bool) (cat : String → String → String) :
    ∀ (l : List Tok), NoMerge merges l →
      clusterGo merges cat none l = l ∧
      ∀ p, (∀ b, Tok.text b ∈ l → merges p b = false) → clusterGo merges cat (some p) l = Tok.text p :: l := by
  intro l
  induction l with
  | nil => intro _; exact ⟨rfl, fun _ _ => rfl⟩
  | cons t rest ih =>
    intro h
    have hrest : NoMerge merges rest := fun a b ha hb => h a b (by simp [ha]) (by simp [hb])
    obtain ⟨ih1, ih2⟩ := ih hrest
    cases t with
    | text a =>
      have ha : ∀ b, Tok.text b ∈ rest → merges a b = false := fun b hb => h a b (by simp) (by simp [hb])
      refine ⟨?_, ?_⟩
      · simp only [clusterGo]; exact ih2 a ha
      · intro p hp
        have : merges p a = false := hp a (by simp)
        simp only [clusterGo, this, Bool.false_eq_true, if_false]
        rw [ih2 a ha]
    | cup r c => exact ⟨by simp only [clusterGo, ih1], fun p _ => by simp only [clusterGo, ih1]⟩
    | sgr ps => exact ⟨by simp only [clusterGo, ih1], fun p _ => by simp only [clusterGo, ih1]⟩
    | osc8 a b => exact ⟨by simp only [clusterGo, ih1], fun p _ => by simp only [clusterGo, ih1]⟩
    | textW w g => exact ⟨by simp only [clusterGo, ih1], fun p _ => by simp only [clusterGo, ih1]⟩
    | decset n => exact ⟨by simp only [clusterGo, ih1], fun p _ => by simp only [clusterGo, ih1]⟩
    | decrst n => exact ⟨by simp only [clusterGo, ih1], fun p _ => by simp only [clusterGo, ih1]⟩
    | cursorStyle n => exact ⟨by simp only [clusterGo, ih1], fun p _ => by simp only [clusterGo, ih1]⟩
    | pointer sh => exact ⟨by simp only [clusterGo, ih1], fun p _ => by simp only [clusterGo, ih1]⟩
    | other r => exact ⟨by simp only [clusterGo, ih1], fun p _ => by simp only [clusterGo, ih1]⟩

/-- Without merging graphemes the parser delivers one `print` per text write. -/
theorem opsOfToksM_eq (merges : String → String → Bool) (cat : String → String → String) (dec : String → VaxisModel.Model.Emu.G)
    (tw : String → Nat) (toks : List Tok) (h : NoMerge merges toks) :
    opsOfToksM merges cat dec tw toks = opsOfToks dec tw toks := by
  unfold opsOfToksM clusterToks
  rw [(clusterGo_id merges cat toks h).1]

/-! ### the tight form: only ADJACENT text writes matter

`Spec.DisplayCluster.adjOk merges p toks`: no raw text write of `toks` directly follows a raw text write
it merges with (`p` = the grapheme directly before the list, if any). C01 proves it of every frame whose
horizontally neighbouring shown cells do not join (`Props.C01Cluster.render_no_adjacent_join_tight`). -/

theorem clusterGo_adj (merges : String → String → Bool) (cat : String → String → String) :
    ∀ (l : List Tok),
      (VaxisModel.Spec.Display.adjOk merges none l = true → clusterGo merges cat none l = l) ∧
      ∀ p, VaxisModel.Spec.Display.adjOk merges (some p) l = true → clusterGo merges cat (some p) l = Tok.text p :: l := by
  intro l
  induction l with
  | nil => exact ⟨fun _ => rfl, fun _ _ => rfl⟩
  | cons t rest ih =>
    obtain ⟨ih1, ih2⟩ := ih
    cases t with
    | text a =>
      refine ⟨?_, ?_⟩
      · intro h
        simp only [VaxisModel.Spec.Display.adjOk, Bool.true_and] at h
        simp only [clusterGo]
        exact ih2 a h
      · intro p h
        simp only [VaxisModel.Spec.Display.adjOk, Bool.and_eq_true, Bool.not_eq_true'] at h
        simp only [clusterGo, h.1, Bool.false_eq_true, if_false]
        rw [ih2 a h.2]
    | cup r c => exact ⟨fun h => by simp only [clusterGo, ih1 h], fun p h => by simp only [clusterGo, ih1 h]⟩
    | sgr ps => exact ⟨fun h => by simp only [clusterGo, ih1 h], fun p h => by simp only [clusterGo, ih1 h]⟩
    | osc8 a b => exact ⟨fun h => by simp only [clusterGo, ih1 h], fun p h => by simp only [clusterGo, ih1 h]⟩
    | textW w g => exact ⟨fun h => by simp only [clusterGo, ih1 h], fun p h => by simp only [clusterGo, ih1 h]⟩
    | decset n => exact ⟨fun h => by simp only [clusterGo, ih1 h], fun p h => by simp only [clusterGo, ih1 h]⟩
    | decrst n => exact ⟨fun h => by simp only [clusterGo, ih1 h], fun p h => by simp only [clusterGo, ih1 h]⟩
    | cursorStyle n => exact ⟨fun h => by simp only [clusterGo, ih1 h], fun p h => by simp only [clusterGo, ih1 h]⟩
    | pointer sh => exact ⟨fun h => by simp only [clusterGo, ih1 h], fun p h => by simp only [clusterGo, ih1 h]⟩
    | other r => exact ⟨fun h => by simp only [clusterGo, ih1 h], fun p h => by simp only [clusterGo, ih1 h]⟩

/-- No text write directly follows one it merges with ⇒ the parser delivers one `print` per text write. -/
theorem opsOfToksM_eq_adj (merges : String → String → Bool) (cat : String → String → String) (dec : String → VaxisModel.Model.Emu.G)
    (tw : String → Nat) (toks : List Tok) (h : VaxisModel.Spec.Display.adjOk merges none toks = true) :
    opsOfToksM merges cat dec tw toks = opsOfToks dec tw toks := by
  unfold opsOfToksM clusterToks
  rw [(clusterGo_adj merges cat toks).1 h]

/-! ### the text tokens of a frame are cell graphemes -/

/-- `S` holds of the grapheme of every text token. -/
def TextIn (S : String → Prop) : Tok → Prop
  | .text g => S g
  | _ => True

theorem penDelta_textIn (S : String → Prop) (caps : Caps) (pen next : Style) : ∀ k ∈ penDelta caps pen next, TextIn S k := by
  intro k hk
  have := VaxisModel.Lemmas.RenderDisplay.penDelta_style caps pen next k hk
  cases k <;> simp [VaxisModel.Lemmas.RenderDisplay.StyleTok] at this <;> trivial

theorem glyphTok_textIn (S : String → Prop) (cw : String → Nat) (caps : Caps) (c : Cell) (h20 : S "20") (hc : S c.g) :
    TextIn S (glyphTok cw caps c) := by
  unfold glyphTok glyphTokW
  split
  · exact h20
  · split
    · trivial
    · exact hc

theorem renderCells_textIn (S : String → Prop) (h20 : S "20") (cw : String → Nat) (caps : Caps) (refresh : Bool) (row : Nat) :
    ∀ (next last : List Cell) (col skip : Nat) (track : Bool) (dirty : Nat) (st : RSt),
      (∀ c ∈ next, S c.g) → (∀ k ∈ st.out, TextIn S k) →
      ∀ k ∈ (renderCells cw caps refresh row col skip track dirty next last st).2.out, TextIn S k := by
  intro next
  induction next with
  | nil => intro last col skip track dirty st _ h; simpa [renderCells] using h
  | cons n ns ih =>
    intro last col skip track dirty st hc h
    have hcs : ∀ c ∈ ns, S c.g := fun c hc' => hc c (by simp [hc'])
    cases last with
    | nil => simpa [renderCells] using h
    | cons l ls =>
      cases skip with
      | succ k => simp only [renderCells]; exact ih ls (col + 1) k track _ st hcs h
      | zero =>
        simp only [renderCells]
        split
        · exact ih ls (col + 1) 0 false dirty { st with reposition := true } hcs h
        · split
          · exact ih ls (col + 1) (advance cw n) false dirty { st with reposition := true } hcs h
          · apply ih _ _ _ _ _ _ hcs
            intro k hk
            simp only [List.mem_append, List.mem_singleton] at hk
            rcases hk with hk | ((hk | hk) | hk)
            · exact h k hk
            · split at hk
              · simp only [List.mem_append, List.mem_singleton] at hk
                rcases hk with hk | hk
                · split at hk <;> simp at hk
                  subst hk; trivial
                · subst hk; trivial
              · simp at hk
            · exact penDelta_textIn S caps _ _ k hk
            · subst hk; exact glyphTok_textIn S cw caps n h20 (hc n (by simp))

theorem renderRows_textIn (S : String → Prop) (h20 : S "20") (cw : String → Nat) (caps : Caps) (refresh : Bool) :
    ∀ (next last : Grid) (row : Nat) (st : RSt),
      (∀ r ∈ next, ∀ c ∈ r, S c.g) → (∀ k ∈ st.out, TextIn S k) →
      ∀ k ∈ (renderRows cw caps refresh row next last st).2.out, TextIn S k := by
  intro next
  induction next with
  | nil => intro last row st _ h; simpa [renderRows] using h
  | cons n ns ih =>
    intro last row st hc h
    cases last with
    | nil => simpa [renderRows] using h
    | cons l ls =>
      simp only [renderRows]
      apply ih _ _ _ (fun r hr => hc r (by simp [hr]))
      exact renderCells_textIn S h20 cw caps refresh row n l 0 0 false 0 { st with reposition := true } (hc n (by simp)) h

/-- **Every text token of a frame is the grapheme of one of its cells, or the blank.** -/
theorem frame_textIn (S : String → Prop) (h20 : S "20") (cw : String → Nat) (f : Frame)
    (hc : ∀ r ∈ f.next, ∀ c ∈ r, S c.g) : ∀ k ∈ (renderFrame cw f).2, TextIn S k := by
  have hbody : ∀ k ∈ (renderBody cw f).2, TextIn S k := by
    intro k hk
    unfold renderBody at hk
    simp only [List.mem_append] at hk
    rcases hk with (hk | hk) | hk
    · refine renderRows_textIn S h20 cw f.caps f.refresh f.next f.last 0 _ hc ?_ k hk
      intro k' hk'
      simp only at hk'
      split at hk' <;> simp at hk'
      subst hk'; trivial
    · simp at hk; rw [hk.2]; trivial
    · split at hk
      · simp [showCursorToks] at hk
        rcases hk with rfl | rfl | rfl <;> trivial
      · simp at hk
  intro k hk
  unfold renderFrame flush at hk
  simp only at hk
  split at hk
  · repeat' split at hk
    all_goals simp [showCursorToks] at hk
    all_goals first | (subst hk; trivial) | (rcases hk with rfl | rfl | rfl <;> trivial)
  · simp only [List.mem_append, List.mem_singleton] at hk
    rcases hk with ((((hk | hk) | hk) | hk) | hk) | hk
    · split at hk <;> simp at hk
      subst hk; trivial
    · split at hk <;> simp at hk
      subst hk; trivial
    · exact hbody k hk
    · subst hk; trivial
    · split at hk
      · simp [showCursorToks] at hk
        rcases hk with rfl | rfl | rfl <;> trivial
      · simp at hk
    · split at hk <;> simp at hk
      subst hk; trivial

end VaxisModel.Lemmas.C12Cluster
