/-
C12, Draw into a host window: the cells `Draw` hands to the window (C05's `RowWalk`: the walk along
each row of the active screen that skips the columns under a wide glyph) are exactly the glyph
cells of the display the emulator shows — one call per glyph (blank included), none for a
continuation cell, each call carrying a cell that shows that glyph (`HostRel`).
-/
import VaxisModel.Lemmas.C12Sim
import VaxisModel.Lemmas.EmuDraw
import VaxisModel.Lemmas.RenderDisplay

namespace VaxisModel.Lemmas.C12Draw
open VaxisModel.Model.Emu VaxisModel.Model.EmuAbs VaxisModel.Model.EmuDraw VaxisModel.Lemmas.Emu VaxisModel.Lemmas.EmuDraw
open VaxisModel.Spec VaxisModel.Spec.Display VaxisModel.Lemmas.C12Sim
open VaxisModel.Lemmas.RenderDisplay (WFRow)

/-- The cell handed to `win.SetCell` shows the display cell: as `CellRel`, except that an erased
    emulator cell arrives as a space of width 0 ("measure it": the host gives it width 1) with the
    stored background. -/
def HostRel (dec : String → G) : DCell → ECell → Prop
  | .glyph g w st lp lk, c =>
      (c.g = dec g ∧ c.g ≠ [] ∧ c.w = w ∧ absStyle c.st = st ∧ c.st.link = dec lk ∧ c.st.linkParams = dec lp) ∨
      (c.g = [32] ∧ c.w = 0 ∧ g = "20" ∧ w = 1 ∧ st = { bg := absCol c.st.bg } ∧ lp = "" ∧ lk = "")
  | .cont, _ => True
  | .poison, _ => True

theorem hostRel_drawn (dec : String → G) (d : DCell) (c : ECell) (h : CellRel dec d c) :
    HostRel dec d (drawnCell c) := by
  cases d with
  | cont => trivial
  | poison => trivial
  | glyph g w st lp lk =>
    rcases h with ⟨h1, h2, h3, h4, h5, h6⟩ | ⟨h1, hw, h2, h3, h4, h5, h6⟩
    · left
      refine ⟨?_, ?_, h3, h4, h5, h6⟩
      · show (if c.g = [] then [32] else c.g) = dec g
        rw [if_neg h2]; exact h1
      · show (if c.g = [] then [32] else c.g) ≠ []
        rw [if_neg h2]; exact h2
    · right
      refine ⟨?_, hw, h2, h3, h4, h5, h6⟩
      show (if c.g = [] then [32] else c.g) = [32]
      rw [if_pos h1]

/-- No poison in a row. -/
def NoPoison (r : List DCell) : Prop := ∀ x ∈ r, x ≠ DCell.poison

theorem wf_drop : ∀ (r : List DCell) (k : Nat), WFRow k r → WFRow 0 (r.drop k) := by
  intro r
  induction r with
  | nil => intro k _; simp [WFRow]
  | cons x r ih =>
    intro k h
    cases k with
    | zero => simpa using h
    | succ k =>
      cases x with
      | cont => simp only [List.drop_succ_cons]; exact ih k h
      | glyph g w st lp lk => exact absurd h (by simp [WFRow])
      | poison => exact absurd h (by simp [WFRow])

/-- What the calls of one row walk are, relative to the display row `drow` the emulator row shows:
    from a glyph boundary `col`, every call is at a glyph of `drow` and shows it, and every glyph of
    `drow` from `col` on gets a call. -/
theorem walk_shows (dec : String → G) (drow : List DCell) (line : Row) (row : Int) (cols : Nat)
    (hrel : RowRel dec drow line) (hlen : line.length = cols) (hnp : NoPoison drow) :
    ∀ (l : List DrawCall) (col : Nat), RowWalk line row cols col l → WFRow 0 (drow.drop col) →
      (∀ call ∈ l, ∃ (j : Nat) (d : DCell), call.col = (j : Int) ∧ col ≤ j ∧ drow[j]? = some d ∧ d ≠ .cont ∧ call.row = row ∧ HostRel dec d call.cell) ∧
      (∀ j d, col ≤ j → drow[j]? = some d → d ≠ .cont → ∃ call ∈ l, call.col = (j : Int)) := by
  intro l
  induction l with
  | nil =>
    intro col hwalk _
    refine ⟨by simp, ?_⟩
    intro j d hj hd _
    cases hwalk with
    | done hc =>
      have : j < drow.length := by
        rcases Nat.lt_or_ge j drow.length with h | h
        · exact h
        · rw [List.getElem?_eq_none h] at hd; cases hd
      rw [hrel.1, hlen] at this
      omega
  | cons call rest ih =>
    intro col hwalk hwf
    cases hwalk with
    | @step _ cell _ hc hcell hrest =>
      -- the emulator cell at `col`
      have hcl : col < line.length := by rw [hlen]; omega
      have hcell' : line[col]? = some cell := by
        unfold getI at hcell
        simp only [Int.natCast_nonneg, if_true, Int.toNat_natCast] at hcell
        cases hx : line[col]? with
        | none => rw [hx] at hcell; cases hcell
        | some x => rw [hx] at hcell; cases hcell; rfl
      -- the display cell at `col` is a glyph
      have hdl : col < drow.length := by rw [hrel.1]; exact hcl
      have hdrop : drow.drop col = drow[col] :: drow.drop (col + 1) := by
        rw [List.drop_eq_getElem_cons hdl]
      rw [hdrop] at hwf
      have hd : drow[col]? = some drow[col] := List.getElem?_eq_getElem hdl
      have hcr := hrel.2 col _ _ hd hcell'
      cases hx : drow[col] with
      | cont => rw [hx] at hwf; exact absurd hwf (by simp [WFRow])
      | poison => exact absurd hx (hnp _ (List.getElem_mem hdl))
      | glyph g w st lp lk =>
        rw [hx] at hwf hcr hd
        obtain ⟨hw1, hwf'⟩ := hwf
        -- the step of the walk is the glyph's width
        have hstep : stepW cell = (w : Int) := by
          unfold stepW
          rcases hcr with ⟨_, _, h3, _⟩ | ⟨_, h0, _, h3, _⟩
          · rw [h3]; split <;> omega
          · rw [h0, h3]; simp
        have hnext : WFRow 0 (drow.drop (col + w)) := by
          have := wf_drop _ _ hwf'
          rw [List.drop_drop] at this
          have e : col + 1 + (w - 1) = col + w := by omega
          rwa [e] at this
        have hrest' : RowWalk line row cols ((col + w : Nat) : Int) rest := by
          have e : ((col + w : Nat) : Int) = (col : Int) + stepW cell := by rw [hstep]; omega
          rw [e]; exact hrest
        obtain ⟨ih1, ih2⟩ := ih (col + w) hrest' hnext
        constructor
        · intro c hcm
          rcases List.mem_cons.mp hcm with rfl | hcm
          · exact ⟨col, DCell.glyph g w st lp lk, rfl, Nat.le_refl _, hd, nofun, rfl,
              hostRel_drawn dec _ cell hcr⟩
          · obtain ⟨j, d, e1, e2, e3, e4, e5, e6⟩ := ih1 c hcm
            exact ⟨j, d, e1, by omega, e3, e4, e5, e6⟩
        · intro j d hj hdj hnc
          by_cases hjc : j = col
          · subst hjc; exact ⟨_, List.mem_cons_self, rfl⟩
          · by_cases hjw : col + w ≤ j
            · obtain ⟨c, hcm, hcc⟩ := ih2 j d hjw hdj hnc
              exact ⟨c, List.mem_cons_of_mem _ hcm, hcc⟩
            · -- col < j < col + w: a continuation cell
              exfalso
              have hcont : ∀ (r : List DCell) (k i : Nat) (x : DCell), WFRow k r → i < k → r[i]? = some x → x = .cont := by
                intro r
                induction r with
                | nil => intro k i x _ _ h; simp at h
                | cons y ys ihy =>
                  intro k i x hwf hik hxi
                  cases k with
                  | zero => omega
                  | succ k =>
                    cases y with
                    | glyph => exact absurd hwf (by simp [WFRow])
                    | poison => exact absurd hwf (by simp [WFRow])
                    | cont =>
                      cases i with
                      | zero => simp at hxi; exact hxi.symm
                      | succ i => simp at hxi; exact ihy k i x hwf (by omega) hxi
              have hji : (drow.drop (col + 1))[j - (col + 1)]? = some d := by
                rw [List.getElem?_drop]
                have : col + 1 + (j - (col + 1)) = j := by omega
                rw [this]; exact hdj
              exact hnc (hcont _ (w - 1) (j - (col + 1)) d hwf' (by omega) hji)

end VaxisModel.Lemmas.C12Draw
