/-
C12 — reading the emulator's grid BACK as a screen (equational form of `GridRel`).

`GridRel dec D e.active` says cell for cell that the emulator cell shows the display cell; the cells
under a wide glyph are unconstrained. Here the same is a FUNCTION of the emulator's grid alone:
`readScreen enc g` reads every row left to right; a cell with a grapheme is read as that glyph with its
stored width, style, hyperlink and parameters (`enc` turns the stored bytes back into the opaque
strings of the renderer model), an erased / never written cell as a blank with its stored background,
and the `w − 1` cells after a glyph of width `w` as continuation cells whatever they hold (that is
how `Draw` walks the row: `col += w − 1`).

`readScreen_expected`: if the grid shows the application's screen (`GridRel … (expected cw caps g)`) and
`enc` inverts `dec` on the strings of `g` (and on the blank and the empty string), then
`readScreen enc grid = expected cw caps g` — an equation between two grids of display cells.
-/
import VaxisModel.Lemmas.C12Sim
import VaxisModel.Spec.Expected
import VaxisModel.Model.C12Read

namespace VaxisModel.Lemmas.C12Read
open VaxisModel.Model.Emu VaxisModel.Model.EmuAbs VaxisModel.Lemmas.C12Sim
open VaxisModel.Spec VaxisModel.Spec.Display VaxisModel.Spec.Expected
open VaxisModel.Model.Render (Cell Caps)
open VaxisModel.Model.C12Read

/-- `enc` inverts `dec` on the strings of one application cell as they are shown: grapheme, URL, and the
    OSC 8 parameter FIELD (`paramField`: the parameters up to the first `;` — what `render()` writes since
    the F112b repair — and nothing for a cell without a URL). -/
def EncCell (enc : G → String) (dec : String → G) (c : Cell) : Prop :=
  enc (dec c.g) = c.g ∧ enc (dec c.style.link) = c.style.link ∧
  enc (dec (paramField (if c.style.link = "" then "" else c.style.linkParams))) =
    paramField (if c.style.link = "" then "" else c.style.linkParams)

theorem rowRel_cons {dec : String → G} {a : DCell} {as : List DCell} {b : ECell} {bs : Row}
    (h : RowRel dec (a :: as) (b :: bs)) : CellRel dec a b ∧ RowRel dec as bs := by
  refine ⟨h.2 0 a b rfl rfl, by simpa using h.1, ?_⟩
  intro j x y hx hy
  exact h.2 (j + 1) x y (by simpa using hx) (by simpa using hy)

theorem readCell_expected {enc : G → String} {dec : String → G} (cw : String → Nat) (caps : Caps) (c : Cell) (b : ECell)
    (h20 : enc (dec "20") = "20") (hemp : enc (dec "") = "") (hc : EncCell enc dec c)
    (h : CellRel dec (expectedCell cw caps c) b) :
    readCell enc b = expectedCell cw caps c ∧ b.w - 1 = (cellWidth cw c).toNat - 1 := by
  obtain ⟨hg, hl, hlp⟩ := hc
  unfold expectedCell at h ⊢
  simp only at h ⊢
  split at h
  · rename_i hw
    have hw' : (cellWidth cw c).toNat - 1 = 0 := by omega
    rcases h with ⟨h1, h2, h3, h4, h5, h6⟩ | ⟨h1, h2, _, _, h5, h6, h7⟩
    · refine ⟨?_, by rw [h3, hw']⟩
      unfold readCell
      rw [if_neg h2, h1, h3, h4, h5, h6, h20, hl, hlp]
      simp [hw]
    · refine ⟨?_, by rw [h2, hw']⟩
      unfold readCell
      rw [if_pos h1]
      simp only [hw, if_true]
      rw [h5, h6, h7]
  · rename_i hw
    rcases h with ⟨h1, h2, h3, h4, h5, h6⟩ | ⟨h1, h2, h3, h4, h5, h6, h7⟩
    · refine ⟨?_, by rw [h3]⟩
      unfold readCell
      rw [if_neg h2, h1, h3, h4, h5, h6, hg, hl, hlp]
      simp [hw]
    · refine ⟨?_, by rw [h2, h4]⟩
      unfold readCell
      rw [if_pos h1]
      simp only [hw, if_false]
      rw [h3, h4, h5, h6, h7]

theorem readRow_expected {enc : G → String} {dec : String → G} (cw : String → Nat) (caps : Caps)
    (h20 : enc (dec "20") = "20") (hemp : enc (dec "") = "") :
    ∀ (l : List Cell) (k : Nat) (er : Row), (∀ c ∈ l, EncCell enc dec c) →
      RowRel dec (expectedRow cw caps k l) er → readRow enc k er = expectedRow cw caps k l := by
  intro l
  induction l with
  | nil =>
    intro k er _ h
    have : er = [] := by
      have := h.1
      cases k <;> simp [expectedRow] at this <;> exact List.eq_nil_of_length_eq_zero this.symm
    subst this
    cases k <;> simp [readRow, expectedRow]
  | cons c cs ih =>
    intro k er hc h
    cases k with
    | succ k =>
      cases er with
      | nil => have := h.1; simp [expectedRow] at this
      | cons b bs =>
        simp only [expectedRow] at h ⊢
        simp only [readRow]
        rw [ih k bs (fun x hx => hc x (by simp [hx])) (rowRel_cons h).2]
    | zero =>
      cases er with
      | nil => have := h.1; simp [expectedRow] at this
      | cons b bs =>
        simp only [expectedRow] at h ⊢
        obtain ⟨h1, h2⟩ := rowRel_cons h
        obtain ⟨r1, r2⟩ := readCell_expected cw caps c b h20 hemp (hc c (by simp)) h1
        simp only [readRow]
        rw [r1, r2, ih _ bs (fun x hx => hc x (by simp [hx])) h2]

/-- **Read-back.** A grid that shows the application's screen reads back as exactly that screen. -/
theorem readScreen_expected {enc : G → String} {dec : String → G} (cw : String → Nat) (caps : Caps)
    (h20 : enc (dec "20") = "20") (hemp : enc (dec "") = "") (g : Model.Render.Grid) (eg : Grid)
    (hc : ∀ r ∈ g, ∀ c ∈ r, EncCell enc dec c) (h : GridRel dec (expected cw caps g) eg) :
    readScreen enc eg = expected cw caps g := by
  unfold expected at h ⊢
  unfold readScreen
  have hlen : g.length = eg.length := by simpa using h.1
  apply List.ext_getElem?
  intro i
  rw [List.getElem?_map, List.getElem?_map]
  cases hb : eg[i]? with
  | none =>
    have : g.length ≤ i := by rw [hlen]; exact List.getElem?_eq_none_iff.mp hb
    rw [List.getElem?_eq_none this]; rfl
  | some b =>
    cases hl : g[i]? with
    | none =>
      have : eg.length ≤ i := by rw [← hlen]; exact List.getElem?_eq_none_iff.mp hl
      rw [List.getElem?_eq_none this] at hb; cases hb
    | some l =>
      have hrel := h.2 i (expectedRow cw caps 0 l) b (by rw [List.getElem?_map, hl]; rfl) hb
      simp only [Option.map_some]
      rw [readRow_expected cw caps h20 hemp l 0 b (hc l (List.mem_of_getElem? hl)) hrel]

end VaxisModel.Lemmas.C12Read
