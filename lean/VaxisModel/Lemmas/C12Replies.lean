/-
C12, the reply exchange over the models: the emulator model run over Vaxis's start-up queries, its
replies (`Model.C12Replies.replies`), and what C03's model of `handleSequence` / `New()` makes of
them.
-/
import VaxisModel.Model.C12Replies

namespace VaxisModel.Lemmas.C12Replies
open VaxisModel.Model.Emu VaxisModel.Model.C12Replies VaxisModel.Model

/-- `CSI H` homes the cursor, whatever the state. -/
theorem cup_home (e : Emu) : (cup Fixes.current e []).cur.row = 0 ∧ (cup Fixes.current e []).cur.col = 0 := by
  unfold cup
  simp only [Fixes.current, Bool.true_and, decide_eq_true_eq]
  constructor <;> (repeat' split) <;> omega

/-- The replies the emulator writes during the start-up exchange, in order: DECRPM 2026 → 0 (not
    recognised), 2027 → 3 (permanently set), 2031 → 0, the cursor position after `CSI H` (1;1), the
    background colour if a host Vaxis is attached and knows it, DA1 `? 62 ; 4 ; 22 c`. Nothing else
    is answered (XTVERSION, kitty keyboard / graphics queries, XTSMGRAPHICS, `CSI 14/18 t`,
    XTGETTCAP, OSC 4 / 10 / 176, DA3, DECRQSS). -/
def startupReplies (hostBg : Option (Nat × Nat × Nat)) (e : Emu) : List Input.Seq :=
  [.csi [63, 36] [[2026], [0]] 121, .csi [63, 36] [[2027], [3]] 121, .csi [63, 36] [[2031], [0]] 121,
   .csi [] [[1], [1]] 82] ++ replies hostBg e (.osc osc11Query { b64ok := true }) ++ [.csi [63] [[62], [4], [22]] 99]

/-- **The emulator model over the start-up queries, from ANY state**: no panic, and exactly
    `startupReplies`. -/
theorem run_startup (hostBg : Option (Nat × Nat × Nat)) (e : Emu) :
    ∃ e', runQ hostBg e startupQueries = .ok (e', startupReplies hostBg e) := by
  have h : ∃ e', runQ hostBg e startupQueries = .ok (e',
      [.csi [63, 36] [[2026], [0]] 121, .csi [63, 36] [[2027], [3]] 121, .csi [63, 36] [[2031], [0]] 121,
       .csi [] [[(cup Fixes.current e []).cur.row + 1], [(cup Fixes.current e []).cur.col + 1]] 82] ++
      replies hostBg e (.osc osc11Query { b64ok := true }) ++ [.csi [63] [[62], [4], [22]] 99]) := ⟨_, rfl⟩
  obtain ⟨e', he⟩ := h
  rw [(cup_home e).1, (cup_home e).2] at he
  exact ⟨e', he⟩

/-- **What Vaxis derives from those replies** (C03's model of `handleSequence` and of the collection
    loop of `New()`): sixel graphics (DA1 attribute 4), Unicode core (DECRPM 2027 = 3), the OSC 11
    colour query if it was answered — and nothing else: no synchronized output, no colour-theme
    updates, no kitty keyboard / graphics, no direct colour, no styled underlines, no size reports,
    no in-band resize, no explicit width (the cursor did not move over the OSC 66 probe). -/
theorem caps_of_startupReplies (hostBg : Option (Nat × Nat × Nat)) (e : Emu) :
    capsFrom (startupReplies hostBg e) =
      .ok { sixels := true, unicodeCore := true, osc11 := e.hasVx && hostBg.isSome } := by
  unfold startupReplies replies
  cases hv : e.hasVx with
  | false => simp only [Bool.false_eq_true, and_false, if_false]; rfl
  | true =>
    cases hostBg with
    | none => simp only [and_self, if_true]; rfl
    | some t =>
      obtain ⟨r, g, b⟩ := t
      simp only [and_self, if_true]
      rfl

end VaxisModel.Lemmas.C12Replies
