/-
C12 composition ACROSS RESIZES, the emulator side.

* `tok_frame` / `run_sim_frame`: the tokens of the vocabulary leave the screen selector alone
  (`EFrame`: `mode.smcup`, `altActive`, saved cursors, the inactive grid) — an application that entered
  the alternate screen at start-up stays there through every frame.
* `ResizeFacts e e' w h`: what `resize(w, h)` leaves alone and establishes (from C05's `resize_frame` /
  `resize_preserves_pen` / `resize_safe`, after the F112c repair aefad78).
* `dsim_after_resize`: a state related to a display AT REST (pen reset, no hyperlink — every flush
  ends so) on the alternate screen is, after `resize(w, h)`, related to the blank `w × h` display
  with the cursor wherever the reflow of the primary screen left it, visibility and shape unchanged
  (`resizedDisplay`).
-/
import VaxisModel.Lemmas.C12Sim
import VaxisModel.Lemmas.EmuRefineFrame

namespace VaxisModel.Lemmas.C12Resize
open VaxisModel.Model.Emu VaxisModel.Model.EmuAbs VaxisModel.Lemmas.Emu VaxisModel.Lemmas.EmuRefine
open VaxisModel.Spec VaxisModel.Spec.Display VaxisModel.Model.C12Compose VaxisModel.Lemmas.C12Sim
open VaxisModel.Model.Render (Tok)

variable {dec : String → G} {d : Term} {e : Emu} {rows cols : Nat}

/-! ### inversions -/

theorem runOps_single_inv {e e' : Emu} {op : EOp} (h : runOps e [op] = .ok e') : ∃ k, emuStep e op = .ok (e', k) := by
  simp only [runOps] at h
  cases hs : emuStep e op with
  | error p => rw [hs] at h; cases h
  | ok r =>
    obtain ⟨e1, k⟩ := r
    rw [hs] at h
    simp only [bind, Except.bind] at h
    cases h
    exact ⟨k, rfl⟩

theorem emuStep_csi_inv {e e' : Emu} {l : List Nat} {pm : List Param} {k : Nat}
    (h : emuStep e (.csi l pm) = .ok (e', k)) : csi Fixes.current e l pm = .ok e' := by
  have h' : (csi Fixes.current e l pm >>= fun x => (Except.ok (x, 0) : M (Emu × Nat))) = .ok (e', k) := h
  cases hc : csi Fixes.current e l pm with
  | error p => rw [hc] at h'; cases h'
  | ok e1 => rw [hc] at h'; cases h'; rfl

theorem emuStep_print_inv {e e' : Emu} {g : G} {w k : Nat}
    (h : emuStep e (.print g w) = .ok (e', k)) : print Fixes.current e g w = .ok e' := by
  have h' : (print Fixes.current e g w >>= fun x => (Except.ok (x, 0) : M (Emu × Nat))) = .ok (e', k) := h
  cases hc : print Fixes.current e g w with
  | error p => rw [hc] at h'; cases h'
  | ok e1 => rw [hc] at h'; cases h'; rfl

theorem emuStep_osc_inv {e e' : Emu} {data : List Nat} {info : OscInfo} {k : Nat}
    (h : emuStep e (.osc data info) = .ok (e', k)) : osc Fixes.current e data info = .ok (e', k) := by
  exact h

/-! ### the vocabulary keeps the screen selector -/

theorem frame_mode_dectcem (e : Emu) (b : Bool) : EFrame e { e with mode := { e.mode with dectcem := b } } :=
  ⟨rfl, rfl, rfl, rfl, fun _ => rfl⟩

theorem tok_frame (tw : String → Nat) (s : DSim dec d e rows cols) (k : Tok) (hk : TokOk dec tw k) :
    ∀ e', runOps e (opsOf dec tw k) = .ok e' → EFrame e e' := by
  intro e' h
  cases k with
  | cup r c =>
    obtain ⟨n, hs⟩ := runOps_single_inv h
    have := emuStep_csi_inv hs
    rw [csi_72] at this
    cases this
    exact (cup_frame e _).1
  | sgr ps =>
    obtain ⟨n, hs⟩ := runOps_single_inv h
    have h1 := emuStep_csi_inv hs
    obtain ⟨st', hs', _, _⟩ := sgr_pen e hk.1 hk.2
    rw [csi_109, hs'] at h1
    cases h1
    exact frame_cur _ _
  | osc8 p u =>
    obtain ⟨n, hs⟩ := runOps_single_inv h
    have h1 := emuStep_osc_inv hs
    have h2 := osc8_exact e (dec p) (dec u) s.osc8 hk.1
    have : osc Fixes.current e (osc8Payload dec p u) {} = osc Fixes.current e ([56, 59] ++ dec p ++ [59] ++ dec u) {} := rfl
    rw [this, h2] at h1
    cases h1
    exact frame_cur _ _
  | text g =>
    obtain ⟨n, hs⟩ := runOps_single_inv h
    exact print_frame (emuStep_print_inv hs)
  | textW w g => exact absurd hk id
  | decset n =>
    cases hk
    obtain ⟨n, hs⟩ := runOps_single_inv h
    have h1 := emuStep_csi_inv hs
    rw [decset25_exact] at h1
    cases h1
    exact frame_mode_dectcem e true
  | decrst n =>
    cases hk
    obtain ⟨n, hs⟩ := runOps_single_inv h
    have h1 := emuStep_csi_inv hs
    rw [decrst25_exact] at h1
    cases h1
    exact frame_mode_dectcem e false
  | cursorStyle n =>
    obtain ⟨m, hs⟩ := runOps_single_inv h
    have h1 := emuStep_csi_inv hs
    rw [decscusr_exact] at h1
    cases h1
    exact frame_cur _ _
  | pointer sh =>
    obtain ⟨n, hs⟩ := runOps_single_inv h
    have h1 := emuStep_osc_inv hs
    have h2 := osc22_exact e (dec sh)
    have : osc Fixes.current e (osc22Payload dec sh) {} = osc Fixes.current e ([50, 50, 59] ++ dec sh) {} := rfl
    rw [this, h2] at h1
    cases h1
    exact EFrame.refl e
  | other r => exact absurd hk id

/-- `run_sim` together with the frame: the emulator stays related AND keeps its screen selector. -/
theorem run_sim_frame (tw : String → Nat) (toks : List Tok) : ∀ (d : Term) (e : Emu), DSim dec d e rows cols →
    (run tw d toks).bad = none → (∀ k ∈ toks, TokOk dec tw k) →
    ∃ e', runOps e (opsOfToks dec tw toks) = .ok e' ∧ DSim dec (run tw d toks) e' rows cols ∧ EFrame e e' := by
  induction toks with
  | nil => intro d e s _ _; exact ⟨e, rfl, s, EFrame.refl e⟩
  | cons k ks ih =>
    intro d e s hb hk
    have hb1 : (step tw d k).bad = none := run_bad_none tw ks _ hb
    have hd : d.bad = none := step_bad_none tw d k hb1
    obtain ⟨e1, hr1, s1⟩ := tok_sim tw s k (hk k (by simp)) hd hb1
    have f1 := tok_frame tw s k (hk k (by simp)) e1 hr1
    obtain ⟨e2, hr2, s2, f2⟩ := ih (step tw d k) e1 s1 hb (fun k' hk' => hk k' (by simp [hk']))
    refine ⟨e2, ?_, s2, f1.trans f2⟩
    show runOps e (opsOf dec tw k ++ opsOfToks dec tw ks) = .ok e2
    exact runOps_append_ok hr1 hr2

/-! ### resize -/

/-- What `resize(w, h)` leaves alone and what it establishes (C05: `resize_safe`, `resize_frame`,
    `resize_preserves_pen`). -/
structure ResizeFacts (e e' : Emu) (w h : Int) : Prop where
  inv : EmuInv e' h.toNat w.toNat
  dim : Dim h.toNat w.toNat
  mode : e'.mode = e.mode
  cs : e.cs.ss = false → e'.cs = e.cs
  osc8 : e'.osc8 = e.osc8
  shape : e'.cur.shape = e.cur.shape
  pen : e'.cur.st = e.cur.st
  altActive : e'.altActive = e.mode.smcup
  alt : e'.alt = blankGrid w.toNat h.toNat
  lc : LastColOk e' w.toNat

/-- The reference display after a resize, as the emulator's `resize()` leaves it: blank, at rest,
    the cursor where the reflow of the primary screen put it, visibility and shape as they are. -/
def resizedDisplay (cols rows : Nat) (e : Emu) : Term :=
  { Term.init cols rows with
    row := e.cur.row.toNat
    col := (if e.cur.col ≥ (cols : Int) then (cols : Int) - 1 else e.cur.col).toNat
    pw := decide (e.cur.col ≥ (cols : Int))
    cursorVisible := e.mode.dectcem
    cursorShape := e.cur.shape.toNat }

theorem gridRel_blank (rows cols : Nat) :
    GridRel dec (List.replicate rows (List.replicate cols DCell.blank)) (blankGrid cols rows) := by
  unfold blankGrid
  refine ⟨by simp, ?_⟩
  have rep : ∀ {α : Type} (n : Nat) (x y : α) (k : Nat), (List.replicate n x)[k]? = some y → y = x := by
    intro α n x y k hk
    rw [List.getElem?_replicate] at hk
    split at hk
    · exact (Option.some.inj hk).symm
    · cases hk
  intro i a b ha hb
  rw [rep _ _ _ _ ha, rep _ _ _ _ hb]
  refine ⟨by simp, ?_⟩
  intro j x y hx hy
  rw [rep _ _ _ _ hx, rep _ _ _ _ hy]
  exact Or.inr ⟨rfl, rfl, rfl, rfl, by rw [C12Sim.absCol_zero], rfl, rfl⟩

/-- **Resize re-establishes a start state** (blank screen, pen and hyperlink at rest) for an
    application on the alternate screen — with the cursor wherever `resize()` left it. -/
theorem dsim_after_resize (s : DSim dec d e rows cols) (hpen : d.pen = TStyle.reset)
    (hlink : d.link = "") (hlp : d.linkParams = "") (halt : e.mode.smcup = true)
    {e' : Emu} {w h : Int} (f : ResizeFacts e e' w h) :
    DSim dec (resizedDisplay w.toNat h.toNat e') e' h.toNat w.toNat ∧ e'.mode.smcup = true ∧
      e'.mode.dectcem = d.cursorVisible := by
  have hi := f.inv
  have := hi.rowLo; have := hi.colLo; have := hi.colHi
  have hcs : e'.cs = e.cs := f.cs s.vm.noShift
  refine ⟨?_, by rw [f.mode]; exact halt, by rw [f.mode]; exact s.vis.symm⟩
  exact
  { inv := hi
    dim := f.dim
    vm := ⟨by rw [f.mode]; exact s.vm.awm, by rw [f.mode]; exact s.vm.irm, by rw [f.mode]; exact s.vm.lnm,
           by rw [hcs]; exact s.vm.ascii, by rw [hcs]; exact s.vm.noShift⟩
    osc8 := by rw [f.osc8]; exact s.osc8
    lc := f.lc
    drows := rfl, dcols := rfl
    row := by show ((e'.cur.row.toNat : Nat) : Int) = e'.cur.row; omega
    col := by
      show (((if e'.cur.col ≥ (w.toNat : Int) then (w.toNat : Int) - 1 else e'.cur.col).toNat : Nat) : Int) = _
      have := f.dim.c1
      split <;> omega
    pw := rfl
    pen := by
      show TStyle.reset = absStyle e'.cur.st
      rw [f.pen, ← s.pen, hpen]
    link := by
      show dec "" = e'.cur.st.link
      rw [f.pen, ← s.link, hlink]
    linkParams := by
      show dec "" = e'.cur.st.linkParams
      rw [f.pen, ← s.linkParams, hlp]
    vis := rfl
    shape := by
      show ((e'.cur.shape.toNat : Nat) : Int) = e'.cur.shape
      have h1 := s.shape
      rw [f.shape]
      omega
    grid := by
      have hact : e'.active = blankGrid w.toNat h.toNat := by
        unfold Emu.active
        rw [f.altActive, halt, if_pos rfl, f.alt]
      rw [hact]
      exact gridRel_blank h.toNat w.toNat }

end VaxisModel.Lemmas.C12Resize
