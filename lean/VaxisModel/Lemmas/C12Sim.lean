/-
C12 composition, the simulation: the reference display `Spec.Display` (through which C01 observes
the renderer) and the emulator model `Model/Emu`, fed the same renderer tokens (through
`Model.C12Compose.opsOf`), stay related by `DSim` — as long as the display has not been driven into
terminal-specific territory (`bad = none`, which C01 proves for every admissible frame history).

`DSim dec d e rows cols`: `e` is a well-formed `rows × cols` emulator state in the modes the
renderer's vocabulary cannot leave, and shows what the display `d` shows: cursor (the emulator's
column = width is the display's pending-wrap flag), pen, open hyperlink with its parameters, cursor
visibility and shape, and every cell of the active grid (`CellRel`; the display's `cont` and
`poison` cells constrain nothing: the emulator leaves stale cells under a wide glyph, and a
half-overwritten wide glyph is terminal specific).

The emulator-side facts come from the C06 refinement library (exact results of `print`:
`printK1_narrow`, `printK1_wide`, `printAdvance_eq`; SGR: `sgr_pen`, the emulator's pen abstracts
to `Spec.sgr`, the very function the display applies).
-/
import VaxisModel.Model.C12Compose
import VaxisModel.Spec.Display
import VaxisModel.Lemmas.EmuRefineAll

namespace VaxisModel.Lemmas.C12Sim
open VaxisModel.Model.Emu VaxisModel.Model.EmuAbs VaxisModel.Lemmas.Emu VaxisModel.Lemmas.EmuRefine VaxisModel.Lemmas.EmuRefine.PrintAux
open VaxisModel.Spec VaxisModel.Spec.Display VaxisModel.Model.C12Compose
open VaxisModel.Model.Render (Tok)

/-! ### the relation -/

/-- The emulator cell `c` shows the display cell `d`. A never written / erased emulator cell shows
    as a default-style space with the stored background (such a cell has width 0). -/
def CellRel (dec : String → G) : DCell → ECell → Prop
  | .glyph g w st lp lk, c =>
      (c.g = dec g ∧ c.g ≠ [] ∧ c.w = w ∧ absStyle c.st = st ∧ c.st.link = dec lk ∧ c.st.linkParams = dec lp) ∨
      (c.g = [] ∧ c.w = 0 ∧ g = "20" ∧ w = 1 ∧ st = { bg := absCol c.st.bg } ∧ lp = "" ∧ lk = "")
  | .cont, _ => True
  | .poison, _ => True

def RowRel (dec : String → G) (dr : List DCell) (er : Row) : Prop :=
  dr.length = er.length ∧ ∀ (j : Nat) a b, dr[j]? = some a → er[j]? = some b → CellRel dec a b

def GridRel (dec : String → G) (dg : List (List DCell)) (eg : Grid) : Prop :=
  dg.length = eg.length ∧ ∀ (i : Nat) a b, dg[i]? = some a → eg[i]? = some b → RowRel dec a b

structure DSim (dec : String → G) (d : Term) (e : Emu) (rows cols : Nat) : Prop where
  inv : EmuInv e rows cols
  dim : Dim rows cols
  vm : VocabModes e
  osc8 : e.osc8 = true
  lc : LastColOk e cols
  drows : d.rows = rows
  dcols : d.cols = cols
  row : (d.row : Int) = e.cur.row
  col : (d.col : Int) = (if e.cur.col ≥ cols then (cols : Int) - 1 else e.cur.col)
  pw : d.pw = decide (e.cur.col ≥ cols)
  pen : d.pen = absStyle e.cur.st
  link : dec d.link = e.cur.st.link
  linkParams : dec d.linkParams = e.cur.st.linkParams
  vis : d.cursorVisible = e.mode.dectcem
  shape : (d.cursorShape : Int) = e.cur.shape
  grid : GridRel dec d.grid e.active

/-! ### the display side -/

/-- `bad` is sticky. -/
theorem step_bad_some (tw : String → Nat) (t : Term) (k : Tok) (w : String) (h : t.bad = some w) :
    (step tw t k).bad = some w := by
  have hm : ∀ (t : Term) (why : String), t.bad = some w → (markBad t why).bad = some w := by
    intro t why h; simp [markBad, h]
  have hp : ∀ (t : Term) g n, t.bad = some w → (putGlyph t g n).bad = some w := by
    intro t g n h
    unfold putGlyph
    repeat' split
    all_goals first | exact hm _ _ h | exact h
  cases k with
  | cup r c => simp only [step]; split; exact hm _ _ h; exact h
  | sgr ps => exact h
  | osc8 p u => simp only [step]; split <;> exact h
  | text g => exact hp _ _ _ h
  | textW n g => simp only [step]; split; exact hm _ _ h; exact hp _ _ _ h
  | decset n => simp only [step]; split; exact h; split <;> exact h
  | decrst n => simp only [step]; split; exact h; split <;> exact h
  | cursorStyle n => exact h
  | pointer s => exact h
  | other r => exact h

theorem step_bad_none (tw : String → Nat) (t : Term) (k : Tok) (h : (step tw t k).bad = none) : t.bad = none := by
  cases hb : t.bad with
  | none => rfl
  | some w => rw [step_bad_some tw t k w hb] at h; cases h

theorem run_bad_none (tw : String → Nat) (toks : List Tok) : ∀ (t : Term), (run tw t toks).bad = none → t.bad = none := by
  induction toks with
  | nil => intro t h; exact h
  | cons k ks ih => intro t h; exact step_bad_none tw t k (ih _ h)

theorem poisonPartial_length (r : List DCell) (lo hi i : Nat) : (poisonPartial r lo hi i).length = r.length := by
  unfold poisonPartial
  simp only
  split
  · rfl
  · split
    · rfl
    · simp

/-- `poisonPartial` only turns cells into `poison`. -/
theorem poisonPartial_get (r : List DCell) (lo hi i j : Nat) (x : DCell)
    (h : (poisonPartial r lo hi i)[j]? = some x) : x = .poison ∨ r[j]? = some x := by
  unfold poisonPartial at h
  simp only at h
  split at h
  · exact Or.inr h
  · split at h
    · exact Or.inr h
    · rw [List.getElem?_zipWith] at h
      cases h1 : (List.range r.length)[j]? with
      | none => rw [h1] at h; simp at h
      | some a =>
        cases h2 : r[j]? with
        | none => rw [h1, h2] at h; simp at h
        | some b =>
          rw [h1, h2] at h
          simp only [Option.some.injEq] at h
          split at h
          · exact Or.inl h.symm
          · exact Or.inr (by rw [h])

theorem writeRow_length (r : List DCell) (c w : Nat) (cell : DCell) : (writeRow r c w cell).length = r.length := by
  unfold writeRow
  simp [poisonPartial_length]

/-- A cell of the row after writing a glyph: the glyph, a continuation cell, poison, or the old cell
    outside the written range. -/
theorem writeRow_get (r : List DCell) (c w : Nat) (cell : DCell) (j : Nat) (x : DCell)
    (h : (writeRow r c w cell)[j]? = some x) :
    (j = c ∧ x = cell) ∨ x = .cont ∨ x = .poison ∨ (¬ (c ≤ j ∧ j < c + w) ∧ j ≠ c ∧ r[j]? = some x) := by
  unfold writeRow at h
  simp only at h
  rw [List.getElem?_zipWith] at h
  cases h1 : (List.range (poisonPartial (poisonPartial r c (c + w) c) c (c + w) (c + w - 1)).length)[j]? with
  | none => rw [h1] at h; simp at h
  | some a =>
    have ha : a = j := by
      obtain ⟨_, he⟩ := List.getElem?_eq_some_iff.mp h1
      simpa using he.symm
    cases h2 : (poisonPartial (poisonPartial r c (c + w) c) c (c + w) (c + w - 1))[j]? with
    | none => rw [h1, h2] at h; simp at h
    | some b =>
      rw [h1, h2] at h
      simp only [Option.some.injEq, ha] at h
      split at h
      · exact Or.inl ⟨‹j = c›, h.symm⟩
      · split at h
        · exact Or.inr (Or.inl h.symm)
        · subst h
          rcases poisonPartial_get _ _ _ _ _ _ h2 with hp | hp
          · exact Or.inr (Or.inr (Or.inl hp))
          · rcases poisonPartial_get _ _ _ _ _ _ hp with hp' | hp'
            · exact Or.inr (Or.inr (Or.inl hp'))
            · refine Or.inr (Or.inr (Or.inr ⟨?_, ‹¬ j = c›, hp'⟩))
              intro hc
              rename_i h3 h4
              rcases Nat.eq_or_lt_of_le hc.1 with h5 | h5
              · exact h3 h5.symm
              · exact h4 ⟨h5, hc.2⟩

/-! ### the emulator side, operation by operation -/

variable {dec : String → G} {d : Term} {e : Emu} {rows cols : Nat}

theorem clampParam_id (n : Int) (h0 : 0 ≤ n) (h1 : n ≤ 65535) : clampParam n = n := by
  unfold clampParam maxParam
  split
  · omega
  · rfl

theorem cup_exact (h : EmuInv e rows cols) (dm : Dim rows cols) (r c : Int)
    (hr1 : 1 ≤ r) (hr2 : r ≤ rows) (hc1 : 1 ≤ c) (hc2 : c ≤ cols) :
    cup Fixes.current e (clampParams [(r, []), (c, [])]) =
      { e with cur := { e.cur with row := r - 1, col := c - 1 }, lastCol := false } := by
  have hh : ({ e with lastCol := false } : Emu).height = rows := height_eq (e := { e with lastCol := false }) { h with }
  have hw : ({ e with lastCol := false } : Emu).width = cols := width_eq (e := { e with lastCol := false }) { h with } dm.r1
  have := dm.rmax; have := dm.cmax
  have e1 : clampParam r = r := clampParam_id r (by omega) (by omega)
  have e2 : clampParam c = c := clampParam_id c (by omega) (by omega)
  simp only [clampParams, List.map, e1, e2]
  unfold cup
  simp only [hh, hw, Fixes.current, Bool.true_and, decide_eq_true_eq]
  have a1 : ¬ (c - 1 > (cols : Int) - 1) := by omega
  have a2 : ¬ (r - 1 > (rows : Int) - 1) := by omega
  have a3 : ¬ (c - 1 < 0) := by omega
  have a4 : ¬ (r - 1 < 0) := by omega
  simp only [a1, a2, a3, a4, if_false]

/-- Cursor to a real position, everything else untouched. -/
theorem dsim_moveCursor (s : DSim dec d e rows cols) (r c : Nat) (ri ci : Int) (hri : (r : Int) = ri) (hci : (c : Int) = ci)
    (hr : r < rows) (hc : c < cols) :
    DSim dec { d with row := r, col := c, pw := false }
      { e with cur := { e.cur with row := ri, col := ci }, lastCol := false } rows cols := by
  subst hri; subst hci
  exact
  { inv := inv_setCursor s.inv r c false (by omega) (by omega) (by omega) (by omega)
    dim := s.dim, vm := ⟨s.vm.awm, s.vm.irm, s.vm.lnm, s.vm.ascii, s.vm.noShift⟩
    osc8 := s.osc8
    lc := by intro h; cases h
    drows := s.drows, dcols := s.dcols
    row := rfl
    col := by simp only; split <;> omega
    pw := by simp only; symm; rw [decide_eq_false_iff_not]; omega
    pen := s.pen, link := s.link, linkParams := s.linkParams, vis := s.vis, shape := s.shape
    grid := s.grid }

theorem runOps_single {e e' : Emu} {op : EOp} {k : Nat} (h : emuStep e op = .ok (e', k)) :
    runOps e [op] = .ok e' := by
  simp only [runOps, h, bind, Except.bind]

theorem cup_sim (tw : String → Nat) (s : DSim dec d e rows cols) (r c : Int)
    (hb : (step tw d (.cup r c)).bad = none) (hd : d.bad = none) :
    ∃ e', runOps e (opsOf dec tw (.cup r c)) = .ok e' ∧ DSim dec (step tw d (.cup r c)) e' rows cols := by
  have hdr := s.drows; have hdc := s.dcols
  by_cases hcond : r < 1 ∨ c < 1 ∨ r > d.rows ∨ c > d.cols
  · simp [step, hcond, markBad, hd] at hb
  · have hr1 : 1 ≤ r := by omega
    have hc1 : 1 ≤ c := by omega
    have hr2 : r ≤ rows := by omega
    have hc2 : c ≤ cols := by omega
    have hstep : emuStep e (.csi [72] [(r, []), (c, [])]) =
        .ok ({ e with cur := { e.cur with row := r - 1, col := c - 1 }, lastCol := false }, 0) :=
      emuStep_csi_ok (by rw [csi_72, cup_exact s.inv s.dim r c hr1 hr2 hc1 hc2])
    refine ⟨_, runOps_single hstep, ?_⟩
    simp only [step, hcond, if_false]
    exact dsim_moveCursor s (r - 1).toNat (c - 1).toNat (r - 1) (c - 1) (by omega) (by omega) (by omega) (by omega)

/-! #### SGR -/

/-- Only the pen's colours / attributes change (hyperlink kept). -/
theorem dsim_setPen (s : DSim dec d e rows cols) (tp : TStyle) (st : EStyle) (hp : tp = absStyle st)
    (hl : st.link = e.cur.st.link) (hlp : st.linkParams = e.cur.st.linkParams) :
    DSim dec { d with pen := tp } { e with cur := { e.cur with st := st } } rows cols :=
  { inv := { s.inv with }
    dim := s.dim, vm := ⟨s.vm.awm, s.vm.irm, s.vm.lnm, s.vm.ascii, s.vm.noShift⟩
    osc8 := s.osc8
    lc := s.lc
    drows := s.drows, dcols := s.dcols, row := s.row, col := s.col, pw := s.pw
    pen := hp
    link := by simp only; rw [hl]; exact s.link
    linkParams := by simp only; rw [hlp]; exact s.linkParams
    vis := s.vis, shape := s.shape, grid := s.grid }

/-- An SGR token the composition covers: the parser's parameters are inside the C06 vocabulary
    (`sgrParams`: no 6 / 21, values ≤ 255) and well formed (`WfSgr`). -/
def SgrOk (ps : List (List Nat)) : Prop := sgrParams (ps.map sgrParam) = some ps ∧ WfSgr ps = true

theorem sgr_sim (tw : String → Nat) (s : DSim dec d e rows cols) (ps : List (List Nat)) (hok : SgrOk ps) :
    ∃ e', runOps e (opsOf dec tw (.sgr ps)) = .ok e' ∧ DSim dec (step tw d (.sgr ps)) e' rows cols := by
  obtain ⟨st', hs, habs, hk⟩ := sgr_pen e hok.1 hok.2
  have hstep : emuStep e (.csi [109] (ps.map sgrParam)) = .ok ({ e with cur := { e.cur with st := st' } }, 0) :=
    emuStep_csi_ok (by rw [csi_109]; exact hs)
  refine ⟨_, runOps_single hstep, ?_⟩
  simp only [step]
  exact dsim_setPen s _ st' (by rw [habs, s.pen]) hk.link hk.linkParams

/-! #### cursor visibility (mode 25) and shape (DECSCUSR) -/

theorem decset25_exact (e : Emu) :
    csi Fixes.current e [63, 104] [(((25 : Nat) : Int), [])] = .ok { e with mode := { e.mode with dectcem := true } } := rfl

theorem decrst25_exact (e : Emu) :
    csi Fixes.current e [63, 108] [(((25 : Nat) : Int), [])] = .ok { e with mode := { e.mode with dectcem := false } } := rfl

theorem dsim_setVis (s : DSim dec d e rows cols) (b : Bool) :
    DSim dec { d with cursorVisible := b } { e with mode := { e.mode with dectcem := b } } rows cols :=
  { inv := { s.inv with }
    dim := s.dim, vm := ⟨s.vm.awm, s.vm.irm, s.vm.lnm, s.vm.ascii, s.vm.noShift⟩
    osc8 := s.osc8, lc := s.lc
    drows := s.drows, dcols := s.dcols, row := s.row, col := s.col, pw := s.pw
    pen := s.pen, link := s.link, linkParams := s.linkParams
    vis := rfl, shape := s.shape, grid := s.grid }

theorem decset_sim (tw : String → Nat) (s : DSim dec d e rows cols) :
    ∃ e', runOps e (opsOf dec tw (.decset 25)) = .ok e' ∧ DSim dec (step tw d (.decset 25)) e' rows cols :=
  ⟨_, runOps_single (emuStep_csi_ok (decset25_exact e)), by simp only [step, if_true]; exact dsim_setVis s true⟩

theorem decrst_sim (tw : String → Nat) (s : DSim dec d e rows cols) :
    ∃ e', runOps e (opsOf dec tw (.decrst 25)) = .ok e' ∧ DSim dec (step tw d (.decrst 25)) e' rows cols :=
  ⟨_, runOps_single (emuStep_csi_ok (decrst25_exact e)), by simp only [step, if_true]; exact dsim_setVis s false⟩

theorem decscusr_exact (e : Emu) (n : Int) :
    csi Fixes.current e [32, 113] [(n, [])] = .ok { e with cur := { e.cur with shape := clampParam n } } := rfl

theorem cursorStyle_sim (tw : String → Nat) (s : DSim dec d e rows cols) (n : Nat) (hn : n ≤ 65535) :
    ∃ e', runOps e (opsOf dec tw (.cursorStyle n)) = .ok e' ∧ DSim dec (step tw d (.cursorStyle n)) e' rows cols := by
  refine ⟨_, runOps_single (emuStep_csi_ok (decscusr_exact e n)), ?_⟩
  simp only [step]
  rw [clampParam_id _ (by omega) (by omega)]
  exact
  { inv := { s.inv with }
    dim := s.dim, vm := ⟨s.vm.awm, s.vm.irm, s.vm.lnm, s.vm.ascii, s.vm.noShift⟩
    osc8 := s.osc8, lc := s.lc
    drows := s.drows, dcols := s.dcols, row := s.row, col := s.col, pw := s.pw
    pen := s.pen, link := s.link, linkParams := s.linkParams
    vis := s.vis, shape := rfl, grid := s.grid }

/-! #### OSC 8 (hyperlink) and OSC 22 (pointer shape) -/

theorem span_loop_split (p : Nat → Bool) (x : Nat) (U : List Nat) (hx : p x = false) :
    ∀ (P acc : List Nat), (∀ y ∈ P, p y = true) → List.span.loop p (P ++ x :: U) acc = (acc.reverse ++ P, x :: U) := by
  intro P
  induction P with
  | nil => intro acc _; simp [List.span.loop, hx]
  | cons y ys ih =>
    intro acc h
    have hy : p y = true := h y (by simp)
    simp only [List.cons_append, List.span.loop, hy]
    rw [ih (y :: acc) (fun z hz => h z (by simp [hz]))]
    simp

theorem cutSemi_split (P U : List Nat) (hP : 59 ∉ P) : cutSemi (P ++ 59 :: U) = (P, U, true) := by
  unfold cutSemi List.span
  rw [span_loop_split _ 59 U (by simp) P [] (by intro y hy; simp; intro h; exact hP (h ▸ hy))]
  simp

theorem emuStep_osc_ok {e e' : Emu} {data : List Nat} {info : OscInfo} {k : Nat}
    (h : osc Fixes.current e data info = .ok (e', k)) : emuStep e (.osc data info) = .ok (e', k) := by
  unfold emuStep emuStepF
  exact h

theorem osc8_exact (e : Emu) (P U : List Nat) (ho : e.osc8 = true) (hP : 59 ∉ P) :
    osc Fixes.current e ([56, 59] ++ P ++ [59] ++ U) {} =
      .ok ({ e with cur := { e.cur with st := { e.cur.st with link := U, linkParams := P } } }, 0) := by
  have h1 : [56, 59] ++ P ++ [59] ++ U = [56] ++ 59 :: (P ++ 59 :: U) := by simp
  unfold osc
  rw [h1, cutSemi_split [56] _ (by decide)]
  simp only [Bool.not_true, Bool.false_eq_true, if_false, ho, if_true]
  rw [cutSemi_split P U hP]
  simp

theorem osc22_exact (e : Emu) (S : List Nat) :
    osc Fixes.current e ([50, 50, 59] ++ S) {} = .ok (e, 0) := by
  have h1 : [50, 50, 59] ++ S = [50, 50] ++ 59 :: S := by simp
  unfold osc
  rw [h1, cutSemi_split [50, 50] _ (by decide)]
  simp

theorem pointer_sim (tw : String → Nat) (s : DSim dec d e rows cols) (sh : String) :
    ∃ e', runOps e (opsOf dec tw (.pointer sh)) = .ok e' ∧ DSim dec (step tw d (.pointer sh)) e' rows cols := by
  refine ⟨e, runOps_single (emuStep_osc_ok (osc22_exact e _)), ?_⟩
  simp only [step]
  exact { s with }

/-- The OSC 8 tokens the composition covers: the parameter string has no `;` (it would end the
    parameter field early in any terminal), and closing a hyperlink sends no parameters. -/
def Osc8Ok (dec : String → G) (p u : String) : Prop := 59 ∉ dec p ∧ (u = "" → p = "")

theorem osc8_sim (tw : String → Nat) (s : DSim dec d e rows cols) (p u : String) (hok : Osc8Ok dec p u) :
    ∃ e', runOps e (opsOf dec tw (.osc8 p u)) = .ok e' ∧ DSim dec (step tw d (.osc8 p u)) e' rows cols := by
  refine ⟨_, runOps_single (emuStep_osc_ok (osc8_exact e (dec p) (dec u) s.osc8 hok.1)), ?_⟩
  have hd : step tw d (.osc8 p u) = { d with link := u, linkParams := p } := by
    simp only [step]
    split
    · rename_i hu; rw [hu, hok.2 hu]
    · rfl
  rw [hd]
  exact
  { inv := { s.inv with }
    dim := s.dim, vm := ⟨s.vm.awm, s.vm.irm, s.vm.lnm, s.vm.ascii, s.vm.noShift⟩
    osc8 := s.osc8, lc := s.lc
    drows := s.drows, dcols := s.dcols, row := s.row, col := s.col, pw := s.pw
    pen := s.pen, link := rfl, linkParams := rfl
    vis := s.vis, shape := s.shape, grid := s.grid }

/-! #### print -/

theorem setActive_cs (e : Emu) (g : Grid) : (e.setActive g).cs = e.cs := by
  unfold Emu.setActive; split <;> rfl
theorem setActive_osc8 (e : Emu) (g : Grid) : (e.setActive g).osc8 = e.osc8 := by
  unfold Emu.setActive; split <;> rfl

/-- In the modes of the vocabulary, with the last-column flag clear and a glyph that fits, `print`
    is its write phase (no charset translation, no autowrap, no insert shift). -/
theorem print_eq_K1' (h : EmuInv e rows cols) (vm : VocabModes e) (g : G) (w : Nat)
    (hlc : e.lastCol = false) (hfit : e.cur.col + (w : Int) ≤ cols) :
    print Fixes.current e g w = printK1 g w e := by
  rw [print_eq]
  have h1 : printPre e = e := by unfold printPre; simp [vm.noShift]
  have h2 : printGlyph e g = g := by
    unfold printGlyph
    split
    · simp [vm.ascii]
    · rfl
  rw [h1, h2]
  unfold printK0
  have hr := h.right
  have : ¬ (e.cur.col + (w : Int) - 1 > e.right) := by omega
  simp [hlc, this]

theorem gridRel_set {dg : List (List DCell)} {eg : Grid} (h : GridRel dec dg eg) (i : Nat)
    (a : List DCell) (b : Row) (hab : RowRel dec a b) : GridRel dec (dg.set i a) (eg.set i b) := by
  refine ⟨by simpa using h.1, ?_⟩
  intro k x y hx hy
  rw [List.getElem?_set] at hx hy
  by_cases hk : i = k
  · simp only [hk, if_true] at hx hy
    split at hx
    · split at hy
      · simp at hx hy; subst hx; subst hy; exact hab
      · simp at hy
    · simp at hx
  · simp only [hk, if_false] at hx hy
    exact h.2 k x y hx hy

/-- The row after the display wrote a glyph at `[c, c+w)` is shown by any emulator row that agrees
    with the old one outside that range and shows the glyph at `c`. -/
theorem rowRel_write {r : List DCell} {er : Row} (hr : RowRel dec r er) (c w : Nat) (cell : DCell) (er' : Row)
    (hlen : er'.length = er.length) (hc : ∀ b, er'[c]? = some b → CellRel dec cell b)
    (hout : ∀ j, ¬ (c ≤ j ∧ j < c + w) → er'[j]? = er[j]?) :
    RowRel dec (writeRow r c w cell) er' := by
  refine ⟨by rw [writeRow_length, hlen]; exact hr.1, ?_⟩
  intro j a b ha hb
  rcases writeRow_get r c w cell j a ha with ⟨rfl, rfl⟩ | rfl | rfl | ⟨h1, _, h3⟩
  · exact hc b hb
  · trivial
  · trivial
  · rw [hout j h1] at hb
    exact hr.2 j a b h3 hb

/-- What the bad-flag says about a print that did not set it. -/
theorem putGlyph_good (t : Term) (g : String) (w : Nat) (hd : t.bad = none) (hb : (putGlyph t g w).bad = none) :
    w ≠ 0 ∧ t.pw = false ∧ t.col + w ≤ t.cols := by
  unfold putGlyph at hb
  split at hb
  · simp [markBad, hd] at hb
  · split at hb
    · simp [markBad, hd] at hb
    · split at hb
      · simp [markBad, hd] at hb
      · rename_i h1 h2 h3
        exact ⟨h1, by simpa using h2, by omega⟩

theorem text_sim (tw : String → Nat) (s : DSim dec d e rows cols) (g : String) (hd : d.bad = none)
    (hb : (step tw d (.text g)).bad = none) (hw : tw g ≤ 2) (hg : dec g ≠ []) :
    ∃ e', runOps e (opsOf dec tw (.text g)) = .ok e' ∧ DSim dec (step tw d (.text g)) e' rows cols := by
  have hstepd : step tw d (.text g) = putGlyph d g (tw g) := rfl
  rw [hstepd] at hb ⊢
  obtain ⟨hw0, hpw, hfit⟩ := putGlyph_good d g (tw g) hd hb
  have hdr := s.drows; have hdc := s.dcols
  have hi := s.inv
  have := hi.rowLo; have := hi.rowHi; have := hi.colLo; have := hi.colHi
  -- the emulator is not in the pending-wrap column
  have hcol : e.cur.col < cols := by
    have h1 := s.pw; rw [hpw] at h1
    have h2 : ¬ (e.cur.col ≥ (cols : Int)) := by intro hc; simp [hc] at h1
    omega
  have hdcol : (d.col : Int) = e.cur.col := by have := s.col; rw [this]; split <;> omega
  have hlc : e.lastCol = false := by
    cases h : e.lastCol with
    | false => rfl
    | true => have := s.lc h; omega
  have hfitE : e.cur.col + ((tw g : Nat) : Int) ≤ cols := by omega
  have hga := active_ok hi
  obtain ⟨rowE, hrowE, hlenE⟩ := row_at hga e.cur.row.toNat (by omega)
  have hdrow : d.row = e.cur.row.toNat := by have := s.row; omega
  have hdcolN : d.col = e.cur.col.toNat := by omega
  -- the display's row
  have hdlen : d.row < d.grid.length := by rw [s.grid.1, hga.len]; omega
  have hrowD : d.grid[d.row]? = some d.grid[d.row] := List.getElem?_eq_getElem hdlen
  have hrr : RowRel dec d.grid[d.row] rowE := s.grid.2 d.row _ _ hrowD (by rw [hdrow]; exact hrowE)
  -- the display's result
  have hput : putGlyph d g (tw g) =
      (if d.col + tw g = d.cols then
        { d with grid := d.grid.set d.row (writeRow d.grid[d.row] d.col (tw g) (DCell.glyph g (tw g) d.pen d.linkParams d.link)),
                 col := d.cols - 1, pw := true }
       else
        { d with grid := d.grid.set d.row (writeRow d.grid[d.row] d.col (tw g) (DCell.glyph g (tw g) d.pen d.linkParams d.link)),
                 col := d.col + tw g }) := by
    unfold putGlyph
    have h2 : ¬ (d.col + tw g > d.cols) := by omega
    simp only [hw0, hpw, h2, if_false, hrowD, Bool.false_eq_true]
  -- the new emulator cell shows the new display cell
  have hcell : ∀ w, CellRel dec (DCell.glyph g w d.pen d.linkParams d.link) { g := dec g, w := w, st := e.cur.st } :=
    fun w => Or.inl ⟨rfl, hg, rfl, s.pen.symm, s.link.symm, s.linkParams.symm⟩
  -- common tail: from the exact emulator result to `DSim`
  have fin : ∀ (G : Grid) (rowE' : Row), G = e.active.set e.cur.row.toNat rowE' → rowE'.length = cols →
      RowRel dec (writeRow d.grid[d.row] d.col (tw g) (DCell.glyph g (tw g) d.pen d.linkParams d.link)) rowE' →
      print Fixes.current e (dec g) (tw g) = .ok (printAdvance (e.setActive G) ((tw g : Nat) : Int)) →
      ∃ e', runOps e (opsOf dec tw (.text g)) = .ok e' ∧ DSim dec (putGlyph d g (tw g)) e' rows cols := by
    intro G rowE' hG hlen' hrel hpr
    have hGok : GridOk G rows cols := by rw [hG]; exact gridOk_set hga _ _ hlen'
    have hinv' : EmuInv (printAdvance (e.setActive G) ((tw g : Nat) : Int)) rows cols :=
      printAdvance_inv (setActive_inv hi hGok) (tw g)
    have heq := printAdvance_eq (e.setActive G) (tw g) cols (by simpa using s.vm.awm) (by simpa using hi.right)
      (by simpa using hfitE)
    refine ⟨_, runOps_single (emuStep_print_ok hpr), ?_⟩
    rw [heq] at hinv' ⊢
    have hact : (Emu.active { (e.setActive G) with
        cur := { (e.setActive G).cur with col := (e.setActive G).cur.col + ((tw g : Nat) : Int) },
        lastCol := if (e.setActive G).cur.col + ((tw g : Nat) : Int) ≥ cols then true else (e.setActive G).lastCol }) = G := by
      have := setActive_active e G
      unfold Emu.active at this ⊢
      simpa using this
    have hgrid : GridRel dec (d.grid.set d.row (writeRow d.grid[d.row] d.col (tw g) (DCell.glyph g (tw g) d.pen d.linkParams d.link))) G := by
      rw [hG]
      have key : ∀ k, k = d.row → GridRel dec (d.grid.set d.row (writeRow d.grid[d.row] d.col (tw g)
          (DCell.glyph g (tw g) d.pen d.linkParams d.link))) (e.active.set k rowE') := by
        intro k hk; subst hk; exact gridRel_set s.grid _ _ rowE' hrel
      exact key _ hdrow.symm
    rw [hput]
    by_cases hlast : d.col + tw g = d.cols
    · simp only [hlast, if_true]
      exact
      { inv := hinv'
        dim := s.dim
        vm := ⟨by simpa using s.vm.awm, by simpa using s.vm.irm, by simpa using s.vm.lnm,
               by simpa [setActive_cs] using s.vm.ascii, by simpa [setActive_cs] using s.vm.noShift⟩
        osc8 := by simpa [setActive_osc8] using s.osc8
        lc := by intro _; simp only [Emu.setActive_cur]; omega
        drows := s.drows, dcols := s.dcols
        row := by simpa using s.row
        col := by simp only [Emu.setActive_cur]; split <;> omega
        pw := by simp only [Emu.setActive_cur]; symm; rw [decide_eq_true_iff]; omega
        pen := by simpa using s.pen
        link := by simpa using s.link
        linkParams := by simpa using s.linkParams
        vis := by simpa using s.vis
        shape := by simpa using s.shape
        grid := by rw [hact]; exact hgrid }
    · simp only [hlast, if_false]
      exact
      { inv := hinv'
        dim := s.dim
        vm := ⟨by simpa using s.vm.awm, by simpa using s.vm.irm, by simpa using s.vm.lnm,
               by simpa [setActive_cs] using s.vm.ascii, by simpa [setActive_cs] using s.vm.noShift⟩
        osc8 := by simpa [setActive_osc8] using s.osc8
        lc := by
          intro hl
          simp only [Emu.setActive_cur, Emu.setActive_lastCol, hlc] at hl
          split at hl
          · omega
          · cases hl
        drows := s.drows, dcols := s.dcols
        row := by simpa using s.row
        col := by simp only [Emu.setActive_cur]; split <;> omega
        pw := by simp only [Emu.setActive_cur]; rw [hpw]; symm; rw [decide_eq_false_iff_not]; omega
        pen := by simpa using s.pen
        link := by simpa using s.link
        linkParams := by simpa using s.linkParams
        vis := by simpa using s.vis
        shape := by simpa using s.shape
        grid := by rw [hact]; exact hgrid }
  have hw12 : tw g = 1 ∨ tw g = 2 := by omega
  rcases hw12 with h1 | h2
  · -- narrow
    rw [h1] at hfitE hfit
    refine fin _ (rowE.set e.cur.col.toNat { g := dec g, w := tw g, st := e.cur.st }) rfl (by simpa using hlenE) ?_ ?_
    · refine rowRel_write hrr _ _ _ _ (by simp) ?_ ?_
      · intro b hb'
        rw [hdcolN, List.getElem?_set_self (by omega)] at hb'
        cases hb'; exact hcell _
      · intro j hj
        rw [List.getElem?_set_ne (by rw [h1] at hj; omega)]
    · rw [print_eq_K1' hi s.vm (dec g) (tw g) hlc (by rw [h1]; exact hfitE), h1]
      exact printK1_narrow hi s.dim s.vm.irm hcol (dec g) hrowE hlenE
  · -- wide
    rw [h2] at hfitE hfit
    have hc1 : e.cur.col + 1 < cols := by omega
    obtain ⟨x, hx⟩ : ∃ x, rowE[e.cur.col.toNat + 1]? = some x :=
      ⟨rowE[e.cur.col.toNat + 1]'(by omega), List.getElem?_eq_getElem (by omega)⟩
    refine fin _ ((rowE.set e.cur.col.toNat { g := dec g, w := tw g, st := e.cur.st }).set (e.cur.col.toNat + 1)
      { x with g := [32], st := e.cur.st }) rfl (by simpa using hlenE) ?_ ?_
    · refine rowRel_write hrr _ _ _ _ (by simp) ?_ ?_
      · intro b hb'
        rw [hdcolN, List.getElem?_set_ne (by omega), List.getElem?_set_self (by omega)] at hb'
        cases hb'; exact hcell _
      · intro j hj
        rw [h2] at hj
        rw [List.getElem?_set_ne (by omega), List.getElem?_set_ne (by omega)]
    · rw [print_eq_K1' hi s.vm (dec g) (tw g) hlc (by rw [h2]; exact hfitE), h2]
      exact printK1_wide hi s.dim s.vm.irm hc1 (dec g) hrowE hlenE hx

/-! ### every token, token lists -/

/-- The renderer tokens the composition covers (`Props.C12`: every token of every admissible frame
    rendered under the capability set detected inside the emulator is of this kind). -/
def TokOk (dec : String → G) (tw : String → Nat) : Tok → Prop
  | .cup _ _ => True
  | .sgr ps => SgrOk ps
  | .osc8 p u => Osc8Ok dec p u
  | .text g => tw g ≤ 2 ∧ (tw g ≠ 0 → dec g ≠ [])
  | .textW _ _ => False
  | .decset n => n = 25
  | .decrst n => n = 25
  | .cursorStyle n => n ≤ 65535
  | .pointer _ => True
  | .other _ => False

theorem tok_sim (tw : String → Nat) (s : DSim dec d e rows cols) (k : Tok) (hk : TokOk dec tw k)
    (hd : d.bad = none) (hb : (step tw d k).bad = none) :
    ∃ e', runOps e (opsOf dec tw k) = .ok e' ∧ DSim dec (step tw d k) e' rows cols := by
  cases k with
  | cup r c => exact cup_sim tw s r c hb hd
  | sgr ps => exact sgr_sim tw s ps hk
  | osc8 p u => exact osc8_sim tw s p u hk
  | text g =>
    have hw0 : tw g ≠ 0 := (putGlyph_good d g (tw g) hd hb).1
    exact text_sim tw s g hd hb hk.1 (hk.2 hw0)
  | textW w g => exact absurd hk id
  | decset n => cases hk; exact decset_sim tw s
  | decrst n => cases hk; exact decrst_sim tw s
  | cursorStyle n => exact cursorStyle_sim tw s n hk
  | pointer sh => exact pointer_sim tw s sh
  | other r => exact absurd hk id

theorem runOps_append : ∀ (a b : List EOp) (e : Emu), runOps e (a ++ b) = (runOps e a >>= fun e1 => runOps e1 b) := by
  intro a
  induction a with
  | nil => intro b e; rfl
  | cons op rest ih =>
    intro b e
    simp only [List.cons_append, runOps]
    cases h : emuStep e op with
    | error p => rfl
    | ok r =>
      obtain ⟨e1, k⟩ := r
      simp only [bind, Except.bind]
      exact ih b e1

theorem runOps_append_ok {a b : List EOp} {e e1 e2 : Emu} (h1 : runOps e a = .ok e1) (h2 : runOps e1 b = .ok e2) :
    runOps e (a ++ b) = .ok e2 := by
  rw [runOps_append, h1]; exact h2

/-- **Token lists.** While the display stays out of terminal-specific territory, the emulator fed
    the same tokens runs without panic and stays related. -/
theorem run_sim (tw : String → Nat) (toks : List Tok) : ∀ (d : Term) (e : Emu), DSim dec d e rows cols →
    (run tw d toks).bad = none → (∀ k ∈ toks, TokOk dec tw k) →
    ∃ e', runOps e (opsOfToks dec tw toks) = .ok e' ∧ DSim dec (run tw d toks) e' rows cols := by
  induction toks with
  | nil => intro d e s _ _; exact ⟨e, rfl, s⟩
  | cons k ks ih =>
    intro d e s hb hk
    have hb1 : (step tw d k).bad = none := run_bad_none tw ks _ hb
    have hd : d.bad = none := step_bad_none tw d k hb1
    obtain ⟨e1, hr1, s1⟩ := tok_sim tw s k (hk k (by simp)) hd hb1
    obtain ⟨e2, hr2, s2⟩ := ih (step tw d k) e1 s1 hb (fun k' hk' => hk k' (by simp [hk']))
    refine ⟨e2, ?_, s2⟩
    show runOps e (opsOf dec tw k ++ opsOfToks dec tw ks) = .ok e2
    exact runOps_append_ok hr1 hr2

/-! ### the initial state -/

theorem absCol_zero : absCol 0 = .default := by decide

/-- A freshly started emulator (`New()` + `resize(w, h)`) shows the blank display. -/
theorem dsim_init (hemp : dec "" = []) (w h : Int) (hw1 : 1 ≤ w) (hw2 : w ≤ 65535) (hh1 : 1 ≤ h) (hh2 : h ≤ 65535) :
    DSim dec (Term.init w.toNat h.toNat) (newState w h) h.toNat w.toNat := by
  have s2 := sim2_init w h hw1 hw2 hh1 hh2 (new_eq w h (by omega) (by omega))
  exact
  { inv := s2.sim.inv, dim := s2.sim.dim, vm := s2.sim.vm
    osc8 := rfl
    lc := s2.lc
    drows := rfl, dcols := rfl
    row := rfl
    col := by
      show ((0 : Nat) : Int) = if (0 : Int) ≥ (w.toNat : Int) then (w.toNat : Int) - 1 else 0
      split <;> omega
    pw := by
      show false = decide ((0 : Int) ≥ (w.toNat : Int))
      symm; rw [decide_eq_false_iff_not]; omega
    pen := absStyle_default.symm
    link := hemp
    linkParams := hemp
    vis := rfl
    shape := rfl
    grid := by
      show GridRel dec (List.replicate h.toNat (List.replicate w.toNat DCell.blank)) (blankGrid w.toNat h.toNat)
      unfold blankGrid
      refine ⟨by simp, ?_⟩
      have rep : ∀ {α : Type} (n : Nat) (x y : α) (k : Nat), (List.replicate n x)[k]? = some y → y = x := by
        intro α n x y k hk
        rw [List.getElem?_replicate] at hk
        split at hk
        · exact (Option.some.inj hk).symm
        · cases hk
      intro i a b ha hb
      rw [rep _ _ _ _ ha, rep _ _ _ _ hb]
      refine ⟨by simp, ?_⟩
      intro j x y hx hy
      rw [rep _ _ _ _ hx, rep _ _ _ _ hy]
      exact Or.inr ⟨rfl, rfl, rfl, rfl, by rw [absCol_zero], rfl, rfl⟩ }

/-! ### recognising a start state by inspection -/

/-- The checkable part of `DSim dec (blank display, cursor hidden) e`: modes, flags, cursor at home,
    default pen, no hyperlink, cursor hidden, default shape, every cell of the active grid never
    written. -/
def startCheck (e : Emu) : Bool :=
  e.mode.decawm && !e.mode.irm && !e.mode.lnm && decide (e.cs.desig e.cs.sel = 0) && !e.cs.ss && e.osc8 &&
  !e.lastCol && decide (e.cur.row = 0) && decide (e.cur.col = 0) && decide (e.cur.st = {}) &&
  !e.mode.dectcem && decide (e.cur.shape = 0) &&
  e.active.all (fun r => r.all (fun c => decide (c = {})))

theorem dsim_of_startCheck (hemp : dec "" = []) (e : Emu) (rows cols : Nat) (hi : EmuInv e rows cols) (dm : Dim rows cols)
    (h : startCheck e = true) :
    DSim dec { Term.init cols rows with cursorVisible := false } e rows cols := by
  unfold startCheck at h
  simp only [Bool.and_eq_true, Bool.not_eq_true', decide_eq_true_eq, List.all_eq_true] at h
  obtain ⟨⟨⟨⟨⟨⟨⟨⟨⟨⟨⟨⟨h1, h2⟩, h3⟩, h4⟩, h5⟩, h6⟩, h7⟩, h8⟩, h9⟩, h10⟩, h11⟩, h12⟩, h13⟩ := h
  have := dm.c1
  have hga := active_ok hi
  exact
  { inv := hi, dim := dm, vm := ⟨h1, h2, h3, h4, h5⟩
    osc8 := h6
    lc := by intro hl; rw [h7] at hl; cases hl
    drows := rfl, dcols := rfl
    row := by rw [h8]; rfl
    col := by rw [h9]; show ((0 : Nat) : Int) = _; split <;> omega
    pw := by rw [h9]; show false = _; symm; rw [decide_eq_false_iff_not]; omega
    pen := by rw [h10]; exact absStyle_default.symm
    link := by rw [h10]; exact hemp
    linkParams := by rw [h10]; exact hemp
    vis := by rw [h11]
    shape := by rw [h12]; rfl
    grid := by
      show GridRel dec (List.replicate rows (List.replicate cols DCell.blank)) e.active
      refine ⟨by rw [hga.len]; simp, ?_⟩
      intro i a b ha hb
      have hbm := List.mem_of_getElem? hb
      have ha' : a = List.replicate cols DCell.blank := by
        rw [List.getElem?_replicate] at ha
        split at ha
        · exact (Option.some.inj ha).symm
        · cases ha
      subst ha'
      refine ⟨by rw [hga.rowLen b hbm]; simp, ?_⟩
      intro j x y hx hy
      have hx' : x = DCell.blank := by
        rw [List.getElem?_replicate] at hx
        split at hx
        · exact (Option.some.inj hx).symm
        · cases hx
      have hy' : y = {} := h13 b hbm y (List.mem_of_getElem? hy)
      subst hx'; subst hy'
      exact Or.inr ⟨rfl, rfl, rfl, rfl, by rw [absCol_zero], rfl, rfl⟩ }

end VaxisModel.Lemmas.C12Sim
