/-
C12 — the real start-up at EVERY size (helper lemmas for `Props/C12StartAny.lean`).

`Props.C12.emu_real_startup_related` evaluates the emulator model over `startupAll` in the kernel,
for the one size 20×6. Here the same run is followed symbolically: `StartP e rows cols` says that
`e` is a well-formed `rows × cols` state in which everything the start-up sequences could disturb is
still at its power-on value (cursor record, charsets, both DECSC slots, the modes the renderer's
vocabulary relies on, every cell of both grids) — only the mode flags Vaxis sets, the screen in use
and the margins / tab stops are left open. Every sequence of `startupAll` preserves `StartP` from
ANY such state (`step_all`); `CSI ? 1049 h` leaves `smcup` set, `CSI ? 25 l` leaves the cursor
hidden, and the sequences after them touch neither (`step_tail`).
-/
import VaxisModel.Lemmas.C12Sim
import VaxisModel.Model.C12Replies
import VaxisModel.Lemmas.C12Replies
import VaxisModel.Props.C05

namespace VaxisModel.Lemmas.C12StartAny
open VaxisModel.Model.Emu VaxisModel.Lemmas.Emu VaxisModel.Lemmas.EmuRefine VaxisModel.Lemmas.EmuRefine.EraseAux
open VaxisModel.Lemmas.EmuRefine.SavedAux
open VaxisModel.Model.C12Replies VaxisModel.Lemmas.C12Sim

/-- Every cell of the grid has never been written (or was erased with the default background). -/
def AllDef (g : Grid) : Prop := ∀ r ∈ g, ∀ c ∈ r, c = ({} : ECell)

/-- The part of the state the start-up exchange leaves at its power-on value. -/
structure StartP (e : Emu) (rows cols : Nat) : Prop where
  inv : EmuInv e rows cols
  cur : e.cur = {}
  cs : e.cs = {}
  savedP : e.savedP = {}
  savedA : e.savedA = {}
  decawm : e.mode.decawm = true
  decom : e.mode.decom = false
  irm : e.mode.irm = false
  lnm : e.mode.lnm = false
  osc8 : e.osc8 = true
  lastCol : e.lastCol = false
  prim : AllDef e.primary
  alt : AllDef e.alt

/-- The step leaves the alternate-screen flag and the cursor visibility alone. -/
def Keeps (e e' : Emu) : Prop := e'.mode.smcup = e.mode.smcup ∧ e'.mode.dectcem = e.mode.dectcem

variable {rows cols : Nat}

/-! ### sequences the emulator ignores -/

/-- The queries and mode numbers the emulator does not implement (it may answer, see
    `Model.C12Replies.replies`): the state is untouched, whatever it is. -/
def idOps : List EOp :=
  [.dcs, q [63, 36, 112] [2026], q [63, 36, 112] [2027], q [63, 36, 112] [2031], q [63, 104] [2048],
   q [62, 113] [0], q [63, 117] [], .apc, q [63, 83] [2, 1, 0], q [116] [14], q [116] [18],
   .osc [54, 54, 59, 119, 61, 49, 59, 32] {}, q [110] [6],
   .osc [52, 59, 49, 59, 63] {}, .osc [49, 48, 59, 63] { b64ok := true }, .osc osc11Query { b64ok := true },
   .osc [49, 55, 54, 59, 63] { b64ok := true }, q [61, 99] [], q [99] [],
   q [63, 104] [8452], q [63, 104] [2027], q [63, 104] [1004]]

theorem id_step (e : Emu) : ∀ op ∈ idOps, ∃ k, emuStep e op = .ok (e, k) := by
  intro op hop
  simp only [idOps, List.mem_cons, List.not_mem_nil, or_false] at hop
  rcases hop with h | h | h | h | h | h | h | h | h | h | h | h | h | h | h | h | h | h | h | h | h | h
  all_goals subst h; exact ⟨_, rfl⟩

/-! ### building `StartP` -/

theorem startP_mode {e : Emu} (h : StartP e rows cols) (m : Modes) (h1 : m.decawm = e.mode.decawm)
    (h2 : m.decom = e.mode.decom) (h3 : m.irm = e.mode.irm) (h4 : m.lnm = e.mode.lnm) :
    StartP { e with mode := m } rows cols :=
  { inv := { h.inv with }, cur := h.cur, cs := h.cs, savedP := h.savedP, savedA := h.savedA
    decawm := h1.trans h.decawm, decom := h2.trans h.decom, irm := h3.trans h.irm, lnm := h4.trans h.lnm
    osc8 := h.osc8, lastCol := h.lastCol, prim := h.prim, alt := h.alt }

theorem startP_altActive {e : Emu} (h : StartP e rows cols) (b : Bool) :
    StartP { e with altActive := b } rows cols :=
  { inv := { h.inv with }, cur := h.cur, cs := h.cs, savedP := h.savedP, savedA := h.savedA
    decawm := h.decawm, decom := h.decom, irm := h.irm, lnm := h.lnm
    osc8 := h.osc8, lastCol := h.lastCol, prim := h.prim, alt := h.alt }

/-! ### mode flags Vaxis sets: bracketed paste, application cursor keys / keypad, mouse -/

def modeOps : List EOp :=
  [q [63, 104] [2004], q [63, 104] [1], .esc [61], q [63, 104] [1002], q [63, 104] [1003], q [63, 104] [1006]]

theorem mode_step (e : Emu) : ∀ op ∈ modeOps, ∃ m, emuStep e op = .ok ({ e with mode := m }, 0) ∧
    m.decawm = e.mode.decawm ∧ m.decom = e.mode.decom ∧ m.irm = e.mode.irm ∧ m.lnm = e.mode.lnm ∧
    m.smcup = e.mode.smcup ∧ m.dectcem = e.mode.dectcem := by
  intro op hop
  simp only [modeOps, List.mem_cons, List.not_mem_nil, or_false] at hop
  rcases hop with h | h | h | h | h | h
  all_goals subst h; exact ⟨_, rfl, rfl, rfl, rfl, rfl, rfl, rfl⟩

theorem show_step (e : Emu) :
    emuStep e (q [63, 104] [25]) = .ok ({ e with mode := { e.mode with dectcem := true } }, 0) := rfl

theorem hide_step (e : Emu) :
    emuStep e (q [63, 108] [25]) = .ok ({ e with mode := { e.mode with dectcem := false } }, 0) := rfl

/-! ### `CSI m`, `CSI H` -/

theorem sgr_step (e : Emu) :
    emuStep e (q [109] []) = .ok ({ e with cur := { e.cur with st :=
      { e.cur.st with attr := 0, fg := 0, bg := 0, ul := 0, ulStyle := 0 } } }, 0) := rfl

theorem cup_step (e : Emu) : emuStep e (q [72] []) = .ok (cup Fixes.current e [], 0) := rfl

theorem ed_step (e : Emu) : emuStep e (q [74] [2]) = (ed e 2 >>= fun e' => .ok (e', 0)) := rfl

theorem altOn_step (e : Emu) :
    emuStep e (q [63, 104] [1049]) = (decset Fixes.current e [(1049, [])] >>= fun e' => .ok (e', 0)) := rfl

theorem altOff_step (e : Emu) :
    emuStep e (q [63, 108] [1049]) = (decrst e [(1049, [])] >>= fun e' => .ok (e', 0)) := rfl

/-! ### `StartP` along the sequences that do something -/

/-- The invariant after any step (C05's safety theorem). -/
theorem inv_step {e e' : Emu} {k : Nat} {op : EOp} (hi : EmuInv e rows cols) (d : Dim rows cols)
    (hop : ∀ w h, op ≠ .resize w h) (hs : emuStep e op = .ok (e', k)) : EmuInv e' rows cols := by
  obtain ⟨r, hr, hi'⟩ := VaxisModel.Props.C05.emu_safe hi d op hop
  rw [hs] at hr
  cases hr
  exact hi'

theorem startP_sgr {e : Emu} (h : StartP e rows cols) :
    StartP { e with cur := { e.cur with st :=
      { e.cur.st with attr := 0, fg := 0, bg := 0, ul := 0, ulStyle := 0 } } } rows cols :=
  { inv := inv_pen h.inv _, cur := by simp only [h.cur], cs := h.cs, savedP := h.savedP, savedA := h.savedA
    decawm := h.decawm, decom := h.decom, irm := h.irm, lnm := h.lnm
    osc8 := h.osc8, lastCol := h.lastCol, prim := h.prim, alt := h.alt }

theorem startP_cup {e : Emu} (h : StartP e rows cols) (d : Dim rows cols) :
    StartP (cup Fixes.current e []) rows cols := by
  have hc : (cup Fixes.current e []).cur = {} := by
    have h1 := (VaxisModel.Lemmas.C12Replies.cup_home e).1
    have h2 := (VaxisModel.Lemmas.C12Replies.cup_home e).2
    have h3 : (cup Fixes.current e []).cur.st = e.cur.st := rfl
    have h4 : (cup Fixes.current e []).cur.shape = e.cur.shape := rfl
    rw [h.cur] at h3 h4
    generalize (cup Fixes.current e []).cur = c at h1 h2 h3 h4
    cases c
    simp only at h1 h2 h3 h4
    subst h1 h2 h3 h4
    rfl
  exact
  { inv := inv_step h.inv d (by intro _ _ hc; cases hc) (cup_step e), cur := hc, cs := h.cs
    savedP := h.savedP, savedA := h.savedA
    decawm := h.decawm, decom := h.decom, irm := h.irm, lnm := h.lnm
    osc8 := h.osc8, lastCol := rfl, prim := h.prim, alt := h.alt }

theorem eSlot_default {e : Emu} (h : StartP e rows cols) : eSlot e = {} := by
  unfold eSlot
  rw [h.cur, h.decawm, h.decom, h.cs]

theorem startP_decsc {e : Emu} (h : StartP e rows cols) :
    StartP (decsc e) rows cols ∧ (decsc e).mode = e.mode ∧ (decsc e).altActive = e.altActive := by
  cases hs : e.mode.smcup with
  | false =>
    rw [decsc_prim hs]
    exact ⟨{ inv := { h.inv with savedP := eSlot_ok h.inv }, cur := h.cur, cs := h.cs
             savedP := eSlot_default h, savedA := h.savedA
             decawm := h.decawm, decom := h.decom, irm := h.irm, lnm := h.lnm
             osc8 := h.osc8, lastCol := h.lastCol, prim := h.prim, alt := h.alt }, rfl, rfl⟩
  | true =>
    rw [decsc_alt hs]
    exact ⟨{ inv := { h.inv with savedA := eSlot_ok h.inv }, cur := h.cur, cs := h.cs
             savedP := h.savedP, savedA := eSlot_default h
             decawm := h.decawm, decom := h.decom, irm := h.irm, lnm := h.lnm
             osc8 := h.osc8, lastCol := h.lastCol, prim := h.prim, alt := h.alt }, rfl, rfl⟩

theorem startP_decrc {e : Emu} (h : StartP e rows cols) :
    StartP (decrc e) rows cols ∧ (decrc e).mode.smcup = e.mode.smcup ∧ (decrc e).mode.dectcem = e.mode.dectcem ∧
      (decrc e).altActive = e.altActive := by
  have hd : decrc e = restoreFrom e {} := by
    rw [decrc_eq, h.savedP, h.savedA]
    split <;> rfl
  rw [hd]
  exact ⟨{ inv := by rw [← hd]; exact decrc_inv h.inv
           cur := rfl, cs := rfl, savedP := h.savedP, savedA := h.savedA
           decawm := rfl, decom := rfl, irm := h.irm, lnm := h.lnm
           osc8 := h.osc8, lastCol := rfl, prim := h.prim, alt := h.alt }, rfl, rfl, rfl⟩

/-! ### `ED 2` on a screen of never written cells -/

theorem mem_of_cellAt {g : Grid} {i j : Nat} {c : ECell} (h : cellAt g i j = some c) : ∃ r ∈ g, c ∈ r := by
  unfold cellAt at h
  split at h
  · rename_i row hr
    exact ⟨row, List.mem_of_getElem? hr, List.mem_of_getElem? h⟩
  · cases h

theorem cellAt_of_mem {g : Grid} {r : Row} {c : ECell} (hr : r ∈ g) (hc : c ∈ r) : ∃ i j, cellAt g i j = some c := by
  obtain ⟨i, hi⟩ := List.getElem?_of_mem hr
  obtain ⟨j, hj⟩ := List.getElem?_of_mem hc
  exact ⟨i, j, by rw [cellAt_of_row hi j]; exact hj⟩

theorem erase_default : (({} : ECell).erase 0) = {} := rfl

/-- `ED 2` with the default background over a screen of never written cells: again such a screen. -/
theorem ed2_allDef {e : Emu} (h : EmuInv e rows cols) (d : Dim rows cols) (hbg : e.bg = 0) (ha : AllDef e.active) :
    ∃ g', ed e 2 = .ok (({ e with lastCol := false } : Emu).setActive g') ∧ GridOk g' rows cols ∧ AllDef g' := by
  have hw := width_eq h d.r1
  have hh := height_eq h
  have hg := active_ok h
  have := d.cmax; have := d.rmax; have := d.r1; have := d.c1
  have hcm : (cols : Int) ≤ hangLimit := by rw [hangLimit_val]; omega
  obtain ⟨g', e1, hg', hc⟩ := rowsLoop_spec hg 0 ((rows : Int) - 1) e.bg
    (fun r g => forUp 0 ((cols : Int) - 1) (fun col g => modCell g r col (·.erase e.bg)) g)
    (fun _ j => (0 : Int) ≤ (j : Int) ∧ (j : Int) ≤ (cols : Int) - 1)
    (by omega) (by rw [hangLimit_val]; omega)
    (fun r s' hr0 hr1 hs' => eraseCols_spec hs' r 0 ((cols : Int) - 1) e.bg
      (by omega) (by omega) (by omega) (by omega) hcm)
  refine ⟨g', by rw [ed_2, hw, hh, e1]; rfl, hg', ?_⟩
  intro r hr c hcr
  obtain ⟨i, j, hij⟩ := cellAt_of_mem hr hcr
  rw [hc i j] at hij
  split at hij
  · cases h0 : cellAt e.active i j with
    | none => rw [h0] at hij; cases hij
    | some c0 =>
      rw [h0] at hij
      obtain ⟨r0, hr0, hc0⟩ := mem_of_cellAt h0
      have := ha r0 hr0 c0 hc0
      subst this
      simp only [Option.map_some, Option.some.injEq] at hij
      rw [← hij, hbg]
      rfl
  · obtain ⟨r0, hr0, hc0⟩ := mem_of_cellAt hij
    exact ha r0 hr0 c hc0

theorem active_allDef {e : Emu} (h : StartP e rows cols) : AllDef e.active := by
  unfold Emu.active
  split
  · exact h.alt
  · exact h.prim

theorem startP_ed2 {e : Emu} (h : StartP e rows cols) (d : Dim rows cols) :
    ∃ e', ed e 2 = .ok e' ∧ StartP e' rows cols ∧ e'.mode = e.mode ∧ e'.altActive = e.altActive := by
  have hbg : e.bg = 0 := by unfold Emu.bg; rw [h.cur]
  obtain ⟨g', he, hg', hd'⟩ := ed2_allDef h.inv d hbg (active_allDef h)
  refine ⟨_, he, ?_, by simp only [setActive_mode], by simp only [setActive_altActive]⟩
  have hi : EmuInv (({ e with lastCol := false } : Emu).setActive g') rows cols :=
    setActive_inv (inv_lastCol h.inv false) hg'
  unfold Emu.setActive at hi ⊢
  cases hact : e.altActive with
  | true =>
    simp only [hact, if_true] at hi ⊢
    exact { inv := hi, cur := h.cur, cs := h.cs, savedP := h.savedP, savedA := h.savedA
            decawm := h.decawm, decom := h.decom, irm := h.irm, lnm := h.lnm
            osc8 := h.osc8, lastCol := rfl, prim := h.prim, alt := hd' }
  | false =>
    simp only [hact, Bool.false_eq_true, if_false] at hi ⊢
    exact { inv := hi, cur := h.cur, cs := h.cs, savedP := h.savedP, savedA := h.savedA
            decawm := h.decawm, decom := h.decom, irm := h.irm, lnm := h.lnm
            osc8 := h.osc8, lastCol := rfl, prim := hd', alt := h.alt }

/-! ### `CSI ? 1049 h` / `CSI ? 1049 l` -/

/-- Entering the alternate screen (DECSC, switch, `ED 2`, `smcup`) from any `StartP` state, on
    whichever screen it is. -/
theorem startP_altOn {e : Emu} (h : StartP e rows cols) (d : Dim rows cols) :
    ∃ e', emuStep e (q [63, 104] [1049]) = .ok (e', 0) ∧ StartP e' rows cols ∧ e'.mode.smcup = true ∧
      e'.mode.dectcem = e.mode.dectcem := by
  obtain ⟨h1, hm1, _⟩ := startP_decsc h
  have h2 := startP_altActive h1 true
  obtain ⟨e2, he2, h3, hm3, _⟩ := startP_ed2 h2 d
  refine ⟨{ e2 with mode := { e2.mode with smcup := true, altScroll := true } }, ?_,
    startP_mode h3 _ rfl rfl rfl rfl, rfl, ?_⟩
  · rw [altOn_step, decset_1049, he2]; rfl
  · show e2.mode.dectcem = _
    rw [hm3]
    show (decsc e).mode.dectcem = _
    rw [hm1]

/-- Leaving the alternate screen (`ED 2` if on it, switch, DECRC) from any `StartP` state. -/
theorem startP_altOff {e : Emu} (h : StartP e rows cols) (d : Dim rows cols) :
    ∃ e', emuStep e (q [63, 108] [1049]) = .ok (e', 0) ∧ StartP e' rows cols ∧
      e'.mode.dectcem = e.mode.dectcem := by
  have key : ∃ e1, (if e.mode.smcup then ed e 2 else .ok e) = .ok e1 ∧ StartP e1 rows cols ∧ e1.mode = e.mode := by
    split
    · obtain ⟨e1, he1, h1, hm, _⟩ := startP_ed2 h d
      exact ⟨e1, he1, h1, hm⟩
    · exact ⟨e, rfl, h, rfl⟩
  obtain ⟨e1, he1, h1, hm⟩ := key
  have h2 := startP_mode (startP_altActive h1 false) { e1.mode with smcup := false, altScroll := false } rfl rfl rfl rfl
  obtain ⟨h3, _, hd3, _⟩ := startP_decrc h2
  refine ⟨_, ?_, h3, ?_⟩
  · rw [altOff_step, decrst_1049, he1]; rfl
  · rw [hd3]
    show e1.mode.dectcem = _
    rw [hm]

/-! ### every sequence of the start-up -/

deriving instance DecidableEq for EOp

/-- The sequences that touch neither `smcup` nor the cursor visibility. -/
def keepOps : List EOp := idOps ++ modeOps ++ [q [109] [], q [72] [], q [74] [2]]

/-- All sequence shapes of `startupAll`. -/
def allOps : List EOp := keepOps ++ [q [63, 104] [25], q [63, 108] [25], q [63, 104] [1049], q [63, 108] [1049]]

theorem step_keep (d : Dim rows cols) : ∀ op ∈ keepOps, ∀ e, StartP e rows cols →
    ∃ e' k, emuStep e op = .ok (e', k) ∧ StartP e' rows cols ∧ Keeps e e' := by
  intro op hop e h
  simp only [keepOps, List.mem_append, List.mem_cons, List.not_mem_nil, or_false] at hop
  rcases hop with (hop | hop) | hop | hop | hop
  · obtain ⟨k, hk⟩ := id_step e op hop
    exact ⟨e, k, hk, h, rfl, rfl⟩
  · obtain ⟨m, hm, a1, a2, a3, a4, a5, a6⟩ := mode_step e op hop
    exact ⟨_, 0, hm, startP_mode h m a1 a2 a3 a4, a5, a6⟩
  · subst hop
    exact ⟨_, 0, sgr_step e, startP_sgr h, rfl, rfl⟩
  · subst hop
    exact ⟨_, 0, cup_step e, startP_cup h d, rfl, rfl⟩
  · subst hop
    obtain ⟨e', he, h', hm, _⟩ := startP_ed2 h d
    exact ⟨e', 0, by rw [ed_step, he]; rfl, h', by rw [Keeps, hm]; exact ⟨rfl, rfl⟩⟩

theorem step_all (d : Dim rows cols) : ∀ op ∈ allOps, ∀ e, StartP e rows cols →
    ∃ e' k, emuStep e op = .ok (e', k) ∧ StartP e' rows cols := by
  intro op hop e h
  simp only [allOps, List.mem_append, List.mem_cons, List.not_mem_nil, or_false] at hop
  rcases hop with hop | hop | hop | hop | hop
  · obtain ⟨e', k, hs, h', _⟩ := step_keep d op hop e h
    exact ⟨e', k, hs, h'⟩
  · subst hop
    exact ⟨_, 0, show_step e, startP_mode h _ rfl rfl rfl rfl⟩
  · subst hop
    exact ⟨_, 0, hide_step e, startP_mode h _ rfl rfl rfl rfl⟩
  · subst hop
    obtain ⟨e', hs, h', _⟩ := startP_altOn h d
    exact ⟨e', 0, hs, h'⟩
  · subst hop
    obtain ⟨e', hs, h', _⟩ := startP_altOff h d
    exact ⟨e', 0, hs, h'⟩

theorem run_all (d : Dim rows cols) : ∀ (ops : List EOp), (∀ op ∈ ops, op ∈ allOps) → ∀ e, StartP e rows cols →
    ∃ e', runOps e ops = .ok e' ∧ StartP e' rows cols := by
  intro ops
  induction ops with
  | nil => intro _ e h; exact ⟨e, rfl, h⟩
  | cons op rest ih =>
    intro hall e h
    obtain ⟨e1, k, hs, h1⟩ := step_all d op (hall op List.mem_cons_self) e h
    obtain ⟨e2, hr, h2⟩ := ih (fun o ho => hall o (List.mem_cons_of_mem _ ho)) e1 h1
    exact ⟨e2, by simp only [runOps, hs, bind, Except.bind]; exact hr, h2⟩

theorem run_keep (d : Dim rows cols) : ∀ (ops : List EOp), (∀ op ∈ ops, op ∈ keepOps) → ∀ e, StartP e rows cols →
    ∃ e', runOps e ops = .ok e' ∧ StartP e' rows cols ∧ Keeps e e' := by
  intro ops
  induction ops with
  | nil => intro _ e h; exact ⟨e, rfl, h, rfl, rfl⟩
  | cons op rest ih =>
    intro hall e h
    obtain ⟨e1, k, hs, h1, k1⟩ := step_keep d op (hall op List.mem_cons_self) e h
    obtain ⟨e2, hr, h2, k2⟩ := ih (fun o ho => hall o (List.mem_cons_of_mem _ ho)) e1 h1
    exact ⟨e2, by simp only [runOps, hs, bind, Except.bind]; exact hr, h2, k2.1.trans k1.1, k2.2.trans k1.2⟩

/-! ### the start-up, split at the last `CSI ? 1049 h` -/

/-- `sendQueries()` with its alternate-screen prelude and epilogue. -/
def startupHead : List EOp := startupAll.take 32
/-- `enableModes()` after `enterAltScreen()` (`CSI ? 1049 h`, `CSI ? 25 l`). -/
def startupTail : List EOp := startupAll.drop 34

theorem startupAll_split :
    startupAll = startupHead ++ (q [63, 104] [1049] :: q [63, 108] [25] :: startupTail) := by decide

theorem head_ops : ∀ op ∈ startupHead, op ∈ allOps := by decide
theorem tail_ops : ∀ op ∈ startupTail, op ∈ keepOps := by decide

/-- From ANY `StartP` state the whole start-up runs without panic and ends in a `StartP` state on
    the alternate screen with the cursor hidden. -/
theorem run_startupAll (d : Dim rows cols) (e : Emu) (h : StartP e rows cols) :
    ∃ e0, runOps e startupAll = .ok e0 ∧ StartP e0 rows cols ∧ e0.mode.smcup = true ∧ e0.mode.dectcem = false := by
  obtain ⟨e1, r1, h1⟩ := run_all d startupHead head_ops e h
  obtain ⟨e2, r2, h2, s2, _⟩ := startP_altOn h1 d
  have r3 := hide_step e2
  have h3 : StartP { e2 with mode := { e2.mode with dectcem := false } } rows cols := startP_mode h2 _ rfl rfl rfl rfl
  obtain ⟨e4, r4, h4, k4⟩ := run_keep d startupTail tail_ops _ h3
  refine ⟨e4, ?_, h4, ?_, ?_⟩
  · rw [startupAll_split]
    refine runOps_append_ok r1 ?_
    simp only [runOps, r2, r3, bind, Except.bind]
    exact r4
  · rw [k4.1]; exact s2
  · rw [k4.2]

/-- A `StartP` state with the cursor hidden passes the start-state check of `Lemmas.C12Sim`. -/
theorem startCheck_of {e : Emu} (h : StartP e rows cols) (hd : e.mode.dectcem = false) : startCheck e = true := by
  have hall : e.active.all (fun r => r.all (fun c => decide (c = {}))) = true := by
    rw [List.all_eq_true]
    intro r hr
    rw [List.all_eq_true]
    intro c hc
    exact decide_eq_true (active_allDef h r hr c hc)
  unfold startCheck
  rw [hall, h.decawm, h.irm, h.lnm, h.cs, h.osc8, h.lastCol, h.cur, hd]
  rfl

/-! ### the freshly started emulator -/

theorem allDef_blank (w h : Nat) : AllDef (blankGrid w h) := by
  intro r hr c hc
  unfold blankGrid at hr
  rw [List.eq_of_mem_replicate hr] at hc
  exact List.eq_of_mem_replicate hc

theorem newSaved_default (w h : Int) (hw : 1 ≤ w) (hh : 1 ≤ h) : newSaved w h {} = {} := by
  unfold newSaved
  have h1 : (if (({} : Saved).cur.row) > h - 1 then h - 1 else ({} : Saved).cur.row) = 0 := by
    show (if (0 : Int) > h - 1 then h - 1 else 0) = 0
    split <;> omega
  have h2 : (if (({} : Saved).cur.col) > w - 1 then w - 1 else ({} : Saved).cur.col) = 0 := by
    show (if (0 : Int) > w - 1 then w - 1 else 0) = 0
    split <;> omega
  rw [h1, h2]

/-- `New()` + `resize(w, h)` is a `StartP` state, at every admissible size. -/
theorem startP_new (w h : Int) (hw1 : 1 ≤ w) (hw2 : w ≤ 65535) (hh1 : 1 ≤ h) (hh2 : h ≤ 65535) :
    StartP (newState w h) h.toNat w.toNat :=
  { inv := (sim2_init w h hw1 hw2 hh1 hh2 (new_eq w h (by omega) (by omega))).sim.inv
    cur := rfl, cs := rfl
    savedP := newSaved_default w h hw1 hh1, savedA := newSaved_default w h hw1 hh1
    decawm := rfl, decom := rfl, irm := rfl, lnm := rfl, osc8 := rfl, lastCol := rfl
    prim := allDef_blank _ _, alt := allDef_blank _ _ }

end VaxisModel.Lemmas.C12StartAny
