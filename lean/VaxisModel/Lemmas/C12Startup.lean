/-
C12 — the start-up dialogue of a real Vaxis INSIDE the emulator, over C07's model of the start-up
(`Model/Startup.lean`: the `for`/`select` loop of `New()` running concurrently with the input
goroutine, every interleaving a run of `VaxisModel.Model.Startup.next`).

The terminal's side of the dialogue is the emulator model's reply writers (`Model/C12Replies.lean`,
`startupReplies`). What C07's `caps_exact` leaves open is the answer to the explicit-width probe; here:
every cursor-position hand-off the emulator's replies can cause carries column 1 (`PInv`, an
invariant of the start-up system when its inputs are the emulator's replies), so the probe is either
not answered in time or answered with column 1 — never 2.
-/
import VaxisModel.Lemmas.C12Replies
import VaxisModel.Lemmas.Startup

namespace VaxisModel.Lemmas.C12Startup
open VaxisModel.Model.Input VaxisModel.Model.InputLoop VaxisModel.Model.Startup
open VaxisModel.Model.C12Replies VaxisModel.Lemmas.C12Replies
open VaxisModel.Spec.Startup

/-- Every cursor-position hand-off in the effect list carries column 1. -/
def ColOne (effs : List Effect) : Prop := ∀ r c, Effect.sendCursorPos r c ∈ effs → c = 1

theorem colOne_nil : ColOne [] := by intro r c h; cases h

theorem colOne_tail {e : Effect} {rest : List Effect} (h : ColOne (e :: rest)) : ColOne rest :=
  fun r c hm => h r c (List.mem_cons_of_mem _ hm)

/-- The sequences whose handling can only hand over column 1. -/
def SafeSeq (b64 : List Nat → Option (List Nat)) (s : Seq) : Prop :=
  ∀ vs vs' effs, handle b64 vs s = .ok (vs', effs) → ColOne effs

theorem decrpm_safe (b64 : List Nat → Option (List Nat)) (m v : Int) :
    SafeSeq b64 (.csi [63, 36] [[m], [v]] 121) := by
  intro vs vs' effs h r c hm
  simp only [handle, handleCSI] at h
  have e1 : ((121 : Nat) == ch 'c') = false := by decide
  have e2 : ((121 : Nat) == ch 'I') = false := by decide
  have e3 : ((121 : Nat) == ch 'O') = false := by decide
  have e4 : ((121 : Nat) == ch 'R') = false := by decide
  have e5 : ((121 : Nat) == ch 'S') = false := by decide
  have e6 : ((121 : Nat) == ch 'n') = false := by decide
  have e7 : ((121 : Nat) == ch 'y') = true := by decide
  simp only [e1, e2, e3, e4, e5, e6, e7, Bool.false_eq_true, if_false, if_true] at h
  have hpost : ∀ (i : Internal) (vals : List Int), decrpmArm vs [[m], [v]] i vals = .ok (vs', effs) →
      effs = [] ∨ effs = [.postB (.internal i)] := by
    intro i vals hd
    simp only [decrpmArm, idx2, idx, List.length_cons, List.length_nil] at hd
    simp only [show ¬ (0 + 1 + 1 < 2) by omega, if_false, bind, Except.bind] at hd
    simp only [List.getElem?_cons_succ, List.getElem?_cons_zero] at hd
    split at hd
    · simp only [post] at hd; cases hd; exact Or.inr rfl
    · cases hd; exact Or.inl rfl
  have hcases : effs = [] ∨ ∃ i, effs = [.postB (.internal i)] := by
    simp only [idx2, idx, List.length_cons, List.length_nil, show ¬ (0 + 1 + 1 < 1) by omega, if_false,
      List.getElem?_cons_zero, bind, Except.bind] at h
    split at h
    · rcases hpost _ _ h with h' | h'
      · exact Or.inl h'
      · exact Or.inr ⟨_, h'⟩
    · split at h
      · rcases hpost _ _ h with h' | h'
        · exact Or.inl h'
        · exact Or.inr ⟨_, h'⟩
      · split at h
        · rcases hpost _ _ h with h' | h'
          · exact Or.inl h'
          · exact Or.inr ⟨_, h'⟩
        · cases h; exact Or.inl rfl
  rcases hcases with h' | ⟨i, h'⟩ <;> rw [h'] at hm <;> simp at hm

/-- The emulator's cursor-position report after `CSI H`: `CSI 1 ; 1 R`. -/
theorem cpr_safe (b64 : List Nat → Option (List Nat)) : SafeSeq b64 (.csi [] [[1], [1]] 82) := by
  intro vs vs' effs h r c hm
  simp only [handle, handleCSI] at h
  have e1 : ((82 : Nat) == ch 'c') = false := by decide
  have e2 : ((82 : Nat) == ch 'I') = false := by decide
  have e3 : ((82 : Nat) == ch 'O') = false := by decide
  have e4 : ((82 : Nat) == ch 'R') = true := by decide
  simp only [e1, e2, e3, e4, Bool.false_eq_true, if_false, if_true] at h
  split at h
  · simp only [idx2, idx, List.length_cons, List.length_nil, bind, Except.bind, bne_self_eq_false, Bool.false_eq_true, if_false,
      List.getElem?_cons_succ, List.getElem?_cons_zero, pure, Except.pure] at h
    cases h
    simp only [List.mem_singleton, Effect.sendCursorPos.injEq] at hm
    exact hm.2
  · simp only [keyArm] at h
    cases h
    simp at hm

/-- DA1 `CSI ? 62 ; 4 ; 22 c`. -/
theorem da1_safe (b64 : List Nat → Option (List Nat)) : SafeSeq b64 (.csi [63] [[62], [4], [22]] 99) := by
  intro vs vs' effs h r c hm
  have : handle b64 vs (.csi [63] [[62], [4], [22]] 99) =
      .ok (vs, [.postB (.internal .capabilitySixel), .postB (.internal .primaryDeviceAttribute)]) := rfl
  rw [this] at h
  cases h
  simp at hm

/-- An OSC reply other than OSC 52 / OSC 176 never hands over a cursor position. -/
theorem osc_safe (b64 : List Nat → Option (List Nat)) (pl : List Nat) (h52 : isPrefix (str "52") pl = false)
    (h176 : isPrefix (str "176") pl = false) : SafeSeq b64 (.osc pl) := by
  intro vs vs' effs h r c hm
  simp only [handle, handleOSC, h52, h176, Bool.false_eq_true, if_false, bind, Except.bind, pure, Except.pure] at h
  cases h
  simp only [List.mem_append] at hm
  rcases hm with (hm | hm) | hm
  all_goals
    split at hm
    · split at hm <;> simp at hm
    · simp at hm

/-- Every reply the emulator writes during the start-up exchange is safe. -/
theorem startupReplies_safe (b64 : List Nat → Option (List Nat)) (hostBg : Option (Nat × Nat × Nat)) (e : Model.Emu.Emu) :
    ∀ s ∈ startupReplies hostBg e, SafeSeq b64 s := by
  intro s hs
  unfold startupReplies replies at hs
  simp only [List.mem_append, List.mem_cons, List.not_mem_nil, or_false] at hs
  rcases hs with ((rfl | rfl | rfl | rfl) | hs) | rfl
  · exact decrpm_safe b64 _ _
  · exact decrpm_safe b64 _ _
  · exact decrpm_safe b64 _ _
  · exact cpr_safe b64
  · split at hs
    · cases hostBg with
      | none => simp at hs
      | some t =>
        obtain ⟨r, g, b⟩ := t
        simp only [List.mem_singleton] at hs
        subst hs
        exact osc_safe b64 _ rfl rfl
    · simp at hs
  · exact da1_safe b64

/-! ### the invariant of the start-up system -/

/-- Everything on its way to the explicit-width probe carries column 1. -/
structure PInv (st : St) : Prop where
  ch : ∀ v ∈ st.sys.cursorCh, v.2 = 1
  pend : ColOne st.sys.pend
  got : ∀ x, st.probeGot = some x → x.2 = 1

theorem pinv_init (o : Opts) : PInv (St.init o) :=
  ⟨fun v h => by simp [St.init] at h, fun r c h => by simp [St.init] at h, fun x h => by simp [St.init] at h⟩

theorem stepEffect_pinv (p : Params) (s s' : Sys) (e : Effect) (rest : List Effect) (hs : s.pend = e :: rest)
    (hch : ∀ v ∈ s.cursorCh, v.2 = 1) (hp : ColOne s.pend) (h : stepEffect p s e rest = some s') :
    (∀ v ∈ s'.cursorCh, v.2 = 1) ∧ ColOne s'.pend := by
  have hrest : ColOne rest := by rw [hs] at hp; exact colOne_tail hp
  cases e with
  | sendCursorPos r c =>
    have hc : c = 1 := hp r c (by rw [hs]; simp)
    simp only [stepEffect] at h
    split at h
    · split at h
      · cases h; exact ⟨hch, hrest⟩
      · split at h
        · cases h
        · cases h; exact ⟨hch, hrest⟩
    · split at h
      · cases h
        refine ⟨?_, hrest⟩
        intro v hv
        simp only [List.mem_append, List.mem_singleton] at hv
        rcases hv with hv | rfl
        · exact hch v hv
        · exact hc
      · cases h; exact ⟨hch, hrest⟩
      · cases h
  | postB ev =>
    simp only [stepEffect] at h
    split at h
    · cases h; exact ⟨hch, hrest⟩
    · cases h
  | postNB ev =>
    simp only [stepEffect] at h
    split at h <;> (cases h; exact ⟨hch, hrest⟩)
  | sendSizeDone =>
    simp only [stepEffect] at h
    split at h
    · cases h; exact ⟨hch, hrest⟩
    · cases h; exact ⟨hch, hrest⟩
    · cases h
  | sendColor v =>
    simp only [stepEffect] at h
    split at h
    · cases h; exact ⟨hch, hrest⟩
    · cases h; exact ⟨hch, hrest⟩
    · cases h
  | sendFg v =>
    simp only [stepEffect] at h
    split at h
    · cases h; exact ⟨hch, hrest⟩
    · cases h; exact ⟨hch, hrest⟩
    · cases h
  | sendBg v =>
    simp only [stepEffect] at h
    split at h
    · cases h; exact ⟨hch, hrest⟩
    · cases h; exact ⟨hch, hrest⟩
    · cases h
  | sendClipboard v =>
    simp only [stepEffect] at h
    split at h
    · cases h; exact ⟨hch, hrest⟩
    · split at h <;> first | (cases h; exact ⟨hch, hrest⟩) | cases h

theorem pinv_next (p : Params) (o : Opts) (st st' : St) (l : VaxisModel.Model.Startup.Label) (hI : PInv st)
    (hl : ∀ s, l = .input s → SafeSeq p.b64 s) (h : VaxisModel.Model.Startup.next p o st l = some (.ok st')) : PInv st' := by
  cases l with
  | input s =>
    simp only [VaxisModel.Model.Startup.next] at h
    split at h
    · rename_i sys' hn
      cases h
      simp only [VaxisModel.Model.InputLoop.next] at hn
      split at hn
      · rename_i hp
        split at hn
        · rename_i vs effs hh
          cases hn
          exact ⟨hI.ch, hl s rfl _ _ _ hh, hI.got⟩
        · cases hn
      · cases hn
    · cases h
    · cases h
  | step =>
    simp only [VaxisModel.Model.Startup.next, liftSys] at h
    split at h
    · rename_i sys' hn
      cases h
      simp only [VaxisModel.Model.InputLoop.next] at hn
      split at hn
      · cases hn
      · rename_i e rest hp
        cases hse : stepEffect p st.sys e rest with
        | none => rw [hse] at hn; cases hn
        | some s2 =>
          obtain ⟨a, b⟩ := stepEffect_pinv p st.sys s2 e rest hp hI.ch hI.pend hse
          rw [hse] at hn
          cases hn
          exact ⟨a, b, hI.got⟩
    · cases h
    · cases h
  | clipTimeout =>
    simp only [VaxisModel.Model.Startup.next, liftSys] at h
    split at h
    · rename_i sys' hn
      cases h
      simp only [VaxisModel.Model.InputLoop.next] at hn
      split at hn
      · rename_i v rest hp
        split at hn
        · cases hn
          refine ⟨hI.ch, ?_, hI.got⟩
          have := hI.pend
          rw [hp] at this
          exact colOne_tail this
        · cases hn
      · cases hn
    · cases h
    · cases h
  | probeRecv =>
    simp only [VaxisModel.Model.Startup.next] at h
    split at h
    · split at h
      · cases h
      · rename_i v t hc
        cases h
        refine ⟨?_, hI.pend, ?_⟩
        · intro x hx
          exact hI.ch x (by rw [hc]; exact List.mem_cons_of_mem _ hx)
        · intro x hx
          cases hx
          exact hI.ch v (by rw [hc]; simp)
    · cases h
  | probeTimeout =>
    simp only [VaxisModel.Model.Startup.next] at h
    split at h
    · cases h; exact ⟨hI.ch, hI.pend, hI.got⟩
    · cases h
  | loopRecv =>
    simp only [VaxisModel.Model.Startup.next] at h
    split at h
    · split at h
      · cases h
      · split at h
        · cases h; exact ⟨hI.ch, hI.pend, hI.got⟩
        · cases h; exact ⟨hI.ch, hI.pend, hI.got⟩
    · cases h
  | loopTimeout =>
    simp only [VaxisModel.Model.Startup.next] at h
    split at h
    · cases h; exact ⟨hI.ch, hI.pend, hI.got⟩
    · cases h
  | quirks =>
    simp only [VaxisModel.Model.Startup.next] at h
    split at h
    · cases h; exact ⟨hI.ch, hI.pend, hI.got⟩
    · cases h

theorem pinv_run (p : Params) (o : Opts) : ∀ (ls : List VaxisModel.Model.Startup.Label) (st st' : St), PInv st →
    (∀ s ∈ inputsOf ls, SafeSeq p.b64 s) → VaxisModel.Model.Startup.run p o st ls = some st' → PInv st' := by
  intro ls
  induction ls with
  | nil => intro st st' hI _ h; simp only [VaxisModel.Model.Startup.run] at h; cases h; exact hI
  | cons l rest ih =>
    intro st st' hI hs h
    simp only [VaxisModel.Model.Startup.run] at h
    split at h
    · rename_i st1 hn
      refine ih st1 st' (pinv_next p o st st1 l hI ?_ hn) ?_ h
      · intro s hl; subst hl; exact hs s (by simp [inputsOf])
      · intro s hm
        apply hs
        cases l <;> simp [inputsOf, hm]
    · cases h

end VaxisModel.Lemmas.C12Startup
