/-
C12 — the start-up dialogue inside the emulator TERMINATES, for every interleaving: invariants of
C07's start-up system (`Model/Startup.lean`) when its inputs are the emulator's replies and no
time-out label fires.

* `Good b64 s`: what the system needs to know about one reply: how many events handling it can post
  (`budgetOf`), that it leaves the cursor-position request flag alone — or, for the cursor-position
  report, that it hands the position over when the request is pending.
* `LInv p st rem` (`rem` = the replies still to come): the queue never overflows
  (`queue + posts still pending + budget of rem ≤ qcap`), during the probe the answer is still to
  come / being handed over / in the channel, nothing timed out, nothing dropped.
-/
import VaxisModel.Lemmas.C12Startup

namespace VaxisModel.Lemmas.C12StartupLive
open VaxisModel.Model.Input VaxisModel.Model.InputLoop VaxisModel.Model.Startup
open VaxisModel.Model.C12Replies VaxisModel.Lemmas.C12Replies VaxisModel.Lemmas.C12Startup
open VaxisModel.Lemmas.InputEvents (posted)
open VaxisModel.Spec.Startup

def isCPR : Seq → Bool
  | .csi _ _ 82 => true
  | _ => false

/-- Events the handling of one reply can post, at most. -/
def budgetOf : Seq → Nat
  | .csi _ _ 99 => 2
  | _ => 1

def budgetSum (l : List Seq) : Nat := (l.map budgetOf).sum

structure Good (b64 : List Nat → Option (List Nat)) (s : Seq) : Prop where
  budget : ∀ vs vs' effs, handle b64 vs s = .ok (vs', effs) → (posted effs).length ≤ budgetOf s
  req : isCPR s = false → ∀ vs vs' effs, handle b64 vs s = .ok (vs', effs) → vs'.reqCursorPos = vs.reqCursorPos
  cpr : isCPR s = true → ∀ vs vs' effs, vs.reqCursorPos = true → handle b64 vs s = .ok (vs', effs) →
    ∃ r c, effs = [.sendCursorPos r c]

theorem decrpm_good (b64 : List Nat → Option (List Nat)) (m v : Int) : Good b64 (.csi [63, 36] [[m], [v]] 121) := by
  have char : ∀ vs vs' effs, handle b64 vs (.csi [63, 36] [[m], [v]] 121) = .ok (vs', effs) →
      vs' = vs ∧ (effs = [] ∨ ∃ i, effs = [.postB (.internal i)]) := by
    intro vs vs' effs h
    simp only [handle, handleCSI] at h
    have e1 : ((121 : Nat) == ch 'c') = false := by decide
    have e2 : ((121 : Nat) == ch 'I') = false := by decide
    have e3 : ((121 : Nat) == ch 'O') = false := by decide
    have e4 : ((121 : Nat) == ch 'R') = false := by decide
    have e5 : ((121 : Nat) == ch 'S') = false := by decide
    have e6 : ((121 : Nat) == ch 'n') = false := by decide
    have e7 : ((121 : Nat) == ch 'y') = true := by decide
    simp only [e1, e2, e3, e4, e5, e6, e7, Bool.false_eq_true, if_false, if_true] at h
    have hpost : ∀ (i : Internal) (vals : List Int), decrpmArm vs [[m], [v]] i vals = .ok (vs', effs) →
        vs' = vs ∧ (effs = [] ∨ effs = [.postB (.internal i)]) := by
      intro i vals hd
      simp only [decrpmArm, idx2, idx, List.length_cons, List.length_nil] at hd
      simp only [show ¬ (0 + 1 + 1 < 2) by omega, if_false, bind, Except.bind] at hd
      simp only [List.getElem?_cons_succ, List.getElem?_cons_zero] at hd
      split at hd
      · simp only [post] at hd; cases hd; exact ⟨rfl, Or.inr rfl⟩
      · cases hd; exact ⟨rfl, Or.inl rfl⟩
    simp only [idx2, idx, List.length_cons, List.length_nil, show ¬ (0 + 1 + 1 < 1) by omega, if_false,
      List.getElem?_cons_zero, bind, Except.bind] at h
    split at h
    · obtain ⟨a, b⟩ := hpost _ _ h
      exact ⟨a, b.imp id fun x => ⟨_, x⟩⟩
    · split at h
      · obtain ⟨a, b⟩ := hpost _ _ h
        exact ⟨a, b.imp id fun x => ⟨_, x⟩⟩
      · split at h
        · obtain ⟨a, b⟩ := hpost _ _ h
          exact ⟨a, b.imp id fun x => ⟨_, x⟩⟩
        · cases h; exact ⟨rfl, Or.inl rfl⟩
  refine ⟨?_, ?_, fun h => by cases h⟩
  · intro vs vs' effs h
    obtain ⟨_, h' | ⟨i, h'⟩⟩ := char vs vs' effs h <;> rw [h'] <;> simp [posted, budgetOf]
  · intro _ vs vs' effs h
    rw [(char vs vs' effs h).1]

theorem cpr_good (b64 : List Nat → Option (List Nat)) : Good b64 (.csi [] [[1], [1]] 82) := by
  have char : ∀ vs vs' effs, handle b64 vs (.csi [] [[1], [1]] 82) = .ok (vs', effs) →
      (vs.reqCursorPos = true ∧ effs = [.sendCursorPos 1 1]) ∨ (vs.reqCursorPos = false ∧ ∃ ev, effs = [.postB ev]) := by
    intro vs vs' effs h
    simp only [handle, handleCSI] at h
    have e1 : ((82 : Nat) == ch 'c') = false := by decide
    have e2 : ((82 : Nat) == ch 'I') = false := by decide
    have e3 : ((82 : Nat) == ch 'O') = false := by decide
    have e4 : ((82 : Nat) == ch 'R') = true := by decide
    simp only [e1, e2, e3, e4, Bool.false_eq_true, if_false, if_true] at h
    split at h
    · rename_i hr
      simp only [idx2, idx, List.length_cons, List.length_nil, bind, Except.bind, bne_self_eq_false, Bool.false_eq_true, if_false,
        List.getElem?_cons_succ, List.getElem?_cons_zero, pure, Except.pure] at h
      cases h
      exact Or.inl ⟨hr, rfl⟩
    · rename_i hr
      simp only [keyArm] at h
      cases h
      exact Or.inr ⟨by simpa using hr, _, rfl⟩
  refine ⟨?_, (fun h => by cases h), ?_⟩
  · intro vs vs' effs h
    rcases char vs vs' effs h with ⟨_, h'⟩ | ⟨_, ev, h'⟩ <;> rw [h'] <;> simp [posted, budgetOf]
  · intro _ vs vs' effs hr h
    rcases char vs vs' effs h with ⟨_, h'⟩ | ⟨hf, _⟩
    · exact ⟨1, 1, h'⟩
    · rw [hr] at hf; cases hf

theorem da1_good (b64 : List Nat → Option (List Nat)) : Good b64 (.csi [63] [[62], [4], [22]] 99) := by
  have char : ∀ vs, handle b64 vs (.csi [63] [[62], [4], [22]] 99) =
      .ok (vs, [.postB (.internal .capabilitySixel), .postB (.internal .primaryDeviceAttribute)]) := fun _ => rfl
  refine ⟨?_, ?_, fun h => by cases h⟩
  · intro vs vs' effs h
    rw [char] at h; cases h; simp [posted, budgetOf]
  · intro _ vs vs' effs h
    rw [char] at h; cases h; rfl

/-- The emulator's OSC 11 reply `11;rgb:rr/gg/bb`. -/
theorem osc11_good (b64 : List Nat → Option (List Nat)) (rest : List Nat) :
    Good b64 (.osc ([49, 49, 59] ++ rest)) := by
  have char : ∀ vs vs' effs, handle b64 vs (.osc ([49, 49, 59] ++ rest)) = .ok (vs', effs) →
      vs' = vs ∧ effs = (if vs.caps.osc11 = true then [Effect.sendBg ([49, 49, 59] ++ rest)] else []) ++
        [.postB (.internal .capabilityOsc11)] := by
    intro vs vs' effs h
    have h52 : isPrefix (str "52") ([49, 49, 59] ++ rest) = false := rfl
    have h176 : isPrefix (str "176") ([49, 49, 59] ++ rest) = false := rfl
    have h4 : isPrefix (str "4") ([49, 49, 59] ++ rest) = false := rfl
    have h10 : isPrefix (str "10") ([49, 49, 59] ++ rest) = false := rfl
    have h11 : isPrefix (str "11") ([49, 49, 59] ++ rest) = true := rfl
    simp only [handle, handleOSC, h52, h176, h4, h10, h11, Bool.false_eq_true, if_false, if_true, bind, Except.bind, pure,
      Except.pure, List.nil_append] at h
    cases h
    exact ⟨rfl, rfl⟩
  refine ⟨?_, ?_, fun h => by cases h⟩
  · intro vs vs' effs h
    obtain ⟨_, h'⟩ := char vs vs' effs h
    rw [h']
    split <;> simp [posted, budgetOf]
  · intro _ vs vs' effs h
    rw [(char vs vs' effs h).1]

theorem startupReplies_good (b64 : List Nat → Option (List Nat)) (hostBg : Option (Nat × Nat × Nat)) (e : Model.Emu.Emu) :
    ∀ s ∈ startupReplies hostBg e, Good b64 s := by
  intro s hs
  unfold startupReplies replies at hs
  simp only [List.mem_append, List.mem_cons, List.not_mem_nil, or_false] at hs
  rcases hs with ((rfl | rfl | rfl | rfl) | hs) | rfl
  · exact decrpm_good b64 _ _
  · exact decrpm_good b64 _ _
  · exact decrpm_good b64 _ _
  · exact cpr_good b64
  · split at hs
    · cases hostBg with
      | none => simp at hs
      | some t =>
        obtain ⟨r, g, b⟩ := t
        simp only [List.mem_singleton] at hs
        subst hs
        exact osc11_good b64 _
    · simp at hs
  · exact da1_good b64

theorem startupReplies_budget (hostBg : Option (Nat × Nat × Nat)) (e : Model.Emu.Emu) :
    budgetSum (startupReplies hostBg e) ≤ 7 := by
  unfold startupReplies replies
  cases hv : e.hasVx with
  | false => simp only [Bool.false_eq_true, and_false, if_false]; decide
  | true =>
    cases hostBg with
    | none => simp only [and_self, if_true]; decide
    | some t =>
      obtain ⟨r, g, b⟩ := t
      simp only [and_self, if_true]
      simp [budgetSum, budgetOf]

theorem startupReplies_hasCPR (hostBg : Option (Nat × Nat × Nat)) (e : Model.Emu.Emu) :
    (startupReplies hostBg e).any isCPR = true := by
  unfold startupReplies
  simp [isCPR]

/-! ### the invariant -/

def isTimeout : VaxisModel.Model.Startup.Label → Bool
  | .probeTimeout | .loopTimeout => true
  | _ => false

structure LInv (p : Params) (st : St) (rem : List Seq) : Prop where
  budget : st.sys.queue.length + (posted st.sys.pend).length + budgetSum rem ≤ p.qcap
  probe : st.phase = .probe →
    (rem.any isCPR = true ∧ st.sys.vs.reqCursorPos = true) ∨ (∃ r c, Effect.sendCursorPos r c ∈ st.sys.pend) ∨
      st.sys.cursorCh ≠ []
  noTO : st.timedOut = false
  noDrop : st.sys.dropped = 0

theorem budgetSum_cons (s : Seq) (l : List Seq) : budgetSum (s :: l) = budgetOf s + budgetSum l := by
  simp [budgetSum]

/-- One step of the goroutine on its head effect, when the queue has room for every pending post. -/
theorem stepEffect_linv (p : Params) (hcap : p.cursorCap ≠ 0) (s s' : Sys) (e : Effect) (rest : List Effect)
    (hs : s.pend = e :: rest) (hroom : s.queue.length + (posted s.pend).length ≤ p.qcap)
    (h : stepEffect p s e rest = some s') :
    s'.queue.length + (posted s'.pend).length = s.queue.length + (posted s.pend).length ∧ s'.dropped = s.dropped ∧
    s'.vs = s.vs ∧
    (((∃ r c, Effect.sendCursorPos r c ∈ s.pend) ∨ s.cursorCh ≠ []) →
      ((∃ r c, Effect.sendCursorPos r c ∈ s'.pend) ∨ s'.cursorCh ≠ [])) := by
  have keep : ∀ (x : Sys), x.pend = rest → x.cursorCh = s.cursorCh → (∀ r c, e ≠ Effect.sendCursorPos r c) →
      (((∃ r c, Effect.sendCursorPos r c ∈ s.pend) ∨ s.cursorCh ≠ []) →
        ((∃ r c, Effect.sendCursorPos r c ∈ x.pend) ∨ x.cursorCh ≠ [])) := by
    intro x hx hc hne hd
    rcases hd with ⟨r, c, hm⟩ | hd
    · rw [hs] at hm
      rcases List.mem_cons.mp hm with h1 | h1
      · exact absurd h1.symm (hne r c)
      · exact Or.inl ⟨r, c, by rw [hx]; exact h1⟩
    · exact Or.inr (by rw [hc]; exact hd)
  cases e with
  | postB ev =>
    have hp : (posted s.pend).length = (posted rest).length + 1 := by rw [hs]; simp [posted]
    simp only [stepEffect] at h
    split at h
    · cases h
      exact ⟨by simp only [List.length_append, List.length_singleton]; omega, rfl, rfl, keep _ rfl rfl (by intro r c; nofun)⟩
    · cases h
  | postNB ev =>
    have hp : (posted s.pend).length = (posted rest).length + 1 := by rw [hs]; simp [posted]
    simp only [stepEffect] at h
    split at h
    · cases h
      exact ⟨by simp only [List.length_append, List.length_singleton]; omega, rfl, rfl, keep _ rfl rfl (by intro r c; nofun)⟩
    · rename_i hfull
      omega
  | sendCursorPos r c =>
    have hp : (posted s.pend).length = (posted rest).length := by rw [hs]; simp [posted]
    simp only [stepEffect, hcap, if_false] at h
    split at h
    · cases h
      exact ⟨by simp only; omega, rfl, rfl, fun _ => Or.inr (by simp)⟩
    · rename_i hsend
      cases h
      refine ⟨by simp only; omega, rfl, rfl, fun _ => Or.inr ?_⟩
      -- dropped because the channel is full
      unfold send1 at hsend
      split at hsend
      · cases hsend
      · rename_i hlen
        intro hc
        simp only at hc
        rw [hc] at hlen
        simp at hlen
    · cases h
  | sendSizeDone =>
    have hp : (posted s.pend).length = (posted rest).length := by rw [hs]; simp [posted]
    simp only [stepEffect] at h
    split at h
    · cases h; exact ⟨by simp only; omega, rfl, rfl, keep _ rfl rfl (by intro r c; nofun)⟩
    · cases h; exact ⟨by simp only; omega, rfl, rfl, keep _ rfl rfl (by intro r c; nofun)⟩
    · cases h
  | sendColor v =>
    have hp : (posted s.pend).length = (posted rest).length := by rw [hs]; simp [posted]
    simp only [stepEffect] at h
    split at h
    · cases h; exact ⟨by simp only; omega, rfl, rfl, keep _ rfl rfl (by intro r c; nofun)⟩
    · cases h; exact ⟨by simp only; omega, rfl, rfl, keep _ rfl rfl (by intro r c; nofun)⟩
    · cases h
  | sendFg v =>
    have hp : (posted s.pend).length = (posted rest).length := by rw [hs]; simp [posted]
    simp only [stepEffect] at h
    split at h
    · cases h; exact ⟨by simp only; omega, rfl, rfl, keep _ rfl rfl (by intro r c; nofun)⟩
    · cases h; exact ⟨by simp only; omega, rfl, rfl, keep _ rfl rfl (by intro r c; nofun)⟩
    · cases h
  | sendBg v =>
    have hp : (posted s.pend).length = (posted rest).length := by rw [hs]; simp [posted]
    simp only [stepEffect] at h
    split at h
    · cases h; exact ⟨by simp only; omega, rfl, rfl, keep _ rfl rfl (by intro r c; nofun)⟩
    · cases h; exact ⟨by simp only; omega, rfl, rfl, keep _ rfl rfl (by intro r c; nofun)⟩
    · cases h
  | sendClipboard v =>
    have hp : (posted s.pend).length = (posted rest).length := by rw [hs]; simp [posted]
    simp only [stepEffect] at h
    split at h
    · cases h; exact ⟨by simp only; omega, rfl, rfl, keep _ rfl rfl (by intro r c; nofun)⟩
    · split at h <;> first
        | (cases h; exact ⟨by simp only; omega, rfl, rfl, keep _ rfl rfl (by intro r c; nofun)⟩)
        | cases h

/-- The replies still to come before / after a label. -/
def remBefore (l : VaxisModel.Model.Startup.Label) (rem : List Seq) : List Seq :=
  match l with
  | .input s => s :: rem
  | _ => rem

theorem linv_next (p : Params) (o : Opts) (hcap : p.cursorCap ≠ 0) (st st' : St) (l : VaxisModel.Model.Startup.Label)
    (rem : List Seq) (hI : LInv p st (remBefore l rem)) (hg : ∀ s, l = .input s → Good p.b64 s)
    (hnt : isTimeout l = false) (h : VaxisModel.Model.Startup.next p o st l = some (.ok st')) : LInv p st' rem := by
  cases l with
  | input s =>
    have g := hg s rfl
    simp only [VaxisModel.Model.Startup.next] at h
    split at h
    · rename_i sys' hn
      cases h
      simp only [VaxisModel.Model.InputLoop.next] at hn
      split at hn
      · rename_i hp
        split at hn
        · rename_i vs effs hh
          cases hn
          have hb := hI.budget
          simp only [remBefore, budgetSum_cons, hp, posted, List.length_nil] at hb
          have hbud := g.budget _ _ _ hh
          refine ⟨by simp only; omega, ?_, hI.noTO, hI.noDrop⟩
          intro hph
          rcases hI.probe hph with ⟨ha, hr⟩ | ⟨r, c, hm⟩ | hc
          · simp only [remBefore, List.any_cons, Bool.or_eq_true] at ha
            cases hcp : isCPR s with
            | true =>
              obtain ⟨r, c, he⟩ := g.cpr hcp _ _ _ hr hh
              exact Or.inr (Or.inl ⟨r, c, by simp only; rw [he]; simp⟩)
            | false =>
              rw [hcp] at ha
              refine Or.inl ⟨by simpa using ha, ?_⟩
              simp only
              rw [g.req hcp _ _ _ hh]; exact hr
          · rw [hp] at hm; cases hm
          · exact Or.inr (Or.inr hc)
        · cases hn
      · cases hn
    · cases h
    · cases h
  | step =>
    simp only [VaxisModel.Model.Startup.next, liftSys] at h
    split at h
    · rename_i sys' hn
      cases h
      simp only [VaxisModel.Model.InputLoop.next] at hn
      split at hn
      · cases hn
      · rename_i e rest hp
        cases hse : stepEffect p st.sys e rest with
        | none => rw [hse] at hn; cases hn
        | some s2 =>
          have hb := hI.budget
          simp only [remBefore] at hb
          obtain ⟨a, b, c, d⟩ := stepEffect_linv p hcap st.sys s2 e rest hp (by omega) hse
          rw [hse] at hn
          cases hn
          refine ⟨by simp only; omega, ?_, hI.noTO, by simp only; rw [b]; exact hI.noDrop⟩
          intro hph
          rcases hI.probe hph with ⟨ha, hr⟩ | hrest
          · exact Or.inl ⟨ha, by simp only; rw [c]; exact hr⟩
          · exact Or.inr (d hrest)
    · cases h
    · cases h
  | clipTimeout =>
    simp only [VaxisModel.Model.Startup.next, liftSys] at h
    split at h
    · rename_i sys' hn
      cases h
      simp only [VaxisModel.Model.InputLoop.next] at hn
      split at hn
      · rename_i v rest hp
        split at hn
        · cases hn
          have hb := hI.budget
          simp only [remBefore, hp, posted] at hb
          refine ⟨by simp only; omega, ?_, hI.noTO, hI.noDrop⟩
          intro hph
          rcases hI.probe hph with ⟨ha, hr⟩ | ⟨r, c, hm⟩ | hc
          · exact Or.inl ⟨ha, hr⟩
          · rw [hp] at hm
            rcases List.mem_cons.mp hm with h1 | h1
            · cases h1
            · exact Or.inr (Or.inl ⟨r, c, h1⟩)
          · exact Or.inr (Or.inr hc)
        · cases hn
      · cases hn
    · cases h
    · cases h
  | probeRecv =>
    simp only [VaxisModel.Model.Startup.next] at h
    split at h
    · split at h
      · cases h
      · cases h
        exact ⟨hI.budget, (fun hph => by cases hph), hI.noTO, hI.noDrop⟩
    · cases h
  | probeTimeout => cases hnt
  | loopTimeout => cases hnt
  | loopRecv =>
    simp only [VaxisModel.Model.Startup.next] at h
    split at h
    · rename_i hph
      split at h
      · cases h
      · rename_i ev q hq
        have hb := hI.budget
        simp only [remBefore, hq, List.length_cons] at hb
        split at h
        · cases h
          exact ⟨by simp only; omega, (fun h' => by cases h'), hI.noTO, hI.noDrop⟩
        · cases h
          exact ⟨by simp only [setCaps]; omega, (fun h' => by simp only at h'; rw [hph] at h'; cases h'), hI.noTO, hI.noDrop⟩
    · cases h
  | quirks =>
    simp only [VaxisModel.Model.Startup.next] at h
    split at h
    · cases h
      exact ⟨hI.budget, (fun h' => by cases h'), hI.noTO, hI.noDrop⟩
    · cases h

theorem linv_run (p : Params) (o : Opts) (hcap : p.cursorCap ≠ 0) :
    ∀ (ls : List VaxisModel.Model.Startup.Label) (st st' : St) (rem : List Seq), LInv p st (inputsOf ls ++ rem) →
      (∀ s ∈ inputsOf ls, Good p.b64 s) → (∀ l ∈ ls, isTimeout l = false) →
      VaxisModel.Model.Startup.run p o st ls = some st' → LInv p st' rem := by
  intro ls
  induction ls with
  | nil => intro st st' rem hI _ _ h; simp only [VaxisModel.Model.Startup.run] at h; cases h; simpa [inputsOf] using hI
  | cons l rest ih =>
    intro st st' rem hI hg hnt h
    simp only [VaxisModel.Model.Startup.run] at h
    split at h
    · rename_i st1 hn
      have hI1 : LInv p st1 (inputsOf rest ++ rem) := by
        refine linv_next p o hcap st st1 l (inputsOf rest ++ rem) ?_ ?_ (hnt l (by simp)) hn
        · cases l <;> simpa [remBefore, inputsOf] using hI
        · intro s hl; subst hl; exact hg s (by simp [inputsOf])
      refine ih st1 st' rem hI1 ?_ (fun x hx => hnt x (by simp [hx])) h
      intro s hm
      apply hg
      cases l <;> simp [inputsOf, hm]
    · cases h

end VaxisModel.Lemmas.C12StartupLive
