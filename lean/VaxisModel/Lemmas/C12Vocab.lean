/-
C12 composition, the vocabulary: every token the renderer model writes for a frame under the
capability set Vaxis detects inside the emulator (no direct colour, no styled underlines, no
explicit width, no synchronized output) is one the simulation covers (`C12Sim.TokOk`): CUP, an SGR
sequence inside the C06 vocabulary and well formed (`SgrOk`: `CSI m`, one plain code other than
6 / 21 / 38 / 48 / 58, or `38:5:i` / `48:5:i` with i ≤ 255), OSC 8 whose parameter string has no `;` (since the F112b repair the renderer writes `lpField`, which has none under `LpOk dec`),
a grapheme of width ≤ 2 with non-empty bytes, mode 25, DECSCUSR with a value ≤ 65535, OSC 22.
Same induction over the cell loop as `Lemmas/RenderGate.lean`.
-/
import VaxisModel.Lemmas.C12Sim
import VaxisModel.Lemmas.RenderGate

namespace VaxisModel.Lemmas.C12Vocab
open VaxisModel.Model.Render VaxisModel.Model.Color VaxisModel.Lemmas.RenderToks VaxisModel.Lemmas.RenderGate
open VaxisModel.Lemmas.C12Sim VaxisModel.Model.EmuAbs VaxisModel.Lemmas.EmuRefine VaxisModel.Model.C12Compose
open VaxisModel.Model.Emu (G)

/-! ### SGR shapes -/

theorem sgrOk_nil : SgrOk [] := ⟨rfl, rfl⟩

theorem sgrOk_single (n : Nat) (hn : n ≤ 255) (h6 : n ≠ 6) (h21 : n ≠ 21) (h38 : n ≠ 38) (h48 : n ≠ 48) (h58 : n ≠ 58) :
    SgrOk [[n]] := by
  constructor
  · have h1 : ¬ ((n : Int) = 6) := by omega
    have h2 : ¬ ((n : Int) = 21) := by omega
    have h3 : (n : Int) ≤ 255 := by omega
    simp [sgrParams, sgrParam, h1, h2, h3]
  · unfold WfSgr
    have : ¬ (n = 38 ∨ n = 48 ∨ n = 58) := by omega
    simp only [this, if_false]
    split <;> rfl

theorem sgrOk_idx (w i : Nat) (hw : w = 38 ∨ w = 48) (hi : i ≤ 255) : SgrOk [[w, 5, i]] := by
  constructor
  · have h3 : (i : Int) ≤ 255 := by omega
    rcases hw with rfl | rfl <;> simp [sgrParams, sgrParam, h3]
  · rcases hw with rfl | rfl <;> rfl

theorem sgrOk_rgb (w r g b : Nat) (hw : w = 38 ∨ w = 48) (hr : r ≤ 255) (hg : g ≤ 255) (hb : b ≤ 255) :
    SgrOk [[w, 2, r, g, b]] := by
  constructor
  · have h1 : (r : Int) ≤ 255 := by omega
    have h2 : (g : Int) ≤ 255 := by omega
    have h3 : (b : Int) ≤ 255 := by omega
    rcases hw with rfl | rfl <;> simp [sgrParams, sgrParam, h1, h2, h3]
  · rcases hw with rfl | rfl <;> rfl

theorem sgrOk_ulIdx (i : Nat) (hi : i ≤ 255) : SgrOk [[58, 5, i]] := by
  constructor
  · have h3 : (i : Int) ≤ 255 := by omega
    simp [sgrParams, sgrParam, h3]
  · rfl

theorem sgrOk_ulRgb (r g b : Nat) (hr : r ≤ 255) (hg : g ≤ 255) (hb : b ≤ 255) : SgrOk [[58, 2, r, g, b]] := by
  constructor
  · have h1 : (r : Int) ≤ 255 := by omega
    have h2 : (g : Int) ≤ 255 := by omega
    have h3 : (b : Int) ≤ 255 := by omega
    simp [sgrParams, sgrParam, h1, h2, h3]
  · rfl

/-- `4:n`, the styled underline, n = 0 … 5 (off, single, double, curly, dotted, dashed). -/
theorem sgrOk_ulStyle (n : Nat) (hn : n ≤ 5) : SgrOk [[4, n]] := by
  constructor
  · have h3 : (n : Int) ≤ 255 := by omega
    simp [sgrParams, sgrParam, h3]
  · unfold WfSgr
    have h4 : ¬ ((4 : Nat) = 38 ∨ (4 : Nat) = 48 ∨ (4 : Nat) = 58) := by omega
    simp only [h4, if_false, if_true, decide_eq_true hn, Bool.true_and]
    rfl

/-! ### the pieces of the pen delta -/

variable (dec : String → G) (tw : String → Nat)

/-- Without direct colour the colour parameters are nothing or one palette index < 256. -/
theorem effParams_shape (caps : Caps) (h : caps.rgb = false) (c : Nat) :
    effParams caps c = [] ∨ ∃ i, i < 256 ∧ effParams caps c = [i] := by
  have hl := effParams_norgb caps h c
  unfold effParams at hl ⊢
  simp only [h, Bool.false_eq_true, if_false] at hl ⊢
  unfold params at hl ⊢
  split
  · exact Or.inr ⟨_, Nat.mod_lt _ (by decide), rfl⟩
  · split
    · rename_i h1 h2; simp [h1, h2] at hl
    · exact Or.inl rfl

/-- The colour parameters for ANY capability set: nothing, one palette index < 256, or three channels
    < 256 (direct colour: only with `caps.rgb`, e.g. `COLORTERM=truecolor`). -/
theorem effParams_shape3 (caps : Caps) (c : Nat) :
    effParams caps c = [] ∨ (∃ i, i < 256 ∧ effParams caps c = [i]) ∨
      ∃ r g b, r < 256 ∧ g < 256 ∧ b < 256 ∧ effParams caps c = [r, g, b] := by
  have key : ∀ x, params x = [] ∨ (∃ i, i < 256 ∧ params x = [i]) ∨
      ∃ r g b, r < 256 ∧ g < 256 ∧ b < 256 ∧ params x = [r, g, b] := by
    intro x
    unfold params
    split
    · exact Or.inr (Or.inl ⟨_, Nat.mod_lt _ (by decide), rfl⟩)
    · split
      · exact Or.inr (Or.inr ⟨_, _, _, Nat.mod_lt _ (by decide), Nat.mod_lt _ (by decide), Nat.mod_lt _ (by decide), rfl⟩)
      · exact Or.inl rfl
  unfold effParams
  split
  · exact key _
  · exact key _

theorem colorToksP_ok3 (which : Nat) (hw : which = 30 ∨ which = 40) (ps : List Nat)
    (h : ps = [] ∨ (∃ i, i < 256 ∧ ps = [i]) ∨ ∃ r g b, r < 256 ∧ g < 256 ∧ b < 256 ∧ ps = [r, g, b]) :
    ∀ k ∈ colorToksP which ps, TokOk dec tw k := by
  intro k hk
  rcases h with rfl | ⟨i, hi, rfl⟩ | ⟨r, g, b, hr, hg, hb, rfl⟩
  · simp [colorToksP] at hk; subst hk
    rcases hw with rfl | rfl <;> exact sgrOk_single _ (by omega) (by omega) (by omega) (by omega) (by omega) (by omega)
  · simp only [colorToksP] at hk
    split at hk
    · simp at hk; subst hk
      rcases hw with rfl | rfl <;> exact sgrOk_single _ (by omega) (by omega) (by omega) (by omega) (by omega) (by omega)
    · split at hk
      · simp at hk; subst hk
        rcases hw with rfl | rfl <;> exact sgrOk_single _ (by omega) (by omega) (by omega) (by omega) (by omega) (by omega)
      · simp at hk; subst hk
        rcases hw with rfl | rfl
        · exact sgrOk_idx 38 i (Or.inl rfl) (by omega)
        · exact sgrOk_idx 48 i (Or.inr rfl) (by omega)
  · simp only [colorToksP, List.mem_singleton] at hk
    subst hk
    rcases hw with rfl | rfl
    · exact sgrOk_rgb 38 r g b (Or.inl rfl) (by omega) (by omega) (by omega)
    · exact sgrOk_rgb 48 r g b (Or.inr rfl) (by omega) (by omega) (by omega)

theorem colorToksP_ok (which : Nat) (hw : which = 30 ∨ which = 40) (ps : List Nat)
    (h : ps = [] ∨ ∃ i, i < 256 ∧ ps = [i]) : ∀ k ∈ colorToksP which ps, TokOk dec tw k := by
  intro k hk
  rcases h with rfl | ⟨i, hi, rfl⟩
  · simp [colorToksP] at hk; subst hk
    rcases hw with rfl | rfl <;> exact sgrOk_single _ (by omega) (by omega) (by omega) (by omega) (by omega) (by omega)
  · simp only [colorToksP] at hk
    split at hk
    · simp at hk; subst hk
      rcases hw with rfl | rfl <;> exact sgrOk_single _ (by omega) (by omega) (by omega) (by omega) (by omega) (by omega)
    · split at hk
      · simp at hk; subst hk
        rcases hw with rfl | rfl <;> exact sgrOk_single _ (by omega) (by omega) (by omega) (by omega) (by omega) (by omega)
      · simp at hk; subst hk
        rcases hw with rfl | rfl
        · exact sgrOk_idx 38 i (Or.inl rfl) (by omega)
        · exact sgrOk_idx 48 i (Or.inr rfl) (by omega)

theorem ulColorToksP_ok (ps : List Nat)
    (h : ps = [] ∨ (∃ i, i < 256 ∧ ps = [i]) ∨ ∃ r g b, r < 256 ∧ g < 256 ∧ b < 256 ∧ ps = [r, g, b]) :
    ∀ k ∈ ulColorToksP ps, TokOk dec tw k := by
  intro k hk
  rcases h with rfl | ⟨i, hi, rfl⟩ | ⟨r, g, b, hr, hg, hb, rfl⟩
  · simp [ulColorToksP] at hk; subst hk
    exact sgrOk_single 59 (by omega) (by omega) (by omega) (by omega) (by omega) (by omega)
  · simp [ulColorToksP] at hk; subst hk
    exact sgrOk_ulIdx i (by omega)
  · simp [ulColorToksP] at hk; subst hk
    exact sgrOk_ulRgb r g b (by omega) (by omega) (by omega)

/-- The attribute codes the renderer writes. -/
def isAttrTok : Tok → Bool
  | .sgr [[n]] => [1, 2, 3, 5, 7, 8, 9, 22, 23, 25, 27, 28, 29].contains n
  | _ => false

theorem isAttrTok_ok (k : Tok) (h : isAttrTok k = true) : TokOk dec tw k := by
  unfold isAttrTok at h
  split at h
  · rename_i n
    have hn : n = 1 ∨ n = 2 ∨ n = 3 ∨ n = 5 ∨ n = 7 ∨ n = 8 ∨ n = 9 ∨ n = 22 ∨ n = 23 ∨ n = 25 ∨ n = 27 ∨ n = 28 ∨ n = 29 := by
      simpa using h
    exact sgrOk_single n (by omega) (by omega) (by omega) (by omega) (by omega) (by omega)
  · cases h

theorem attrToks_ok (a b : Nat) : ∀ k ∈ attrToks a b, TokOk dec tw k := by
  have hall : (attrToks a b).all isAttrTok = true := by
    unfold attrToks
    split
    · rfl
    · simp only [List.all_append, onTok, Bool.and_eq_true]
      repeat' apply And.intro
      all_goals (repeat' split)
      all_goals simp [isAttrTok]
  intro k hk
  rw [List.all_eq_true] at hall
  exact isAttrTok_ok dec tw k (hall k hk)

theorem penDelta_ok (caps : Caps) (pen next : Style) (hsu : caps.styledUnderlines = true → next.ulStyle ≤ 5)
    (hdec : ∀ s, 59 ∉ dec (lpField s)) :
    ∀ k ∈ penDelta caps pen next, TokOk dec tw k := by
  intro k hk
  unfold penDelta at hk
  simp only [List.mem_append] at hk
  rcases hk with ((((h | h) | h) | h) | h) | h
  · split at h
    · exact colorToksP_ok3 dec tw 30 (Or.inl rfl) _ (effParams_shape3 caps _) k h
    · simp at h
  · split at h
    · exact colorToksP_ok3 dec tw 40 (Or.inr rfl) _ (effParams_shape3 caps _) k h
    · simp at h
  · split at h
    · exact ulColorToksP_ok dec tw _ (effParams_shape3 caps _) k h
    · simp at h
  · exact attrToks_ok dec tw _ _ k h
  · split at h
    · split at h
      · rename_i hc
        simp at h; subst h
        exact sgrOk_ulStyle _ (hsu hc)
      · split at h <;> (simp at h; subst h)
        · exact sgrOk_single 24 (by omega) (by omega) (by omega) (by omega) (by omega) (by omega)
        · exact sgrOk_single 4 (by omega) (by omega) (by omega) (by omega) (by omega) (by omega)
    · simp at h
  · split at h
    · simp at h; subst h
      show Osc8Ok dec _ _
      constructor
      · exact hdec _
      · intro hu; simp only [hu, if_true]; rfl
    · simp at h

/-- What the composition needs of one application cell: the width function gives the grapheme a
    width ≤ 2, and a grapheme with a positive width has bytes. (Until the F112b repair, /repo 3525279,
    also: the hyperlink parameter string contains no `;` — `render()` now writes the parameter field up to
    the first `;`, `Model.Render.lpField`.) -/
def CellOk (dec : String → G) (cw : String → Nat) (c : Cell) : Prop :=
  cw c.g ≤ 2 ∧ (cw c.g ≠ 0 → dec c.g ≠ [])

/-- What the composition needs of the byte decoding of the renderer model's opaque strings: the OSC 8
    parameter field the renderer writes (`lpField`, cut before the first byte-aligned `3b`) decodes to
    bytes without `;`. True of the hex decoding (`Lemmas.RenderLink.lpField_no_semicolon`). -/
def LpOk (dec : String → G) : Prop := ∀ s, 59 ∉ dec (lpField s)

theorem glyphTok_ok (cw : String → Nat) (caps : Caps) (hew : caps.explicitWidth = false) (c : Cell)
    (hsp : cw "20" = 1) (hd : dec "20" ≠ []) (hc : CellOk dec cw c) : TokOk dec cw (glyphTok cw caps c) := by
  unfold glyphTok glyphTokW
  split
  · exact ⟨by rw [hsp]; omega, fun _ => hd⟩
  · simp only [hew, Bool.false_eq_true, and_false, if_false]
    exact ⟨hc.1, hc.2⟩

theorem close_ok (h0 : 59 ∉ dec "") : TokOk dec tw (Tok.osc8 "" "") := ⟨h0, fun _ => rfl⟩

/-! ### the cell loop -/

theorem renderCells_ok (cw : String → Nat) (caps : Caps)
    (hew : caps.explicitWidth = false) (hsp : cw "20" = 1) (hd : dec "20" ≠ []) (h0 : 59 ∉ dec "")
    (hdec : LpOk dec) (refresh : Bool) (row : Nat) :
    ∀ (next last : List Cell) (col skip : Nat) (track : Bool) (dirty : Nat) (st : RSt),
      (∀ c ∈ next, CellOk dec cw c) →
      (caps.styledUnderlines = true → ∀ c ∈ next, c.style.ulStyle ≤ 5) →
      (∀ k ∈ st.out, TokOk dec cw k) →
      ∀ k ∈ (renderCells cw caps refresh row col skip track dirty next last st).2.out, TokOk dec cw k := by
  intro next
  induction next with
  | nil => intro last col skip track dirty st _ _ h; simpa [renderCells] using h
  | cons n ns ih =>
    intro last col skip track dirty st hc hu h
    have hcs : ∀ c ∈ ns, CellOk dec cw c := fun c hc' => hc c (by simp [hc'])
    have hus : caps.styledUnderlines = true → ∀ c ∈ ns, c.style.ulStyle ≤ 5 := fun hs c hc' => hu hs c (by simp [hc'])
    cases last with
    | nil => simpa [renderCells] using h
    | cons l ls =>
      cases skip with
      | succ k => simp only [renderCells]; exact ih ls (col + 1) k track _ st hcs hus h
      | zero =>
        simp only [renderCells]
        split
        · exact ih ls (col + 1) 0 false dirty { st with reposition := true } hcs hus h
        · split
          · exact ih ls (col + 1) (advance cw n) false dirty { st with reposition := true } hcs hus h
          · apply ih _ _ _ _ _ _ hcs hus
            intro k hk
            simp only [List.mem_append, List.mem_singleton] at hk
            rcases hk with hk | ((hk | hk) | hk)
            · exact h k hk
            · split at hk
              · simp only [List.mem_append, List.mem_singleton] at hk
                rcases hk with hk | hk
                · split at hk <;> simp at hk
                  subst hk; exact close_ok dec cw h0
                · subst hk; trivial
              · simp at hk
            · exact penDelta_ok dec cw caps _ _ (fun hs => hu hs n (by simp)) hdec k hk
            · subst hk; exact glyphTok_ok dec cw caps hew n hsp hd (hc n (by simp))

theorem renderRows_ok (cw : String → Nat) (caps : Caps)
    (hew : caps.explicitWidth = false) (hsp : cw "20" = 1) (hd : dec "20" ≠ []) (h0 : 59 ∉ dec "")
    (hdec : LpOk dec) (refresh : Bool) :
    ∀ (next last : Grid) (row : Nat) (st : RSt),
      (∀ r ∈ next, ∀ c ∈ r, CellOk dec cw c) →
      (caps.styledUnderlines = true → ∀ r ∈ next, ∀ c ∈ r, c.style.ulStyle ≤ 5) →
      (∀ k ∈ st.out, TokOk dec cw k) →
      ∀ k ∈ (renderRows cw caps refresh row next last st).2.out, TokOk dec cw k := by
  intro next
  induction next with
  | nil => intro last row st _ _ h; simpa [renderRows] using h
  | cons n ns ih =>
    intro last row st hc hu h
    cases last with
    | nil => simpa [renderRows] using h
    | cons l ls =>
      simp only [renderRows]
      apply ih _ _ _ (fun r hr => hc r (by simp [hr])) (fun hs r hr => hu hs r (by simp [hr]))
      exact renderCells_ok dec cw caps hew hsp hd h0 hdec refresh row n l 0 0 false 0 { st with reposition := true }
        (hc n (by simp)) (fun hs => hu hs n (by simp)) h

/-! ### the frame -/

theorem showCursor_ok (c : CursorState) (hs : c.style ≤ 65535) : ∀ k ∈ showCursorToks c, TokOk dec tw k := by
  intro k hk
  simp [showCursorToks] at hk
  rcases hk with rfl | rfl | rfl
  · exact hs
  · trivial
  · rfl

/-- **Every token of a frame rendered under a capability set without styled underlines, explicit width
    and synchronized output — with or without direct colour — is covered by the simulation**, for all grids whose cells are `CellOk` and every cursor request with a shape value
    ≤ 65535. -/
theorem frame_ok_anyCaps (cw : String → Nat) (f : Frame)
    (hul : f.caps.styledUnderlines = true → ∀ r ∈ f.next, ∀ c ∈ r, c.style.ulStyle ≤ 5)
    (hew : f.caps.explicitWidth = false) (hsy : f.caps.sync = false)
    (hsp : cw "20" = 1) (hd : dec "20" ≠ []) (h0 : 59 ∉ dec "") (hdec : LpOk dec)
    (hc : ∀ r ∈ f.next, ∀ c ∈ r, CellOk dec cw c) (hs : f.cursorNext.style ≤ 65535) :
    ∀ k ∈ (renderFrame cw f).2, TokOk dec cw k := by
  have hbody : ∀ k ∈ (renderBody cw f).2, TokOk dec cw k := by
    intro k hk
    unfold renderBody at hk
    simp only [List.mem_append] at hk
    rcases hk with (hk | hk) | hk
    · refine renderRows_ok dec cw f.caps hew hsp hd h0 hdec f.refresh f.next f.last 0 _ hc hul ?_ k hk
      intro k' hk'
      simp only at hk'
      split at hk' <;> simp at hk'
      subst hk'; trivial
    · simp at hk; rw [hk.2]; exact close_ok dec cw h0
    · split at hk
      · exact showCursor_ok dec cw _ hs k hk
      · simp at hk
  intro k hk
  unfold renderFrame flush at hk
  simp only at hk
  split at hk
  · repeat' split at hk
    all_goals first
      | (simp at hk; subst hk; rfl)
      | exact showCursor_ok dec cw _ hs k hk
      | simp at hk
  · simp only [List.mem_append, List.mem_singleton] at hk
    rcases hk with ((((hk | hk) | hk) | hk) | hk) | hk
    · split at hk <;> simp at hk
      subst hk; rfl
    · rw [hsy] at hk; simp at hk
    · exact hbody k hk
    · subst hk; exact sgrOk_nil
    · split at hk
      · exact showCursor_ok dec cw _ hs k hk
      · simp at hk
    · rw [hsy] at hk; simp at hk

/-- The round-3 signature: no styled underlines (then nothing is asked of the cells' underline styles). -/
theorem frame_ok_anyRgb (cw : String → Nat) (f : Frame) (hsu : f.caps.styledUnderlines = false)
    (hew : f.caps.explicitWidth = false) (hsy : f.caps.sync = false)
    (hsp : cw "20" = 1) (hd : dec "20" ≠ []) (h0 : 59 ∉ dec "") (hdec : LpOk dec)
    (hc : ∀ r ∈ f.next, ∀ c ∈ r, CellOk dec cw c) (hs : f.cursorNext.style ≤ 65535) :
    ∀ k ∈ (renderFrame cw f).2, TokOk dec cw k :=
  frame_ok_anyCaps dec cw f (fun h => by rw [hsu] at h; cases h) hew hsy hsp hd h0 hdec hc hs

/-- The same with the round-2 signature (the capability set without direct colour). -/
theorem frame_ok (cw : String → Nat) (f : Frame) (_hrgb : f.caps.rgb = false) (hsu : f.caps.styledUnderlines = false)
    (hew : f.caps.explicitWidth = false) (hsy : f.caps.sync = false)
    (hsp : cw "20" = 1) (hd : dec "20" ≠ []) (h0 : 59 ∉ dec "") (hdec : LpOk dec)
    (hc : ∀ r ∈ f.next, ∀ c ∈ r, CellOk dec cw c) (hs : f.cursorNext.style ≤ 65535) :
    ∀ k ∈ (renderFrame cw f).2, TokOk dec cw k :=
  frame_ok_anyRgb dec cw f hsu hew hsy hsp hd h0 hdec hc hs

end VaxisModel.Lemmas.C12Vocab
