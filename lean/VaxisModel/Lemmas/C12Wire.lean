/-
C12, extractor tie of the reply exchange: the bytes of every write of `Vaxis.sendQueries()` computed
from the regenerated constants of sequences.go (`Gen.TermReplies`), to be compared with the parsed
sequences `Model.C12Replies.startupGroups` (Props/C12.lean `facts_queries`).
-/
import VaxisModel.Gen.TermReplies
import VaxisModel.Model.C12Replies

namespace VaxisModel.Lemmas.C12Wire
open VaxisModel.Gen.TermReplies VaxisModel.Model.C12Replies

def strC (k : String) : List Nat := ((strConst.find? (·.1 == k)).map (·.2)).getD []
def numC (k : String) : Int := ((numConst.find? (·.1 == k)).map (·.2)).getD (-1)
def fmtF (k : String) : List Nat := ((fmtFunc.find? (·.1 == k)).map (·.2)).getD []

/-- The bytes one statement of `sendQueries()` puts on the wire (`none` = a statement this table does
    not know: `facts_queries` then fails). `enterAltScreen` is the prelude, not a query. -/
def callWire (call : String) : Option (List Nat) :=
  if call = "enterAltScreen" then some []
  else if call = "write userCursorStyle" then some (strC "userCursorStyle")
  else if call = "write decrqm(synchronizedUpdate)" then some (instFmt (fmtF "decrqm") [intBytes (numC "synchronizedUpdate")])
  else if call = "write decrqm(unicodeCore)" then some (instFmt (fmtF "decrqm") [intBytes (numC "unicodeCore")])
  else if call = "write decrqm(colorThemeUpdates)" then some (instFmt (fmtF "decrqm") [intBytes (numC "colorThemeUpdates")])
  else if call = "write decset(inBandResize)" then some (instFmt (fmtF "decset") [intBytes (numC "inBandResize")])
  else if call = "write xtversion" then some (strC "xtversion")
  else if call = "write kittyKBQuery" then some (strC "kittyKBQuery")
  else if call = "write kittyGquery" then some (strC "kittyGquery")
  else if call = "write xtsmSixelGeom" then some (strC "xtsmSixelGeom")
  else if call = "write textAreaSize" then some (strC "textAreaSize")
  else if call = "write \"\\x1b[H\"" then some [27, 91, 72]
  else if call = "printf explicitWidth, 1, \" \"" then some (instFmt (strC "explicitWidth") [[49], [32]])
  else if call = "flush" then some (strC "sgrReset")
  else if call = "cursorPosition" then some (strC "dsrcpr")
  else if call = "write xtgettcap(\"RGB\")" then some [27, 80]
  else if call = "write xtgettcap(\"Smulx\")" then some [27, 80]
  else if call = "write tparm(osc4, 1)" then some (instFmt (strC "osc4") [[49]])
  else if call = "write osc10" then some (strC "osc10")
  else if call = "write osc11" then some (strC "osc11")
  else if call = "write getAppID" then some (strC "getAppID")
  else if call = "write tertiaryAttributes" then some (strC "tertiaryAttributes")
  else if call = "write primaryAttributes" then some (strC "primaryAttributes")
  else none

/-- Every statement recognised, and the wire bytes of the queries (prelude dropped), in source order. -/
def queryWire : Option (List (List Nat)) := (sendQueries.mapM callWire).map (·.drop 1)

def allMatch : List (List Nat) → List (List VaxisModel.Model.Emu.EOp) → Bool
  | [], [] => true
  | b :: bs, g :: gs => wireMatches b g && allMatch bs gs
  | _, _ => false

end VaxisModel.Lemmas.C12Wire
