/-
C12, extractor tie of the reply exchange: the bytes of every write of `Vaxis.sendQueries()` computed
from the regenerated constants of sequences.go (`Gen.TermReplies`), to be compared with the parsed
sequences `Model.C12Replies.startupGroups` (Props/C12.lean `facts_queries`).
-/
import VaxisModel.Gen.TermReplies
import VaxisModel.Model.C12Replies

namespace VaxisModel.Lemmas.C12Wire
open VaxisModel.Gen.TermReplies VaxisModel.Model.C12Replies

def strC (k : String) : List Nat := ((strConst.find? (·.1 == k)).map (·.2)).getD []
def numC (k : String) : Int := ((numConst.find? (·.1 == k)).map (·.2)).getD (-1)
def fmtF (k : String) : List Nat := ((fmtFunc.find? (·.1 == k)).map (·.2)).getD []

/-- The bytes one statement of `sendQueries()` puts on the wire (`none` = a statement this table does
    not know: `facts_queries` then fails). `enterAltScreen` is the prelude, not a query. -/
def callWire (call : String) : Option (List Nat) :=
  if call = "enterAltScreen" then some []
  else if call = "defer vx.exitAltScreen" then some []
  else if call = "write userCursorStyle" then some (strC "userCursorStyle")
  else if call = "write decrqm(synchronizedUpdate)" then some (instFmt (fmtF "decrqm") [intBytes (numC "synchronizedUpdate")])
  else if call = "write decrqm(unicodeCore)" then some (instFmt (fmtF "decrqm") [intBytes (numC "unicodeCore")])
  else if call = "write decrqm(colorThemeUpdates)" then some (instFmt (fmtF "decrqm") [intBytes (numC "colorThemeUpdates")])
  else if call = "write decset(inBandResize)" then some (instFmt (fmtF "decset") [intBytes (numC "inBandResize")])
  else if call = "write xtversion" then some (strC "xtversion")
  else if call = "write kittyKBQuery" then some (strC "kittyKBQuery")
  else if call = "write kittyGquery" then some (strC "kittyGquery")
  else if call = "write xtsmSixelGeom" then some (strC "xtsmSixelGeom")
  else if call = "write textAreaSize" then some (strC "textAreaSize")
  else if call = "write \"\\x1b[H\"" then some [27, 91, 72]
  else if call = "printf explicitWidth, 1, \" \"" then some (instFmt (strC "explicitWidth") [[49], [32]])
  else if call = "flush" then some (strC "sgrReset")
  else if call = "cursorPosition" then some (strC "dsrcpr")
  else if call = "write xtgettcap(\"RGB\")" then some [27, 80]
  else if call = "write xtgettcap(\"Smulx\")" then some [27, 80]
  else if call = "write tparm(osc4, 1)" then some (instFmt (strC "osc4") [[49]])
  else if call = "write osc10" then some (strC "osc10")
  else if call = "write osc11" then some (strC "osc11")
  else if call = "write getAppID" then some (strC "getAppID")
  else if call = "write tertiaryAttributes" then some (strC "tertiaryAttributes")
  else if call = "write primaryAttributes" then some (strC "primaryAttributes")
  else none

/-- Every statement recognised, and the wire bytes of the queries (the prelude — `enterAltScreen()`
    and the deferred `exitAltScreen()` — dropped), in source order. -/
def queryWire : Option (List (List Nat)) := (sendQueries.mapM callWire).map (·.drop 2)

/-! ### the start-up helpers `enterAltScreen()`, `exitAltScreen()`, `enableModes()` -/

/-- The guards of `enableModes()` under the capability set detected inside the emulator
    (`{sixels, unicodeCore}`, mouse not disabled); an unknown guard is `none`. -/
def guardVal (g : String) : Option Bool :=
  if g = "vx.caps.kittyKeyboard" then some false
  else if g = "vx.caps.sixels" then some true
  else if g = "vx.caps.unicodeCore && !vx.caps.explicitWidth" then some true
  else if g = "vx.caps.colorThemeUpdates" then some false
  else if g = "vx.caps.inBandResize" then some false
  else if g = "!vx.disableMouse" then some true
  else none

/-- `l` without the prefix `pre`, if it has it. -/
def stripPre (pre l : List Char) : Option (List Char) :=
  if pre.isPrefixOf l then some (l.drop pre.length) else none

/-- `decset(name)` / `decrst(name)` with `name` an integer constant of sequences.go. -/
def modeCall (pre : String) (f : String) (call : String) : Option (List Nat) :=
  match stripPre pre.toList call.toList with
  | some rest =>
    if rest.getLast? = some ')' then
      let n := numC (String.ofList rest.dropLast)
      if n < 0 then none else some (instFmt (fmtF f) [intBytes n])
    else none
  | none => none

/-- The bytes of one unguarded statement of a start-up helper (`some []` = writes nothing). -/
def helperCall (call : String) : Option (List Nat) :=
  if call = "flush" then some (strC "sgrReset")
  else if call = "write clear" then some (strC "clear")
  else if call = "write applicationMode" then some (strC "applicationMode")
  else if call = "assign vx.tw.vx.refresh = true" then some []
  else if call = "call vx.HideCursor" then some []
  else match modeCall "write decset(" "decset" call with
    | some b => some b
    | none => modeCall "write decrst(" "decrst" call

/-- Split `"<guard>: <call>"` at the first `": "`. -/
def splitGuard : List Char → List Char → Option (List Char × List Char)
  | _, [] => none
  | acc, ':' :: ' ' :: rest => some (acc.reverse, rest)
  | acc, c :: rest => splitGuard (c :: acc) rest

/-- One entry (`"if <guard>: <call>"` or `<call>`): `none` = not recognised; `some []` = nothing written. -/
def helperEntry (e : String) : Option (List Nat) :=
  match stripPre "if ".toList e.toList with
  | some rest =>
    match splitGuard [] rest with
    | some (g, call) =>
      match guardVal (String.ofList g) with
      | some true => helperCall (String.ofList call)
      | some false => some []
      | none => none
    | none => none
  | none => helperCall e

/-- The writes of a helper (empty ones dropped), every statement recognised. -/
def helperWire (l : List String) : Option (List (List Nat)) := (l.mapM helperEntry).map (·.filter (· ≠ []))

/-- Everything `New()` writes from `sendQueries()` to the end of `enableModes()`, write by write. -/
def startupWire : Option (List (List Nat)) := do
  let en ← helperWire enterAltScreen
  let qs ← queryWire
  let ex ← helperWire exitAltScreen
  let em ← helperWire enableModes
  pure (en ++ qs ++ ex ++ en ++ em)

/-- `startupAll`, write by write. -/
def startupAllGroups : List (List VaxisModel.Model.Emu.EOp) :=
  [[q [63, 104] [1049]], [q [63, 108] [25]], [q [109] []]] ++ startupGroups ++
  [[q [63, 104] [25]], [q [72] [], q [74] [2]], [q [63, 108] [1049]], [q [109] []]] ++
  [[q [63, 104] [1049]], [q [63, 108] [25]], [q [109] []]] ++
  [[q [63, 104] [8452]], [q [63, 104] [2027]], [q [63, 104] [2004]], [q [63, 104] [1]], [.esc [61]],
   [q [63, 104] [1002]], [q [63, 104] [1003]], [q [63, 104] [1004]], [q [63, 104] [1006]], [q [109] []]]

def allMatch : List (List Nat) → List (List VaxisModel.Model.Emu.EOp) → Bool
  | [], [] => true
  | b :: bs, g :: gs => wireMatches b g && allMatch bs gs
  | _, _ => false

end VaxisModel.Lemmas.C12Wire
