import VaxisModel.Model.Conc

/-! Invariants of the event-queue LTS (Props/C10). -/
namespace VaxisModel.Lemmas.Conc
open VaxisModel.Model.Conc

/-- The indices of goroutine `g`'s attempts in `posted` are 0,1,2,… in order. -/
def Numbered (l : List Ev) : Prop := ∀ g, ((l.filter (·.g == g)).map (·.i)) = List.range (countOf g l)

structure QInv (s : QSys) : Prop where
  numbered : Numbered s.posted
  sub : (s.delivered ++ s.queue).Sublist s.posted
  /-- until `Close` has completed (`chQuit` open) every completed blocking post is queued or delivered -/
  blocking : s.quit = false → ∀ e ∈ s.posted, e.blocking = true → e ∈ s.delivered ++ s.queue
  /-- … and nothing blocking has been dropped -/
  droppedNB : s.quit = false → ∀ e ∈ s.dropped, e.blocking = false

theorem numbered_append (l : List Ev) (g : Nat) (b : Bool) (h : Numbered l) :
    Numbered (l ++ [{ g := g, i := countOf g l, blocking := b }]) := by
  intro g'
  by_cases hg : g = g'
  · subst hg
    have := h g
    simp [countOf, List.filter_append, List.range_succ] at this ⊢
    exact this
  · have := h g'
    have hne : (g == g') = false := by simpa using hg
    simp [countOf, List.filter_append, hne] at this ⊢
    exact this

theorem qinv_init : QInv {} := ⟨fun g => by simp [countOf], by simp, by simp, by simp⟩

theorem qinv_step (qcap : Nat) (s s' : QSys) (l : QLabel) (h : QInv s) (hn : qnext qcap s l = some s') : QInv s' := by
  cases l with
  | post g b =>
    simp only [qnext] at hn
    split at hn
    · -- accepted
      simp at hn; subst hn
      refine ⟨numbered_append _ g b h.numbered, ?_, ?_, h.droppedNB⟩
      · simpa [List.append_assoc] using List.Sublist.append h.sub (List.Sublist.refl _)
      · intro hq e he hb
        simp only [List.mem_append, List.mem_singleton] at he ⊢
        rcases he with he | he
        · rcases List.mem_append.mp (h.blocking hq e he hb) with h1 | h1
          · exact Or.inl h1
          · exact Or.inr (Or.inl h1)
        · exact Or.inr (Or.inr he)
    · split at hn
      · simp at hn
      · rename_i hfull hb
        simp at hn; subst hn
        refine ⟨numbered_append _ g b h.numbered, ?_, ?_, ?_⟩
        · exact h.sub.trans (List.sublist_append_left _ _)
        · intro hq e he hbl
          simp only [List.mem_append, List.mem_singleton] at he
          rcases he with he | he
          · exact h.blocking hq e he hbl
          · subst he; simp at hbl; simp [hbl] at hb
        · intro hq e he
          simp only [List.mem_append, List.mem_singleton] at he
          rcases he with he | he
          · exact h.droppedNB hq e he
          · subst he; simpa using hb
  | consume =>
    simp only [qnext] at hn
    split at hn
    · simp at hn
    · rename_i e q heq
      simp at hn; subst hn
      refine ⟨h.numbered, ?_, ?_, h.droppedNB⟩
      · have := h.sub; rw [heq] at this; simpa [List.append_assoc] using this
      · intro hq e' he' hb
        have := h.blocking hq e' he' hb
        rw [heq] at this
        simpa [List.append_assoc] using this
  | quit =>
    simp only [qnext, Option.some.injEq] at hn; subst hn
    exact ⟨h.numbered, h.sub, fun hq => by simp at hq, fun hq => by simp at hq⟩
  | giveUp g =>
    simp only [qnext] at hn
    split at hn
    · rename_i hq
      simp at hn; subst hn
      refine ⟨numbered_append _ g true h.numbered, h.sub.trans (List.sublist_append_left _ _), ?_, ?_⟩
      · intro hq'; simp [hq] at hq'
      · intro hq'; simp [hq] at hq'
    · simp at hn

theorem qinv_reachable (qcap : Nat) (s : QSys) (h : QReachable qcap s) : QInv s := by
  induction h with
  | init => exact qinv_init
  | step l _ hn ih => exact qinv_step qcap _ _ l ih hn

/-- In a numbered list, each goroutine's indices are strictly increasing. -/
theorem numbered_increasing (l : List Ev) (h : Numbered l) (g : Nat) :
    ((l.filter (·.g == g)).map (·.i)).Pairwise (· < ·) := by
  rw [h g]; exact List.pairwise_lt_range

end VaxisModel.Lemmas.Conc
