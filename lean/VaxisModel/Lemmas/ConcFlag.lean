import VaxisModel.Lemmas.ConcInvStep

/-! `chQuit` is closed at most once — in every reachable state, under every label (any number of
`Close` callers, `Close` on an input goroutine's signal arm or panic path included). This is F33 repaired: the
test-and-set of `vx.closed` under `closeMu` lets exactly one caller through. -/
namespace VaxisModel.Lemmas.ConcFlag
open VaxisModel.Model.Conc VaxisModel.Lemmas.ConcInv

structure FlagInv (s : SSys) : Prop where
  flag : sumBy fActive s.callers + s.quitCloses = b2n s.closedFlag
  wellTyped : sumBy fBad s.callers = 0

theorem flagInv_init (s : SSys) (h1 : s.callers = []) (h2 : s.closedFlag = false) (h3 : s.quitCloses = 0) : FlagInv s := by
  refine ⟨?_, by simp [h1, sumBy]⟩
  simp [h1, h2, h3, sumBy]

/-- What one step of `Close`/`Suspend` does to the flag and to the count of closes. -/
theorem closeStep_flag (s s1 : SSys) (k : Bool) (c c' : CPc) (h : closeStep s k c = some (s1, c')) :
    s1.callers = s.callers ∧
    ((c = .checkFlag ∧ s.closedFlag = false ∧ s1.closedFlag = true ∧ c' = .postQuit ∧ s1.quitCloses = s.quitCloses) ∨
     (c = .checkFlag ∧ s.closedFlag = true ∧ s1.closedFlag = true ∧ c' = .returned ∧ s1.quitCloses = s.quitCloses) ∨
     (c = .closeQuit ∧ c' = .returned ∧ s1.closedFlag = s.closedFlag ∧ s1.quitCloses = s.quitCloses + 1) ∨
     (c ≠ .checkFlag ∧ c ≠ .closeQuit ∧ c ≠ .returned ∧ (c' ≠ .checkFlag ∧ c' ≠ .postQuit) ∧ s1.closedFlag = s.closedFlag ∧ s1.quitCloses = s.quitCloses ∧
        (c' = .returned → k = false) ∧ (c' = .closeQuit → k = true))) := by
  cases c <;> simp only [closeStep] at h
  · cases hf : s.closedFlag <;> simp [hf] at h <;> obtain ⟨rfl, rfl⟩ := h <;> simp [hf]
  · simp at h; obtain ⟨rfl, rfl⟩ := h; simp
  · split at h
    · simp at h
    · cases hf : s.suspendedFlag <;> simp [hf] at h <;> obtain ⟨rfl, rfl⟩ := h
      · simp [afterGuard]; cases s.da1First <;> simp
      · cases k <;> simp [afterSuspend]
  · split at h
    · simp at h; obtain ⟨rfl, rfl⟩ := h; simp [afterSignal]; cases s.da1First <;> simp
    · simp at h
  · simp at h; obtain ⟨rfl, rfl⟩ := h; simp [afterDA1]; cases s.da1First <;> simp
  · split at h
    · simp at h; obtain ⟨rfl, rfl⟩ := h; cases k <;> simp [afterSuspend]
    · simp at h
  · simp at h; obtain ⟨rfl, rfl⟩ := h; simp
  · simp at h


theorem flagInv_iact (s s' : SSys) (v v' : IView) (a : IAct) (h : FlagInv s) (hi : iact s v a = some (s', v')) : FlagInv s' := by
  obtain ⟨hf, hw⟩ := h
  rcases iact_shape s s' v v' a hi with rfl | ⟨n, rfl⟩ | rfl | ⟨_, rfl⟩ | ⟨_, rfl⟩
  · exact ⟨hf, hw⟩
  · exact ⟨hf, hw⟩
  · exact ⟨hf, hw⟩
  · exact ⟨by simpa [sumBy_append, sumBy, fActive, closeCaller] using hf, by simpa [sumBy_append, sumBy, fBad, closeCaller] using hw⟩
  · exact ⟨by simpa [sumBy_append, sumBy, fActive, closeCaller] using hf, by simpa [sumBy_append, sumBy, fBad, closeCaller] using hw⟩

theorem flagInv_step (s s' : SSys) (l : SLabel) (h : FlagInv s) (hn : snext s l = some s') : FlagInv s' := by
  have hh := h
  obtain ⟨hf, hw⟩ := h
  cases l with
  | termInput u => simp only [snext, Option.some.injEq] at hn; subst hn; exact ⟨hf, hw⟩
  | termReply => simp only [snext] at hn; split at hn <;> simp at hn; subst hn; exact ⟨hf, hw⟩
  | parser =>
    simp only [snext] at hn
    split at hn <;> (try split at hn) <;> simp at hn <;> subst hn <;> exact ⟨hf, hw⟩
  | input a =>
    simp only [snext] at hn
    split at hn
    · rename_i s1 v hi
      simp at hn; subst hn
      obtain ⟨h1, h2⟩ := flagInv_iact s s1 _ v a hh hi
      exact ⟨h1, h2⟩
    · simp at hn
  | old j a =>
    simp only [snext] at hn
    split at hn
    · simp at hn
    · split at hn
      · rename_i s1 v hi
        simp at hn; subst hn
        obtain ⟨h1, h2⟩ := flagInv_iact s s1 _ v a hh hi
        exact ⟨h1, h2⟩
      · simp at hn
  | consume => simp only [snext] at hn; split at hn <;> simp at hn; subst hn; exact ⟨hf, hw⟩
  | signal => simp only [snext] at hn; split at hn <;> simp at hn; subst hn; exact ⟨hf, hw⟩
  | winch => simp only [snext] at hn; split at hn <;> simp at hn; subst hn; exact ⟨hf, hw⟩
  | callClose =>
    simp only [snext, Option.some.injEq] at hn; subst hn
    exact ⟨by simpa [sumBy_append, sumBy, fActive] using hf, by simpa [sumBy_append, sumBy, fBad] using hw⟩
  | callSuspend =>
    simp only [snext, Option.some.injEq] at hn; subst hn
    exact ⟨by simpa [sumBy_append, sumBy, fActive] using hf, by simpa [sumBy_append, sumBy, fBad] using hw⟩
  | resume =>
    simp only [snext] at hn
    split at hn <;> simp at hn
    subst hn; exact ⟨hf, hw⟩
  | drain j =>
    simp only [snext] at hn
    split at hn
    · simp at hn
    · split at hn
      · simp at hn; obtain ⟨_, hn⟩ := hn; subst hn; exact ⟨hf, hw⟩
      · simp at hn
  | caller j =>
    simp only [snext] at hn
    split at hn
    · simp at hn
    · rename_i c hj
      split at hn
      · rename_i s1 c' hc
        obtain ⟨e1, e3⟩ := closeStep_flag s s1 c.inClose c.pc c' hc
        simp at hn; subst hn
        have hm : c ∈ s.callers := List.mem_of_getElem? hj
        have m1 := sumBy_pos_of_mem fActive s.callers c hm
        have m9 := sumBy_pos_of_mem fBad s.callers c hm
        have hb := b2n_le s.closedFlag
        have s1' := sumBy_set' fActive s.callers j c { c with pc := c' } hj
        have s2' := sumBy_set' fBad s.callers j c { c with pc := c' } hj
        obtain ⟨pc, k⟩ := c
        simp only at e3 hc s1' s2' m1 m9
        simp only [e1]
        rcases e3 with ⟨rfl, h1, h2, rfl, h4⟩ | ⟨rfl, h1, h2, rfl, h4⟩ | ⟨rfl, rfl, h1, h4⟩ | ⟨n1, n2, n3, n4, h1, h4, h5, h6⟩
        · cases k <;> simp [fActive, fBad] at m1 m9 s1' s2' <;> refine ⟨?_, ?_⟩ <;> simp only [s1', s2', h4, h2, h1, b2n_true, b2n_false] at hf ⊢ <;> omega
        · cases k <;> simp [fActive, fBad] at m1 m9 s1' s2' <;> refine ⟨?_, ?_⟩ <;> simp only [s1', s2', h4, h2, h1, b2n_true, b2n_false] at hf ⊢ <;> omega
        · cases k <;> simp [fActive, fBad] at m1 m9 s1' s2' <;> refine ⟨?_, ?_⟩ <;> simp only [s1', s2', h4, h1] at hf ⊢ <;> omega
        · obtain ⟨n4, n5⟩ := n4
          cases k <;> cases pc <;> simp at n1 n2 n3 <;> cases c' <;> simp at n4 n5 h5 h6 <;>
            simp [fActive, fBad] at m1 m9 s1' s2' <;> refine ⟨?_, ?_⟩ <;> simp only [s1', s2', h4, h1] at hf ⊢ <;> omega
      · simp at hn

theorem flagInv_reachable (s0 s : SSys) (h0 : FlagInv s0) (h : SReachable s0 s) : FlagInv s := by
  induction h with
  | init => exact h0
  | step l _ hn ih => exact flagInv_step _ _ l ih hn

end VaxisModel.Lemmas.ConcFlag
