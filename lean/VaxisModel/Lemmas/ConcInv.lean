import VaxisModel.Model.Conc
import VaxisModel.Lemmas.ConcMeasure

/-!
# The invariant of the shutdown protocol

`Inv s` collects the conservation laws of the Close / Suspend / Resume protocol: who may be inside
`Close`, who may be inside `Suspend`, where the close signal and the closed signal are, that the
parser's channel is closed exactly when the parser is done, and that the reader will be woken up.
It says nothing about the event queue, about who consumes, about kill signals, about which
goroutine runs `Close`, nor about who calls `Suspend` when (F13, F53 and F210 are repaired: the
protocol no longer needs such hypotheses).
It holds in a running session, is preserved by every label a scheduler may pick and by the
environment's labels (`Close` and `Suspend` from any number of goroutines at any time, the input
goroutines included; the only side condition is on `Resume`: nobody inside `Close`/`Suspend`, not
closed), and in a state of rest it forces every caller
to have returned and the library's goroutines to be done.
-/
namespace VaxisModel.Lemmas.ConcInv
open VaxisModel.Model.Conc VaxisModel.Lemmas.ConcMeasure

/-! ### counting callers -/

def sumBy (f : Caller → Nat) : List Caller → Nat
  | [] => 0
  | c :: r => f c + sumBy f r

theorem sumBy_append (f : Caller → Nat) (a b : List Caller) : sumBy f (a ++ b) = sumBy f a + sumBy f b := by
  induction a with
  | nil => simp [sumBy]
  | cons x r ih => simp [sumBy, ih]; omega

theorem sumBy_set (f : Caller → Nat) : ∀ (l : List Caller) (j : Nat) (c c' : Caller), l[j]? = some c →
    sumBy f (l.set j c') + f c = sumBy f l + f c'
  | [], j, c, c', h => by simp at h
  | x :: r, 0, c, c', h => by
      simp at h; subst h
      simp [sumBy]; omega
  | x :: r, j + 1, c, c', h => by
      simp at h
      have := sumBy_set f r j c c' h
      simp [sumBy]; omega

theorem sumBy_zero_all (f : Caller → Nat) : ∀ (l : List Caller), sumBy f l = 0 → ∀ c ∈ l, f c = 0
  | [], _, c, hc => by simp at hc
  | x :: r, h, c, hc => by
      simp [sumBy] at h
      rcases List.mem_cons.mp hc with rfl | hc
      · exact h.1
      · exact sumBy_zero_all f r h.2 c hc

theorem sumBy_pos_of_mem (f : Caller → Nat) : ∀ (l : List Caller) (c : Caller), c ∈ l → f c ≤ sumBy f l
  | [], c, hc => by simp at hc
  | x :: r, c, hc => by
      rcases List.mem_cons.mp hc with rfl | hc
      · simp [sumBy]
      · have := sumBy_pos_of_mem f r c hc; simp [sumBy]; omega

/-- inside `Close`, past the test-and-set of `closed`, not yet returned -/
def fActive (c : Caller) : Nat :=
  match c.inClose, c.pc with
  | true, .postQuit | true, .checkSuspended | true, .signalClose | true, .writeDA1 | true, .waitClosed | true, .closeQuit => 1
  | _, _ => 0
/-- inside a bare `Suspend` -/
def fSusp (c : Caller) : Nat :=
  match c.inClose, c.pc with
  | false, .checkSuspended | false, .signalClose | false, .writeDA1 | false, .waitClosed => 1
  | _, _ => 0
/-- has called `Close` and not returned -/
def fCloseSide (c : Caller) : Nat :=
  match c.inClose, c.pc with
  | true, .returned => 0
  | true, _ => 1
  | _, _ => 0
/-- has called `Close` and passed the test-and-set -/
def fPastFlag (c : Caller) : Nat :=
  match c.inClose, c.pc with
  | true, .checkFlag => 0
  | true, _ => 1
  | _, _ => 0
def fCS (c : Caller) : Nat := match c.pc with | .checkSuspended => 1 | _ => 0
def fSC (c : Caller) : Nat := match c.pc with | .signalClose => 1 | _ => 0
def fWD (c : Caller) : Nat := match c.pc with | .writeDA1 => 1 | _ => 0
def fWC (c : Caller) : Nat := match c.pc with | .waitClosed => 1 | _ => 0
def fCQ (c : Caller) : Nat := match c.pc with | .closeQuit => 1 | _ => 0
def fUnret (c : Caller) : Nat := match c.pc with | .returned => 0 | _ => 1
/-- a bare `Suspend` caller is never at a program counter of `Close` proper -/
def fBad (c : Caller) : Nat :=
  match c.inClose, c.pc with
  | false, .checkFlag | false, .postQuit | false, .closeQuit => 1
  | _, _ => 0
/-! ### the other components -/

/-- the parser has left its loop -/
def pX : PPc → Nat | .emitEOF | .signalClosed | .done => 1 | _ => 0
/-- the parser has emitted EOF -/
def pE : PPc → Nat | .signalClosed | .done => 1 | _ => 0
def pD : PPc → Nat | .done => 1 | _ => 0
def pR : PPc → Nat | .reading => 1 | _ => 0
theorem pR_le (p : PPc) : pR p ≤ 1 := by cases p <;> simp [pR]
theorem pX_le (p : PPc) : pX p ≤ 1 := by cases p <;> simp [pX]
theorem pD_le (p : PPc) : pD p ≤ 1 := by cases p <;> simp [pD]
theorem pE_le (p : PPc) : pE p ≤ 1 := by cases p <;> simp [pE]
/-- `WaitClose` has taken the parser's `closed` token (the parser is done and the token is gone) -/
def pT (s : SSys) : Nat := pD s.ppc - s.closedSig
/-- 1 for the empty input buffer, 0 otherwise -/
def emptyN (l : List (Option Nat)) : Nat := 1 - l.length
def b2n (b : Bool) : Nat := if b then 1 else 0
@[simp] theorem b2n_true : b2n true = 1 := rfl
@[simp] theorem b2n_false : b2n false = 0 := rfl
theorem b2n_le (b : Bool) : b2n b ≤ 1 := by cases b <;> simp

structure Inv (s : SSys) : Prop where
  /-- the statement order of `Suspend` and the assignment in `Resume` are those of the source -/
  order : s.da1First = false
  /-- … and so are the repaired shapes: `WaitClose` drains, `PostEventBlocking` selects on `chQuit`
  (`Props.C10Shutdown.waitclose_drains`, `blocking_post_selects_quit`) -/
  clears : s.resumeClears = true ∧ s.waitDrains = true ∧ s.postQuitArm = true
  qpos : 1 ≤ s.qcap
  /-- at most one goroutine is past the test-and-set of `closed`, and `chQuit` is closed by it -/
  flag : sumBy fActive s.callers + s.quitCloses = b2n s.closedFlag
  pastFlag : 1 ≤ sumBy fPastFlag s.callers → b2n s.closedFlag = 1
  wellTyped : sumBy fBad s.callers = 0
  /-- the close signal: sent = pending + taken by the parser -/
  sig : sumBy fWD s.callers + sumBy fWC s.callers + pT s = s.closeSig + pX s.ppc
  /-- the closed token exists only when the parser is done -/
  closed : s.closedSig ≤ pD s.ppc
  /-- `vx.suspended` says whether the parser is stopped or being stopped -/
  susp : b2n s.suspendedFlag = sumBy fSC s.callers + sumBy fWD s.callers + sumBy fWC s.callers + pT s
  excl : sumBy fSC s.callers + sumBy fWD s.callers + sumBy fWC s.callers + pT s ≤ 1
  afterClose : 1 ≤ sumBy fCQ s.callers + s.quitCloses → b2n s.suspendedFlag = 1
  /-- the parser's channel is closed exactly when the parser is done -/
  chan : b2n s.seqsClosed = pD s.ppc
  /-- the reader is woken up: a pending close signal with the parser blocked in `ReadRune` on an
  empty input means the DA1 query is still to be written or its reply is still to come -/
  wake : s.closeSig + pR s.ppc + emptyN s.inbuf ≤ 2 + sumBy fWD s.callers + s.da1Pending
  /-- `vx.suspendMu` is held exactly while some goroutine is inside `Suspend` past its guard -/
  lock : b2n s.suspLock = sumBy fSC s.callers + sumBy fWD s.callers + sumBy fWC s.callers

/-- A running session with nobody closing or suspending satisfies the invariant — whatever the queue
holds, whether or not anybody consumes, whatever input and signals are pending, whatever the input
goroutine is doing, however many input goroutines of earlier sessions are still alive. -/
theorem inv_running (q n : Nat) (c : Bool) (ib : List (Option Nat)) (i : IPc) (sq : List Tok) (k w : Bool) (o : List Old)
    (hq : 1 ≤ q) :
    Inv { qcap := q, queueLen := n, consumer := c, inbuf := ib, ppc := .reading, ipc := i, seqs := sq, killSig := k,
          winchSig := w, olds := o } := by
  refine ⟨rfl, ⟨rfl, rfl, rfl⟩, hq, by simp [sumBy], by simp [sumBy], by simp [sumBy],
    by simp [sumBy, pT, pX, pD], by simp, by simp [sumBy, pT, pD], by simp [sumBy, pT, pD], by simp [sumBy],
    by simp [pD], ?_, by simp [sumBy]⟩
  simp [pR, emptyN, sumBy]; omega

/-- The invariant does not mention the input goroutines, their channels' contents or the queue. -/
theorem inv_ipc_seqs (s : SSys) (i : IPc) (q : List Tok) (h : Inv s) : Inv { s with ipc := i, seqs := q } :=
  ⟨h.order, h.clears, h.qpos, h.flag, h.pastFlag, h.wellTyped, h.sig, h.closed, h.susp, h.excl, h.afterClose,
    h.chan, h.wake, h.lock⟩

theorem inv_olds (s : SSys) (o : List Old) (h : Inv s) : Inv { s with olds := o } :=
  ⟨h.order, h.clears, h.qpos, h.flag, h.pastFlag, h.wellTyped, h.sig, h.closed, h.susp, h.excl, h.afterClose,
    h.chan, h.wake, h.lock⟩

theorem inv_seqs (s : SSys) (q : List Tok) (h : Inv s) : Inv { s with seqs := q } :=
  ⟨h.order, h.clears, h.qpos, h.flag, h.pastFlag, h.wellTyped, h.sig, h.closed, h.susp, h.excl, h.afterClose,
    h.chan, h.wake, h.lock⟩

theorem inv_queueLen (s : SSys) (n : Nat) (h : Inv s) : Inv { s with queueLen := n } :=
  ⟨h.order, h.clears, h.qpos, h.flag, h.pastFlag, h.wellTyped, h.sig, h.closed, h.susp, h.excl, h.afterClose,
    h.chan, h.wake, h.lock⟩

theorem inv_killSig (s : SSys) (b : Bool) (h : Inv s) : Inv { s with killSig := b } :=
  ⟨h.order, h.clears, h.qpos, h.flag, h.pastFlag, h.wellTyped, h.sig, h.closed, h.susp, h.excl, h.afterClose,
    h.chan, h.wake, h.lock⟩

theorem inv_winchSig (s : SSys) (b : Bool) (h : Inv s) : Inv { s with winchSig := b } :=
  ⟨h.order, h.clears, h.qpos, h.flag, h.pastFlag, h.wellTyped, h.sig, h.closed, h.susp, h.excl, h.afterClose,
    h.chan, h.wake, h.lock⟩

/-- The invariant is decidable (every law is an (in)equation or an implication between (in)equations
over natural numbers): concrete states can be checked by evaluation. -/
instance instDecidableInv (s : SSys) : Decidable (Inv s) :=
  decidable_of_iff
    (s.da1First = false ∧ (s.resumeClears = true ∧ s.waitDrains = true ∧ s.postQuitArm = true) ∧ 1 ≤ s.qcap ∧
     sumBy fActive s.callers + s.quitCloses = b2n s.closedFlag ∧
     (1 ≤ sumBy fPastFlag s.callers → b2n s.closedFlag = 1) ∧
     sumBy fBad s.callers = 0 ∧
     sumBy fWD s.callers + sumBy fWC s.callers + pT s = s.closeSig + pX s.ppc ∧
     s.closedSig ≤ pD s.ppc ∧
     b2n s.suspendedFlag = sumBy fSC s.callers + sumBy fWD s.callers + sumBy fWC s.callers + pT s ∧
     sumBy fSC s.callers + sumBy fWD s.callers + sumBy fWC s.callers + pT s ≤ 1 ∧
     (1 ≤ sumBy fCQ s.callers + s.quitCloses → b2n s.suspendedFlag = 1) ∧
     b2n s.seqsClosed = pD s.ppc ∧
     s.closeSig + pR s.ppc + emptyN s.inbuf ≤ 2 + sumBy fWD s.callers + s.da1Pending ∧
     b2n s.suspLock = sumBy fSC s.callers + sumBy fWD s.callers + sumBy fWC s.callers)
    ⟨fun ⟨a1, a2, a3, a4, a5, a6, a7, a8, a9, a10, a11, a12, a13, a14⟩ =>
       ⟨a1, a2, a3, a4, a5, a6, a7, a8, a9, a10, a11, a12, a13, a14⟩,
     fun h => ⟨h.order, h.clears, h.qpos, h.flag, h.pastFlag, h.wellTyped, h.sig, h.closed, h.susp, h.excl,
       h.afterClose, h.chan, h.wake, h.lock⟩⟩

end VaxisModel.Lemmas.ConcInv
