import VaxisModel.Model.Conc
import VaxisModel.Lemmas.ConcMeasure

/-!
# The invariant of the shutdown protocol

`Inv s` collects the conservation laws of the Close / Suspend / Resume protocol: who may be inside
`Close`, who may be inside `Suspend`, where the close signal, the closed signal and the EOF token
are, that the reader will be woken up, and that blocking posts have room (or a consumer).
It holds in a running session, is preserved by every label a scheduler may pick and by the
environment's labels under their side conditions (a sequential main goroutine; `Close` from any
number of other goroutines), and in a state of rest it forces every caller to have returned and the
library's goroutines to be done.
-/
namespace VaxisModel.Lemmas.ConcInv
open VaxisModel.Model.Conc VaxisModel.Lemmas.ConcMeasure

/-! ### counting callers -/

def sumBy (f : Caller → Nat) : List Caller → Nat
  | [] => 0
  | c :: r => f c + sumBy f r

theorem sumBy_append (f : Caller → Nat) (a b : List Caller) : sumBy f (a ++ b) = sumBy f a + sumBy f b := by
  induction a with
  | nil => simp [sumBy]
  | cons x r ih => simp [sumBy, ih]; omega

theorem sumBy_set (f : Caller → Nat) : ∀ (l : List Caller) (j : Nat) (c c' : Caller), l[j]? = some c →
    sumBy f (l.set j c') + f c = sumBy f l + f c'
  | [], j, c, c', h => by simp at h
  | x :: r, 0, c, c', h => by
      simp at h; subst h
      simp [sumBy]; omega
  | x :: r, j + 1, c, c', h => by
      simp at h
      have := sumBy_set f r j c c' h
      simp [sumBy]; omega

theorem sumBy_zero_all (f : Caller → Nat) : ∀ (l : List Caller), sumBy f l = 0 → ∀ c ∈ l, f c = 0
  | [], _, c, hc => by simp at hc
  | x :: r, h, c, hc => by
      simp [sumBy] at h
      rcases List.mem_cons.mp hc with rfl | hc
      · exact h.1
      · exact sumBy_zero_all f r h.2 c hc

theorem sumBy_pos_of_mem (f : Caller → Nat) : ∀ (l : List Caller) (c : Caller), c ∈ l → f c ≤ sumBy f l
  | [], c, hc => by simp at hc
  | x :: r, c, hc => by
      rcases List.mem_cons.mp hc with rfl | hc
      · simp [sumBy]
      · have := sumBy_pos_of_mem f r c hc; simp [sumBy]; omega

/-- inside `Close`, past the test-and-set of `closed`, not yet returned -/
def fActive (c : Caller) : Nat :=
  match c.inClose, c.pc with
  | true, .postQuit | true, .checkSuspended | true, .signalClose | true, .writeDA1 | true, .waitClosed | true, .closeQuit => 1
  | _, _ => 0
/-- inside a bare `Suspend` -/
def fSusp (c : Caller) : Nat :=
  match c.inClose, c.pc with
  | false, .checkSuspended | false, .signalClose | false, .writeDA1 | false, .waitClosed => 1
  | _, _ => 0
/-- has called `Close` and not returned -/
def fCloseSide (c : Caller) : Nat :=
  match c.inClose, c.pc with
  | true, .returned => 0
  | true, _ => 1
  | _, _ => 0
/-- has called `Close` and passed the test-and-set -/
def fPastFlag (c : Caller) : Nat :=
  match c.inClose, c.pc with
  | true, .checkFlag => 0
  | true, _ => 1
  | _, _ => 0
def fCS (c : Caller) : Nat := match c.pc with | .checkSuspended => 1 | _ => 0
def fSC (c : Caller) : Nat := match c.pc with | .signalClose => 1 | _ => 0
def fWD (c : Caller) : Nat := match c.pc with | .writeDA1 => 1 | _ => 0
def fWC (c : Caller) : Nat := match c.pc with | .waitClosed => 1 | _ => 0
def fCQ (c : Caller) : Nat := match c.pc with | .closeQuit => 1 | _ => 0
def fUnret (c : Caller) : Nat := match c.pc with | .returned => 0 | _ => 1
/-- a bare `Suspend` caller is never at a program counter of `Close` proper -/
def fBad (c : Caller) : Nat :=
  match c.inClose, c.pc with
  | false, .checkFlag | false, .postQuit | false, .closeQuit => 1
  | _, _ => 0
/-- events this caller may still cause to be posted: the quit event, the reply to its DA1 query -/
def fDebt (c : Caller) : Nat :=
  match c.pc with
  | .checkFlag | .postQuit => 2
  | .checkSuspended | .signalClose | .writeDA1 => 1
  | _ => 0

/-! ### the other components -/

/-- the parser has left its loop -/
def pX : PPc → Nat | .emitEOF | .signalClosed | .done => 1 | _ => 0
/-- the parser has emitted EOF -/
def pE : PPc → Nat | .signalClosed | .done => 1 | _ => 0
def pD : PPc → Nat | .done => 1 | _ => 0
def pR : PPc → Nat | .reading => 1 | _ => 0
theorem pR_le (p : PPc) : pR p ≤ 1 := by cases p <;> simp [pR]
theorem pX_le (p : PPc) : pX p ≤ 1 := by cases p <;> simp [pX]
theorem pD_le (p : PPc) : pD p ≤ 1 := by cases p <;> simp [pD]
theorem pE_le (p : PPc) : pE p ≤ 1 := by cases p <;> simp [pE]
/-- `WaitClose` has taken the parser's `closed` token (the parser is done and the token is gone) -/
def pT (s : SSys) : Nat := pD s.ppc - s.closedSig
/-- 1 for the empty input buffer, 0 otherwise -/
def emptyN (l : List (Option Nat)) : Nat := 1 - l.length
def iDone : IPc → Nat | .done => 1 | _ => 0
def eofCount : List Tok → Nat
  | [] => 0
  | .eof :: r => 1 + eofCount r
  | .seq _ :: r => eofCount r
def b2n (b : Bool) : Nat := if b then 1 else 0
@[simp] theorem b2n_true : b2n true = 1 := rfl
@[simp] theorem b2n_false : b2n false = 0 := rfl
theorem b2n_le (b : Bool) : b2n b ≤ 1 := by cases b <;> simp

def toksPosts : List Tok → Nat
  | [] => 0
  | .seq k :: r => k + toksPosts r
  | .eof :: r => toksPosts r
def ipcPosts : IPc → Nat | .posting k => k | _ => 0
def ppcPosts : PPc → Nat | .emitting k => k | _ => 0
def inbufPosts : List (Option Nat) → Nat
  | [] => 0
  | none :: r => inbufPosts r
  | some k :: r => k + inbufPosts r

/-- events still to be posted by the library (and by the callers of `Close`/`Suspend`) -/
def inFlight (s : SSys) : Nat :=
  ipcPosts s.ipc + toksPosts s.seqs + ppcPosts s.ppc + inbufPosts s.inbuf + s.da1Pending + sumBy fDebt s.callers

/-- The application keeps receiving events, or the queue has room for everything in flight. -/
def RoomOK (s : SSys) : Prop := b2n s.consumer = 1 ∨ s.queueLen + inFlight s ≤ s.qcap

theorem eofCount_append (a b : List Tok) : eofCount (a ++ b) = eofCount a + eofCount b := by
  induction a with
  | nil => simp [eofCount]
  | cons t r ih => cases t <;> simp [eofCount, ih]; omega

theorem toksPosts_append (a b : List Tok) : toksPosts (a ++ b) = toksPosts a + toksPosts b := by
  induction a with
  | nil => simp [toksPosts]
  | cons t r ih => cases t <;> simp [toksPosts, ih]; omega

theorem inbufPosts_append (a b : List (Option Nat)) : inbufPosts (a ++ b) = inbufPosts a + inbufPosts b := by
  induction a with
  | nil => simp [inbufPosts]
  | cons t r ih => cases t <;> simp [inbufPosts, ih]; omega

structure Inv (s : SSys) : Prop where
  /-- the statement order of `Suspend` and the assignment in `Resume` are those of the source -/
  order : s.da1First = false
  clears : s.resumeClears = true
  /-- nobody has sent a kill signal, `Close` is not running on the input goroutine (F13's region) -/
  nokill : s.killSig = false
  ipcOK : ∀ c, s.ipc ≠ .closing c
  qpos : 1 ≤ s.qcap
  /-- at most one goroutine is past the test-and-set of `closed`, and `chQuit` is closed by it -/
  flag : sumBy fActive s.callers + s.quitCloses = b2n s.closedFlag
  pastFlag : 1 ≤ sumBy fPastFlag s.callers → b2n s.closedFlag = 1
  /-- the main goroutine is sequential: a bare `Suspend` excludes any other call -/
  seq1 : sumBy fSusp s.callers ≤ 1
  seq2 : 1 ≤ sumBy fSusp s.callers → sumBy fCloseSide s.callers = 0
  wellTyped : sumBy fBad s.callers = 0
  /-- the close signal: sent = pending + taken by the parser -/
  sig : sumBy fWD s.callers + sumBy fWC s.callers + pT s = s.closeSig + pX s.ppc
  /-- the closed token exists only when the parser is done -/
  closed : s.closedSig ≤ pD s.ppc
  /-- `vx.suspended` says whether the parser is stopped or being stopped -/
  susp : b2n s.suspendedFlag = sumBy fSC s.callers + sumBy fWD s.callers + sumBy fWC s.callers + pT s
  excl : sumBy fSC s.callers + sumBy fWD s.callers + sumBy fWC s.callers + pT s ≤ 1
  afterClose : 1 ≤ sumBy fCQ s.callers + s.quitCloses → b2n s.suspendedFlag = 1
  /-- the EOF token: emitted = in the channel + taken by the input goroutine -/
  eof : pE s.ppc = eofCount s.seqs + iDone s.ipc
  /-- the reader is woken up: a pending close signal with the parser blocked in `ReadRune` on an
  empty input means the DA1 query is still to be written or its reply is still to come -/
  wake : s.closeSig + pR s.ppc + emptyN s.inbuf ≤ 2 + sumBy fWD s.callers + s.da1Pending
  room : b2n s.consumer = 1 ∨ s.queueLen + inFlight s ≤ s.qcap

/-- A running session with nobody closing or suspending satisfies the invariant. -/
theorem inv_running (q n : Nat) (c : Bool) (ib : List (Option Nat)) (hq : 1 ≤ q) (hroom : c = true ∨ n + inbufPosts ib ≤ q) :
    Inv { qcap := q, queueLen := n, consumer := c, inbuf := ib, ppc := .reading } := by
  refine ⟨rfl, rfl, rfl, by simp, hq, by simp [sumBy], by simp [sumBy], by simp [sumBy], by simp [sumBy], by simp [sumBy],
    by simp [sumBy, pT, pX, pD], by simp, by simp [sumBy, pT, pD], by simp [sumBy, pT, pD], by simp [sumBy],
    by simp [pE, eofCount, iDone], ?_, ?_⟩
  · simp [pR, emptyN, sumBy]; omega
  · rcases hroom with h | h
    · exact Or.inl (by simp [h])
    · refine Or.inr ?_; simp [inFlight, ipcPosts, toksPosts, ppcPosts, sumBy]; omega

end VaxisModel.Lemmas.ConcInv
