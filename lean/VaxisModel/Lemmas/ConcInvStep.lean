import VaxisModel.Lemmas.ConcInv

/-! Preservation of the shutdown invariant by every label (scheduler labels unconditionally,
environment labels under their side conditions). -/
namespace VaxisModel.Lemmas.ConcInv
open VaxisModel.Model.Conc VaxisModel.Lemmas.ConcMeasure

macro "inv_num" : tactic =>
  `(tactic| (simp only [pT, pX, pE, pD, pR, emptyN, iDone, inFlight, ppcPosts, ipcPosts, toksPosts, inbufPosts, eofCount,
      eofCount_append, toksPosts_append, inbufPosts_append, b2n_true, b2n_false, List.length_cons, List.length_nil,
      List.length_append] at * <;> omega))

theorem inv_parser (s s' : SSys) (h : Inv s) (hn : snext s .parser = some s') : Inv s' := by
  obtain ⟨h1, h2, h3, h4, h5, h6, h7, h8, h9, h10, h11, h12, h13, h14, h15, h16, h17, h18⟩ := h
  obtain ⟨qcap, queueLen, consumer, inbuf, ppc, seqs, seqsClosed, closeSig, closedSig, ipc, killSig, callers, closedFlag,
    suspendedFlag, quitCloses, da1Pending, da1First, resumeClears⟩ := s
  have hb1 := b2n_le closedFlag; have hb2 := b2n_le suspendedFlag; have hb3 := b2n_le consumer
  simp only [snext] at hn
  split at hn
  · split at hn <;> simp only [Option.some.injEq] at hn <;> subst hn <;>
      refine ⟨h1, h2, h3, h4, h5, h6, h7, h8, h9, h10, ?_, ?_, ?_, ?_, h15, ?_, ?_, ?_⟩ <;> inv_num
  · split at hn <;> simp only [Option.some.injEq, reduceCtorEq] at hn <;> subst hn <;>
      refine ⟨h1, h2, h3, h4, h5, h6, h7, h8, h9, h10, ?_, ?_, ?_, ?_, h15, ?_, ?_, ?_⟩ <;> inv_num
  · split at hn <;> simp only [Option.some.injEq, reduceCtorEq] at hn <;> subst hn <;>
      refine ⟨h1, h2, h3, h4, h5, h6, h7, h8, h9, h10, ?_, ?_, ?_, ?_, h15, ?_, ?_, ?_⟩ <;> inv_num
  · split at hn <;> simp only [Option.some.injEq, reduceCtorEq] at hn <;> subst hn <;>
      refine ⟨h1, h2, h3, h4, h5, h6, h7, h8, h9, h10, ?_, ?_, ?_, ?_, h15, ?_, ?_, ?_⟩ <;> inv_num
  · split at hn <;> simp only [Option.some.injEq, reduceCtorEq] at hn <;> subst hn <;>
      refine ⟨h1, h2, h3, h4, h5, h6, h7, h8, h9, h10, ?_, ?_, ?_, ?_, h15, ?_, ?_, ?_⟩ <;> inv_num
  · simp at hn

theorem inv_consume (s s' : SSys) (h : Inv s) (hn : snext s .consume = some s') : Inv s' := by
  obtain ⟨h1, h2, h3, h4, h5, h6, h7, h8, h9, h10, h11, h12, h13, h14, h15, h16, h17, h18⟩ := h
  obtain ⟨qcap, queueLen, consumer, inbuf, ppc, seqs, seqsClosed, closeSig, closedSig, ipc, killSig, callers, closedFlag,
    suspendedFlag, quitCloses, da1Pending, da1First, resumeClears⟩ := s
  have hp1 := pR_le ppc; have hp2 := pX_le ppc; have hp3 := pD_le ppc; have hp4 := pE_le ppc
  simp only [snext] at hn
  split at hn <;> simp only [Option.some.injEq, reduceCtorEq] at hn
  subst hn
  refine ⟨h1, h2, h3, h4, h5, h6, h7, h8, h9, h10, h11, h12, h13, h14, h15, h16, h17, ?_⟩
  inv_num

theorem inv_termReply (s s' : SSys) (h : Inv s) (hn : snext s .termReply = some s') : Inv s' := by
  obtain ⟨h1, h2, h3, h4, h5, h6, h7, h8, h9, h10, h11, h12, h13, h14, h15, h16, h17, h18⟩ := h
  obtain ⟨qcap, queueLen, consumer, inbuf, ppc, seqs, seqsClosed, closeSig, closedSig, ipc, killSig, callers, closedFlag,
    suspendedFlag, quitCloses, da1Pending, da1First, resumeClears⟩ := s
  have hp1 := pR_le ppc; have hp2 := pX_le ppc; have hp3 := pD_le ppc; have hp4 := pE_le ppc
  simp only [snext] at hn
  split at hn <;> simp only [Option.some.injEq, reduceCtorEq] at hn
  subst hn
  refine ⟨h1, h2, h3, h4, h5, h6, h7, h8, h9, h10, h11, h12, h13, h14, h15, h16, ?_, ?_⟩ <;> inv_num

/-- New terminal input keeps the invariant as long as there is a consumer or room for what it posts. -/
theorem inv_termInput (s s' : SSys) (u : Option Nat) (h : Inv s) (hn : snext s (.termInput u) = some s')
    (hroom : RoomOK s') : Inv s' := by
  obtain ⟨h1, h2, h3, h4, h5, h6, h7, h8, h9, h10, h11, h12, h13, h14, h15, h16, h17, h18⟩ := h
  obtain ⟨qcap, queueLen, consumer, inbuf, ppc, seqs, seqsClosed, closeSig, closedSig, ipc, killSig, callers, closedFlag,
    suspendedFlag, quitCloses, da1Pending, da1First, resumeClears⟩ := s
  have hp1 := pR_le ppc; have hp2 := pX_le ppc; have hp3 := pD_le ppc; have hp4 := pE_le ppc
  simp only [snext, Option.some.injEq] at hn
  subst hn
  refine ⟨h1, h2, h3, h4, h5, h6, h7, h8, h9, h10, h11, h12, h13, h14, h15, h16, ?_, hroom⟩
  inv_num

theorem inv_inputKill (s s' : SSys) (h : Inv s) (hn : snext s .inputKill = some s') : Inv s' := by
  have hk := h.nokill
  simp only [snext] at hn
  split at hn
  · simp [hk] at hn
  · simp at hn

theorem inv_inputRecv (s s' : SSys) (h : Inv s) (hn : snext s .inputRecv = some s') : Inv s' := by
  obtain ⟨h1, h2, h3, h4, h5, h6, h7, h8, h9, h10, h11, h12, h13, h14, h15, h16, h17, h18⟩ := h
  obtain ⟨qcap, queueLen, consumer, inbuf, ppc, seqs, seqsClosed, closeSig, closedSig, ipc, killSig, callers, closedFlag,
    suspendedFlag, quitCloses, da1Pending, da1First, resumeClears⟩ := s
  have hp1 := pR_le ppc; have hp2 := pX_le ppc; have hp3 := pD_le ppc; have hp4 := pE_le ppc
  simp only [snext] at hn
  split at hn <;> simp only [Option.some.injEq, reduceCtorEq] at hn
  · subst hn
    refine ⟨h1, h2, h3, by simp, h5, h6, h7, h8, h9, h10, h11, h12, h13, h14, h15, ?_, h17, ?_⟩ <;> inv_num
  · subst hn
    refine ⟨h1, h2, h3, by simp, h5, h6, h7, h8, h9, h10, h11, h12, h13, h14, h15, ?_, h17, ?_⟩ <;> inv_num

theorem inv_inputStep (s s' : SSys) (h : Inv s) (hn : snext s .inputStep = some s') : Inv s' := by
  obtain ⟨h1, h2, h3, h4, h5, h6, h7, h8, h9, h10, h11, h12, h13, h14, h15, h16, h17, h18⟩ := h
  obtain ⟨qcap, queueLen, consumer, inbuf, ppc, seqs, seqsClosed, closeSig, closedSig, ipc, killSig, callers, closedFlag,
    suspendedFlag, quitCloses, da1Pending, da1First, resumeClears⟩ := s
  have hp1 := pR_le ppc; have hp2 := pX_le ppc; have hp3 := pD_le ppc; have hp4 := pE_le ppc
  simp only [snext] at hn
  split at hn
  · simp only [Option.some.injEq] at hn; subst hn
    refine ⟨h1, h2, h3, by simp, h5, h6, h7, h8, h9, h10, h11, h12, h13, h14, h15, ?_, h17, ?_⟩ <;> inv_num
  · split at hn <;> simp only [Option.some.injEq, reduceCtorEq] at hn
    subst hn
    refine ⟨h1, h2, h3, by simp, h5, h6, h7, h8, h9, h10, h11, h12, h13, h14, h15, ?_, h17, ?_⟩ <;> inv_num
  · rename_i c
    exact absurd rfl (h4 c)
  · simp at hn

theorem sumBy_set' (f : Caller → Nat) (l : List Caller) (j : Nat) (c c' : Caller) (h : l[j]? = some c) :
    sumBy f (l.set j c') = sumBy f l + f c' - f c := by
  have := sumBy_set f l j c c' h; omega

macro "caller_num" h:term : tactic =>
  `(tactic| (simp only [sumBy_set' _ _ _ _ _ $h, fActive, fSusp, fCloseSide, fPastFlag, fCS, fSC, fWD, fWC, fCQ, fUnret, fBad, fDebt,
      pT, pX, pE, pD, pR, emptyN, iDone, inFlight, ppcPosts, ipcPosts, toksPosts, inbufPosts, eofCount,
      b2n_true, b2n_false, List.length_cons, List.length_nil, List.length_append, Nat.sub_zero, Nat.add_zero, implies_true] <;> omega))

theorem inv_caller (s s' : SSys) (j : Nat) (h : Inv s) (hn : snext s (.caller j) = some s') : Inv s' := by
  obtain ⟨h1, h2, h3, h4, h5, h6, h7, h8, h9, h10, h11, h12, h13, h14, h15, h16, h17, h18⟩ := h
  obtain ⟨qcap, queueLen, consumer, inbuf, ppc, seqs, seqsClosed, closeSig, closedSig, ipc, killSig, callers, closedFlag,
    suspendedFlag, quitCloses, da1Pending, da1First, resumeClears⟩ := s
  have hp1 := pR_le ppc; have hp2 := pX_le ppc; have hp3 := pD_le ppc; have hp4 := pE_le ppc
  have hb1 := b2n_le closedFlag; have hb2 := b2n_le suspendedFlag; have hb3 := b2n_le consumer
  dsimp only at *
  subst h1
  simp only [snext] at hn
  split at hn
  · simp at hn
  · rename_i c hj
    have hm : c ∈ callers := List.mem_of_getElem? hj
    have m1 := sumBy_pos_of_mem fActive callers c hm
    have m2 := sumBy_pos_of_mem fSusp callers c hm
    have m3 := sumBy_pos_of_mem fCloseSide callers c hm
    have m4 := sumBy_pos_of_mem fPastFlag callers c hm
    have m5 := sumBy_pos_of_mem fSC callers c hm
    have m6 := sumBy_pos_of_mem fWD callers c hm
    have m7 := sumBy_pos_of_mem fWC callers c hm
    have m8 := sumBy_pos_of_mem fCQ callers c hm
    have m9 := sumBy_pos_of_mem fBad callers c hm
    have m10 := sumBy_pos_of_mem fDebt callers c hm
    obtain ⟨pc, k⟩ := c
    simp only [pT, pX, pE, pD, pR, emptyN, iDone, inFlight, ppcPosts, ipcPosts] at *
    cases pc <;> cases k <;> simp only [closeStep, afterGuard, afterSignal, afterDA1, afterSuspend] at hn
    -- checkFlag (bare Suspend: excluded by wellTyped; Close: test-and-set)
    · simp [fBad] at m9; omega
    · cases closedFlag <;> simp at hn <;> subst hn <;> simp [fActive, fSusp, fCloseSide, fPastFlag, fSC, fWD, fWC, fCQ, fBad, fDebt] at m1 m2 m3 m4 m5 m6 m7 m8 m9 m10 h6 h7 h13 h15 hb1 hb2 <;> refine ⟨rfl, h2, h3, h4, h5, ?_, ?_, ?_, ?_, ?_, ?_, ?_, ?_, ?_, ?_, ?_, ?_, ?_⟩ <;>
        caller_num hj
    -- postQuit
    · simp [fBad] at m9; omega
    · by_cases hq : queueLen < qcap <;> simp [hq] at hn <;> subst hn <;> simp [fActive, fSusp, fCloseSide, fPastFlag, fSC, fWD, fWC, fCQ, fBad, fDebt] at m1 m2 m3 m4 m5 m6 m7 m8 m9 m10 h6 h7 h13 h15 hb1 hb2 <;> refine ⟨rfl, h2, h3, h4, h5, ?_, ?_, ?_, ?_, ?_, ?_, ?_, ?_, ?_, ?_, ?_, ?_, ?_⟩ <;>
        caller_num hj
    -- checkSuspended
    · cases suspendedFlag <;> simp at hn <;> subst hn <;> simp [fActive, fSusp, fCloseSide, fPastFlag, fSC, fWD, fWC, fCQ, fBad, fDebt] at m1 m2 m3 m4 m5 m6 m7 m8 m9 m10 h6 h7 h13 h15 hb1 hb2 <;> refine ⟨rfl, h2, h3, h4, h5, ?_, ?_, ?_, ?_, ?_, ?_, ?_, ?_, ?_, ?_, ?_, ?_, ?_⟩ <;>
        caller_num hj
    · cases suspendedFlag <;> simp at hn <;> subst hn <;> simp [fActive, fSusp, fCloseSide, fPastFlag, fSC, fWD, fWC, fCQ, fBad, fDebt] at m1 m2 m3 m4 m5 m6 m7 m8 m9 m10 h6 h7 h13 h15 hb1 hb2 <;> refine ⟨rfl, h2, h3, h4, h5, ?_, ?_, ?_, ?_, ?_, ?_, ?_, ?_, ?_, ?_, ?_, ?_, ?_⟩ <;>
        caller_num hj
    -- signalClose
    · by_cases hq : closeSig < 1 <;> simp [hq] at hn <;> subst hn <;> simp [fActive, fSusp, fCloseSide, fPastFlag, fSC, fWD, fWC, fCQ, fBad, fDebt] at m1 m2 m3 m4 m5 m6 m7 m8 m9 m10 h6 h7 h13 h15 hb1 hb2 <;> refine ⟨rfl, h2, h3, h4, h5, ?_, ?_, ?_, ?_, ?_, ?_, ?_, ?_, ?_, ?_, ?_, ?_, ?_⟩ <;>
        caller_num hj
    · by_cases hq : closeSig < 1 <;> simp [hq] at hn <;> subst hn <;> simp [fActive, fSusp, fCloseSide, fPastFlag, fSC, fWD, fWC, fCQ, fBad, fDebt] at m1 m2 m3 m4 m5 m6 m7 m8 m9 m10 h6 h7 h13 h15 hb1 hb2 <;> refine ⟨rfl, h2, h3, h4, h5, ?_, ?_, ?_, ?_, ?_, ?_, ?_, ?_, ?_, ?_, ?_, ?_, ?_⟩ <;>
        caller_num hj
    -- writeDA1
    · simp at hn; subst hn; simp [fActive, fSusp, fCloseSide, fPastFlag, fSC, fWD, fWC, fCQ, fBad, fDebt] at m1 m2 m3 m4 m5 m6 m7 m8 m9 m10 h6 h7 h13 h15 hb1 hb2; refine ⟨rfl, h2, h3, h4, h5, ?_, ?_, ?_, ?_, ?_, ?_, ?_, ?_, ?_, ?_, ?_, ?_, ?_⟩ <;>
        caller_num hj
    · simp at hn; subst hn; simp [fActive, fSusp, fCloseSide, fPastFlag, fSC, fWD, fWC, fCQ, fBad, fDebt] at m1 m2 m3 m4 m5 m6 m7 m8 m9 m10 h6 h7 h13 h15 hb1 hb2; refine ⟨rfl, h2, h3, h4, h5, ?_, ?_, ?_, ?_, ?_, ?_, ?_, ?_, ?_, ?_, ?_, ?_, ?_⟩ <;>
        caller_num hj
    -- waitClosed
    · by_cases hq : closedSig > 0 <;> simp [hq] at hn <;> subst hn <;> simp [fActive, fSusp, fCloseSide, fPastFlag, fSC, fWD, fWC, fCQ, fBad, fDebt] at m1 m2 m3 m4 m5 m6 m7 m8 m9 m10 h6 h7 h13 h15 hb1 hb2 <;> refine ⟨rfl, h2, h3, h4, h5, ?_, ?_, ?_, ?_, ?_, ?_, ?_, ?_, ?_, ?_, ?_, ?_, ?_⟩ <;>
        caller_num hj
    · by_cases hq : closedSig > 0 <;> simp [hq] at hn <;> subst hn <;> simp [fActive, fSusp, fCloseSide, fPastFlag, fSC, fWD, fWC, fCQ, fBad, fDebt] at m1 m2 m3 m4 m5 m6 m7 m8 m9 m10 h6 h7 h13 h15 hb1 hb2 <;> refine ⟨rfl, h2, h3, h4, h5, ?_, ?_, ?_, ?_, ?_, ?_, ?_, ?_, ?_, ?_, ?_, ?_, ?_⟩ <;>
        caller_num hj
    -- closeQuit
    · simp [fBad] at m9; omega
    · simp at hn; subst hn; simp [fActive, fSusp, fCloseSide, fPastFlag, fSC, fWD, fWC, fCQ, fBad, fDebt] at m1 m2 m3 m4 m5 m6 m7 m8 m9 m10 h6 h7 h13 h15 hb1 hb2; refine ⟨rfl, h2, h3, h4, h5, ?_, ?_, ?_, ?_, ?_, ?_, ?_, ?_, ?_, ?_, ?_, ?_, ?_⟩ <;>
        caller_num hj
    -- returned
    · simp at hn
    · simp at hn

/-! ### environment labels -/

/-- All callers have returned. -/
def idle (s : SSys) : Prop := sumBy fUnret s.callers = 0

theorem sumBy_le_unret (f : Caller → Nat) (hf : ∀ c, f c ≤ fUnret c) : ∀ l, sumBy f l ≤ sumBy fUnret l
  | [] => by simp [sumBy]
  | c :: r => by have := hf c; have := sumBy_le_unret f hf r; simp [sumBy]; omega

theorem sumBy_zero_of_unret (f : Caller → Nat) (hf : ∀ c, fUnret c = 0 → f c = 0) : ∀ l, sumBy fUnret l = 0 → sumBy f l = 0
  | [], _ => by simp [sumBy]
  | c :: r, h => by
      simp [sumBy] at h
      simp [sumBy, hf c h.1, sumBy_zero_of_unret f hf r h.2]

macro "env_num" : tactic =>
  `(tactic| (simp only [sumBy_append, sumBy, fActive, fSusp, fCloseSide, fPastFlag, fCS, fSC, fWD, fWC, fCQ, fUnret, fBad, fDebt,
      pT, pX, pE, pD, pR, emptyN, iDone, inFlight, ppcPosts, ipcPosts, toksPosts, inbufPosts, eofCount,
      b2n_true, b2n_false, List.length_cons, List.length_nil, List.length_append, Nat.sub_zero, Nat.add_zero, implies_true] at * <;> omega))

/-- `Close()` may be called by any goroutine (other than the input goroutine) at any time, except
while the main goroutine is inside a bare `Suspend()`. -/
theorem inv_callClose (s s' : SSys) (h : Inv s) (hn : snext s .callClose = some s')
    (hseq : sumBy fSusp s.callers = 0) (hroom : RoomOK s') : Inv s' := by
  obtain ⟨h1, h2, h3, h4, h5, h6, h7, h8, h9, h10, h11, h12, h13, h14, h15, h16, h17, h18⟩ := h
  obtain ⟨qcap, queueLen, consumer, inbuf, ppc, seqs, seqsClosed, closeSig, closedSig, ipc, killSig, callers, closedFlag,
    suspendedFlag, quitCloses, da1Pending, da1First, resumeClears⟩ := s
  simp only [snext, Option.some.injEq] at hn
  subst hn
  refine ⟨h1, h2, h3, h4, h5, ?_, ?_, ?_, ?_, ?_, ?_, h12, ?_, ?_, ?_, h16, ?_, hroom⟩ <;> env_num

/-- The main goroutine calls `Suspend()` when nobody is inside `Close`/`Suspend`. -/
theorem inv_callSuspend (s s' : SSys) (h : Inv s) (hn : snext s .callSuspend = some s')
    (hidle : idle s) (hroom : RoomOK s') : Inv s' := by
  have e1 := sumBy_le_unret fCloseSide (fun c => by obtain ⟨pc, k⟩ := c; cases pc <;> cases k <;> simp [fCloseSide, fUnret]) s.callers
  have e2 := sumBy_le_unret fSusp (fun c => by obtain ⟨pc, k⟩ := c; cases pc <;> cases k <;> simp [fSusp, fUnret]) s.callers
  obtain ⟨h1, h2, h3, h4, h5, h6, h7, h8, h9, h10, h11, h12, h13, h14, h15, h16, h17, h18⟩ := h
  obtain ⟨qcap, queueLen, consumer, inbuf, ppc, seqs, seqsClosed, closeSig, closedSig, ipc, killSig, callers, closedFlag,
    suspendedFlag, quitCloses, da1Pending, da1First, resumeClears⟩ := s
  simp only [snext, Option.some.injEq] at hn
  subst hn
  simp only [idle] at hidle
  refine ⟨h1, h2, h3, h4, h5, ?_, ?_, ?_, ?_, ?_, ?_, h12, ?_, ?_, ?_, h16, ?_, hroom⟩ <;> env_num

/-- The main goroutine calls `Resume()` after `Suspend()` has returned (nobody inside
`Close`/`Suspend`, the session not closed). -/
theorem inv_resume (s s' : SSys) (h : Inv s) (hn : snext s .resume = some s')
    (hidle : idle s) (hopen : s.closedFlag = false) : Inv s' := by
  have e1 := sumBy_le_unret fSC (fun c => by obtain ⟨pc, k⟩ := c; cases pc <;> simp [fSC, fUnret]) s.callers
  have e2 := sumBy_le_unret fWD (fun c => by obtain ⟨pc, k⟩ := c; cases pc <;> simp [fWD, fUnret]) s.callers
  have e3 := sumBy_le_unret fWC (fun c => by obtain ⟨pc, k⟩ := c; cases pc <;> simp [fWC, fUnret]) s.callers
  have e4 := sumBy_le_unret fCQ (fun c => by obtain ⟨pc, k⟩ := c; cases pc <;> simp [fCQ, fUnret]) s.callers
  have e5 := sumBy_le_unret fActive (fun c => by obtain ⟨pc, k⟩ := c; cases pc <;> cases k <;> simp [fActive, fUnret]) s.callers
  have e6 : sumBy fDebt s.callers = 0 := sumBy_zero_of_unret fDebt (fun c => by obtain ⟨pc, k⟩ := c; cases pc <;> simp [fDebt, fUnret]) s.callers hidle
  obtain ⟨h1, h2, h3, h4, h5, h6, h7, h8, h9, h10, h11, h12, h13, h14, h15, h16, h17, h18⟩ := h
  obtain ⟨qcap, queueLen, consumer, inbuf, ppc, seqs, seqsClosed, closeSig, closedSig, ipc, killSig, callers, closedFlag,
    suspendedFlag, quitCloses, da1Pending, da1First, resumeClears⟩ := s
  simp only [snext] at hn
  split at hn <;> simp only [Option.some.injEq, reduceCtorEq] at hn
  rename_i hc
  simp only [Bool.and_eq_true, beq_iff_eq] at hc
  obtain ⟨hc1, hc2⟩ := hc
  subst hc1; subst hc2; subst hn
  simp only at h2 hopen; subst h2; subst hopen
  simp only [idle] at hidle
  refine ⟨h1, rfl, h3, by simp, h5, h6, h7, h8, h9, h10, ?_, ?_, ?_, ?_, ?_, ?_, ?_, ?_⟩ <;> env_num

end VaxisModel.Lemmas.ConcInv
