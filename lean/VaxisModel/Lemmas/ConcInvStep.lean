import VaxisModel.Lemmas.ConcInv

/-! Preservation of the shutdown invariant by every label (scheduler labels unconditionally,
environment labels under their side conditions). -/
namespace VaxisModel.Lemmas.ConcInv
open VaxisModel.Model.Conc VaxisModel.Lemmas.ConcMeasure

macro "inv_num" : tactic =>
  `(tactic| (simp only [pT, pX, pE, pD, pR, emptyN, b2n_true, b2n_false, List.length_cons, List.length_nil,
      List.length_append] at * <;> omega))

theorem inv_parser (s s' : SSys) (h : Inv s) (hn : snext s .parser = some s') : Inv s' := by
  obtain ⟨h1, h2, h3, h4, h5, h6, h7, h8, h9, h10, h11, h12, h13, h14⟩ := h
  obtain ⟨qcap, queueLen, consumer, inbuf, ppc, seqs, seqsClosed, closeSig, closedSig, ipc, killSig, winchSig, olds, callers, closedFlag,
    suspendedFlag, suspLock, quitCloses, da1Pending, da1First, resumeClears, waitDrains, postQuitArm⟩ := s
  have hb1 := b2n_le closedFlag; have hb2 := b2n_le suspendedFlag; have hb3 := b2n_le seqsClosed
  simp only [snext] at hn
  split at hn
  · split at hn <;> simp only [Option.some.injEq] at hn <;> subst hn <;>
      refine ⟨h1, h2, h3, h4, h5, h6, ?_, ?_, ?_, ?_, h11, ?_, ?_, h14⟩ <;> inv_num
  · split at hn <;> simp only [Option.some.injEq, reduceCtorEq] at hn <;> subst hn <;>
      refine ⟨h1, h2, h3, h4, h5, h6, ?_, ?_, ?_, ?_, h11, ?_, ?_, h14⟩ <;> inv_num
  · split at hn <;> simp only [Option.some.injEq, reduceCtorEq] at hn <;> subst hn <;>
      refine ⟨h1, h2, h3, h4, h5, h6, ?_, ?_, ?_, ?_, h11, ?_, ?_, h14⟩ <;> inv_num
  · split at hn <;> simp only [Option.some.injEq, reduceCtorEq] at hn <;> subst hn <;>
      refine ⟨h1, h2, h3, h4, h5, h6, ?_, ?_, ?_, ?_, h11, ?_, ?_, h14⟩ <;> inv_num
  · split at hn <;> simp only [Option.some.injEq, reduceCtorEq] at hn <;> subst hn <;>
      refine ⟨h1, h2, h3, h4, h5, h6, ?_, ?_, ?_, ?_, h11, ?_, ?_, h14⟩ <;> inv_num
  · simp at hn

theorem inv_consume (s s' : SSys) (h : Inv s) (hn : snext s .consume = some s') : Inv s' := by
  simp only [snext] at hn
  split at hn <;> simp only [Option.some.injEq, reduceCtorEq] at hn
  subst hn
  exact inv_queueLen s _ h

theorem inv_termReply (s s' : SSys) (h : Inv s) (hn : snext s .termReply = some s') : Inv s' := by
  obtain ⟨h1, h2, h3, h4, h5, h6, h7, h8, h9, h10, h11, h12, h13, h14⟩ := h
  obtain ⟨qcap, queueLen, consumer, inbuf, ppc, seqs, seqsClosed, closeSig, closedSig, ipc, killSig, winchSig, olds, callers, closedFlag,
    suspendedFlag, suspLock, quitCloses, da1Pending, da1First, resumeClears, waitDrains, postQuitArm⟩ := s
  have hp1 := pR_le ppc; have hp2 := pX_le ppc; have hp3 := pD_le ppc; have hp4 := pE_le ppc
  simp only [snext] at hn
  split at hn <;> simp only [Option.some.injEq, reduceCtorEq] at hn
  subst hn
  refine ⟨h1, h2, h3, h4, h5, h6, h7, h8, h9, h10, h11, h12, ?_, h14⟩ <;> inv_num

/-- New terminal input keeps the invariant — at any time, any amount, whoever consumes or not. -/
theorem inv_termInput (s s' : SSys) (u : Option Nat) (h : Inv s) (hn : snext s (.termInput u) = some s') : Inv s' := by
  obtain ⟨h1, h2, h3, h4, h5, h6, h7, h8, h9, h10, h11, h12, h13, h14⟩ := h
  obtain ⟨qcap, queueLen, consumer, inbuf, ppc, seqs, seqsClosed, closeSig, closedSig, ipc, killSig, winchSig, olds, callers, closedFlag,
    suspendedFlag, suspLock, quitCloses, da1Pending, da1First, resumeClears, waitDrains, postQuitArm⟩ := s
  have hp1 := pR_le ppc; have hp2 := pX_le ppc; have hp3 := pD_le ppc; have hp4 := pE_le ppc
  simp only [snext, Option.some.injEq] at hn
  subst hn
  refine ⟨h1, h2, h3, h4, h5, h6, h7, h8, h9, h10, h11, h12, ?_, h14⟩
  inv_num

/-- SIGWINCH at any time. -/
theorem inv_winch (s s' : SSys) (h : Inv s) (hn : snext s .winch = some s') : Inv s' := by
  simp only [snext] at hn
  split at hn <;> simp only [Option.some.injEq, reduceCtorEq] at hn
  subst hn
  exact inv_winchSig s _ h

macro "env_num" : tactic =>
  `(tactic| (simp only [sumBy_append, sumBy, fActive, fPastFlag, fCS, fSC, fWD, fWC, fCQ, fUnret, fBad, closeCaller,
      pT, pX, pE, pD, pR, emptyN, b2n_true, b2n_false, List.length_cons, List.length_nil, List.length_append, Nat.sub_zero,
      Nat.add_zero, implies_true] at * <;> omega))

/-- `Close()` starts on some goroutine — the application's, or an input goroutine (signal arm, panic
path) — at any time; `k` is what becomes of the pending kill signal. -/
theorem inv_addClose (s : SSys) (k : Bool) (h : Inv s) :
    Inv { s with killSig := k, callers := s.callers ++ [closeCaller] } := by
  obtain ⟨h1, h2, h3, h4, h5, h6, h7, h8, h9, h10, h11, h12, h13, h14⟩ := h
  obtain ⟨qcap, queueLen, consumer, inbuf, ppc, seqs, seqsClosed, closeSig, closedSig, ipc, killSig, winchSig, olds, callers, closedFlag,
    suspendedFlag, suspLock, quitCloses, da1Pending, da1First, resumeClears, waitDrains, postQuitArm⟩ := s
  refine ⟨h1, h2, h3, ?_, ?_, ?_, ?_, h8, ?_, ?_, ?_, h12, ?_, ?_⟩ <;> env_num

/-- What a step of an input goroutine does to the shared state. -/
theorem iact_shape (s s' : SSys) (v v' : IView) (a : IAct) (h : iact s v a = some (s', v')) :
    s' = s ∨ (∃ n, s' = { s with queueLen := n }) ∨ s' = { s with winchSig := false } ∨
    (s.killSig = true ∧ s' = { s with killSig := false, callers := s.callers ++ [closeCaller] }) ∨
    (a = .panic ∧ s' = { s with killSig := s.killSig, callers := s.callers ++ [closeCaller] }) := by
  obtain ⟨ipc, seqs, closed⟩ := v
  cases a <;> simp only [iact] at h
  · split at h
    · simp at h; exact Or.inl h.1.symm
    · simp at h; exact Or.inl h.1.symm
    · split at h <;> simp at h
      exact Or.inl h.1.symm
    · simp at h
  · split at h
    · split at h <;> simp at h
      rename_i hk
      exact Or.inr (Or.inr (Or.inr (Or.inl ⟨hk, h.1.symm⟩)))
    · simp at h
  · split at h
    · split at h <;> simp at h
      exact Or.inr (Or.inr (Or.inl h.1.symm))
    · simp at h
  · split at h
    · simp at h; exact Or.inl h.1.symm
    · split at h <;> simp at h
      exact Or.inr (Or.inl ⟨_, h.1.symm⟩)
    · simp at h
  · split at h
    · split at h <;> simp at h
      exact Or.inl h.1.symm
    · simp at h
  · split at h
    · simp at h; exact Or.inr (Or.inr (Or.inr (Or.inr ⟨rfl, h.1.symm⟩)))
    · simp at h

/-- The shared state after a step of an input goroutine satisfies the invariant. -/
theorem inv_iact (s s' : SSys) (v v' : IView) (a : IAct) (h : Inv s) (hi : iact s v a = some (s', v')) : Inv s' := by
  rcases iact_shape s s' v v' a hi with rfl | ⟨n, rfl⟩ | rfl | ⟨hk, rfl⟩ | ⟨ha, rfl⟩
  · exact h
  · exact inv_queueLen s n h
  · exact inv_winchSig s false h
  · exact inv_addClose s false h
  · exact inv_addClose s s.killSig h

theorem inv_input (s s' : SSys) (a : IAct) (h : Inv s) (hn : snext s (.input a) = some s') : Inv s' := by
  simp only [snext] at hn
  split at hn
  · rename_i s1 v hi
    simp only [Option.some.injEq] at hn; subst hn
    exact inv_ipc_seqs s1 _ _ (inv_iact s s1 _ v a h hi)
  · simp at hn

theorem inv_old (s s' : SSys) (j : Nat) (a : IAct) (h : Inv s) (hn : snext s (.old j a) = some s') : Inv s' := by
  simp only [snext] at hn
  split at hn
  · simp at hn
  · split at hn
    · rename_i s1 v hi
      simp only [Option.some.injEq] at hn; subst hn
      exact inv_olds s1 _ (inv_iact s s1 _ v a h hi)
    · simp at hn

theorem inv_drain (s s' : SSys) (j : Nat) (h : Inv s) (hn : snext s (.drain j) = some s') : Inv s' := by
  simp only [snext] at hn
  split at hn
  · simp at hn
  · split at hn
    · split at hn <;> simp only [Option.some.injEq, reduceCtorEq] at hn
      subst hn
      exact inv_seqs s _ h
    · simp at hn

theorem sumBy_set' (f : Caller → Nat) (l : List Caller) (j : Nat) (c c' : Caller) (h : l[j]? = some c) :
    sumBy f (l.set j c') = sumBy f l + f c' - f c := by
  have := sumBy_set f l j c c' h; omega

macro "caller_num" h:term : tactic =>
  `(tactic| (simp only [sumBy_set' _ _ _ _ _ $h, fActive, fPastFlag, fCS, fSC, fWD, fWC, fCQ, fUnret, fBad,
      pT, pX, pE, pD, pR, emptyN,
      b2n_true, b2n_false, List.length_cons, List.length_nil, List.length_append, Nat.sub_zero, Nat.add_zero, implies_true] <;> omega))

theorem inv_caller (s s' : SSys) (j : Nat) (h : Inv s) (hn : snext s (.caller j) = some s') : Inv s' := by
  obtain ⟨h1, h2, h3, h4, h5, h6, h7, h8, h9, h10, h11, h12, h13, h14⟩ := h
  obtain ⟨qcap, queueLen, consumer, inbuf, ppc, seqs, seqsClosed, closeSig, closedSig, ipc, killSig, winchSig, olds, callers, closedFlag,
    suspendedFlag, suspLock, quitCloses, da1Pending, da1First, resumeClears, waitDrains, postQuitArm⟩ := s
  have hp1 := pR_le ppc; have hp2 := pX_le ppc; have hp3 := pD_le ppc; have hp4 := pE_le ppc
  have hb1 := b2n_le closedFlag; have hb2 := b2n_le suspendedFlag; have hb3 := b2n_le suspLock
  dsimp only at *
  subst h1
  simp only [snext] at hn
  split at hn
  · simp at hn
  · rename_i c hj
    have hm : c ∈ callers := List.mem_of_getElem? hj
    have m1 := sumBy_pos_of_mem fActive callers c hm
    have m4 := sumBy_pos_of_mem fPastFlag callers c hm
    have m5 := sumBy_pos_of_mem fSC callers c hm
    have m6 := sumBy_pos_of_mem fWD callers c hm
    have m7 := sumBy_pos_of_mem fWC callers c hm
    have m8 := sumBy_pos_of_mem fCQ callers c hm
    have m9 := sumBy_pos_of_mem fBad callers c hm
    obtain ⟨pc, k⟩ := c
    simp only [pT, pX, pE, pD, pR, emptyN] at *
    cases pc <;> cases k <;> simp only [closeStep, afterGuard, afterSignal, afterDA1, afterSuspend] at hn
    -- checkFlag (bare Suspend: excluded by wellTyped; Close: test-and-set)
    · simp [fBad] at m9; omega
    · cases closedFlag <;> simp at hn <;> subst hn <;> simp [fActive, fPastFlag, fSC, fWD, fWC, fCQ, fBad] at m1 m4 m5 m6 m7 m8 m9 h4 h5 h9 h11 h14 hb1 hb2 hb3 <;> refine ⟨rfl, h2, h3, ?_, ?_, ?_, ?_, ?_, ?_, ?_, ?_, ?_, ?_, ?_⟩ <;>
        caller_num hj
    -- postQuit
    · simp [fBad] at m9; omega
    · by_cases hq : queueLen < qcap <;> simp [hq] at hn <;> subst hn <;> simp [fActive, fPastFlag, fSC, fWD, fWC, fCQ, fBad] at m1 m4 m5 m6 m7 m8 m9 h4 h5 h9 h11 h14 hb1 hb2 hb3 <;> refine ⟨rfl, h2, h3, ?_, ?_, ?_, ?_, ?_, ?_, ?_, ?_, ?_, ?_, ?_⟩ <;>
        caller_num hj
    -- checkSuspended
    · cases suspLock <;> cases suspendedFlag <;> simp at hn <;> subst hn <;> simp [fActive, fPastFlag, fSC, fWD, fWC, fCQ, fBad] at m1 m4 m5 m6 m7 m8 m9 h4 h5 h9 h11 h14 hb1 hb2 hb3 <;> refine ⟨rfl, h2, h3, ?_, ?_, ?_, ?_, ?_, ?_, ?_, ?_, ?_, ?_, ?_⟩ <;>
        caller_num hj
    · cases suspLock <;> cases suspendedFlag <;> simp at hn <;> subst hn <;> simp [fActive, fPastFlag, fSC, fWD, fWC, fCQ, fBad] at m1 m4 m5 m6 m7 m8 m9 h4 h5 h9 h11 h14 hb1 hb2 hb3 <;> refine ⟨rfl, h2, h3, ?_, ?_, ?_, ?_, ?_, ?_, ?_, ?_, ?_, ?_, ?_⟩ <;>
        caller_num hj
    -- signalClose
    · by_cases hq : closeSig < 1 <;> simp [hq] at hn <;> subst hn <;> simp [fActive, fPastFlag, fSC, fWD, fWC, fCQ, fBad] at m1 m4 m5 m6 m7 m8 m9 h4 h5 h9 h11 h14 hb1 hb2 hb3 <;> refine ⟨rfl, h2, h3, ?_, ?_, ?_, ?_, ?_, ?_, ?_, ?_, ?_, ?_, ?_⟩ <;>
        caller_num hj
    · by_cases hq : closeSig < 1 <;> simp [hq] at hn <;> subst hn <;> simp [fActive, fPastFlag, fSC, fWD, fWC, fCQ, fBad] at m1 m4 m5 m6 m7 m8 m9 h4 h5 h9 h11 h14 hb1 hb2 hb3 <;> refine ⟨rfl, h2, h3, ?_, ?_, ?_, ?_, ?_, ?_, ?_, ?_, ?_, ?_, ?_⟩ <;>
        caller_num hj
    -- writeDA1
    · simp at hn; subst hn; simp [fActive, fPastFlag, fSC, fWD, fWC, fCQ, fBad] at m1 m4 m5 m6 m7 m8 m9 h4 h5 h9 h11 h14 hb1 hb2 hb3; refine ⟨rfl, h2, h3, ?_, ?_, ?_, ?_, ?_, ?_, ?_, ?_, ?_, ?_, ?_⟩ <;>
        caller_num hj
    · simp at hn; subst hn; simp [fActive, fPastFlag, fSC, fWD, fWC, fCQ, fBad] at m1 m4 m5 m6 m7 m8 m9 h4 h5 h9 h11 h14 hb1 hb2 hb3; refine ⟨rfl, h2, h3, ?_, ?_, ?_, ?_, ?_, ?_, ?_, ?_, ?_, ?_, ?_⟩ <;>
        caller_num hj
    -- waitClosed
    · by_cases hq : closedSig > 0 <;> simp [hq] at hn <;> subst hn <;> simp [fActive, fPastFlag, fSC, fWD, fWC, fCQ, fBad] at m1 m4 m5 m6 m7 m8 m9 h4 h5 h9 h11 h14 hb1 hb2 hb3 <;> refine ⟨rfl, h2, h3, ?_, ?_, ?_, ?_, ?_, ?_, ?_, ?_, ?_, ?_, ?_⟩ <;>
        caller_num hj
    · by_cases hq : closedSig > 0 <;> simp [hq] at hn <;> subst hn <;> simp [fActive, fPastFlag, fSC, fWD, fWC, fCQ, fBad] at m1 m4 m5 m6 m7 m8 m9 h4 h5 h9 h11 h14 hb1 hb2 hb3 <;> refine ⟨rfl, h2, h3, ?_, ?_, ?_, ?_, ?_, ?_, ?_, ?_, ?_, ?_, ?_⟩ <;>
        caller_num hj
    -- closeQuit
    · simp [fBad] at m9; omega
    · simp at hn; subst hn; simp [fActive, fPastFlag, fSC, fWD, fWC, fCQ, fBad] at m1 m4 m5 m6 m7 m8 m9 h4 h5 h9 h11 h14 hb1 hb2 hb3; refine ⟨rfl, h2, h3, ?_, ?_, ?_, ?_, ?_, ?_, ?_, ?_, ?_, ?_, ?_⟩ <;>
        caller_num hj
    -- returned
    · simp at hn
    · simp at hn

/-! ### environment labels -/

/-- All callers have returned. -/
def idle (s : SSys) : Prop := sumBy fUnret s.callers = 0

theorem sumBy_le_unret (f : Caller → Nat) (hf : ∀ c, f c ≤ fUnret c) : ∀ l, sumBy f l ≤ sumBy fUnret l
  | [] => by simp [sumBy]
  | c :: r => by have := hf c; have := sumBy_le_unret f hf r; simp [sumBy]; omega

theorem sumBy_zero_of_unret (f : Caller → Nat) (hf : ∀ c, fUnret c = 0 → f c = 0) : ∀ l, sumBy fUnret l = 0 → sumBy f l = 0
  | [], _ => by simp [sumBy]
  | c :: r, h => by
      simp [sumBy] at h
      simp [sumBy, hf c h.1, sumBy_zero_of_unret f hf r h.2]

/-- `Close()` may be called by any goroutine at any time. -/
theorem inv_callClose (s s' : SSys) (h : Inv s) (hn : snext s .callClose = some s') : Inv s' := by
  simp only [snext, Option.some.injEq] at hn
  subst hn
  exact inv_addClose s s.killSig h

/-- A kill signal may arrive at any time. -/
theorem inv_signal (s s' : SSys) (h : Inv s) (hn : snext s .signal = some s') : Inv s' := by
  simp only [snext] at hn
  split at hn <;> simp only [Option.some.injEq, reduceCtorEq] at hn
  subst hn
  exact inv_killSig s true h

/-- `Suspend()` may be called by any goroutine at any time (it waits for `vx.suspendMu`). -/
theorem inv_callSuspend (s s' : SSys) (h : Inv s) (hn : snext s .callSuspend = some s') : Inv s' := by
  obtain ⟨h1, h2, h3, h4, h5, h6, h7, h8, h9, h10, h11, h12, h13, h14⟩ := h
  obtain ⟨qcap, queueLen, consumer, inbuf, ppc, seqs, seqsClosed, closeSig, closedSig, ipc, killSig, winchSig, olds, callers, closedFlag,
    suspendedFlag, suspLock, quitCloses, da1Pending, da1First, resumeClears, waitDrains, postQuitArm⟩ := s
  simp only [snext, Option.some.injEq] at hn
  subst hn
  refine ⟨h1, h2, h3, ?_, ?_, ?_, ?_, h8, ?_, ?_, ?_, h12, ?_, ?_⟩ <;> env_num

/-- The application calls `Resume()` after its `Suspend()` has returned (nobody inside
`Close`/`Suspend`, the session not closed) — whether or not the previous input goroutine has finished. -/
theorem inv_resume (s s' : SSys) (h : Inv s) (hn : snext s .resume = some s')
    (hidle : idle s) (hopen : s.closedFlag = false) : Inv s' := by
  have e0 := sumBy_le_unret fSC (fun c => by obtain ⟨pc, k⟩ := c; cases pc <;> simp [fSC, fUnret]) s.callers
  have e2 := sumBy_le_unret fWD (fun c => by obtain ⟨pc, k⟩ := c; cases pc <;> simp [fWD, fUnret]) s.callers
  have e3 := sumBy_le_unret fWC (fun c => by obtain ⟨pc, k⟩ := c; cases pc <;> simp [fWC, fUnret]) s.callers
  have e4 := sumBy_le_unret fCQ (fun c => by obtain ⟨pc, k⟩ := c; cases pc <;> simp [fCQ, fUnret]) s.callers
  have e5 := sumBy_le_unret fActive (fun c => by obtain ⟨pc, k⟩ := c; cases pc <;> cases k <;> simp [fActive, fUnret]) s.callers
  obtain ⟨h1, h2, h3, h4, h5, h6, h7, h8, h9, h10, h11, h12, h13, h14⟩ := h
  obtain ⟨qcap, queueLen, consumer, inbuf, ppc, seqs, seqsClosed, closeSig, closedSig, ipc, killSig, winchSig, olds, callers, closedFlag,
    suspendedFlag, suspLock, quitCloses, da1Pending, da1First, resumeClears, waitDrains, postQuitArm⟩ := s
  simp only [snext] at hn
  split at hn <;> simp only [Option.some.injEq, reduceCtorEq] at hn
  rename_i hc
  simp only [Bool.and_eq_true, beq_iff_eq, Bool.not_eq_true'] at hc
  obtain ⟨hc1, hc2⟩ := hc
  subst hc1; subst hc2; subst hn
  simp only at h2 hopen
  obtain ⟨h2a, h2b, h2c⟩ := h2
  subst h2a; subst hopen
  simp only [idle] at hidle
  refine ⟨h1, ⟨rfl, h2b, h2c⟩, h3, h4, h5, h6, ?_, ?_, ?_, ?_, ?_, ?_, ?_, ?_⟩ <;> (try simp only [↓reduceIte]) <;> env_num

end VaxisModel.Lemmas.ConcInv
