import VaxisModel.Model.Conc

/-!
# A variant function of the shutdown LTS

`mu s` strictly decreases on every label a scheduler may pick (`SLabel.sched`), in every state —
no invariant, no fairness assumption, any number of callers, any capacity, any pending input.
Hence every run of scheduler labels from `s` has at most `mu s` steps: absent new events from the
environment (terminal input, signals, new calls of `Close`/`Suspend`/`Resume`) the system always
comes to rest, and the question "does shutdown complete" is exactly "is the state of rest final".
-/
namespace VaxisModel.Lemmas.ConcMeasure
open VaxisModel.Model.Conc

/-- cost of one unit of terminal input -/
def unitW : Option Nat → Nat
  | none => 2
  | some k => 2 * k + 8

def inbufW : List (Option Nat) → Nat
  | [] => 0
  | u :: r => unitW u + inbufW r

def tokW : Tok → Nat
  | .seq k => 2 * k + 4
  | .eof => 1

def seqsW : List Tok → Nat
  | [] => 0
  | t :: r => tokW t + seqsW r

def ppcW : PPc → Nat
  | .done => 0
  | .signalClosed => 1
  | .emitEOF => 3
  | .reading => 4
  | .top => 5
  | .emitting k => 2 * k + 10

/-- cost of one outstanding DA1 query: its reply (`[none, none, some 1]`) plus the reply step -/
def da1W : Nat := 15

/-- rank of a program counter of `Close`/`Suspend`, for the two statement orders -/
def cpcW (da1First : Bool) : CPc → Nat
  | .returned => 0
  | .closeQuit => 1
  | .waitClosed => 2
  | .signalClose => if da1First then 3 else 4 + da1W
  | .writeDA1 => if da1First then 4 + da1W else 3 + da1W
  | .checkSuspended => 5 + da1W
  | .postQuit => 7 + da1W
  | .checkFlag => 8 + da1W

def ipcW : IPc → Nat
  | .done => 0
  | .select => 1
  | .posting k => 2 * k + 2

def callersW (b : Bool) : List Caller → Nat
  | [] => 0
  | c :: r => cpcW b c.pc + callersW b r

def oldsW : List Old → Nat
  | [] => 0
  | o :: r => ipcW o.ipc + seqsW o.seqs + oldsW r

/-- everything but the input goroutines and their channels -/
def muR (s : SSys) : Nat :=
  s.queueLen + inbufW s.inbuf + ppcW s.ppc + callersW s.da1First s.callers + da1W * s.da1Pending +
    (if s.killSig then cpcW s.da1First .checkFlag + 1 else 0) + (if s.winchSig then 5 else 0)

def mu (s : SSys) : Nat := muR s + ipcW s.ipc + seqsW s.seqs + oldsW s.olds

theorem inbufW_append (a b : List (Option Nat)) : inbufW (a ++ b) = inbufW a + inbufW b := by
  induction a with
  | nil => simp [inbufW]
  | cons u r ih => simp [inbufW, ih]; omega

theorem seqsW_append (a b : List Tok) : seqsW (a ++ b) = seqsW a + seqsW b := by
  induction a with
  | nil => simp [seqsW]
  | cons u r ih => simp [seqsW, ih]; omega

theorem callersW_append (b : Bool) (x y : List Caller) : callersW b (x ++ y) = callersW b x + callersW b y := by
  induction x with
  | nil => simp [callersW]
  | cons u r ih => simp [callersW, ih]; omega

theorem oldsW_append (x y : List Old) : oldsW (x ++ y) = oldsW x + oldsW y := by
  induction x with
  | nil => simp [oldsW]
  | cons u r ih => simp [oldsW, ih]; omega

theorem callersW_set (b : Bool) : ∀ (l : List Caller) (j : Nat) (c c' : Caller), l[j]? = some c →
    callersW b (l.set j c') + cpcW b c.pc = callersW b l + cpcW b c'.pc
  | [], j, c, c', h => by simp at h
  | x :: r, 0, c, c', h => by
      simp at h; subst h
      simp [callersW]; omega
  | x :: r, j + 1, c, c', h => by
      simp at h
      have := callersW_set b r j c c' h
      simp [callersW]; omega

theorem oldsW_set : ∀ (l : List Old) (j : Nat) (o o' : Old), l[j]? = some o →
    oldsW (l.set j o') + (ipcW o.ipc + seqsW o.seqs) = oldsW l + (ipcW o'.ipc + seqsW o'.seqs)
  | [], j, o, o', h => by simp at h
  | x :: r, 0, o, o', h => by
      simp at h; subst h
      simp [oldsW]; omega
  | x :: r, j + 1, o, o', h => by
      simp at h
      have := oldsW_set r j o o' h
      simp [oldsW]; omega

/-- One step of `Close`/`Suspend` lowers the caller's rank by more than it adds elsewhere. -/
theorem closeStep_dec (s s' : SSys) (k : Bool) (c c' : CPc) (h : closeStep s k c = some (s', c')) :
    s'.queueLen + da1W * s'.da1Pending + cpcW s.da1First c' < s.queueLen + da1W * s.da1Pending + cpcW s.da1First c ∧
    s'.inbuf = s.inbuf ∧ s'.seqs = s.seqs ∧ s'.ppc = s.ppc ∧ s'.ipc = s.ipc ∧ s'.callers = s.callers ∧
    s'.da1First = s.da1First ∧ s'.killSig = s.killSig ∧ s'.winchSig = s.winchSig ∧ s'.olds = s.olds := by
  cases c <;> simp only [closeStep] at h
  · -- checkFlag
    split at h <;> simp at h <;> obtain ⟨rfl, rfl⟩ := h <;> simp [cpcW, da1W]
  · -- postQuit
    simp at h; obtain ⟨rfl, rfl⟩ := h
    simp [cpcW, da1W]; split <;> omega
  · -- checkSuspended
    split at h
    · simp at h
    · split at h <;> simp at h <;> obtain ⟨rfl, rfl⟩ := h
      · cases k <;> simp [afterSuspend, cpcW, da1W]
      · cases hb : s.da1First <;> simp [afterGuard, cpcW, da1W, hb]
  · -- signalClose
    split at h
    · simp at h; obtain ⟨rfl, rfl⟩ := h
      cases hb : s.da1First <;> simp [afterSignal, cpcW, da1W, hb]
    · simp at h
  · -- writeDA1
    simp at h; obtain ⟨rfl, rfl⟩ := h
    cases hb : s.da1First <;> simp [afterDA1, cpcW, da1W, hb] <;> omega
  · -- waitClosed
    split at h
    · simp at h; obtain ⟨rfl, rfl⟩ := h
      cases k <;> simp [afterSuspend, cpcW, da1W]
    · simp at h
  · -- closeQuit
    simp at h; obtain ⟨rfl, rfl⟩ := h
    simp [cpcW]
  · simp at h

/-- One scheduler step of an input goroutine lowers its own rank (program counter and channel) by more
than it adds elsewhere (an event in the queue; `Close` on this goroutine as a new caller). -/
theorem iact_dec (s s' : SSys) (v v' : IView) (a : IAct) (ha : a.sched = true) (h : iact s v a = some (s', v')) :
    muR s' + ipcW v'.ipc + seqsW v'.seqs < muR s + ipcW v.ipc + seqsW v.seqs ∧
    s'.olds = s.olds ∧ s'.ipc = s.ipc ∧ s'.seqs = s.seqs := by
  obtain ⟨ipc, seqs, closed⟩ := v
  cases a <;> simp only [iact] at h <;> simp [IAct.sched] at ha
  · -- recv
    split at h
    · simp at h; obtain ⟨rfl, rfl⟩ := h; simp [ipcW, seqsW, tokW]; omega
    · simp at h; obtain ⟨rfl, rfl⟩ := h; simp [ipcW, seqsW, tokW]; omega
    · split at h <;> simp at h
      obtain ⟨rfl, rfl⟩ := h; simp [ipcW, seqsW]
    · simp at h
  · -- kill
    split at h
    · split at h <;> simp at h
      rename_i hk
      obtain ⟨rfl, rfl⟩ := h
      simp [muR, ipcW, hk, callersW_append, callersW, closeCaller]; omega
    · simp at h
  · -- winch
    split at h
    · split at h <;> simp at h
      rename_i hk
      obtain ⟨rfl, rfl⟩ := h
      simp [muR, ipcW, hk]
    · simp at h
  · -- step
    split at h
    · simp at h; obtain ⟨rfl, rfl⟩ := h; simp [ipcW]
    · split at h <;> simp at h
      obtain ⟨rfl, rfl⟩ := h; simp [muR, ipcW]; omega
    · simp at h
  · -- quit
    split at h
    · split at h <;> simp at h
      obtain ⟨rfl, rfl⟩ := h; simp [ipcW]
    · simp at h

/-- **The variant.** Every label a scheduler may pick strictly lowers `mu`, in every state. -/
theorem mu_decreases (s s' : SSys) (l : SLabel) (hl : l.sched = true) (h : snext s l = some s') : mu s' < mu s := by
  cases l <;> simp [SLabel.sched] at hl
  · -- termReply
    simp only [snext] at h
    split at h
    · simp at h; subst h
      simp only [mu, muR, inbufW_append, inbufW, unitW, da1W]
      omega
    · simp at h
  · -- parser
    simp only [snext] at h
    split at h
    · split at h <;> simp at h <;> subst h <;> simp_all [mu, muR, ppcW]
    · rename_i hp
      split at h
      · simp at h
      · rename_i r hb; simp at h; subst h; simp [mu, muR, ppcW, hp, hb, inbufW, unitW]; omega
      · rename_i k r hb; simp at h; subst h; simp [mu, muR, ppcW, hp, hb, inbufW, unitW]; omega
    · rename_i k hp
      split at h
      · simp at h; subst h; simp [mu, muR, ppcW, hp, seqsW_append, seqsW, tokW]; omega
      · simp at h
    · rename_i hp
      split at h
      · simp at h; subst h; simp [mu, muR, ppcW, hp, seqsW_append, seqsW, tokW]; omega
      · simp at h
    · rename_i hp
      split at h
      · simp at h; subst h; simp [mu, muR, ppcW, hp]
      · simp at h
    · simp at h
  · -- input a
    rename_i a
    simp only [snext] at h
    split at h
    · rename_i s1 v hi
      obtain ⟨h1, h2, h3, h4⟩ := iact_dec s s1 _ v a hl hi
      simp at h; subst h
      simp only [mu, muR, h2] at h1 ⊢
      omega
    · simp at h
  · -- old j a
    rename_i j a
    simp only [snext] at h
    split at h
    · simp at h
    · rename_i o hj
      split at h
      · rename_i s1 v hi
        obtain ⟨h1, h2, h3, h4⟩ := iact_dec s s1 _ v a hl hi
        simp at h; subst h
        have hset := oldsW_set s.olds j o ⟨v.ipc, v.seqs⟩ hj
        simp only [mu, muR, h2, h3, h4] at h1 hset ⊢
        omega
      · simp at h
  · -- consume
    simp only [snext] at h
    split at h
    · rename_i hc; simp at h; subst h; simp at hc; simp [mu, muR]; omega
    · simp at h
  · -- caller j
    rename_i j
    simp only [snext] at h
    split at h
    · simp at h
    · rename_i c hj
      split at h
      · rename_i s1 c' hc
        obtain ⟨h1, h2, h3, h4, h5, h6, h7, h8, h9, h10⟩ := closeStep_dec s s1 c.inClose c.pc c' hc
        simp at h; subst h
        have hset := callersW_set s.da1First s.callers j c { c with pc := c' } hj
        simp only [mu, muR, h2, h3, h4, h5, h6, h7, h8, h9, h10] at h1 hset ⊢
        omega
      · simp at h
  · -- drain j
    rename_i j
    simp only [snext] at h
    split at h
    · simp at h
    · split at h
      · rename_i t r hpc hs
        simp at h; obtain ⟨_, h⟩ := h; subst h
        have : 1 ≤ tokW t := by cases t <;> simp [tokW]
        simp only [mu, muR, hs, seqsW]
        omega
      · simp at h

/-- Every run of scheduler labels from `s` has at most `mu s` steps. -/
theorem sched_run_bounded : ∀ (ls : List SLabel) (s s' : SSys), (∀ l ∈ ls, l.sched = true) → srun s ls = some s' →
    ls.length + mu s' ≤ mu s
  | [], s, s', _, h => by simp [srun] at h; subst h; simp
  | l :: t, s, s', hl, h => by
      simp only [srun] at h
      cases hn : snext s l with
      | none => simp [hn] at h
      | some s1 =>
        simp only [hn] at h
        have h1 := mu_decreases s s1 l (hl l (by simp)) hn
        have h2 := sched_run_bounded t s1 s' (fun x hx => hl x (by simp [hx])) h
        simp; omega


/-- what the terminal input arriving during a run adds to the variant -/
def inputCost : List SLabel → Nat
  | [] => 0
  | .termInput u :: r => unitW u + inputCost r
  | _ :: r => inputCost r

def schedCount : List SLabel → Nat
  | [] => 0
  | l :: r => (if l.sched then 1 else 0) + schedCount r

/-- With terminal input arriving at any moments of the run: the number of scheduler steps is at
most the variant of the start state plus the cost of the input that arrived. Finite input ⇒ every
run is finite, however the arrivals are interleaved. -/
theorem run_bounded_with_input : ∀ (ls : List SLabel) (s s' : SSys),
    (∀ l ∈ ls, l.sched = true ∨ ∃ u, l = .termInput u) → srun s ls = some s' →
    schedCount ls + mu s' ≤ mu s + inputCost ls
  | [], s, s', _, h => by simp [srun] at h; subst h; simp [schedCount, inputCost]
  | l :: t, s, s', hl, h => by
      simp only [srun] at h
      cases hn : snext s l with
      | none => simp [hn] at h
      | some s1 =>
        simp only [hn] at h
        have ih := run_bounded_with_input t s1 s' (fun x hx => hl x (by simp [hx])) h
        rcases hl l (by simp) with hs | ⟨u, rfl⟩
        · have h1 := mu_decreases s s1 l hs hn
          have hc : inputCost (l :: t) = inputCost t := by cases l <;> simp [SLabel.sched] at hs <;> rfl
          simp only [schedCount, hs, if_true, hc]; omega
        · simp only [snext, Option.some.injEq] at hn; subst hn
          have hm : mu { s with inbuf := s.inbuf ++ [u] } = mu s + unitW u := by
            simp only [mu, muR, inbufW_append, inbufW]; omega
          simp only [schedCount, SLabel.sched, inputCost] at ih ⊢
          rw [hm] at ih
          simp; omega

end VaxisModel.Lemmas.ConcMeasure
