import VaxisModel.Lemmas.ConcInvStep

/-! The list of callers only grows, and whether an entry is a `Close` or a bare `Suspend` never
changes: a goroutine that has entered `Close` is still there (at some program counter) in every later
state. Used to join "the exit path was entered" with "every maximal run ends with every caller
returned" (`Props/C04Exit`). -/
namespace VaxisModel.Lemmas.ConcPersist
open VaxisModel.Model.Conc VaxisModel.Lemmas.ConcInv

/-- caller `j` exists and is a `Close` caller -/
def IsClose (s : SSys) (j : Nat) : Prop := ∃ c, s.callers[j]? = some c ∧ c.inClose = true

theorem isClose_append (s : SSys) (j : Nat) (x : List Caller) (k : Bool) (h : IsClose s j) :
    IsClose { s with killSig := k, callers := s.callers ++ x } j := by
  obtain ⟨c, hc, hk⟩ := h
  refine ⟨c, ?_, hk⟩
  have hj : j < s.callers.length := by
    rcases Nat.lt_or_ge j s.callers.length with h | h
    · exact h
    · have : s.callers[j]? = none := by simp; omega
      rw [this] at hc; simp at hc
  simp [List.getElem?_append_left hj, hc]

theorem closeStep_callers (s s1 : SSys) (k : Bool) (c c' : CPc) (h : closeStep s k c = some (s1, c')) : s1.callers = s.callers := by
  cases c <;> simp only [closeStep] at h
  · split at h <;> simp at h <;> obtain ⟨rfl, _⟩ := h <;> rfl
  · simp at h; obtain ⟨rfl, _⟩ := h; rfl
  · split at h
    · simp at h
    · split at h <;> simp at h <;> obtain ⟨rfl, _⟩ := h <;> rfl
  · split at h <;> simp at h; obtain ⟨rfl, _⟩ := h; rfl
  · simp at h; obtain ⟨rfl, _⟩ := h; rfl
  · split at h <;> simp at h; obtain ⟨rfl, _⟩ := h; rfl
  · simp at h; obtain ⟨rfl, _⟩ := h; rfl
  · simp at h

/-- Every label keeps every `Close` caller in place. -/
theorem isClose_step (s s' : SSys) (l : SLabel) (j : Nat) (h : IsClose s j) (hn : snext s l = some s') : IsClose s' j := by
  cases l with
  | termInput u => simp only [snext, Option.some.injEq] at hn; subst hn; exact h
  | termReply => simp only [snext] at hn; split at hn <;> simp at hn; subst hn; exact h
  | parser =>
    simp only [snext] at hn
    split at hn <;> (try split at hn) <;> simp at hn <;> subst hn <;> exact h
  | input a =>
    simp only [snext] at hn
    split at hn
    · rename_i s1 v hi
      simp at hn; subst hn
      rcases iact_shape s s1 _ v a hi with rfl | ⟨n, rfl⟩ | rfl | ⟨_, rfl⟩ | ⟨_, rfl⟩
      · exact h
      · exact h
      · exact h
      · exact isClose_append s j _ false h
      · exact isClose_append s j _ s.killSig h
    · simp at hn
  | old i a =>
    simp only [snext] at hn
    split at hn
    · simp at hn
    · split at hn
      · rename_i s1 v hi
        simp at hn; subst hn
        rcases iact_shape s s1 _ v a hi with rfl | ⟨n, rfl⟩ | rfl | ⟨_, rfl⟩ | ⟨_, rfl⟩
        · exact h
        · exact h
        · exact h
        · exact isClose_append s j _ false h
        · exact isClose_append s j _ s.killSig h
      · simp at hn
  | consume => simp only [snext] at hn; split at hn <;> simp at hn; subst hn; exact h
  | signal => simp only [snext] at hn; split at hn <;> simp at hn; subst hn; exact h
  | winch => simp only [snext] at hn; split at hn <;> simp at hn; subst hn; exact h
  | callClose =>
    simp only [snext, Option.some.injEq] at hn; subst hn
    exact isClose_append s j _ s.killSig h
  | callSuspend =>
    simp only [snext, Option.some.injEq] at hn; subst hn
    exact isClose_append s j _ s.killSig h
  | resume =>
    simp only [snext] at hn
    split at hn <;> simp at hn
    subst hn; exact h
  | drain i =>
    simp only [snext] at hn
    split at hn
    · simp at hn
    · split at hn
      · simp at hn; obtain ⟨_, hn⟩ := hn; subst hn; exact h
      · simp at hn
  | caller i =>
    simp only [snext] at hn
    split at hn
    · simp at hn
    · rename_i c hi
      split at hn
      · rename_i s1 c' hc
        have e1 := closeStep_callers s s1 c.inClose c.pc c' hc
        simp at hn; subst hn
        obtain ⟨d, hd, hk⟩ := h
        by_cases hij : i = j
        · subst hij
          rw [hi] at hd; simp at hd; subst hd
          have hlt : i < s.callers.length := by
            rcases Nat.lt_or_ge i s.callers.length with h | h
            · exact h
            · have : s.callers[i]? = none := by simp; omega
              rw [this] at hi; simp at hi
          exact ⟨{ c with pc := c' }, by simp [e1, hlt], hk⟩
        · exact ⟨d, by simp [e1, List.getElem?_set_ne hij, hd], hk⟩
      · simp at hn

theorem isClose_run : ∀ (ls : List SLabel) (s s' : SSys) (j : Nat), IsClose s j → srun s ls = some s' → IsClose s' j
  | [], s, s', j, h, hr => by simp [srun] at hr; subst hr; exact h
  | l :: t, s, s', j, h, hr => by
      simp only [srun] at hr
      cases hn : snext s l with
      | none => simp [hn] at hr
      | some s1 =>
        simp only [hn] at hr
        exact isClose_run t s1 s' j (isClose_step s s1 l j h hn) hr

/-- `Close` on the input goroutine (kill-signal arm or panic path) adds a `Close` caller. -/
theorem exit_adds_close (s s1 : SSys) (a : IAct) (ha : a = .kill ∨ a = .panic) (hn : snext s (.input a) = some s1) :
    IsClose s1 s.callers.length := by
  simp only [snext] at hn
  split at hn
  · rename_i s2 v hi
    simp at hn; subst hn
    rcases iact_shape s s2 _ v a hi with rfl | ⟨n, rfl⟩ | rfl | ⟨_, rfl⟩ | ⟨_, rfl⟩
    · exfalso
      rcases ha with rfl | rfl <;> simp only [iact] at hi <;> split at hi <;> (try split at hi) <;> simp at hi <;>
        (have := congrArg SSys.callers hi.1; simp at this)
    · exfalso
      rcases ha with rfl | rfl <;> simp only [iact] at hi <;> split at hi <;> (try split at hi) <;> simp at hi <;>
        (have := congrArg SSys.callers hi.1; simp at this)
    · exfalso
      rcases ha with rfl | rfl <;> simp only [iact] at hi <;> split at hi <;> (try split at hi) <;> simp at hi <;>
        (have := congrArg SSys.callers hi.1; simp at this)
    · exact ⟨closeCaller, by simp, rfl⟩
    · exact ⟨closeCaller, by simp, rfl⟩
  · simp at hn

end VaxisModel.Lemmas.ConcPersist
