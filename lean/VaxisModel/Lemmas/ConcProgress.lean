import VaxisModel.Lemmas.ConcInvStep
import VaxisModel.Lemmas.ConcShutdown

/-! In a state of rest the invariant forces every caller to have returned and, once suspended or
closed, the library's goroutines to be done. With the variant (`ConcMeasure`) this is "every
maximal run ends with shutdown completed". -/
namespace VaxisModel.Lemmas.ConcInv
open VaxisModel.Model.Conc VaxisModel.Lemmas.ConcMeasure VaxisModel.Lemmas.ConcShutdown

theorem quiescent_iff (s : SSys) (h : s.quiescent = true) :
    snext s .parser = none ∧ snext s .inputRecv = none ∧ snext s .inputStep = none ∧ snext s .termReply = none ∧
    snext s .consume = none ∧ ∀ j, snext s (.caller j) = none := by
  simp only [SSys.quiescent, Bool.and_eq_true, Option.isNone_iff_eq_none] at h
  refine ⟨stuck_internal s h.1 _ rfl, stuck_internal s h.1 _ rfl, stuck_internal s h.1 _ rfl, stuck_internal s h.1 _ rfl, h.2,
    fun j => stuck_internal s h.1 _ rfl⟩

/-- The input goroutine can move (possibly after the application receives an event) unless it is
done, or at its `select` with an empty channel. -/
theorem input_blocked (s : SSys) (h : Inv s) (h1 : snext s .inputRecv = none) (h2 : snext s .inputStep = none)
    (h3 : snext s .consume = none) : s.ipc = .done ∨ (s.ipc = .select ∧ s.seqs = []) := by
  have hroom := h.room
  have hq := h.qpos
  have hok := h.ipcOK
  obtain ⟨qcap, queueLen, consumer, inbuf, ppc, seqs, seqsClosed, closeSig, closedSig, ipc, killSig, callers, closedFlag,
    suspendedFlag, quitCloses, da1Pending, da1First, resumeClears⟩ := s
  dsimp only at *
  cases ipc with
  | done => exact Or.inl rfl
  | select =>
    refine Or.inr ⟨rfl, ?_⟩
    cases seqs with
    | nil => rfl
    | cons t r => cases t <;> simp [snext] at h1
  | closing c => exact absurd rfl (hok c)
  | posting k =>
    cases k with
    | zero => simp [snext] at h2
    | succ k =>
      simp only [snext] at h2 h3
      by_cases hlt : queueLen < qcap
      · simp [hlt] at h2
      · cases consumer
        · simp only [b2n_false, inFlight, ipcPosts] at hroom; omega
        · have : queueLen > 0 := by omega
          simp [this] at h3

theorem unret_of_mem (l : List Caller) (c : Caller) (hc : c ∈ l) (hne : c.pc ≠ .returned) : 1 ≤ sumBy fUnret l := by
  have := sumBy_pos_of_mem fUnret l c hc
  have h1 : fUnret c = 1 := by obtain ⟨pc, k⟩ := c; cases pc <;> simp_all [fUnret]
  omega

theorem exists_unret : ∀ (l : List Caller), 1 ≤ sumBy fUnret l → ∃ (j : Nat) (c : Caller), l[j]? = some c ∧ c.pc ≠ CPc.returned
  | [], h => by simp [sumBy] at h
  | c :: r, h => by
      by_cases hc : c.pc = .returned
      · have : fUnret c = 0 := by obtain ⟨pc, k⟩ := c; simp at hc; subst hc; simp [fUnret]
        simp [sumBy, this] at h
        obtain ⟨j, c', h1, h2⟩ := exists_unret r h
        exact ⟨j + 1, c', by simp [h1], h2⟩
      · exact ⟨0, c, by simp, hc⟩

/-- **Rest is completion.** In a state satisfying the invariant in which nothing a scheduler may
pick is enabled: every caller of `Close`/`Suspend` has returned; if the session is suspended (or
closed) the parser goroutine and the input goroutine are done; if it is closed, `chQuit` has been
closed exactly once. -/
theorem rest_is_done (s : SSys) (h : Inv s) (hq : s.quiescent = true) :
    sumBy fUnret s.callers = 0 ∧ (s.suspendedFlag = true → s.ppc = .done ∧ s.ipc = .done) ∧
    (s.closedFlag = true → s.quitCloses = 1 ∧ s.suspendedFlag = true) := by
  obtain ⟨q1, q2, q3, q4, q5, q6⟩ := quiescent_iff s hq
  have hin := input_blocked s h q2 q3 q5
  have hunret : sumBy fUnret s.callers = 0 := by
    cases hz : sumBy fUnret s.callers with
    | zero => rfl
    | succ n =>
      exfalso
      obtain ⟨j, c, hj, hne⟩ := exists_unret s.callers (by omega)
      have hm : c ∈ s.callers := List.mem_of_getElem? hj
      have m5 := sumBy_pos_of_mem fSC s.callers c hm
      have m7 := sumBy_pos_of_mem fWC s.callers c hm
      have m9 := sumBy_pos_of_mem fBad s.callers c hm
      have qj := q6 j
      obtain ⟨h1, h2, h3, h4, h5, h6, h7, h8, h9, h10, h11, h12, h13, h14, h15, h16, h17, h18⟩ := h
      obtain ⟨qcap, queueLen, consumer, inbuf, ppc, seqs, seqsClosed, closeSig, closedSig, ipc, killSig, callers, closedFlag,
        suspendedFlag, quitCloses, da1Pending, da1First, resumeClears⟩ := s
      dsimp only at *
      subst h1
      obtain ⟨pc, k⟩ := c
      simp only [snext, hj] at qj
      cases pc <;> simp [closeStep, afterGuard, afterSignal, afterDA1, afterSuspend] at qj hne
      · -- checkFlag
        cases closedFlag <;> simp at qj
      · -- checkSuspended
        cases suspendedFlag <;> simp at qj
      · -- signalClose blocked: somebody else's close signal is pending — impossible
        simp [fSC] at m5
        have hp2 := pX_le ppc
        by_cases hcs : closeSig = 0
        · simp [hcs] at qj
        · simp only [pT] at *; omega
      · -- waitClosed blocked
        simp [fWC] at m7
        by_cases hcs : 0 < closedSig
        · simp [hcs] at qj
        · have hcs0 : closedSig = 0 := by omega
          subst hcs0
          cases ppc with
          | top => simp [snext] at q1; split at q1 <;> simp at q1
          | reading =>
            cases inbuf with
            | cons u r => cases u <;> simp [snext] at q1
            | nil =>
              simp only [pT, pX, pD, pR, emptyN, List.length_nil] at *
              have : da1Pending > 0 := by omega
              simp [snext, this] at q4
          | emitting k =>
            rcases hin with hd | ⟨_, hs⟩
            · subst hd; simp only [pE, iDone] at h16; omega
            · subst hs; simp [snext] at q1
          | emitEOF =>
            rcases hin with hd | ⟨_, hs⟩
            · subst hd; simp only [pE, iDone] at h16; omega
            · subst hs; simp [snext] at q1
          | signalClosed => simp [snext] at q1
          | done => simp only [pT, pD] at *; omega
  refine ⟨hunret, ?_, ?_⟩
  · intro hs
    have e1 := sumBy_le_unret fSC (fun c => by obtain ⟨pc, k⟩ := c; cases pc <;> simp [fSC, fUnret]) s.callers
    have e2 := sumBy_le_unret fWD (fun c => by obtain ⟨pc, k⟩ := c; cases pc <;> simp [fWD, fUnret]) s.callers
    have e3 := sumBy_le_unret fWC (fun c => by obtain ⟨pc, k⟩ := c; cases pc <;> simp [fWC, fUnret]) s.callers
    have hsusp := h.susp
    have heof := h.eof
    rw [hs] at hsusp
    have hT : pT s = 1 := by simp only [b2n_true] at hsusp; omega
    have hD : s.ppc = .done := by
      cases hp : s.ppc <;> simp [pT, pD, hp] at hT
      rfl
    refine ⟨hD, ?_⟩
    rcases hin with hd | ⟨hi, hs'⟩
    · exact hd
    · rw [hD, hi, hs'] at heof; simp [pE, eofCount, iDone] at heof
  · intro hc
    have e5 := sumBy_le_unret fActive (fun c => by obtain ⟨pc, k⟩ := c; cases pc <;> cases k <;> simp [fActive, fUnret]) s.callers
    have hflag := h.flag
    have hafter := h.afterClose
    rw [hc] at hflag
    simp only [b2n_true] at hflag
    have hqc : s.quitCloses = 1 := by omega
    refine ⟨hqc, ?_⟩
    have := hafter (by omega)
    cases hsf : s.suspendedFlag <;> simp [hsf] at this ⊢


/-- A state in which some scheduler label is enabled is not at rest, and conversely. -/
theorem enabled_of_not_quiescent (s : SSys) (h : s.quiescent = false) : ∃ l s', l.sched = true ∧ snext s l = some s' := by
  apply Classical.byContradiction
  intro hno
  have hall : ∀ l, l.sched = true → snext s l = none := by
    intro l hl
    cases hs : snext s l with
    | none => rfl
    | some s' => exact absurd ⟨l, s', hl, hs⟩ hno
  have : s.quiescent = true := by
    simp only [SSys.quiescent, SSys.stuck, Bool.and_eq_true, Option.isNone_iff_eq_none, List.all_eq_true]
    exact ⟨⟨⟨⟨⟨⟨hall _ rfl, hall _ rfl⟩, hall _ rfl⟩, hall _ rfl⟩, hall _ rfl⟩, fun j _ => hall _ rfl⟩, hall _ rfl⟩
  rw [this] at h; exact absurd h (by simp)

/-- From every state some schedule leads to rest (the variant bounds its length). -/
theorem exists_rest : ∀ (n : Nat) (s : SSys), mu s ≤ n →
    ∃ ls s', (∀ l ∈ ls, l.sched = true) ∧ srun s ls = some s' ∧ s'.quiescent = true
  | 0, s, hn => by
      cases hq : s.quiescent with
      | true => exact ⟨[], s, by simp, rfl, hq⟩
      | false =>
        obtain ⟨l, s1, hl, hs⟩ := enabled_of_not_quiescent s hq
        have := mu_decreases s s1 l hl hs
        omega
  | n + 1, s, hn => by
      cases hq : s.quiescent with
      | true => exact ⟨[], s, by simp, rfl, hq⟩
      | false =>
        obtain ⟨l, s1, hl, hs⟩ := enabled_of_not_quiescent s hq
        have hd := mu_decreases s s1 l hl hs
        obtain ⟨ls, s', h1, h2, h3⟩ := exists_rest n s1 (by omega)
        refine ⟨l :: ls, s', ?_, ?_, h3⟩
        · intro x hx
          rcases List.mem_cons.mp hx with rfl | hx
          · exact hl
          · exact h1 x hx
        · simp [srun, hs, h2]

/-- The invariant is preserved by every label a scheduler may pick. -/
theorem inv_sched (s s' : SSys) (l : SLabel) (hl : l.sched = true) (h : Inv s) (hn : snext s l = some s') : Inv s' := by
  cases l <;> simp [SLabel.sched] at hl
  · exact inv_termReply s s' h hn
  · exact inv_parser s s' h hn
  · exact inv_inputRecv s s' h hn
  · exact inv_inputKill s s' h hn
  · exact inv_inputStep s s' h hn
  · exact inv_consume s s' h hn
  · exact inv_caller s s' _ h hn

theorem inv_sched_run : ∀ (ls : List SLabel) (s s' : SSys), (∀ l ∈ ls, l.sched = true) → Inv s → srun s ls = some s' → Inv s'
  | [], s, s', _, h, hr => by simp [srun] at hr; subst hr; exact h
  | l :: t, s, s', hl, h, hr => by
      simp only [srun] at hr
      cases hn : snext s l with
      | none => simp [hn] at hr
      | some s1 =>
        simp only [hn] at hr
        exact inv_sched_run t s1 s' (fun x hx => hl x (by simp [hx])) (inv_sched s s1 l (hl l (by simp)) h hn) hr

end VaxisModel.Lemmas.ConcInv
