import VaxisModel.Lemmas.ConcInvStep
import VaxisModel.Lemmas.ConcShutdown

/-! In a state of rest the invariant forces every caller to have returned and, once suspended or
closed, the library's goroutines to be done. With the variant (`ConcMeasure`) this is "every
maximal run ends with shutdown completed". -/
namespace VaxisModel.Lemmas.ConcInv
open VaxisModel.Model.Conc VaxisModel.Lemmas.ConcMeasure VaxisModel.Lemmas.ConcShutdown

/-- The only way an input goroutine whose parser has stopped can be at rest without being done: it is
inside a blocking post, the queue is full, the application does not receive, and `Close` has not
completed (`chQuit` is open). The application's next receive releases it. -/
def postBlocked (s : SSys) (i : IPc) : Prop :=
  ∃ k, i = .posting (k + 1) ∧ s.consumer = false ∧ s.qcap ≤ s.queueLen ∧ s.quitCloses = 0

/-- An input goroutine none of whose scheduler steps is enabled (and the application has nothing to
receive) is done, or waits at its `select` on an open empty channel, or is blocked in a post. -/
theorem iact_rest (s : SSys) (v : IView) (hq : 1 ≤ s.qcap) (hqa : s.postQuitArm = true) (hc : snext s .consume = none)
    (h : ∀ a, a.sched = true → iact s v a = none) :
    v.ipc = .done ∨ (v.ipc = .select ∧ v.seqs = [] ∧ v.closed = false) ∨ postBlocked s v.ipc := by
  obtain ⟨ipc, seqs, closed⟩ := v
  cases ipc with
  | done => exact Or.inl rfl
  | select =>
    have hr := h .recv rfl
    cases seqs with
    | cons t r => cases t <;> simp [iact] at hr
    | nil =>
      cases closed with
      | true => simp [iact] at hr
      | false => exact Or.inr (Or.inl ⟨rfl, rfl, rfl⟩)
  | posting k =>
    have hs := h .step rfl
    have hqt := h .quit rfl
    cases k with
    | zero => simp [iact] at hs
    | succ k =>
      refine Or.inr (Or.inr ⟨k, rfl, ?_⟩)
      simp only [iact] at hs hqt
      simp only [snext] at hc
      have h1 : ¬ s.queueLen < s.qcap := by intro hlt; simp [hlt] at hs
      have h2 : s.quitCloses = 0 := by
        cases hz : s.quitCloses with
        | zero => rfl
        | succ n => simp [hz, hqa] at hqt
      refine ⟨?_, by omega, h2⟩
      cases hcons : s.consumer with
      | false => rfl
      | true =>
        have : s.queueLen > 0 := by omega
        simp [hcons, this] at hc

theorem unret_of_mem (l : List Caller) (c : Caller) (hc : c ∈ l) (hne : c.pc ≠ .returned) : 1 ≤ sumBy fUnret l := by
  have := sumBy_pos_of_mem fUnret l c hc
  have h1 : fUnret c = 1 := by obtain ⟨pc, k⟩ := c; cases pc <;> simp_all [fUnret]
  omega

theorem exists_unret : ∀ (l : List Caller), 1 ≤ sumBy fUnret l → ∃ (j : Nat) (c : Caller), l[j]? = some c ∧ c.pc ≠ CPc.returned
  | [], h => by simp [sumBy] at h
  | c :: r, h => by
      by_cases hc : c.pc = .returned
      · have : fUnret c = 0 := by obtain ⟨pc, k⟩ := c; simp at hc; subst hc; simp [fUnret]
        simp [sumBy, this] at h
        obtain ⟨j, c', h1, h2⟩ := exists_unret r h
        exact ⟨j + 1, c', by simp [h1], h2⟩
      · exact ⟨0, c, by simp, hc⟩

theorem exists_pos (f : Caller → Nat) : ∀ (l : List Caller), 1 ≤ sumBy f l → ∃ (j : Nat) (c : Caller), l[j]? = some c ∧ 1 ≤ f c
  | [], h => by simp [sumBy] at h
  | c :: r, h => by
      by_cases hc : 1 ≤ f c
      · exact ⟨0, c, by simp, hc⟩
      · have : f c = 0 := by omega
        simp [sumBy, this] at h
        obtain ⟨j, c', h1, h2⟩ := exists_pos f r h
        exact ⟨j + 1, c', by simp [h1], h2⟩

/-- A caller inside `Suspend`'s critical section (close signal to send, DA1 query to write, or waiting
in `WaitClose`) can always move, or a label of the parser / the terminal is enabled. -/
theorem critical_moves (s : SSys) (h : Inv s) (hq : s.quiescent = true) (j : Nat) (c : Caller) (hj : s.callers[j]? = some c)
    (hc : c.pc = .signalClose ∨ c.pc = .writeDA1 ∨ c.pc = .waitClosed) : False := by
  have q1 := quiescent_sched s hq .parser rfl
  have q4 := quiescent_sched s hq .termReply rfl
  have hm : c ∈ s.callers := List.mem_of_getElem? hj
  have m5 := sumBy_pos_of_mem fSC s.callers c hm
  have m7 := sumBy_pos_of_mem fWC s.callers c hm
  have qj := quiescent_sched s hq (.caller j) rfl
  have qd := quiescent_sched s hq (.drain j) rfl
  obtain ⟨h1, h2, h3, h4, h5, h6, h7, h8, h9, h10, h11, h12, h13, h14⟩ := h
  obtain ⟨qcap, queueLen, consumer, inbuf, ppc, seqs, seqsClosed, closeSig, closedSig, ipc, killSig, winchSig, olds, callers, closedFlag,
        suspendedFlag, suspLock, quitCloses, da1Pending, da1First, resumeClears, waitDrains, postQuitArm⟩ := s
  dsimp only at *
  subst h1
  obtain ⟨pc, k⟩ := c
  simp only [snext, hj] at qj qd
  simp only at hc
  rcases hc with rfl | rfl | rfl
  · -- signalClose blocked: somebody else's close signal is pending — impossible
    simp [fSC] at m5
    have hp2 := pX_le ppc
    by_cases hcs : closeSig = 0
    · simp [closeStep, hcs] at qj
    · simp only [pT] at *; omega
  · -- writeDA1 is never blocked
    simp [closeStep] at qj
  · -- waitClosed blocked: no closed token, and nothing in the channel to discard
    simp [fWC] at m7
    have hseqs : seqs = [] := by
      cases seqs with
      | nil => rfl
      | cons t r => simp [h2.2.1] at qd
    subst hseqs
    have hcs0 : closedSig = 0 := by
      by_cases hcs : 0 < closedSig
      · simp [closeStep, hcs] at qj
      · omega
    subst hcs0
    cases ppc with
    | top => simp [snext] at q1; split at q1 <;> simp at q1
    | reading =>
      cases inbuf with
      | cons u r => cases u <;> simp [snext] at q1
      | nil =>
        simp only [pT, pX, pD, pR, emptyN, List.length_nil] at *
        have : da1Pending > 0 := by omega
        simp [snext, this] at q4
    | emitting k => simp [snext] at q1
    | emitEOF => simp [snext] at q1
    | signalClosed => simp [snext] at q1
    | done => simp only [pT, pD] at *; omega

/-- At rest nobody holds `vx.suspendMu`. -/
theorem rest_lock_free (s : SSys) (h : Inv s) (hq : s.quiescent = true) : s.suspLock = false := by
  cases hl : s.suspLock with
  | false => rfl
  | true =>
    exfalso
    have hlock := h.lock
    rw [hl] at hlock
    simp only [b2n_true] at hlock
    have : 1 ≤ sumBy fSC s.callers ∨ 1 ≤ sumBy fWD s.callers ∨ 1 ≤ sumBy fWC s.callers := by omega
    rcases this with h1 | h1 | h1
    · obtain ⟨j, c, hj, hc⟩ := exists_pos fSC s.callers h1
      refine critical_moves s h hq j c hj (Or.inl ?_)
      obtain ⟨pc, k⟩ := c; cases pc <;> simp [fSC] at hc ⊢
    · obtain ⟨j, c, hj, hc⟩ := exists_pos fWD s.callers h1
      refine critical_moves s h hq j c hj (Or.inr (Or.inl ?_))
      obtain ⟨pc, k⟩ := c; cases pc <;> simp [fWD] at hc ⊢
    · obtain ⟨j, c, hj, hc⟩ := exists_pos fWC s.callers h1
      refine critical_moves s h hq j c hj (Or.inr (Or.inr ?_))
      obtain ⟨pc, k⟩ := c; cases pc <;> simp [fWC] at hc ⊢

/-- **Every caller returns.** In a state satisfying the invariant in which nothing a scheduler may
pick is enabled, every caller of `Close`/`Suspend` has returned. -/
theorem rest_all_returned (s : SSys) (h : Inv s) (hq : s.quiescent = true) : sumBy fUnret s.callers = 0 := by
  have hfree := rest_lock_free s h hq
  cases hz : sumBy fUnret s.callers with
  | zero => rfl
  | succ n =>
      exfalso
      obtain ⟨j, c, hj, hne⟩ := exists_unret s.callers (by omega)
      have hm : c ∈ s.callers := List.mem_of_getElem? hj
      have m9 := sumBy_pos_of_mem fBad s.callers c hm
      have qj := quiescent_sched s hq (.caller j) rfl
      by_cases hcrit : c.pc = .signalClose ∨ c.pc = .writeDA1 ∨ c.pc = .waitClosed
      · exact critical_moves s h hq j c hj hcrit
      · obtain ⟨pc, k⟩ := c
        simp only [snext, hj] at qj
        simp only at hcrit hne
        cases pc <;> simp [closeStep, afterGuard, afterSignal, afterDA1, afterSuspend] at qj hne hcrit
        · -- checkFlag
          cases hcf : s.closedFlag <;> simp [hcf] at qj
        · -- checkSuspended: the lock is free
          simp [hfree] at qj
          cases hsf : s.suspendedFlag <;> simp [hsf] at qj

theorem old_rest (s : SSys) (h : Inv s) (hq : s.quiescent = true) (o : Old) (ho : o ∈ s.olds) :
    o.ipc = .done ∨ postBlocked s o.ipc := by
  obtain ⟨j, hj⟩ := List.getElem?_of_mem ho
  have hc := quiescent_sched s hq .consume rfl
  have hall : ∀ a, a.sched = true → iact s ⟨o.ipc, o.seqs, true⟩ a = none := by
    intro a ha
    have := quiescent_sched s hq (.old j a) ha
    simp only [snext, hj] at this
    split at this
    · simp at this
    · assumption
  rcases iact_rest s ⟨o.ipc, o.seqs, true⟩ h.qpos h.clears.2.2 hc hall with h1 | ⟨_, _, h3⟩ | h1
  · exact Or.inl h1
  · simp at h3
  · exact Or.inr h1

/-- **Rest is completion.** In a state satisfying the invariant in which nothing a scheduler may
pick is enabled: every caller of `Close`/`Suspend` has returned; if the session is suspended (or
closed) the parser goroutine is done and the input goroutine is done — or blocked in a post the
application has not received (`postBlocked`); the input goroutines of earlier sessions likewise; if
the session is closed, `chQuit` has been closed exactly once and every input goroutine is done. -/
theorem rest_is_done (s : SSys) (h : Inv s) (hq : s.quiescent = true) :
    sumBy fUnret s.callers = 0 ∧
    (s.suspendedFlag = true → s.ppc = .done ∧ (s.ipc = .done ∨ postBlocked s s.ipc)) ∧
    (∀ o ∈ s.olds, o.ipc = .done ∨ postBlocked s o.ipc) ∧
    (s.closedFlag = true → s.quitCloses = 1 ∧ s.suspendedFlag = true ∧ s.ipc = .done ∧ ∀ o ∈ s.olds, o.ipc = .done) := by
  have hunret := rest_all_returned s h hq
  have hc := quiescent_sched s hq .consume rfl
  have hsusp : s.suspendedFlag = true → s.ppc = .done ∧ (s.ipc = .done ∨ postBlocked s s.ipc) := by
    intro hs
    have e1 := sumBy_le_unret fSC (fun c => by obtain ⟨pc, k⟩ := c; cases pc <;> simp [fSC, fUnret]) s.callers
    have e2 := sumBy_le_unret fWD (fun c => by obtain ⟨pc, k⟩ := c; cases pc <;> simp [fWD, fUnret]) s.callers
    have e3 := sumBy_le_unret fWC (fun c => by obtain ⟨pc, k⟩ := c; cases pc <;> simp [fWC, fUnret]) s.callers
    have hsusp := h.susp
    rw [hs] at hsusp
    have hT : pT s = 1 := by simp only [b2n_true] at hsusp; omega
    have hD : s.ppc = .done := by
      cases hp : s.ppc <;> simp [pT, pD, hp] at hT
      rfl
    refine ⟨hD, ?_⟩
    have hch := h.chan
    rw [hD] at hch
    have hcl : s.seqsClosed = true := by cases hx : s.seqsClosed <;> simp [hx, pD] at hch ⊢
    have hall : ∀ a, a.sched = true → iact s ⟨s.ipc, s.seqs, s.seqsClosed⟩ a = none := by
      intro a ha
      have := quiescent_sched s hq (.input a) ha
      simp only [snext] at this
      split at this
      · simp at this
      · assumption
    rcases iact_rest s ⟨s.ipc, s.seqs, s.seqsClosed⟩ h.qpos h.clears.2.2 hc hall with h1 | ⟨_, _, h3⟩ | h1
    · exact Or.inl h1
    · simp [hcl] at h3
    · exact Or.inr h1
  refine ⟨hunret, hsusp, fun o ho => old_rest s h hq o ho, ?_⟩
  intro hcf
  have e5 := sumBy_le_unret fActive (fun c => by obtain ⟨pc, k⟩ := c; cases pc <;> cases k <;> simp [fActive, fUnret]) s.callers
  have hflag := h.flag
  have hafter := h.afterClose
  rw [hcf] at hflag
  simp only [b2n_true] at hflag
  have hqc : s.quitCloses = 1 := by omega
  have hsf : s.suspendedFlag = true := by
    have := hafter (by omega)
    cases hsf : s.suspendedFlag <;> simp [hsf] at this ⊢
  have nb : ∀ i, ¬ postBlocked s i := by
    intro i ⟨k, _, _, _, h4⟩; omega
  refine ⟨hqc, hsf, ?_, ?_⟩
  · rcases (hsusp hsf).2 with h1 | h1
    · exact h1
    · exact absurd h1 (nb _)
  · intro o ho
    rcases old_rest s h hq o ho with h1 | h1
    · exact h1
    · exact absurd h1 (nb _)

/-- A state in which some scheduler label is enabled is not at rest, and conversely. -/
theorem enabled_of_not_quiescent (s : SSys) (h : s.quiescent = false) : ∃ l s', l.sched = true ∧ snext s l = some s' := by
  apply Classical.byContradiction
  intro hno
  have hall : ∀ l, l.sched = true → snext s l = none := by
    intro l hl
    cases hs : snext s l with
    | none => rfl
    | some s' => exact absurd ⟨l, s', hl, hs⟩ hno
  have : s.quiescent = true := by
    simp only [SSys.quiescent, List.all_eq_true, Option.isNone_iff_eq_none]
    exact fun l hl => hall l (schedLabels_sched s l hl)
  rw [this] at h; exact absurd h (by simp)

/-- From every state some schedule leads to rest (the variant bounds its length). -/
theorem exists_rest : ∀ (n : Nat) (s : SSys), mu s ≤ n →
    ∃ ls s', (∀ l ∈ ls, l.sched = true) ∧ srun s ls = some s' ∧ s'.quiescent = true
  | 0, s, hn => by
      cases hq : s.quiescent with
      | true => exact ⟨[], s, by simp, rfl, hq⟩
      | false =>
        obtain ⟨l, s1, hl, hs⟩ := enabled_of_not_quiescent s hq
        have := mu_decreases s s1 l hl hs
        omega
  | n + 1, s, hn => by
      cases hq : s.quiescent with
      | true => exact ⟨[], s, by simp, rfl, hq⟩
      | false =>
        obtain ⟨l, s1, hl, hs⟩ := enabled_of_not_quiescent s hq
        have hd := mu_decreases s s1 l hl hs
        obtain ⟨ls, s', h1, h2, h3⟩ := exists_rest n s1 (by omega)
        refine ⟨l :: ls, s', ?_, ?_, h3⟩
        · intro x hx
          rcases List.mem_cons.mp hx with rfl | hx
          · exact hl
          · exact h1 x hx
        · simp [srun, hs, h2]

/-- The invariant is preserved by every label a scheduler may pick. -/
theorem inv_sched (s s' : SSys) (l : SLabel) (hl : l.sched = true) (h : Inv s) (hn : snext s l = some s') : Inv s' := by
  cases l <;> simp [SLabel.sched] at hl
  · exact inv_termReply s s' h hn
  · exact inv_parser s s' h hn
  · rename_i a
    exact inv_input s s' a h hn
  · rename_i j a
    exact inv_old s s' j a h hn
  · exact inv_consume s s' h hn
  · exact inv_caller s s' _ h hn
  · exact inv_drain s s' _ h hn

theorem inv_sched_run : ∀ (ls : List SLabel) (s s' : SSys), (∀ l ∈ ls, l.sched = true) → Inv s → srun s ls = some s' → Inv s'
  | [], s, s', _, h, hr => by simp [srun] at hr; subst hr; exact h
  | l :: t, s, s', hl, h, hr => by
      simp only [srun] at hr
      cases hn : snext s l with
      | none => simp [hn] at hr
      | some s1 =>
        simp only [hn] at hr
        exact inv_sched_run t s1 s' (fun x hx => hl x (by simp [hx])) (inv_sched s s1 l (hl l (by simp)) h hn) hr

end VaxisModel.Lemmas.ConcInv
