import VaxisModel.Model.Conc

/-! Lemmas about the shutdown LTS. -/
namespace VaxisModel.Lemmas.ConcShutdown
open VaxisModel.Model.Conc

/-- In a stuck state no internal label is enabled. -/
theorem stuck_internal (s : SSys) (h : s.stuck = true) (l : SLabel) (hl : l.internal = true) : snext s l = none := by
  simp only [SSys.stuck, Bool.and_eq_true, Option.isNone_iff_eq_none, List.all_eq_true, List.mem_range] at h
  obtain ⟨⟨⟨⟨⟨hp, hr⟩, _⟩, hs⟩, ht⟩, hc⟩ := h
  cases l <;> simp [SLabel.internal] at hl
  · exact ht
  · exact hp
  · exact hr
  · exact hs
  · rename_i j
    by_cases hj : j < s.callers.length
    · exact hc j hj
    · have : s.callers[j]? = none := by simp; omega
      simp [snext, this]

/-- From a stuck state, no non-empty sequence of internal labels is a run: the library's goroutines
and the callers of `Close` stay where they are for ever. -/
theorem stuck_forever (s : SSys) (h : s.stuck = true) (l : SLabel) (ls : List SLabel) (hl : l.internal = true) :
    srun s (l :: ls) = none := by
  simp [srun, stuck_internal s h l hl]

/-! ### the shutdown run -/

def toksPosts : List Tok → Nat
  | [] => 0
  | .seq k :: r => k + toksPosts r
  | .eof :: r => toksPosts r

def ipcPosts : IPc → Nat
  | .posting k => k
  | _ => 0

theorem srun_append : ∀ (a b : List SLabel) (s s' : SSys), srun s a = some s' → srun s (a ++ b) = srun s' b
  | [], _, s, s', h => by simp [srun] at h; subst h; rfl
  | l :: t, b, s, s', h => by
      simp only [srun, List.cons_append] at h ⊢
      cases hn : snext s l with
      | none => simp [hn] at h
      | some s1 => simp only [hn] at h ⊢; exact srun_append t b s1 s' h

theorem post_k : ∀ (k : Nat) (s : SSys), s.ipc = .posting k → s.queueLen + k ≤ s.qcap →
    srun s (List.replicate (k + 1) .inputStep) = some { s with ipc := .select, queueLen := s.queueLen + k }
  | 0, s, hi, _ => by
      simp [List.replicate, srun, snext, hi]
  | k + 1, s, hi, hr => by
      have hlt : s.queueLen < s.qcap := by omega
      have ih := post_k k { s with queueLen := s.queueLen + 1, ipc := .posting k } rfl (by simp; omega)
      rw [List.replicate_succ]
      simp only [srun, snext, hi, hlt, if_true]
      rw [ih]
      simp
      omega

theorem drain : ∀ (toks : List Tok) (s : SSys), s.seqs = toks → s.ipc = .select → (∀ t ∈ toks, t ≠ .eof) →
    s.queueLen + toksPosts toks ≤ s.qcap →
    ∃ ls, (∀ l ∈ ls, l.internal = true) ∧
      srun s ls = some { s with seqs := [], queueLen := s.queueLen + toksPosts toks }
  | [], s, hs, hi, _, _ => ⟨[], by simp, by simp [srun, toksPosts, ← hs]⟩
  | .eof :: r, s, _, _, hne, _ => absurd rfl (hne .eof (by simp))
  | .seq k :: r, s, hs, hi, hne, hr => by
      simp only [toksPosts] at hr
      have h1 : snext s .inputRecv = some { s with seqs := r, ipc := .posting k } := by simp [snext, hi, hs]
      have h2 := post_k k { s with seqs := r, ipc := .posting k } rfl (by simp; omega)
      obtain ⟨ls, hint, h3⟩ := drain r { s with seqs := r, ipc := .select, queueLen := s.queueLen + k } rfl rfl
        (fun t ht => hne t (by simp [ht])) (by simp; omega)
      refine ⟨.inputRecv :: (List.replicate (k + 1) .inputStep ++ ls), ?_, ?_⟩
      · intro l hl
        simp only [List.mem_cons, List.mem_append, List.mem_replicate] at hl
        rcases hl with rfl | ⟨_, rfl⟩ | hl
        · rfl
        · rfl
        · exact hint l hl
      · simp only [srun, h1]
        rw [srun_append _ _ _ _ h2, h3]
        cases s
        simp [toksPosts] at hi ⊢
        exact ⟨by omega, hi.symm⟩

/-- The state every hypothesis-satisfying state is driven to first: input goroutine at its select,
channel empty, one caller about to run `Close`, parser at program counter `pp`. -/
def calm (q n : Nat) (c ks : Bool) (qc : Nat) (ib : List (Option Nat)) (pp : PPc) : SSys :=
  { qcap := q, queueLen := n, consumer := c, inbuf := ib, ppc := pp, seqs := [], seqsClosed := false, closeSig := 0,
    closedSig := 0, ipc := .select, killSig := ks, callers := [.checkFlag], closedFlag := false, suspendedFlag := false,
    quitCloses := qc, da1Pending := 0 }

def closeFromReading : List SLabel :=
  [.caller 0, .caller 0, .caller 0, .caller 0, .caller 0, .caller 0,   -- check, quit event, flag, suspended, close signal, DA1
   .termReply, .parser, .parser,                                       -- the reply wakes the parser; it takes the signal
   .parser, .parser,                                                   -- EOF; closed <- true
   .inputRecv,                                                         -- the input goroutine returns on EOF
   .caller 0, .caller 0]                                               -- WaitClose returns; close(chQuit)

def closeFromTop : List SLabel :=
  [.caller 0, .caller 0, .caller 0, .caller 0, .caller 0, .caller 0,
   .parser, .parser, .parser, .inputRecv, .caller 0, .caller 0]

theorem close_from_reading (q n : Nat) (c ks : Bool) (qc : Nat) :
    ∃ s', srun (calm q n c ks qc [] .reading) closeFromReading = some s' ∧ s'.final = true ∧ s'.quitCloses = qc + 1 := by
  by_cases h : n < q <;> simp [calm, closeFromReading, srun, snext, closeStep, SSys.final, h]

theorem close_from_top (q n : Nat) (c ks : Bool) (qc : Nat) (ib : List (Option Nat)) :
    ∃ s', srun (calm q n c ks qc ib .top) closeFromTop = some s' ∧ s'.final = true ∧ s'.quitCloses = qc + 1 := by
  by_cases h : n < q <;> simp [calm, closeFromTop, srun, snext, closeStep, SSys.final, h]

theorem closeFromReading_internal : ∀ l ∈ closeFromReading, l.internal = true := by decide
theorem closeFromTop_internal : ∀ l ∈ closeFromTop, l.internal = true := by decide

def ppcPosts : PPc → Nat
  | .emitting k => k
  | _ => 0

theorem internal_replicate (k : Nat) : ∀ l ∈ List.replicate k SLabel.inputStep, l.internal = true := by
  intro l hl; rw [List.mem_replicate] at hl; rw [hl.2]; rfl

theorem norm_ipc (s : SSys) (hi : s.ipc = .select ∨ ∃ k, s.ipc = .posting k) (hr : s.queueLen + ipcPosts s.ipc ≤ s.qcap) :
    ∃ ls, (∀ l ∈ ls, l.internal = true) ∧
      srun s ls = some { s with ipc := .select, queueLen := s.queueLen + ipcPosts s.ipc } := by
  rcases hi with hi | ⟨k, hi⟩
  · refine ⟨[], by simp, ?_⟩
    cases s; simp at hi; simp [srun, hi, ipcPosts]
  · refine ⟨List.replicate (k + 1) .inputStep, internal_replicate _, ?_⟩
    rw [post_k k s hi (by simpa [hi, ipcPosts] using hr)]
    simp [hi, ipcPosts]

theorem shutdown_run (s : SSys)
    (hpp : (s.ppc = .reading ∧ s.inbuf = []) ∨ s.ppc = .top ∨ ∃ k, s.ppc = .emitting k)
    (hseqs : ∀ t ∈ s.seqs, t ≠ .eof)
    (hi : s.ipc = .select ∨ ∃ k, s.ipc = .posting k)
    (hcall : s.callers = [.checkFlag]) (hcf : s.closedFlag = false) (hsf : s.suspendedFlag = false)
    (hcs : s.closeSig = 0) (hcd : s.closedSig = 0) (hda : s.da1Pending = 0) (hsc : s.seqsClosed = false)
    (hroom : s.queueLen + ipcPosts s.ipc + toksPosts s.seqs + ppcPosts s.ppc ≤ s.qcap) :
    ∃ ls s', (∀ l ∈ ls, l.internal = true) ∧ srun s ls = some s' ∧ s'.final = true ∧ s'.quitCloses = s.quitCloses + 1 := by
  obtain ⟨ls1, hi1, hr1⟩ := norm_ipc s hi (by omega)
  obtain ⟨ls2, hi2, hr2⟩ := drain s.seqs { s with ipc := .select, queueLen := s.queueLen + ipcPosts s.ipc } rfl rfl hseqs
    (by simp; omega)
  have h12 : srun s (ls1 ++ ls2) = some { s with ipc := .select, seqs := [], queueLen := s.queueLen + ipcPosts s.ipc + toksPosts s.seqs } := by
    rw [srun_append _ _ _ _ hr1, hr2]
  have hint12 : ∀ l ∈ ls1 ++ ls2, l.internal = true := by
    intro l hl; rcases List.mem_append.mp hl with h | h
    · exact hi1 l h
    · exact hi2 l h
  rcases hpp with ⟨hp, hib⟩ | hp | ⟨k, hp⟩
  · -- parser blocked in ReadRune, nothing unread
    obtain ⟨s', hrun, hfin, hq⟩ := close_from_reading s.qcap (s.queueLen + ipcPosts s.ipc + toksPosts s.seqs) s.consumer s.killSig s.quitCloses
    refine ⟨(ls1 ++ ls2) ++ closeFromReading, s', ?_, ?_, hfin, hq⟩
    · intro l hl; rcases List.mem_append.mp hl with h | h
      · exact hint12 l h
      · exact closeFromReading_internal l h
    · rw [srun_append _ _ _ _ h12, ← hrun]
      congr 1
      cases s; simp_all [calm]
  · obtain ⟨s', hrun, hfin, hq⟩ := close_from_top s.qcap (s.queueLen + ipcPosts s.ipc + toksPosts s.seqs) s.consumer s.killSig s.quitCloses s.inbuf
    refine ⟨(ls1 ++ ls2) ++ closeFromTop, s', ?_, ?_, hfin, hq⟩
    · intro l hl; rcases List.mem_append.mp hl with h | h
      · exact hint12 l h
      · exact closeFromTop_internal l h
    · rw [srun_append _ _ _ _ h12, ← hrun]
      congr 1
      cases s; simp_all [calm]
  · -- parser inside emit: the channel has been drained, the emit completes, the goroutine drains it again
    let s12 : SSys := { s with ipc := .select, seqs := [], queueLen := s.queueLen + ipcPosts s.ipc + toksPosts s.seqs }
    have hp3 : snext s12 .parser = some { s12 with seqs := [.seq k], ppc := .top } := by
      simp [s12, snext, hp]
    obtain ⟨ls4, hi4, hr4⟩ := drain [.seq k] { s12 with seqs := [.seq k], ppc := .top } rfl rfl (by simp)
      (by simp [s12, toksPosts]; simp [hp, ppcPosts] at hroom; omega)
    obtain ⟨s', hrun, hfin, hq⟩ := close_from_top s.qcap (s.queueLen + ipcPosts s.ipc + toksPosts s.seqs + k) s.consumer s.killSig s.quitCloses s.inbuf
    refine ⟨(ls1 ++ ls2) ++ (.parser :: (ls4 ++ closeFromTop)), s', ?_, ?_, hfin, hq⟩
    · intro l hl; rcases List.mem_append.mp hl with h | h
      · exact hint12 l h
      · rcases List.mem_cons.mp h with rfl | h
        · rfl
        · rcases List.mem_append.mp h with h | h
          · exact hi4 l h
          · exact closeFromTop_internal l h
    · rw [srun_append _ _ _ _ h12]
      simp only [srun]
      have hp3' : snext { s with ipc := .select, seqs := [], queueLen := s.queueLen + ipcPosts s.ipc + toksPosts s.seqs } .parser
            = some { s12 with seqs := [.seq k], ppc := .top } := hp3
      rw [hp3']
      simp only
      rw [srun_append _ _ _ _ hr4, ← hrun]
      congr 1
      cases s; simp_all [calm, s12, toksPosts]


theorem srun_reachable : ∀ (ls : List SLabel) (s0 s s' : SSys), SReachable s0 s → srun s ls = some s' → SReachable s0 s'
  | [], _, s, s', hr, h => by simp [srun] at h; subst h; exact hr
  | l :: t, s0, s, s', hr, h => by
      simp only [srun] at h
      cases hn : snext s l with
      | none => simp [hn] at h
      | some s1 => simp only [hn] at h; exact srun_reachable t s0 s1 s' (.step l hr hn) h

end VaxisModel.Lemmas.ConcShutdown
