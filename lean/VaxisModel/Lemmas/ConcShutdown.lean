import VaxisModel.Model.Conc

/-! Lemmas about the shutdown LTS. -/
namespace VaxisModel.Lemmas.ConcShutdown
open VaxisModel.Model.Conc

theorem mem_schedActs (a : IAct) (h : a.sched = true) : a ∈ schedActs := by
  cases a <;> simp [schedActs, IAct.sched] at h ⊢

/-- In a state of rest no label a scheduler may pick is enabled. -/
theorem quiescent_sched (s : SSys) (h : s.quiescent = true) (l : SLabel) (hl : l.sched = true) : snext s l = none := by
  simp only [SSys.quiescent, List.all_eq_true, Option.isNone_iff_eq_none] at h
  cases l <;> simp [SLabel.sched] at hl
  · exact h _ (by simp [SSys.schedLabels])
  · exact h _ (by simp [SSys.schedLabels])
  · rename_i a
    exact h _ (by simp only [SSys.schedLabels, List.mem_append, List.mem_map]; exact Or.inl (Or.inl (Or.inr ⟨a, mem_schedActs a hl, rfl⟩)))
  · rename_i j a
    by_cases hj : j < s.olds.length
    · refine h _ ?_
      simp only [SSys.schedLabels, List.mem_append, List.mem_flatMap, List.mem_range, List.mem_map]
      exact Or.inr ⟨j, hj, a, mem_schedActs a hl, rfl⟩
    · have : s.olds[j]? = none := by simp; omega
      simp [snext, this]
  · exact h _ (by simp [SSys.schedLabels])
  · rename_i j
    by_cases hj : j < s.callers.length
    · refine h _ ?_
      simp only [SSys.schedLabels, List.mem_append, List.mem_flatMap, List.mem_range]
      exact Or.inl (Or.inr ⟨j, hj, by simp⟩)
    · have : s.callers[j]? = none := by simp; omega
      simp [snext, this]
  · rename_i j
    by_cases hj : j < s.callers.length
    · refine h _ ?_
      simp only [SSys.schedLabels, List.mem_append, List.mem_flatMap, List.mem_range]
      exact Or.inl (Or.inr ⟨j, hj, by simp⟩)
    · have : s.callers[j]? = none := by simp; omega
      simp [snext, this]

/-- Every member of `schedLabels` is a label a scheduler may pick. -/
theorem schedLabels_sched (s : SSys) (l : SLabel) (h : l ∈ s.schedLabels) : l.sched = true := by
  simp only [SSys.schedLabels, List.mem_append, List.mem_flatMap, List.mem_range, List.mem_map, List.mem_cons,
    List.mem_nil_iff, or_false] at h
  rcases h with ((h | ⟨a, ha, rfl⟩) | ⟨j, _, h⟩) | ⟨j, _, a, ha, rfl⟩
  · rcases h with rfl | rfl | rfl <;> rfl
  · simp [schedActs] at ha; rcases ha with rfl | rfl | rfl | rfl | rfl <;> rfl
  · rcases h with rfl | rfl <;> rfl
  · simp [schedActs] at ha; rcases ha with rfl | rfl | rfl | rfl | rfl <;> rfl

/-- From a state of rest, no non-empty sequence of scheduler labels is a run. -/
theorem rest_forever (s : SSys) (h : s.quiescent = true) (l : SLabel) (ls : List SLabel) (hl : l.sched = true) :
    srun s (l :: ls) = none := by
  simp [srun, quiescent_sched s h l hl]

theorem srun_append : ∀ (a b : List SLabel) (s s' : SSys), srun s a = some s' → srun s (a ++ b) = srun s' b
  | [], _, s, s', h => by simp [srun] at h; subst h; rfl
  | l :: t, b, s, s', h => by
      simp only [srun, List.cons_append] at h ⊢
      cases hn : snext s l with
      | none => simp [hn] at h
      | some s1 => simp only [hn] at h ⊢; exact srun_append t b s1 s' h

theorem srun_reachable : ∀ (ls : List SLabel) (s0 s s' : SSys), SReachable s0 s → srun s ls = some s' → SReachable s0 s'
  | [], _, s, s', hr, h => by simp [srun] at h; subst h; exact hr
  | l :: t, s0, s, s', hr, h => by
      simp only [srun] at h
      cases hn : snext s l with
      | none => simp [hn] at h
      | some s1 => simp only [hn] at h; exact srun_reachable t s0 s1 s' (.step l hr hn) h

end VaxisModel.Lemmas.ConcShutdown
