import VaxisModel.Model.Conc

/-! Lemmas about the shutdown LTS. -/
namespace VaxisModel.Lemmas.ConcShutdown
open VaxisModel.Model.Conc

/-- In a stuck state no internal label is enabled. -/
theorem stuck_internal (s : SSys) (h : s.stuck = true) (l : SLabel) (hl : l.internal = true) : snext s l = none := by
  simp only [SSys.stuck, Bool.and_eq_true, Option.isNone_iff_eq_none, List.all_eq_true, List.mem_range] at h
  obtain ⟨⟨⟨⟨⟨hp, hr⟩, _⟩, hs⟩, ht⟩, hc⟩ := h
  cases l <;> simp [SLabel.internal] at hl
  · exact ht
  · exact hp
  · exact hr
  · exact hs
  · rename_i j
    by_cases hj : j < s.callers.length
    · exact hc j hj
    · have : s.callers[j]? = none := by simp; omega
      simp [snext, this]

/-- From a stuck state, no non-empty sequence of internal labels is a run: the library's goroutines
and the callers of `Close` stay where they are for ever. -/
theorem stuck_forever (s : SSys) (h : s.stuck = true) (l : SLabel) (ls : List SLabel) (hl : l.internal = true) :
    srun s (l :: ls) = none := by
  simp [srun, stuck_internal s h l hl]

theorem srun_append : ∀ (a b : List SLabel) (s s' : SSys), srun s a = some s' → srun s (a ++ b) = srun s' b
  | [], _, s, s', h => by simp [srun] at h; subst h; rfl
  | l :: t, b, s, s', h => by
      simp only [srun, List.cons_append] at h ⊢
      cases hn : snext s l with
      | none => simp [hn] at h
      | some s1 => simp only [hn] at h ⊢; exact srun_append t b s1 s' h

theorem srun_reachable : ∀ (ls : List SLabel) (s0 s s' : SSys), SReachable s0 s → srun s ls = some s' → SReachable s0 s'
  | [], _, s, s', hr, h => by simp [srun] at h; subst h; exact hr
  | l :: t, s0, s, s', hr, h => by
      simp only [srun] at h
      cases hn : snext s l with
      | none => simp [hn] at h
      | some s1 => simp only [hn] at h; exact srun_reachable t s0 s1 s' (.step l hr hn) h

end VaxisModel.Lemmas.ConcShutdown
