import VaxisModel.Model.ConcTimer
import VaxisModel.Lemmas.ConcProgress

/-! Lemmas about the shutdown LTS with the escape timer (`Model/ConcTimer.lean`): a variant function,
preservation of the protocol invariant, the timer's own safety invariant, and the reduction of a state
of rest of `TSys` to a state of rest of `SSys` (the timer's pending emit, which holds `p.mu`, is the
parser's pending emit as far as everybody else is concerned). -/
namespace VaxisModel.Lemmas.ConcTimer
open VaxisModel.Model.Conc VaxisModel.Model.ConcTimer VaxisModel.Lemmas.ConcMeasure VaxisModel.Lemmas.ConcInv

def timerW : TPc → Nat
  | .idle => 0
  | .armed => 8
  | .emitting => 7

/-- The variant: that of `SSys`, plus what the timers still to come and the pending one can cost. -/
def muT (t : TSys) : Nat := mu t.s + 9 * t.escs + timerW t.timer

theorem mu_emit (s : SSys) : mu { s with seqs := s.seqs ++ [.seq 1] } = mu s + 6 := by
  simp only [mu, muR, seqsW_append, seqsW, tokW]
  omega

theorem tnext_sys_other (t : TSys) (l : SLabel) (hp : l ≠ .parser) :
    tnext t (.sys l) = (snext t.s l).map fun s' => { t with s := s' } := by
  cases l <;> first | rfl | exact absurd rfl hp

/-- A `sys` step of `TSys` is a step of `SSys` on the first component; the timer and `escs` stay. -/
theorem tnext_sys (t t' : TSys) (l : SLabel) (h : tnext t (.sys l) = some t') :
    snext t.s l = some t'.s ∧ t'.timer = t.timer ∧ t'.escs = t.escs := by
  by_cases hp : l = .parser
  · subst hp
    simp only [tnext] at h
    split at h
    · cases h
    · cases hs : snext t.s .parser with
      | none => simp [hs] at h
      | some s' => simp only [hs, Option.map_some, Option.some.injEq] at h; subst h; exact ⟨rfl, rfl, rfl⟩
  · rw [tnext_sys_other t l hp] at h
    cases hs : snext t.s l with
    | none => simp [hs] at h
    | some s' => simp only [hs, Option.map_some, Option.some.injEq] at h; subst h; exact ⟨rfl, rfl, rfl⟩

theorem muT_decreases (t t' : TSys) (l : TLabel) (hl : l.sched = true) (h : tnext t l = some t') : muT t' < muT t := by
  cases l with
  | sys l =>
    obtain ⟨h1, h2, h3⟩ := tnext_sys t t' l h
    have := mu_decreases t.s t'.s l hl h1
    simp only [muT, h2, h3]; omega
  | termEsc => simp [TLabel.sched] at hl
  | arm =>
    simp only [tnext] at h
    split at h
    · rename_i hc
      simp only [Bool.and_eq_true, decide_eq_true_eq, beq_iff_eq] at hc
      cases h
      simp only [muT, timerW, hc.1.1]
      omega
    · cases h
  | fire =>
    simp only [tnext] at h
    split at h
    · rename_i hc
      simp only [Bool.and_eq_true, beq_iff_eq] at hc
      cases h
      split <;> simp only [muT, timerW, hc.1] <;> omega
    · cases h
  | temit =>
    simp only [tnext] at h
    split at h
    · rename_i hc
      simp only [Bool.and_eq_true, beq_iff_eq] at hc
      cases h
      simp only [muT, timerW, hc.1, mu_emit]
      omega
    · cases h

theorem trun_bounded : ∀ (ls : List TLabel) (t t' : TSys), (∀ l ∈ ls, l.sched = true) → trun t ls = some t' →
    ls.length + muT t' ≤ muT t
  | [], t, t', _, h => by simp [trun] at h; subst h; simp
  | l :: r, t, t', hl, h => by
      simp only [trun] at h
      cases hn : tnext t l with
      | none => simp [hn] at h
      | some t1 =>
        simp only [hn] at h
        have h1 := muT_decreases t t1 l (hl l (by simp)) hn
        have h2 := trun_bounded r t1 t' (fun x hx => hl x (by simp [hx])) h
        simp only [List.length_cons]; omega

/-! ### The protocol invariant of `SSys` along `TSys` -/

theorem inv_emit (s : SSys) (x : Tok) (h : Inv s) : Inv { s with seqs := s.seqs ++ [x] } := by
  obtain ⟨h1, h2, h3, h4, h5, h6, h7, h8, h9, h10, h11, h12, h13, h14⟩ := h
  exact ⟨h1, h2, h3, h4, h5, h6, h7, h8, h9, h10, h11, h12, h13, h14⟩

theorem inv_tnext (t t' : TSys) (l : TLabel) (hl : l.sched = true) (h : Inv t.s) (hn : tnext t l = some t') : Inv t'.s := by
  cases l with
  | sys l => exact inv_sched t.s t'.s l hl h (tnext_sys t t' l hn).1
  | termEsc => simp [TLabel.sched] at hl
  | arm => simp only [tnext] at hn; split at hn <;> cases hn; exact h
  | fire =>
    simp only [tnext] at hn
    split at hn
    · cases hn; split <;> exact h
    · cases hn
  | temit =>
    simp only [tnext] at hn
    split at hn
    · cases hn; exact inv_emit t.s _ h
    · cases hn

/-! ### The timer's own invariant -/

/-- While the callback is at its emit the parser is in its loop and outside its critical sections; a
timer that is armed and not stale belongs to a parser whose loop is still running. -/
structure TInv (t : TSys) : Prop where
  emitting : t.timer = .emitting → t.s.ppc = .top ∨ t.s.ppc = .reading
  armed : t.timer = .armed → t.stale = false → preTail t.s.ppc = true

theorem iact_ppc (s s1 : SSys) (v v1 : IView) (a : IAct) (h : iact s v a = some (s1, v1)) : s1.ppc = s.ppc := by
  cases a <;> simp only [iact] at h <;> (repeat' split at h) <;> simp at h <;> (try (obtain ⟨rfl, _⟩ := h)) <;> rfl

theorem closeStep_ppc (s s1 : SSys) (k : Bool) (c c1 : CPc) (h : closeStep s k c = some (s1, c1)) : s1.ppc = s.ppc := by
  cases c <;> simp only [closeStep] at h <;> (repeat' split at h) <;> simp at h <;> (try (obtain ⟨rfl, _⟩ := h)) <;> rfl

/-- Only the parser's own steps (and `Resume`) change the parser's program counter. -/
theorem ppc_other (s s' : SSys) (l : SLabel) (hl : l.sched = true) (hp : l ≠ .parser) (hn : snext s l = some s') : s'.ppc = s.ppc := by
  cases l with
  | parser => exact absurd rfl hp
  | termReply => simp only [snext] at hn; split at hn <;> simp at hn; subst hn; rfl
  | consume => simp only [snext] at hn; split at hn <;> simp at hn; subst hn; rfl
  | input a =>
    simp only [snext] at hn
    cases hi : iact s ⟨s.ipc, s.seqs, s.seqsClosed⟩ a with
    | none => simp [hi] at hn
    | some r =>
      obtain ⟨s1, v1⟩ := r
      simp only [hi, Option.some.injEq] at hn
      subst hn
      exact iact_ppc s s1 _ v1 a hi
  | old j a =>
    simp only [snext] at hn
    cases ho : s.olds[j]? with
    | none => simp [ho] at hn
    | some o =>
      simp only [ho] at hn
      cases hi : iact s ⟨o.ipc, o.seqs, true⟩ a with
      | none => simp [hi] at hn
      | some r =>
        obtain ⟨s1, v1⟩ := r
        simp only [hi, Option.some.injEq] at hn
        subst hn
        exact iact_ppc s s1 _ v1 a hi
  | caller j =>
    simp only [snext] at hn
    cases hc : s.callers[j]? with
    | none => simp [hc] at hn
    | some c =>
      simp only [hc] at hn
      cases hs : closeStep s c.inClose c.pc with
      | none => simp [hs] at hn
      | some r =>
        obtain ⟨s1, c1⟩ := r
        simp only [hs, Option.some.injEq] at hn
        subst hn
        exact closeStep_ppc s s1 _ _ c1 hs
  | drain j =>
    simp only [snext] at hn
    cases hc : s.callers[j]? with
    | none => simp [hc] at hn
    | some c =>
      simp only [hc] at hn
      (repeat' split at hn) <;> simp at hn
      subst hn; rfl
  | termInput u => simp [SLabel.sched] at hl
  | signal => simp [SLabel.sched] at hl
  | winch => simp [SLabel.sched] at hl
  | callClose => simp [SLabel.sched] at hl
  | callSuspend => simp [SLabel.sched] at hl
  | resume => simp [SLabel.sched] at hl

/-- A parser step that does not take `p.mu`: the `default` arm of the loop's `select`, the end of an
emit, `emit(EOF)`, `close(p.sequences); p.closed <- true`. -/
theorem parser_step_noMu (s s' : SSys) (h : snext s .parser = some s') (hm : needsMu s = false) :
    (s.ppc = .top ∧ s'.ppc = .reading) ∨ (∃ k, s.ppc = .emitting k ∧ s'.ppc = .top) ∨
    (s.ppc = .emitEOF ∧ s'.ppc = .signalClosed) ∨ (s.ppc = .signalClosed ∧ s'.ppc = .done) := by
  simp only [snext] at h
  cases hp : s.ppc with
  | top =>
    simp only [hp] at h
    simp only [needsMu, hp, decide_eq_false_iff_not] at hm
    split at h
    · omega
    · cases h; exact Or.inl ⟨rfl, rfl⟩
  | reading => simp [needsMu, hp] at hm
  | emitting k =>
    simp only [hp] at h
    split at h
    · cases h; exact Or.inr (Or.inl ⟨k, rfl, rfl⟩)
    · cases h
  | emitEOF =>
    simp only [hp] at h
    split at h
    · cases h; exact Or.inr (Or.inr (Or.inl ⟨rfl, rfl⟩))
    · cases h
  | signalClosed =>
    simp only [hp] at h
    split at h
    · cases h; exact Or.inr (Or.inr (Or.inr ⟨rfl, rfl⟩))
    · cases h
  | done => simp [hp] at h

theorem tinv_tnext (t t' : TSys) (l : TLabel) (hl : l.sched = true) (h : TInv t) (hn : tnext t l = some t') : TInv t' := by
  cases l with
  | sys l =>
    by_cases hp : l = .parser
    · subst hp
      simp only [tnext] at hn
      split at hn
      · cases hn
      · rename_i hblock
        cases hs : snext t.s .parser with
        | none => simp [hs] at hn
        | some s' =>
          simp only [hs, Option.map_some, Option.some.injEq] at hn
          subst hn
          constructor
          · intro he
            have he' : t.timer = .emitting := he
            have hm : needsMu t.s = false := by
              cases hm : needsMu t.s with
              | false => rfl
              | true => simp [he', hm] at hblock
            have := h.emitting he'
            rcases parser_step_noMu t.s s' hs hm with ⟨_, h2⟩ | ⟨k, h1, _⟩ | ⟨h1, _⟩ | ⟨h1, _⟩
            · exact Or.inr h2
            · rcases this with h0 | h0 <;> rw [h0] at h1 <;> cases h1
            · rcases this with h0 | h0 <;> rw [h0] at h1 <;> cases h1
            · rcases this with h0 | h0 <;> rw [h0] at h1 <;> cases h1
          · intro ha hst
            have ha' : t.timer = .armed := ha
            have hst' : (t.stale || needsMu t.s) = false := hst
            simp only [Bool.or_eq_false_iff] at hst'
            have hpre := h.armed ha' hst'.1
            rcases parser_step_noMu t.s s' hs hst'.2 with ⟨_, h2⟩ | ⟨k, _, h2⟩ | ⟨h1, _⟩ | ⟨h1, _⟩
            · show preTail s'.ppc = true; rw [h2]; rfl
            · show preTail s'.ppc = true; rw [h2]; rfl
            · rw [h1] at hpre; cases hpre
            · rw [h1] at hpre; cases hpre
    · rw [tnext_sys_other t l hp] at hn
      cases hs : snext t.s l with
      | none => simp [hs] at hn
      | some s' =>
        simp only [hs, Option.map_some, Option.some.injEq] at hn
        subst hn
        have hpp := ppc_other t.s s' l hl hp hs
        exact ⟨fun he => by show s'.ppc = _ ∨ s'.ppc = _; rw [hpp]; exact h.emitting he,
               fun ha hst => by show preTail s'.ppc = true; rw [hpp]; exact h.armed ha hst⟩
  | termEsc => simp [TLabel.sched] at hl
  | arm =>
    simp only [tnext] at hn
    split at hn
    · rename_i hc
      simp only [Bool.and_eq_true, Bool.or_eq_true, decide_eq_true_eq, beq_iff_eq] at hc
      cases hn
      refine ⟨fun he => (by cases he), fun _ _ => ?_⟩
      show preTail t.s.ppc = true
      rcases hc.2 with h0 | h0 <;> rw [h0] <;> rfl
    · cases hn
  | fire =>
    simp only [tnext] at hn
    split at hn
    · rename_i hc
      simp only [Bool.and_eq_true, beq_iff_eq, Bool.not_eq_true'] at hc
      cases hn
      split
      · exact ⟨fun he => (by cases he), fun ha _ => (by cases ha)⟩
      · rename_i hst
        refine ⟨fun _ => ?_, fun ha _ => (by cases ha)⟩
        have hpre := h.armed hc.1 (by simpa using hst)
        show t.s.ppc = .top ∨ t.s.ppc = .reading
        have hh := hc.2
        cases hp : t.s.ppc <;> simp [hp, preTail, holdsMu] at hpre hh ⊢
    · cases hn
  | temit =>
    simp only [tnext] at hn
    split at hn
    · cases hn
      exact ⟨fun he => (by cases he), fun ha _ => (by cases ha)⟩
    · cases hn

theorem tinv_trun : ∀ (ls : List TLabel) (t t' : TSys), (∀ l ∈ ls, l.sched = true) → TInv t → Inv t.s → trun t ls = some t' →
    TInv t' ∧ Inv t'.s
  | [], t, t', _, h1, h2, h => by simp [trun] at h; subst h; exact ⟨h1, h2⟩
  | l :: r, t, t', hl, h1, h2, h => by
      simp only [trun] at h
      cases hn : tnext t l with
      | none => simp [hn] at h
      | some t1 =>
        simp only [hn] at h
        exact tinv_trun r t1 t' (fun x hx => hl x (by simp [hx]))
          (tinv_tnext t t1 l (hl l (by simp)) h1 hn) (inv_tnext t t1 l (hl l (by simp)) h2 hn) h

/-- **The callback never sends on the closed channel**: while it is at its emit the parser has not
closed `p.sequences`. -/
theorem emit_only_into_open_channel (t : TSys) (h : TInv t) (hi : Inv t.s) (he : t.timer = .emitting) : t.s.seqsClosed = false := by
  have hc := hi.chan
  rcases h.emitting he with h0 | h0 <;> rw [h0] at hc <;> cases hb : t.s.seqsClosed <;> simp [hb, pD] at hc ⊢

/-! ### A state of rest of `TSys` is (or reduces to) a state of rest of `SSys` -/

theorem iact_setppc (s : SSys) (p : PPc) (v : IView) (a : IAct) :
    iact { s with ppc := p } v a = (iact s v a).map (fun r => ({ r.1 with ppc := p }, r.2)) := by
  cases a <;> simp only [iact] <;> (repeat' split) <;> simp_all

theorem closeStep_setppc (s : SSys) (p : PPc) (k : Bool) (c : CPc) :
    closeStep { s with ppc := p } k c = (closeStep s k c).map (fun r => ({ r.1 with ppc := p }, r.2)) := by
  cases c <;> simp only [closeStep, afterGuard, afterSignal, afterDA1] <;> (repeat' split) <;> simp_all

/-- Whether a step of anybody but the parser is enabled does not depend on the parser's program counter. -/
theorem snext_setppc_none (s : SSys) (p : PPc) (l : SLabel) (hl : l.sched = true) (hp : l ≠ .parser) (h : snext s l = none) :
    snext { s with ppc := p } l = none := by
  cases l with
  | parser => exact absurd rfl hp
  | termReply => simp only [snext] at h ⊢; split at h <;> simp_all
  | consume => simp only [snext] at h ⊢; split at h <;> simp_all
  | input a =>
    simp only [snext] at h ⊢
    rw [iact_setppc]
    cases hi : iact s ⟨s.ipc, s.seqs, s.seqsClosed⟩ a with
    | none => rfl
    | some r => simp [hi] at h
  | old j a =>
    simp only [snext] at h ⊢
    cases ho : s.olds[j]? with
    | none => rfl
    | some o =>
      simp only [ho] at h ⊢
      rw [iact_setppc]
      cases hi : iact s ⟨o.ipc, o.seqs, true⟩ a with
      | none => rfl
      | some r => simp [hi] at h
  | caller j =>
    simp only [snext] at h ⊢
    cases hc : s.callers[j]? with
    | none => rfl
    | some c =>
      simp only [hc] at h ⊢
      rw [closeStep_setppc]
      cases hs : closeStep s c.inClose c.pc with
      | none => rfl
      | some r => simp [hs] at h
  | drain j =>
    simp only [snext] at h ⊢
    cases hc : s.callers[j]? with
    | none => rfl
    | some c =>
      simp only [hc] at h ⊢
      (repeat' split at h) <;> simp_all
  | termInput u => simp [SLabel.sched] at hl
  | signal => simp [SLabel.sched] at hl
  | winch => simp [SLabel.sched] at hl
  | callClose => simp [SLabel.sched] at hl
  | callSuspend => simp [SLabel.sched] at hl
  | resume => simp [SLabel.sched] at hl

/-- The protocol invariant does not distinguish a parser at the top of its loop / in `ReadRune` from one
that is in the middle of an emit. -/
theorem inv_setppc_emitting (s : SSys) (k : Nat) (h : Inv s) (hp : s.ppc = .top ∨ s.ppc = .reading) :
    Inv { s with ppc := .emitting k } := by
  obtain ⟨h1, h2, h3, h4, h5, h6, h7, h8, h9, h10, h11, h12, h13, h14⟩ := h
  rcases hp with hp | hp
  · refine ⟨h1, h2, h3, h4, h5, h6, ?_, ?_, ?_, ?_, h11, ?_, ?_, h14⟩
    · simp only [pT, pX, pD, hp] at h7 ⊢; exact h7
    · simp only [pD, hp] at h8 ⊢; exact h8
    · simp only [pT, pD, hp] at h9 ⊢; exact h9
    · simp only [pT, pD, hp] at h10 ⊢; exact h10
    · simp only [pD, hp] at h12 ⊢; exact h12
    · simp only [pR, hp] at h13 ⊢; exact h13
  · refine ⟨h1, h2, h3, h4, h5, h6, ?_, ?_, ?_, ?_, h11, ?_, ?_, h14⟩
    · simp only [pT, pX, pD, hp] at h7 ⊢; exact h7
    · simp only [pD, hp] at h8 ⊢; exact h8
    · simp only [pT, pD, hp] at h9 ⊢; exact h9
    · simp only [pT, pD, hp] at h10 ⊢; exact h10
    · simp only [pD, hp] at h12 ⊢; exact h12
    · simp only [pR, hp] at h13 ⊢; omega

theorem postBlocked_setppc (s : SSys) (p : PPc) (i : IPc) : postBlocked { s with ppc := p } i ↔ postBlocked s i := Iff.rfl

/-- **At rest with the timer.**  In a state of rest of `TSys` that satisfies both invariants: every
caller of `Close` / `Suspend` has returned; if the session is suspended the parser is done, NO TIMER
IS PENDING (an armed timer finds the generation bumped and returns), and the input goroutine is done or
blocked in a post the application has not received; once closed, `chQuit` is closed exactly once and
every input goroutine is done. -/
theorem rest_with_timer (t : TSys) (hi : Inv t.s) (ht : TInv t) (hq : t.quiescent = true) :
    sumBy fUnret t.s.callers = 0 ∧
    (t.s.suspendedFlag = true → t.s.ppc = .done ∧ t.timer = .idle ∧ (t.s.ipc = .done ∨ postBlocked t.s t.s.ipc)) ∧
    (∀ o ∈ t.s.olds, o.ipc = .done ∨ postBlocked t.s o.ipc) ∧
    (t.s.closedFlag = true → t.s.quitCloses = 1 ∧ t.s.suspendedFlag = true ∧ t.s.ipc = .done ∧ ∀ o ∈ t.s.olds, o.ipc = .done) := by
  simp only [TSys.quiescent, Bool.and_eq_true, List.all_eq_true, Option.isNone_iff_eq_none] at hq
  obtain ⟨⟨⟨hsys, _harm⟩, hfire⟩, htemit⟩ := hq
  by_cases he : t.timer = .emitting
  · -- the callback holds p.mu at its emit: as far as everybody else is concerned the parser is in an emit
    have hpp := ht.emitting he
    have hfull : ¬ t.s.seqs.length < 2 := by
      intro hlt
      simp [tnext, he, hlt] at htemit
    have hinv' : Inv { t.s with ppc := .emitting 1 } := inv_setppc_emitting t.s 1 hi hpp
    have hq' : ({ t.s with ppc := .emitting 1 } : SSys).quiescent = true := by
      simp only [SSys.quiescent, List.all_eq_true, Option.isNone_iff_eq_none]
      intro l hl
      have hl' : l ∈ t.s.schedLabels := hl
      by_cases hp : l = .parser
      · subst hp
        simp only [snext]
        rw [if_neg hfull]
      · have hsched : l.sched = true := by
          simp only [SSys.schedLabels, schedActs, List.mem_append, List.mem_cons, List.mem_flatMap, List.mem_range, List.mem_map,
            List.mem_nil_iff, or_false] at hl'
          rcases hl' with ((h0 | h0) | h0) | h0
          · rcases h0 with rfl | rfl | rfl <;> rfl
          · obtain ⟨a, ha, rfl⟩ := h0
            rcases ha with rfl | rfl | rfl | rfl | rfl <;> rfl
          · obtain ⟨j, _, h0⟩ := h0
            rcases h0 with rfl | rfl <;> rfl
          · obtain ⟨j, _, a, ha, rfl⟩ := h0
            rcases ha with rfl | rfl | rfl | rfl | rfl <;> rfl
        have h0 := hsys l hl'
        rw [tnext_sys_other t l hp] at h0
        have h1 : snext t.s l = none := by
          cases hs : snext t.s l with
          | none => rfl
          | some x => simp [hs] at h0
        exact snext_setppc_none t.s _ l hsched hp h1
    obtain ⟨r1, r2, r3, r4⟩ := rest_is_done _ hinv' hq'
    refine ⟨r1, ?_, r3, ?_⟩
    · intro hs
      have := (r2 hs).1
      cases this
    · intro hc
      obtain ⟨a, b, c, d⟩ := r4 hc
      have := (r2 b).1
      cases this
  · -- the timer does not hold p.mu: the state of rest is one of `SSys`
    have hq' : t.s.quiescent = true := by
      simp only [SSys.quiescent, List.all_eq_true, Option.isNone_iff_eq_none]
      intro l hl
      have h0 := hsys l hl
      by_cases hp : l = .parser
      · subst hp
        simp only [tnext] at h0
        have hne : (t.timer == .emitting) = false := by simpa using he
        simp only [hne, Bool.false_and, Bool.false_eq_true, if_false] at h0
        cases hs : snext t.s .parser with
        | none => rfl
        | some x => simp [hs] at h0
      · rw [tnext_sys_other t l hp] at h0
        cases hs : snext t.s l with
        | none => rfl
        | some x => simp [hs] at h0
    obtain ⟨r1, r2, r3, r4⟩ := rest_is_done t.s hi hq'
    refine ⟨r1, ?_, r3, r4⟩
    intro hs
    obtain ⟨hd, hrest⟩ := r2 hs
    refine ⟨hd, ?_, hrest⟩
    cases htm : t.timer with
    | idle => rfl
    | emitting => exact absurd htm he
    | armed =>
      simp [tnext, htm, hd, holdsMu] at hfire

end VaxisModel.Lemmas.ConcTimer
