/- The regenerated body of `CursorPosition`, executed (`Model/CursorBody.lean`), equals the model. -/
import VaxisModel.Model.CursorBody

namespace VaxisModel.Lemmas.CursorBody
open VaxisModel.Model.GoBody VaxisModel.Model.Input VaxisModel.Model.CursorBody

def cthen (inp : CIn) (r : CR) (t : Ss) : CR := match r with | .norm st => cexecSs inp t st | r => r
theorem cexecSs_cons (inp : CIn) (h : S) (t : Ss) (st : CSt) : cexecSs inp (.cons h t) st = cthen inp (cexecS inp h st) t := by
  rw [cexecSs]; cases cexecS inp h st <;> rfl
theorem cexecSs_nil (inp : CIn) (st : CSt) : cexecSs inp .nil st = .norm st := by rw [cexecSs]
@[simp] theorem cthen_norm (inp : CIn) (st : CSt) (t : Ss) : cthen inp (.norm st) t = cexecSs inp t st := rfl
@[simp] theorem cthen_ret (inp : CIn) (st : CSt) (a b : Int) (t : Ss) : cthen inp (.ret st a b) t = .ret st a b := rfl
@[simp] theorem cthen_fail (inp : CIn) (w : String) (t : Ss) : cthen inp (.fail w) t = .fail w := rfl

theorem cp_eq (fired : Bool) (r c : Int) : runCp ⟨fired, [r, c]⟩ = .ok (cursorPositionModel fired r c) := by
  cases fired <;>
    simp [runCp, Gen.InputBody.cp, cursorPositionModel, Ss.ofList, Es.ofList, cexecSs_cons, cexecSs_nil, cexecS, ceval, cevals, ccall,
      names, List.lookup]

end VaxisModel.Lemmas.CursorBody
