import VaxisModel.Spec.Surface
import VaxisModel.Lemmas.DynListInv

/-! C19 × C14: the children returned by `Dynamic.Draw`, seen as a surface tree of the painter's
    algorithm of `Spec/Surface.lean` (C14's spec of `render`): which layer is on top in the rows of
    the selected child. -/
namespace VaxisModel.Lemmas.DynCompose
open VaxisModel.Model.Window VaxisModel.Spec.Surface VaxisModel.Model.DynList VaxisModel.Lemmas.DynList

/-- What a child widget drew: a surface `w` cells wide (its height is the child's height). -/
structure Leaf where
  w : Nat
  buf : List Cell

/-- Child `c` as a leaf of the surface tree: at column `col` (the cursor gutter offset), row `c.row`. -/
def childTree (col : Int) (lf : Nat → Leaf) (c : Child) : Tree :=
  .node col c.row 0 (lf c.idx).w c.height (lf c.idx).buf []

/-- The surface `Dynamic.Draw` returns: size `W × H`, own buffer `pbuf`, the children in order. -/
def dynTree (W H : Nat) (pbuf : List Cell) (col : Int) (lf : Nat → Leaf) (cs : List Child) : Tree :=
  .node 0 0 0 W H pbuf (cs.map (childTree col lf))

/-- The single layer a leaf child contributes. -/
def childLayer (col : Int) (lf : Nat → Leaf) (clip : Rect) (c : Child) : Layer :=
  { ax := col, ay := c.row,
    clip := clip.inter { x0 := col, y0 := c.row, x1 := col + (lf c.idx).w, y1 := c.row + c.height },
    w := (lf c.idx).w, buf := (lf c.idx).buf }

theorem layersEach_children (col : Int) (lf : Nat → Leaf) (clip : Rect) : ∀ (cs : List Child),
    layersEach (cs.map (childTree col lf)) 0 0 clip = cs.map fun c => ((0 : Int), [childLayer col lf clip c])
  | [] => by simp [layersEach]
  | c :: cs => by
    have ih := layersEach_children col lf clip cs
    simp only [List.map_cons, layersEach, ih, childTree, zOf, layers, orderByKey, keyLevels, List.map_nil,
      List.foldr_nil, List.flatMap_nil, childLayer, Int.zero_add, if_true]

theorem keyLevels_zero {α : Type} : ∀ (l : List (Int × α)), (∀ p ∈ l, p.1 = 0) → l ≠ [] → keyLevels l = [0]
  | [], _, h => absurd rfl h
  | [p], hp, _ => by
    have := hp p List.mem_cons_self
    simp [keyLevels, insertInt, this]
  | p :: q :: rest, hp, _ => by
    have h0 := hp p List.mem_cons_self
    have ih := keyLevels_zero (q :: rest) (fun x hx => hp x (List.mem_cons_of_mem _ hx)) (by simp)
    unfold keyLevels at ih ⊢
    simp only [List.map_cons, List.foldr_cons] at ih ⊢
    rw [ih, h0]
    simp [insertInt]

theorem orderByKey_zero {α : Type} (l : List (Int × α)) (h : ∀ p ∈ l, p.1 = 0) : orderByKey l = l := by
  by_cases hn : l = []
  · subst hn; simp [orderByKey, keyLevels]
  · unfold orderByKey
    rw [keyLevels_zero l h hn]
    simp only [List.flatMap_cons, List.flatMap_nil, List.append_nil]
    apply List.filter_eq_self.mpr
    intro p hp
    simp [h p hp]

/-- The layers of the tree: the surface's own layer, then one layer per child in order. -/
theorem layers_dynTree (W H : Nat) (pbuf : List Cell) (col : Int) (lf : Nat → Leaf) (cs : List Child) (clip : Rect) :
    layers true (dynTree W H pbuf col lf cs) 0 0 clip =
      { ax := 0, ay := 0, clip := clip.inter { x0 := 0, y0 := 0, x1 := W, y1 := H }, w := W, buf := pbuf } ::
        cs.map (childLayer col lf (clip.inter { x0 := 0, y0 := 0, x1 := W, y1 := H })) := by
  unfold dynTree
  simp only [layers, Int.zero_add, if_true]
  rw [layersEach_children, orderByKey_zero _ (by intro p hp; simp only [List.mem_map] at hp; obtain ⟨c, _, rfl⟩ := hp; rfl)]
  congr 1
  induction cs with
  | nil => rfl
  | cons c cs ih => simp [List.flatMap_cons, ih]

theorem topAt_none : ∀ (ls : List Layer) (x y : Int), (∀ m ∈ ls, m.at x y = none) → topAt ls x y = none
  | [], _, _, _ => rfl
  | l :: rest, x, y, h => by
    simp only [topAt, topAt_none rest x y (fun m hm => h m (List.mem_cons_of_mem _ hm))]
    exact h l List.mem_cons_self

/-- The last layer that shows something wins. -/
theorem topAt_split : ∀ (pre : List Layer) (l : Layer) (post : List Layer) (x y : Int) (c : Cell),
    l.at x y = some c → (∀ m ∈ post, m.at x y = none) → topAt (pre ++ l :: post) x y = some c
  | [], l, post, x, y, c, hl, hp => by
    simp only [List.nil_append, topAt, topAt_none post x y hp]; exact hl
  | p :: pre, l, post, x, y, c, hl, hp => by
    simp only [List.cons_append, topAt, topAt_split pre l post x y c hl hp]

/-- A child layer shows nothing in a row outside the child's rows. -/
theorem childLayer_at_none (col : Int) (lf : Nat → Leaf) (clip : Rect) (c : Child) (x y : Int)
    (h : y < c.row ∨ c.row + (c.height : Int) ≤ y) : (childLayer col lf clip c).at x y = none := by
  unfold Layer.at childLayer Rect.has Rect.inter
  simp only []
  rw [if_neg]
  intro hc
  have := hc.1
  simp only [Bool.and_eq_true, decide_eq_true_eq] at this
  omega

/-- **On top in its rows**: in the surface tree of a `Dynamic.Draw` (children contiguous with a gap
    ≥ 0, hence not overlapping), at every position inside the screen, the viewport, and the rectangle
    of child `k`, the painter's algorithm shows child `k`'s own cell — no sibling and not the list's
    own buffer. -/
theorem child_on_top (W H sw sh : Nat) (pbuf : List Cell) (col : Int) (lf : Nat → Leaf) (gap : Int) (hg : 0 ≤ gap)
    (cs : List Child) (hc : Contig gap cs) (k : Nat) (ch : Child) (hk : cs[k]? = some ch)
    (hbuf : (lf ch.idx).buf.length = (lf ch.idx).w * ch.height)
    (x y : Int) (hx0 : 0 ≤ x) (hxs : x < sw) (hxW : x < W) (hxc : col ≤ x) (hxw : x < col + (lf ch.idx).w)
    (hy0 : 0 ≤ y) (hys : y < sh) (hyH : y < H) (hyr : ch.row ≤ y) (hyb : y < ch.row + (ch.height : Int)) :
    ∃ cell, (lf ch.idx).buf[(y - ch.row).toNat * (lf ch.idx).w + (x - col).toNat]? = some cell ∧
      topAt (layers true (dynTree W H pbuf col lf cs) 0 0 { x0 := 0, y0 := 0, x1 := sw, y1 := sh }) x y = some cell := by
  have hklt : k < cs.length := getElem?_lt hk
  -- the index into the child's buffer is valid
  have hdx : (x - col).toNat < (lf ch.idx).w := by omega
  have hdy : (y - ch.row).toNat < ch.height := by omega
  have hidx : (y - ch.row).toNat * (lf ch.idx).w + (x - col).toNat < (lf ch.idx).buf.length := by
    rw [hbuf]
    calc (y - ch.row).toNat * (lf ch.idx).w + (x - col).toNat
        < (y - ch.row).toNat * (lf ch.idx).w + (lf ch.idx).w := by omega
      _ = ((y - ch.row).toNat + 1) * (lf ch.idx).w := by rw [Nat.add_mul, Nat.one_mul]
      _ ≤ ch.height * (lf ch.idx).w := Nat.mul_le_mul_right _ (by omega)
      _ = (lf ch.idx).w * ch.height := Nat.mul_comm _ _
  refine ⟨(lf ch.idx).buf[(y - ch.row).toNat * (lf ch.idx).w + (x - col).toNat], List.getElem?_eq_getElem hidx, ?_⟩
  rw [layers_dynTree]
  obtain ⟨clip, hclip⟩ : ∃ c : Rect, c = ({ x0 := 0, y0 := 0, x1 := sw, y1 := sh } : Rect).inter { x0 := 0, y0 := 0, x1 := W, y1 := H } := ⟨_, rfl⟩
  rw [← hclip]
  -- split the child layers around child k
  have hsplit : cs = cs.take k ++ ch :: cs.drop (k + 1) := by
    have := List.take_append_drop k cs
    rw [List.drop_eq_getElem_cons hklt] at this
    have e : cs[k] = ch := by
      have := List.getElem?_eq_getElem hklt
      rw [hk] at this; exact (Option.some.inj this).symm
    rw [e] at this; exact this.symm
  have hmap : cs.map (childLayer col lf clip) =
      (cs.take k).map (childLayer col lf clip) ++ childLayer col lf clip ch :: (cs.drop (k + 1)).map (childLayer col lf clip) := by
    conv => lhs; rw [hsplit]
    simp
  rw [hmap, ← List.cons_append]
  apply topAt_split
  · -- child k shows its cell
    unfold Layer.at childLayer
    simp only []
    have hhas : (clip.inter { x0 := col, y0 := ch.row, x1 := col + (lf ch.idx).w, y1 := ch.row + ch.height }).has x y = true := by
      rw [hclip]
      unfold Rect.has Rect.inter
      simp only [Bool.and_eq_true, decide_eq_true_eq]
      omega
    have hw : (lf ch.idx).w ≠ 0 := by omega
    rw [if_pos ⟨hhas, hw⟩, if_pos hdx]
    exact List.getElem?_eq_getElem hidx
  · -- later children are below
    intro m hm
    simp only [List.mem_map] at hm
    obtain ⟨d, hd, rfl⟩ := hm
    obtain ⟨j, hj⟩ := List.getElem?_of_mem hd
    have hj' : cs[k + 1 + j]? = some d := by
      rw [List.getElem?_drop] at hj; exact hj
    have := (contig_pairwise hg cs hc k (k + 1 + j) ch d (by omega) hk hj').2
    exact childLayer_at_none col lf clip d x y (Or.inl (by omega))

end VaxisModel.Lemmas.DynCompose
