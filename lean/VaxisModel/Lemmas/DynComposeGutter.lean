import VaxisModel.Lemmas.DynCompose

/-! C19 × C14 with the cursor gutter (`DrawCursor`): `Dynamic.Draw` replaces the cursored child by a
    surface `cur` of the full width (origin column 0, the child's row, the child's height) whose own
    buffer holds the cursor glyph column and whose only child is the widget's surface at column
    `colOffset` — a two-level tree.  In the painter's algorithm the widget's cell is still on top in
    its rectangle: the glyph surface lies under its own child, the siblings are in other rows. -/
namespace VaxisModel.Lemmas.DynCompose
open VaxisModel.Model.Window VaxisModel.Spec.Surface VaxisModel.Model.DynList VaxisModel.Lemmas.DynList

/-- The cursor surface that replaces child `c`. -/
def gutterNode (W : Nat) (curbuf : List Cell) (col : Int) (lf : Nat → Leaf) (c : Child) : Tree :=
  .node 0 c.row 0 W c.height curbuf [childTree col lf { c with row := 0 }]

/-- The surface `Dynamic.Draw` returns with `DrawCursor`: the children `pre`, the cursor surface around
    child `ch`, the children `post`. -/
def dynTreeG (W H : Nat) (pbuf curbuf : List Cell) (col : Int) (lf : Nat → Leaf) (pre : List Child) (ch : Child)
    (post : List Child) : Tree :=
  .node 0 0 0 W H pbuf (pre.map (childTree col lf) ++ gutterNode W curbuf col lf ch :: post.map (childTree col lf))

def curLayer (W : Nat) (curbuf : List Cell) (clip : Rect) (c : Child) : Layer :=
  { ax := 0, ay := c.row, clip := clip.inter { x0 := 0, y0 := c.row, x1 := W, y1 := c.row + c.height }, w := W, buf := curbuf }

def kidLayer (W : Nat) (col : Int) (lf : Nat → Leaf) (clip : Rect) (c : Child) : Layer :=
  { ax := col, ay := c.row,
    clip := (clip.inter { x0 := 0, y0 := c.row, x1 := W, y1 := c.row + c.height }).inter
      { x0 := col, y0 := c.row, x1 := col + (lf c.idx).w, y1 := c.row + c.height },
    w := (lf c.idx).w, buf := (lf c.idx).buf }

theorem layersEach_append : ∀ (a b : List Tree) (px py : Int) (clip : Rect),
    layersEach (a ++ b) px py clip = layersEach a px py clip ++ layersEach b px py clip
  | [], b, px, py, clip => by simp [layersEach]
  | t :: a, b, px, py, clip => by
    simp only [List.cons_append, layersEach, layersEach_append a b px py clip]

theorem layers_gutterNode (W : Nat) (curbuf : List Cell) (col : Int) (lf : Nat → Leaf) (clip : Rect) (c : Child) :
    layers true (gutterNode W curbuf col lf c) 0 0 clip = [curLayer W curbuf clip c, kidLayer W col lf clip c] := by
  simp only [gutterNode, layers, layersEach, childTree, zOf, orderByKey, keyLevels, List.map_cons, List.map_nil,
    List.foldr_cons, List.foldr_nil, insertInt, List.flatMap_cons, List.flatMap_nil, curLayer, kidLayer, Int.zero_add,
    Int.add_zero, List.filter_cons, List.filter_nil, beq_self_eq_true, List.append_nil, ↓reduceIte]

theorem layers_dynTreeG (W H : Nat) (pbuf curbuf : List Cell) (col : Int) (lf : Nat → Leaf) (pre : List Child) (ch : Child)
    (post : List Child) (clip : Rect) :
    layers true (dynTreeG W H pbuf curbuf col lf pre ch post) 0 0 clip =
      ({ ax := 0, ay := 0, clip := clip.inter { x0 := 0, y0 := 0, x1 := W, y1 := H }, w := W, buf := pbuf } ::
        pre.map (childLayer col lf (clip.inter { x0 := 0, y0 := 0, x1 := W, y1 := H }))) ++
      curLayer W curbuf (clip.inter { x0 := 0, y0 := 0, x1 := W, y1 := H }) ch ::
      kidLayer W col lf (clip.inter { x0 := 0, y0 := 0, x1 := W, y1 := H }) ch ::
      post.map (childLayer col lf (clip.inter { x0 := 0, y0 := 0, x1 := W, y1 := H })) := by
  unfold dynTreeG
  simp only [layers, Int.zero_add, if_true]
  obtain ⟨c', hc'⟩ : ∃ c' : Rect, c' = clip.inter { x0 := 0, y0 := 0, x1 := W, y1 := H } := ⟨_, rfl⟩
  rw [← hc']
  rw [layersEach_append, layersEach_children]
  simp only [layersEach, layersEach_children, zOf, gutterNode]
  rw [orderByKey_zero]
  · have hg : layers true (Tree.node 0 ch.row 0 W ch.height curbuf [childTree col lf { ch with row := 0 }]) 0 0 c' =
        [curLayer W curbuf c' ch, kidLayer W col lf c' ch] := layers_gutterNode W curbuf col lf c' ch
    rw [hg]
    simp only [List.flatMap_append, List.flatMap_cons, List.cons_append, List.nil_append]
    have hf : ∀ (l : List Child), (l.map fun c => ((0 : Int), [childLayer col lf c' c])).flatMap (·.2) = l.map (childLayer col lf c') := by
      intro l
      induction l with
      | nil => rfl
      | cons c l ih => simp [List.flatMap_cons, ih]
    rw [hf pre, hf post]
  · intro p hp
    simp only [List.mem_append, List.mem_map, List.mem_cons] at hp
    rcases hp with ⟨c, _, rfl⟩ | rfl | ⟨c, _, rfl⟩ <;> rfl

/-- **On top in its rows, with the cursor gutter.** -/
theorem child_on_top_gutter (W H sw sh : Nat) (pbuf curbuf : List Cell) (col : Int) (lf : Nat → Leaf) (gap : Int) (hg : 0 ≤ gap)
    (pre : List Child) (ch : Child) (post : List Child) (hc : Contig gap (pre ++ ch :: post))
    (hbuf : (lf ch.idx).buf.length = (lf ch.idx).w * ch.height)
    (x y : Int) (hx0 : 0 ≤ x) (hxs : x < sw) (hxW : x < W) (hxc : col ≤ x) (hxw : x < col + (lf ch.idx).w)
    (hy0 : 0 ≤ y) (hys : y < sh) (hyH : y < H) (hyr : ch.row ≤ y) (hyb : y < ch.row + (ch.height : Int)) :
    ∃ cell, (lf ch.idx).buf[(y - ch.row).toNat * (lf ch.idx).w + (x - col).toNat]? = some cell ∧
      topAt (layers true (dynTreeG W H pbuf curbuf col lf pre ch post) 0 0 { x0 := 0, y0 := 0, x1 := sw, y1 := sh }) x y = some cell := by
  have hdx : (x - col).toNat < (lf ch.idx).w := by omega
  have hdy : (y - ch.row).toNat < ch.height := by omega
  have hidx : (y - ch.row).toNat * (lf ch.idx).w + (x - col).toNat < (lf ch.idx).buf.length := by
    rw [hbuf]
    calc (y - ch.row).toNat * (lf ch.idx).w + (x - col).toNat
        < (y - ch.row).toNat * (lf ch.idx).w + (lf ch.idx).w := by omega
      _ = ((y - ch.row).toNat + 1) * (lf ch.idx).w := by rw [Nat.add_mul, Nat.one_mul]
      _ ≤ ch.height * (lf ch.idx).w := Nat.mul_le_mul_right _ (by omega)
      _ = (lf ch.idx).w * ch.height := Nat.mul_comm _ _
  refine ⟨(lf ch.idx).buf[(y - ch.row).toNat * (lf ch.idx).w + (x - col).toNat], List.getElem?_eq_getElem hidx, ?_⟩
  rw [layers_dynTreeG]
  obtain ⟨clip, hclip⟩ : ∃ c : Rect, c = ({ x0 := 0, y0 := 0, x1 := sw, y1 := sh } : Rect).inter { x0 := 0, y0 := 0, x1 := W, y1 := H } := ⟨_, rfl⟩
  rw [← hclip]
  have hre : ∀ (A : List Layer) (a b : Layer) (B : List Layer), A ++ a :: b :: B = (A ++ [a]) ++ b :: B := by
    intro A a b B; simp
  rw [hre]
  apply topAt_split
  · unfold Layer.at kidLayer
    simp only []
    have hhas : ((clip.inter { x0 := 0, y0 := ch.row, x1 := W, y1 := ch.row + ch.height }).inter
        { x0 := col, y0 := ch.row, x1 := col + (lf ch.idx).w, y1 := ch.row + ch.height }).has x y = true := by
      rw [hclip]
      unfold Rect.has Rect.inter
      simp only [Bool.and_eq_true, decide_eq_true_eq]
      omega
    have hw : (lf ch.idx).w ≠ 0 := by omega
    rw [if_pos ⟨hhas, hw⟩, if_pos hdx]
    exact List.getElem?_eq_getElem hidx
  · intro m hm
    simp only [List.mem_map] at hm
    obtain ⟨d, hd, rfl⟩ := hm
    obtain ⟨j, hj⟩ := List.getElem?_of_mem hd
    have hk : (pre ++ ch :: post)[pre.length]? = some ch := by simp
    have hj' : (pre ++ ch :: post)[pre.length + 1 + j]? = some d := by
      rw [List.getElem?_append_right (by omega)]
      have : pre.length + 1 + j - pre.length = j + 1 := by omega
      rw [this, List.getElem?_cons_succ]; exact hj
    have := (contig_pairwise hg (pre ++ ch :: post) hc pre.length (pre.length + 1 + j) ch d (by omega) hk hj').2
    exact childLayer_at_none col lf clip d x y (Or.inl (by omega))

end VaxisModel.Lemmas.DynCompose
